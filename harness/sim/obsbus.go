package sim

import (
	"reflect"

	"github.com/libp2p/go-libp2p/core/event"
)

// ObsBus wraps an event bus: OnEmit is called synchronously, on the emitting goroutine,
// right before an event is handed to the wrapped bus.  Drivers use it to place a marker in
// the effect log at the exact position of an emission (C05: "reported as replicated").
type ObsBus struct {
	Inner  event.Bus
	OnEmit func(evt interface{})
}

func (b *ObsBus) Subscribe(eventType interface{}, opts ...event.SubscriptionOpt) (event.Subscription, error) {
	return b.Inner.Subscribe(eventType, opts...)
}

func (b *ObsBus) Emitter(eventType interface{}, opts ...event.EmitterOpt) (event.Emitter, error) {
	em, err := b.Inner.Emitter(eventType, opts...)
	if err != nil {
		return nil, err
	}
	return &obsEmitter{em, b}, nil
}

func (b *ObsBus) GetAllEventTypes() []reflect.Type { return b.Inner.GetAllEventTypes() }

type obsEmitter struct {
	event.Emitter
	b *ObsBus
}

func (e *obsEmitter) Emit(evt interface{}) error {
	if f := e.b.OnEmit; f != nil {
		f(evt)
	}
	return e.Emitter.Emit(evt)
}

package sim

import (
	"context"
	"sync"

	"berty.tech/go-orbit-db/address"
	"berty.tech/go-orbit-db/cache"
	datastore "github.com/ipfs/go-datastore"
	"github.com/ipfs/go-datastore/query"
	dsync "github.com/ipfs/go-datastore/sync"
)

// RecCache wraps a cache.Interface and records every Put/Delete as a persistence effect
// of replica Idx in the environment's effect log.
type RecCache struct {
	Inner cache.Interface
	Env   *Env
	Idx   int
}

func (c *RecCache) Load(directory string, dbAddress address.Address) (datastore.Datastore, error) {
	ds, err := c.Inner.Load(directory, dbAddress)
	if err != nil {
		return nil, err
	}
	return &recDS{Datastore: ds, c: c, db: dbAddress.String()}, nil
}
func (c *RecCache) Close() error { return c.Inner.Close() }
func (c *RecCache) Destroy(directory string, dbAddress address.Address) error {
	return c.Inner.Destroy(directory, dbAddress)
}

type recDS struct {
	datastore.Datastore
	c  *RecCache
	db string
}

func (d *recDS) Put(ctx context.Context, key datastore.Key, value []byte) error {
	err := d.Datastore.Put(ctx, key, value)
	if err == nil {
		d.c.Env.addEffect(Effect{Replica: d.c.Idx, Kind: "cache-put", Key: key.String(), Value: append([]byte(nil), value...), DB: d.db})
	}
	return err
}

func (d *recDS) Delete(ctx context.Context, key datastore.Key) error {
	err := d.Datastore.Delete(ctx, key)
	if err == nil {
		d.c.Env.addEffect(Effect{Replica: d.c.Idx, Kind: "cache-del", Key: key.String(), DB: d.db})
	}
	return err
}

// MemCache is a cache.Interface backed by in-memory datastores preloaded with given contents
// (used to materialise the durable state of a crash point).
type MemCache struct {
	mu   sync.Mutex
	Data map[string]map[string][]byte // db address -> key -> value
	dss  map[string]datastore.Datastore
}

func NewMemCache(data map[string]map[string][]byte) *MemCache {
	return &MemCache{Data: data, dss: map[string]datastore.Datastore{}}
}

func (m *MemCache) Load(directory string, dbAddress address.Address) (datastore.Datastore, error) {
	m.mu.Lock()
	defer m.mu.Unlock()
	k := dbAddress.String()
	if ds, ok := m.dss[k]; ok {
		return ds, nil
	}
	ds := dsync.MutexWrap(datastore.NewMapDatastore())
	for key, v := range m.Data[k] {
		_ = ds.Put(context.Background(), datastore.NewKey(key), v)
	}
	m.dss[k] = ds
	return ds, nil
}
func (m *MemCache) Close() error { return nil }
func (m *MemCache) Destroy(directory string, dbAddress address.Address) error {
	m.mu.Lock()
	defer m.mu.Unlock()
	delete(m.dss, dbAddress.String())
	delete(m.Data, dbAddress.String())
	return nil
}

var _ = query.Query{}

// AddMarker appends a pseudo effect (acknowledgement markers etc.) to the effect log.
func (e *Env) AddMarker(replica int, kind, key string) {
	e.addEffect(Effect{Replica: replica, Kind: kind, Key: key})
}

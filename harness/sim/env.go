// Package sim is the simulated environment in which the real go-orbit-db code runs:
// one physical kubo mock node as block store, one CoreAPI wrapper per replica
// (own peer id, block visibility, persistence-effect log), a scripted pubsub and
// direct channel.
package sim

import (
	"context"
	"crypto/ed25519"
	"crypto/rand"
	"crypto/sha256"
	"encoding/base64"
	"fmt"
	"os"
	"sync"

	ds "github.com/ipfs/go-datastore"
	dsync "github.com/ipfs/go-datastore/sync"
	cfg "github.com/ipfs/kubo/config"
	ipfsCore "github.com/ipfs/kubo/core"
	"github.com/ipfs/kubo/core/coreapi"
	coreiface "github.com/ipfs/kubo/core/coreiface"
	mock "github.com/ipfs/kubo/core/mock"
	"github.com/ipfs/kubo/repo"
	"github.com/libp2p/go-libp2p/core/crypto"
	"github.com/libp2p/go-libp2p/core/peer"
	mocknet "github.com/libp2p/go-libp2p/p2p/net/mock"
)

// Env owns the physical node and the scratch directory of one harness run.
type Env struct {
	Ctx    context.Context
	Cancel context.CancelFunc
	Node   *ipfsCore.IpfsNode
	API    coreiface.CoreAPI
	mn     mocknet.Mocknet
	Work   string
	Net    *Net

	mu      sync.Mutex
	held    map[string]map[int]bool // cid -> replica indices holding the block
	Effects []Effect
}

// Effect is one persistence effect (block write or cache write) issued by a replica.
type Effect struct {
	Replica int
	Kind    string // "block" | "cache-put" | "cache-del"
	Key     string
	Value   []byte
	DB      string // database address for cache effects
}

func NewEnv(work string) (*Env, error) {
	ctx, cancel := context.WithCancel(context.Background())
	priv, pub, err := crypto.GenerateKeyPairWithReader(crypto.Ed25519, 0, rand.Reader)
	if err != nil {
		cancel()
		return nil, err
	}
	pid, _ := peer.IDFromPublicKey(pub)
	privb, _ := crypto.MarshalPrivateKey(priv)
	c := cfg.Config{}
	c.Pubsub.Enabled = cfg.True
	c.Bootstrap = []string{}
	c.Addresses.Swarm = []string{"/ip4/127.0.0.1/tcp/4001"}
	c.Identity.PeerID = pid.String()
	c.Identity.PrivKey = base64.StdEncoding.EncodeToString(privb)
	c.Swarm.ResourceMgr.Enabled = cfg.False
	r := &repo.Mock{D: dsync.MutexWrap(ds.NewMapDatastore()), C: c}
	mn := mocknet.New()
	node, err := ipfsCore.NewNode(ctx, &ipfsCore.BuildCfg{Online: true, Repo: r, Host: mock.MockHostOption(mn), ExtraOpts: map[string]bool{"pubsub": true}})
	if err != nil {
		cancel()
		return nil, err
	}
	api, err := coreapi.NewCoreAPI(node)
	if err != nil {
		cancel()
		return nil, err
	}
	if work == "" {
		work, err = os.MkdirTemp("", "verif-sim-")
		if err != nil {
			cancel()
			return nil, err
		}
	} else if err := os.MkdirAll(work, 0o755); err != nil {
		cancel()
		return nil, err
	}
	e := &Env{Ctx: ctx, Cancel: cancel, Node: node, API: api, mn: mn, Work: work, held: map[string]map[int]bool{}}
	e.Net = newNet(e)
	return e, nil
}

func (e *Env) Close() {
	e.Cancel()
	_ = e.Node.Close()
	_ = e.mn.Close()
	_ = os.RemoveAll(e.Work)
}

// PeerIDFor returns the deterministic peer id of replica index i (label distinguishes runs).
func PeerIDFor(label string, i int) peer.ID {
	seed := sha256.Sum256([]byte(fmt.Sprintf("verif-replica-%s-%d", label, i)))
	priv := ed25519.NewKeyFromSeed(seed[:])
	pk, err := crypto.UnmarshalEd25519PublicKey(priv.Public().(ed25519.PublicKey))
	if err != nil {
		panic(err)
	}
	id, err := peer.IDFromPublicKey(pk)
	if err != nil {
		panic(err)
	}
	return id
}

func (e *Env) markHeld(c string, r int) {
	e.mu.Lock()
	defer e.mu.Unlock()
	m := e.held[c]
	if m == nil {
		m = map[int]bool{}
		e.held[c] = m
	}
	m[r] = true
}

// Holds reports whether replica r holds block c.
func (e *Env) Holds(c string, r int) bool {
	e.mu.Lock()
	defer e.mu.Unlock()
	return e.held[c][r]
}

func (e *Env) holders(c string) []int {
	e.mu.Lock()
	defer e.mu.Unlock()
	var out []int
	for r := range e.held[c] {
		out = append(out, r)
	}
	return out
}

func (e *Env) addEffect(ef Effect) {
	e.mu.Lock()
	e.Effects = append(e.Effects, ef)
	e.mu.Unlock()
}

// EffectsSnapshot returns a copy of the ordered effect log.
func (e *Env) EffectsSnapshot() []Effect {
	e.mu.Lock()
	defer e.mu.Unlock()
	return append([]Effect(nil), e.Effects...)
}

// SetHeld replaces the set of blocks held by replica r (used to materialise a crash prefix).
func (e *Env) SetHeld(r int, cids []string) {
	e.mu.Lock()
	defer e.mu.Unlock()
	for _, m := range e.held {
		delete(m, r)
	}
	for _, c := range cids {
		m := e.held[c]
		if m == nil {
			m = map[int]bool{}
			e.held[c] = m
		}
		m[r] = true
	}
}

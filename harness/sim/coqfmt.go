package sim

import (
	"encoding/hex"
	"encoding/json"
	"fmt"
	"sort"
	"strings"

	ipfslog "berty.tech/go-ipfs-log"
)

// Interner maps opaque strings (CIDs, identity ids, keys, values) to small numbers in
// order of first sight, so that observables can be compared by the Coq model.
type Interner struct {
	m    map[string]int
	keys []string
	// EmptyIsZero maps the empty string to 0 (used for values: empty = absent for Get).
	EmptyIsZero bool
}

func NewInterner() *Interner { return &Interner{m: map[string]int{}} }

func (in *Interner) ID(s string) int {
	if in.EmptyIsZero && s == "" {
		return 0
	}
	if v, ok := in.m[s]; ok {
		return v
	}
	v := len(in.keys) + 1
	in.m[s] = v
	in.keys = append(in.keys, s)
	return v
}

func (in *Interner) Has(s string) bool { _, ok := in.m[s]; return ok }
func (in *Interner) Len() int          { return len(in.keys) }

// Ranker assigns ranks by byte order (used for Lamport clock ids = public keys).
type Ranker struct{ keys []string }

func (r *Ranker) Add(k []byte) {
	s := string(k)
	for _, x := range r.keys {
		if x == s {
			return
		}
	}
	r.keys = append(r.keys, s)
	sort.Strings(r.keys)
}

func (r *Ranker) Rank(k []byte) int {
	s := string(k)
	for i, x := range r.keys {
		if x == s {
			return i + 1
		}
	}
	// unknown key: rank after all known ones, stable by hex
	return 1000 + int(hexSum(s))%1000
}

func hexSum(s string) uint32 {
	var h uint32 = 2166136261
	for _, c := range []byte(hex.EncodeToString([]byte(s))) {
		h = (h ^ uint32(c)) * 16777619
	}
	return h
}

func CoqN(n int) string { return fmt.Sprintf("%d%%N", n) }
func CoqZ(n int) string {
	if n < 0 {
		return fmt.Sprintf("(%d)%%Z", n)
	}
	return fmt.Sprintf("%d%%Z", n)
}
func CoqNat(n int) string { return fmt.Sprintf("%d%%nat", n) }
func CoqBool(b bool) string {
	if b {
		return "true"
	}
	return "false"
}
func CoqList(xs []string) string { return "[" + strings.Join(xs, "; ") + "]" }

func CoqListN(xs []int) string {
	out := make([]string, len(xs))
	for i, x := range xs {
		out[i] = CoqN(x)
	}
	return CoqList(out)
}

func CoqBytes(b []byte) string {
	out := make([]string, len(b))
	for i, x := range b {
		out[i] = CoqN(int(x))
	}
	return CoqList(out)
}

func CoqOptZ(p *int) string {
	if p == nil {
		return "None"
	}
	return "(Some " + CoqZ(*p) + ")"
}

// Canon holds the interners of one scenario.
type Canon struct {
	Hash  *Interner
	Ident *Interner
	Key   *Interner
	Val   *Interner
	LogID *Interner
	Cid   *Ranker
}

func NewCanon() *Canon {
	c := &Canon{Hash: NewInterner(), Ident: NewInterner(), Key: NewInterner(), Val: NewInterner(), LogID: NewInterner(), Cid: &Ranker{}}
	c.Val.EmptyIsZero = true
	return c
}

type rawOp struct {
	Key   *string `json:"key,omitempty"`
	Op    string  `json:"op,omitempty"`
	Value []byte  `json:"value,omitempty"`
	Docs  []struct {
		Key   string `json:"key,omitempty"`
		Value []byte `json:"value,omitempty"`
	} `json:"docs,omitempty"`
}

// CoqOp renders an entry payload as a Model.Entry.op term.
func (c *Canon) CoqOp(payload []byte) string {
	var o rawOp
	if err := json.Unmarshal(payload, &o); err != nil {
		return "OOther"
	}
	key := "None"
	if o.Key != nil {
		key = "(Some " + CoqBytes([]byte(*o.Key)) + ")"
	}
	switch o.Op {
	case "PUT":
		return fmt.Sprintf("(OPut %s %s)", key, CoqN(c.Val.ID(string(o.Value))))
	case "DEL":
		return fmt.Sprintf("(ODel %s)", key)
	case "ADD":
		return fmt.Sprintf("(OAdd %s)", CoqN(c.Val.ID(string(o.Value))))
	case "PUTALL":
		ds := make([]string, len(o.Docs))
		for i, d := range o.Docs {
			ds[i] = fmt.Sprintf("(%s, %s)", CoqBytes([]byte(d.Key)), CoqN(c.Val.ID(string(d.Value))))
		}
		return "(OPutAll " + CoqList(ds) + ")"
	}
	return "OOther"
}

// CoqEntry renders an entry as a Model.Entry.entry term. signer is the key that
// actually produced the signature ("" = the entry's own key, i.e. honest).
func (c *Canon) CoqEntry(e ipfslog.Entry, signer string) string {
	next := make([]int, 0)
	for _, n := range e.GetNext() {
		next = append(next, c.Hash.ID(n.String()))
	}
	refs := make([]int, 0)
	for _, n := range e.GetRefs() {
		refs = append(refs, c.Hash.ID(n.String()))
	}
	ident := 0
	if id := e.GetIdentity(); id != nil {
		ident = c.Ident.ID(id.ID)
	}
	key := c.Key.ID(string(e.GetKey()))
	sig := key
	if signer != "" {
		sig = c.Key.ID(signer)
	}
	t, cidr := 0, 0
	if cl := e.GetClock(); cl != nil {
		t = cl.GetTime()
		cidr = c.Cid.Rank(cl.GetID())
	}
	return fmt.Sprintf("(mkEntry %s %s %s %s %s %s %s %s %s %s)",
		CoqN(c.Hash.ID(e.GetHash().String())), CoqN(c.LogID.ID(e.GetLogID())), CoqZ(t), CoqN(cidr),
		CoqListN(next), CoqListN(refs), CoqN(ident), CoqN(key), CoqN(sig), c.CoqOp(e.GetPayload()))
}

func (c *Canon) CoqEntries(es []ipfslog.Entry) string {
	out := make([]string, len(es))
	for i, e := range es {
		out[i] = c.CoqEntry(e, "")
	}
	return CoqList(out)
}

func (c *Canon) HashIDs(es []ipfslog.Entry) []int {
	out := make([]int, len(es))
	for i, e := range es {
		out[i] = c.Hash.ID(e.GetHash().String())
	}
	return out
}

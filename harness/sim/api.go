package sim

import (
	"context"
	"fmt"
	"sync"

	"github.com/ipfs/boxo/files"
	"github.com/ipfs/boxo/path"
	cid "github.com/ipfs/go-cid"
	ipld "github.com/ipfs/go-ipld-format"
	coreiface "github.com/ipfs/kubo/core/coreiface"
	"github.com/ipfs/kubo/core/coreiface/options"
	"github.com/libp2p/go-libp2p/core/peer"
)

// ReplicaAPI is the CoreAPI seen by one replica: the shared physical node with its
// own peer id, block visibility restricted to blocks held by the replica or by a
// currently connected replica, and a log of block writes.
type ReplicaAPI struct {
	coreiface.CoreAPI
	env *Env
	idx int
	pid peer.ID

	mu        sync.Mutex
	failGet   map[string]bool // cids whose Get fails (scripted fetch failure)
	gate      func(ctx context.Context, c cid.Cid) error
	fileGate  func(ctx context.Context) error
	GetLog    []string
	recording bool
}

func (e *Env) NewAPI(idx int, pid peer.ID) *ReplicaAPI {
	return &ReplicaAPI{CoreAPI: e.API, env: e, idx: idx, pid: pid, failGet: map[string]bool{}}
}

func (a *ReplicaAPI) Index() int { return a.idx }

// FailGet makes fetching of c fail (or succeed again) on this replica.
func (a *ReplicaAPI) FailGet(c string, fail bool) {
	a.mu.Lock()
	defer a.mu.Unlock()
	if fail {
		a.failGet[c] = true
	} else {
		delete(a.failGet, c)
	}
}

// SetGate installs a function called before every block fetch (may block or fail).
func (a *ReplicaAPI) SetGate(g func(ctx context.Context, c cid.Cid) error) {
	a.mu.Lock()
	a.gate = g
	a.mu.Unlock()
}

// SetFileGate installs a function called before every Unixfs().Get (may block or fail):
// stand-in for a file (a snapshot) whose blocks nobody provides.
func (a *ReplicaAPI) SetFileGate(g func(ctx context.Context) error) {
	a.mu.Lock()
	a.fileGate = g
	a.mu.Unlock()
}

type simKey struct{ id peer.ID }

func (k simKey) Name() string    { return "self" }
func (k simKey) Path() path.Path { p, _ := path.NewPath("/ipns/" + k.id.String()); return p }
func (k simKey) ID() peer.ID     { return k.id }

type simKeyAPI struct {
	coreiface.KeyAPI
	id peer.ID
}

func (k simKeyAPI) Self(ctx context.Context) (coreiface.Key, error) { return simKey{k.id}, nil }

func (a *ReplicaAPI) Key() coreiface.KeyAPI { return simKeyAPI{a.CoreAPI.Key(), a.pid} }

func (a *ReplicaAPI) WithOptions(...options.ApiOption) (coreiface.CoreAPI, error) { return a, nil }

type simDag struct {
	coreiface.APIDagService
	a *ReplicaAPI
}

func (a *ReplicaAPI) Dag() coreiface.APIDagService { return simDag{a.CoreAPI.Dag(), a} }

func (d simDag) Add(ctx context.Context, n ipld.Node) error {
	if err := d.APIDagService.Add(ctx, n); err != nil {
		return err
	}
	c := n.Cid().String()
	if !d.a.env.Holds(c, d.a.idx) {
		d.a.env.markHeld(c, d.a.idx)
		d.a.env.addEffect(Effect{Replica: d.a.idx, Kind: "block", Key: c})
	}
	return nil
}

func (d simDag) AddMany(ctx context.Context, ns []ipld.Node) error {
	for _, n := range ns {
		if err := d.Add(ctx, n); err != nil {
			return err
		}
	}
	return nil
}

// visible reports whether replica a can obtain block c now.
func (a *ReplicaAPI) visible(c string) bool {
	if a.env.Holds(c, a.idx) {
		return true
	}
	if !a.env.Net.HashReachable(a.idx, c) {
		return false
	}
	for _, h := range a.env.holders(c) {
		if a.env.Net.BlocksReachable(a.idx, h) {
			return true
		}
	}
	return false
}

// Visible reports whether the replica can obtain block c right now (own block store or a
// connected holder).
func (a *ReplicaAPI) Visible(c string) bool { return a.visible(c) }

func (d simDag) Get(ctx context.Context, c cid.Cid) (ipld.Node, error) {
	a := d.a
	a.mu.Lock()
	gate := a.gate
	fail := a.failGet[c.String()]
	a.GetLog = append(a.GetLog, c.String())
	a.mu.Unlock()
	if gate != nil {
		if err := gate(ctx, c); err != nil {
			return nil, err
		}
	}
	if err := ctx.Err(); err != nil {
		return nil, err
	}
	if fail {
		return nil, fmt.Errorf("sim: scripted fetch failure for %s", c)
	}
	if !a.visible(c.String()) {
		return nil, fmt.Errorf("sim: block %s not reachable from replica %d", c, a.idx)
	}
	n, err := d.APIDagService.Get(ctx, c)
	if err == nil && !a.env.Holds(c.String(), a.idx) {
		a.env.markHeld(c.String(), a.idx)
		a.env.addEffect(Effect{Replica: a.idx, Kind: "block", Key: c.String()})
	}
	return n, err
}

type simUnixfs struct {
	coreiface.UnixfsAPI
	a *ReplicaAPI
}

func (a *ReplicaAPI) Unixfs() coreiface.UnixfsAPI { return simUnixfs{a.CoreAPI.Unixfs(), a} }

func (u simUnixfs) Get(ctx context.Context, p path.Path) (files.Node, error) {
	u.a.mu.Lock()
	g := u.a.fileGate
	u.a.mu.Unlock()
	if g != nil {
		if err := g(ctx); err != nil {
			return nil, err
		}
	}
	return u.UnixfsAPI.Get(ctx, p)
}

func (u simUnixfs) Add(ctx context.Context, n files.Node, o ...options.UnixfsAddOption) (path.ImmutablePath, error) {
	p, err := u.UnixfsAPI.Add(ctx, n, o...)
	if err == nil {
		c := p.RootCid().String()
		u.a.env.markHeld(c, u.a.idx)
		u.a.env.addEffect(Effect{Replica: u.a.idx, Kind: "block", Key: c})
	}
	return p, err
}

package sim

import (
	"context"
	"fmt"
	"path/filepath"
	"sync"
	"time"

	orbitdb "berty.tech/go-orbit-db"
	"berty.tech/go-orbit-db/iface"
	"berty.tech/go-orbit-db/stores/replicator"
	"github.com/libp2p/go-libp2p/core/peer"
)

// Replica is one OrbitDB instance of the simulation.
type Replica struct {
	Env   *Env
	Idx   int
	Label string
	PID   peer.ID
	API   *ReplicaAPI
	Dir   string
	Orbit orbitdb.OrbitDB
}

// NewReplica creates OrbitDB instance number idx with directory <work>/<label>-<idx>.
func (e *Env) NewReplica(idx int, label string) (*Replica, error) {
	dir := filepath.Join(e.Work, fmt.Sprintf("%s-%d", label, idx))
	return e.NewReplicaAt(idx, label, dir)
}

func (e *Env) NewReplicaAt(idx int, label string, dir string) (*Replica, error) {
	pid := PeerIDFor(label, idx)
	api := e.NewAPI(idx, pid)
	e.Net.register(idx, pid)
	odb, err := orbitdb.NewOrbitDB(e.Ctx, api, &orbitdb.NewOrbitDBOptions{
		Directory:            &dir,
		PubSub:               e.Net.PubSub(idx),
		DirectChannelFactory: e.Net.DirectChannelFactory(idx),
		PeerID:               pid,
	})
	if err != nil {
		return nil, err
	}
	return &Replica{Env: e, Idx: idx, Label: label, PID: pid, API: api, Dir: dir, Orbit: odb}, nil
}

// Hooks is the registry behind verifhook.Point in builds with tag verif.
type Hooks struct {
	mu     sync.Mutex
	counts map[string]int
	// gates: a goroutine reaching point `name` with first key matching (or "" for any)
	// blocks until released.
	gates  []*Gate
	Traces []string
	Trace  bool
	// Extra, when set, is called for every point before gates are considered.
	Extra func(name string, keys []string)
	// DirectLoads counts replicator.Load calls made by the harness itself (not via Sync).
	DirectLoads int
}

type Gate struct {
	Name    string
	Key     string // "" matches any
	Max     int    // number of arrivals to park (0 = unlimited)
	parked  int
	arrived chan struct{}
	release chan struct{}
	once    sync.Once
}

var TheHooks = &Hooks{counts: map[string]int{}}

func init() {
	replicator.VerifSetHandler(TheHooks.handle)
}

func (h *Hooks) handle(name string, keys []string) {
	if f := h.Extra; f != nil {
		f(name, keys)
	}
	h.mu.Lock()
	ck := name
	if len(keys) > 0 {
		ck = name + "|" + keys[0]
	}
	h.counts[name]++
	if ck != name {
		h.counts[ck]++
	}
	if h.Trace {
		h.Traces = append(h.Traces, ck)
	}
	var g *Gate
	for _, c := range h.gates {
		if c.Name != name {
			continue
		}
		if c.Key != "" && !keyMatch(keys, c.Key) {
			continue
		}
		if c.Max > 0 && c.parked >= c.Max {
			continue
		}
		select {
		case <-c.release:
			continue
		default:
		}
		c.parked++
		g = c
		break
	}
	h.mu.Unlock()
	if g != nil {
		select {
		case g.arrived <- struct{}{}:
		default:
		}
		<-g.release
	}
}

func keyMatch(keys []string, k string) bool {
	for _, x := range keys {
		if x == k {
			return true
		}
	}
	return false
}

// Count returns how often point name (optionally "|key") was reached.
func (h *Hooks) Count(name string) int {
	h.mu.Lock()
	defer h.mu.Unlock()
	return h.counts[name]
}

// Park installs a gate: up to max goroutines reaching the point are parked until Release.
func (h *Hooks) Park(name, key string, max int) *Gate {
	g := &Gate{Name: name, Key: key, Max: max, arrived: make(chan struct{}, 1024), release: make(chan struct{})}
	h.mu.Lock()
	h.gates = append(h.gates, g)
	h.mu.Unlock()
	return g
}

// WaitArrived waits until a goroutine is parked at the gate.
func (g *Gate) WaitArrived(d time.Duration) bool {
	select {
	case <-g.arrived:
		return true
	case <-time.After(d):
		return false
	}
}

// Release lets all goroutines parked at the gate continue and disables it.
func (g *Gate) Release() { g.once.Do(func() { close(g.release) }) }

// Reset removes all gates (releasing them) and clears counters.
func (h *Hooks) Reset() {
	h.mu.Lock()
	gs := h.gates
	h.gates = nil
	h.counts = map[string]int{}
	h.DirectLoads = 0
	h.Traces = nil
	h.mu.Unlock()
	for _, g := range gs {
		g.Release()
	}
}

// ReplState returns the replicator bookkeeping of a store.
func ReplState(s iface.Store) replicator.VerifState {
	return s.Replicator().(replicator.VerifStater).VerifState()
}

type joinIdler interface{ VerifJoinIdle() bool }

// Quiescent: replicator has nothing added/fetching, its buffer is empty, no worker
// holds a slot, every emitted load-end has been merged by the store's main loop.
func Quiescent(s iface.Store) bool {
	st := ReplState(s)
	if st.Added != 0 || st.Fetching != 0 || st.Buffer != 0 || st.InProgress != 0 || st.Queue != 0 {
		return false
	}
	if ji, ok := s.(joinIdler); ok && !ji.VerifJoinIdle() {
		return false
	}
	return true
}

// Settle waits until the system is at rest: every store's replicator is idle with an
// empty buffer, every spawned background load has queued its items, every emitted
// load-end has been merged by all `busStores` stores sharing the bus, and the
// fingerprint (hook counters, network log, log lengths) has not moved for `calm`
// consecutive polls.  Returns false when the watchdog expires first.
func Settle(ctx context.Context, env *Env, watchdog time.Duration, busStores int, stores ...iface.Store) bool {
	const calm = 8
	deadline := time.Now().Add(watchdog)
	stable := 0
	last := ""
	for time.Now().Before(deadline) {
		ok := true
		for _, s := range stores {
			if !Quiescent(s) {
				ok = false
				break
			}
		}
		h := TheHooks
		h.mu.Lock()
		emitted, done := h.counts["replicator.load_end"], h.counts["store.load_end_done"]
		spawn, queued, ret := h.counts["store.sync_spawn"], h.counts["replicator.load_queued"], h.counts["replicator.load_return"]
		direct := h.DirectLoads
		total := 0
		for _, v := range h.counts {
			total += v
		}
		h.mu.Unlock()
		fp := fmt.Sprintf("%d/%d/%d/%d/%d/%d", emitted, done, spawn, queued, total, env.Net.seqNow())
		for _, s := range stores {
			fp += fmt.Sprintf("/%d", s.OpLog().Len())
		}
		if ok && emitted*busStores == done && spawn+direct == queued && queued == ret {
			if fp == last {
				stable++
			} else {
				stable = 0
			}
			last = fp
			if stable >= calm {
				return true
			}
		} else {
			stable = 0
			last = ""
		}
		LastSettleState = fmt.Sprintf("quiescent=%v emitted=%d done=%d spawn=%d direct=%d queued=%d ret=%d", ok, emitted, done, spawn, direct, queued, ret)
		for _, s := range stores {
			LastSettleState += fmt.Sprintf(" %+v", ReplState(s))
		}
		select {
		case <-ctx.Done():
			return false
		case <-time.After(4 * time.Millisecond):
		}
	}
	return false
}

// LastSettleState describes the state seen by the last poll of Settle (diagnostics).
var LastSettleState string

// NewReplicaOpts is NewReplicaAt with a hook to adjust the OrbitDB options (cache,
// keystore, identity injection) and an explicit peer id.
func (e *Env) NewReplicaOpts(idx int, label, dir string, pid peer.ID, mutate func(o *orbitdb.NewOrbitDBOptions)) (*Replica, error) {
	return e.NewReplicaCtx(e.Ctx, idx, label, dir, pid, mutate)
}

// NewReplicaCtx is NewReplicaOpts with the context handed to NewOrbitDB chosen by the caller
// (an application may end the context it constructed the instance with before it closes it).
func (e *Env) NewReplicaCtx(ctx context.Context, idx int, label, dir string, pid peer.ID, mutate func(o *orbitdb.NewOrbitDBOptions)) (*Replica, error) {
	api := e.NewAPI(idx, pid)
	e.Net.register(idx, pid)
	opts := &orbitdb.NewOrbitDBOptions{
		Directory:            &dir,
		PubSub:               e.Net.PubSub(idx),
		DirectChannelFactory: e.Net.DirectChannelFactory(idx),
		PeerID:               pid,
	}
	if mutate != nil {
		mutate(opts)
	}
	odb, err := orbitdb.NewOrbitDB(ctx, api, opts)
	if err != nil {
		return nil, err
	}
	return &Replica{Env: e, Idx: idx, Label: label, PID: pid, API: api, Dir: dir, Orbit: odb}, nil
}

package sim

import (
	"context"
	"fmt"
	"sync"

	"berty.tech/go-orbit-db/events"
	"berty.tech/go-orbit-db/iface"
	"github.com/libp2p/go-libp2p/core/peer"
)

// Msg is one payload in flight (topic publication or direct-channel send).
type Msg struct {
	Seq     int
	Kind    string // "topic" | "direct"
	Topic   string // topic name for Kind=="topic"
	From    int
	To      int
	Payload []byte
}

// Net is the scripted network: membership of topics, links between replicas, and
// queues of undelivered payloads that the script delivers, drops or duplicates.
type Net struct {
	env *Env
	mu  sync.Mutex

	peers    map[int]peer.ID
	byPeer   map[peer.ID]int
	cut      map[[2]int]bool         // unordered pair -> link is cut
	blockCut map[[2]int]bool         // unordered pair -> messages pass but blocks cannot be fetched (half-open partition)
	hashCut  map[int]map[string]bool // replica -> blocks it cannot obtain from anybody until one of its links is healed
	subs     map[string]map[int]*simTopic
	direct   map[int]iface.DirectChannelEmitter
	// joinSeen[topic][a][b]: a has been told b joined topic (reset on cut)
	joinSeen map[string]map[int]map[int]bool

	Auto        bool  // deliver immediately to connected peers
	AlwaysPeers bool  // Peers() never empty, so that every write is published and recorded
	peersGate    map[string]chan struct{}
	peersWaiting map[string]int
	Pending     []Msg // undelivered, in send order (manual mode)
	Log         []Msg // everything ever published/sent (after link filtering: only if link up)
	seq         int
}

func newNet(e *Env) *Net {
	return &Net{env: e, peers: map[int]peer.ID{}, byPeer: map[peer.ID]int{}, cut: map[[2]int]bool{}, blockCut: map[[2]int]bool{}, hashCut: map[int]map[string]bool{},
		subs: map[string]map[int]*simTopic{}, direct: map[int]iface.DirectChannelEmitter{},
		joinSeen: map[string]map[int]map[int]bool{}, Auto: true}
}

func pair(a, b int) [2]int {
	if a > b {
		a, b = b, a
	}
	return [2]int{a, b}
}

func (n *Net) register(idx int, p peer.ID) {
	n.mu.Lock()
	n.peers[idx] = p
	n.byPeer[p] = idx
	n.mu.Unlock()
}

// Connected reports whether the link a-b is up.
func (n *Net) Connected(a, b int) bool {
	if a == b {
		return true
	}
	n.mu.Lock()
	defer n.mu.Unlock()
	return !n.cut[pair(a, b)]
}

// Cut takes the link a-b down: undelivered traffic between them is lost.
func (n *Net) Cut(a, b int) {
	n.mu.Lock()
	defer n.mu.Unlock()
	n.cut[pair(a, b)] = true
	var keep []Msg
	for _, m := range n.Pending {
		if pair(m.From, m.To) != pair(a, b) {
			keep = append(keep, m)
		}
	}
	n.Pending = keep
	for _, per := range n.joinSeen {
		if per[a] != nil {
			delete(per[a], b)
		}
		if per[b] != nil {
			delete(per[b], a)
		}
	}
}

// Heal brings the link a-b up; as with real pubsub each side then observes the
// other joining every topic both subscribe to.
func (n *Net) Heal(a, b int) {
	n.mu.Lock()
	delete(n.cut, pair(a, b))
	delete(n.blockCut, pair(a, b))
	delete(n.hashCut, a)
	delete(n.hashCut, b)
	n.mu.Unlock()
	n.announceJoins()
}

// announceJoins tells every subscriber about connected co-subscribers it has not yet seen.
func (n *Net) announceJoins() {
	type ev struct {
		t    *simTopic
		peer peer.ID
	}
	var evs []ev
	n.mu.Lock()
	for topic, members := range n.subs {
		for a, ta := range members {
			for b := range members {
				if a == b || n.cut[pair(a, b)] {
					continue
				}
				per := n.joinSeen[topic]
				if per == nil {
					per = map[int]map[int]bool{}
					n.joinSeen[topic] = per
				}
				if per[a] == nil {
					per[a] = map[int]bool{}
				}
				if per[a][b] {
					continue
				}
				per[a][b] = true
				evs = append(evs, ev{ta, n.peers[b]})
			}
		}
	}
	n.mu.Unlock()
	for _, e := range evs {
		e.t.pushPeer(&iface.EventPubSubJoin{Topic: e.t.name, Peer: e.peer})
	}
}

func (n *Net) enqueue(m Msg) {
	n.mu.Lock()
	n.seq++
	m.Seq = n.seq
	n.Log = append(n.Log, m)
	auto := n.Auto
	if !auto {
		n.Pending = append(n.Pending, m)
	}
	n.mu.Unlock()
	if auto {
		n.deliver(m)
	}
}

func (n *Net) deliver(m Msg) {
	n.mu.Lock()
	if n.cut[pair(m.From, m.To)] {
		n.mu.Unlock()
		return
	}
	var t *simTopic
	var em iface.DirectChannelEmitter
	from := n.peers[m.From]
	if m.Kind == "topic" {
		if mem := n.subs[m.Topic]; mem != nil {
			t = mem[m.To]
		}
	} else {
		em = n.direct[m.To]
	}
	n.mu.Unlock()
	if t != nil {
		t.pushMsg(&iface.EventPubSubMessage{Content: m.Payload})
	}
	if em != nil {
		_ = em.Emit(&iface.EventPubSubPayload{Payload: m.Payload, Peer: from})
	}
}

// DeliverPending delivers (and removes) the i-th pending message; dup keeps it queued.
func (n *Net) DeliverPending(i int, dup bool) bool {
	n.mu.Lock()
	if i < 0 || i >= len(n.Pending) {
		n.mu.Unlock()
		return false
	}
	m := n.Pending[i]
	if !dup {
		n.Pending = append(append([]Msg(nil), n.Pending[:i]...), n.Pending[i+1:]...)
	}
	n.mu.Unlock()
	n.deliver(m)
	return true
}

// DropPending removes the i-th pending message without delivering it.
func (n *Net) DropPending(i int) bool {
	n.mu.Lock()
	defer n.mu.Unlock()
	if i < 0 || i >= len(n.Pending) {
		return false
	}
	n.Pending = append(append([]Msg(nil), n.Pending[:i]...), n.Pending[i+1:]...)
	return true
}

func (n *Net) PendingLen() int {
	n.mu.Lock()
	defer n.mu.Unlock()
	return len(n.Pending)
}

// InjectTopic delivers raw bytes to replica `to` on a topic as if published by a peer.
func (n *Net) InjectTopic(topic string, to int, payload []byte) {
	n.mu.Lock()
	var t *simTopic
	if mem := n.subs[topic]; mem != nil {
		t = mem[to]
	}
	n.mu.Unlock()
	if t != nil {
		t.pushMsg(&iface.EventPubSubMessage{Content: payload})
	}
}

// InjectDirect delivers raw bytes to replica `to` on its direct channel as if sent by `from`.
func (n *Net) InjectDirect(from peer.ID, to int, payload []byte) {
	n.mu.Lock()
	em := n.direct[to]
	n.mu.Unlock()
	if em != nil {
		_ = em.Emit(&iface.EventPubSubPayload{Payload: payload, Peer: from})
	}
}

// LogSnapshot returns a copy of everything sent so far.
func (n *Net) LogSnapshot() []Msg {
	n.mu.Lock()
	defer n.mu.Unlock()
	return append([]Msg(nil), n.Log...)
}

// ---- iface.PubSubInterface per replica ----

type simPubSub struct {
	n   *Net
	idx int
}

func (n *Net) PubSub(idx int) iface.PubSubInterface { return &simPubSub{n, idx} }

type simTopic struct {
	n    *Net
	idx  int
	name string

	mu     sync.Mutex
	peerCh []chan events.Event
	msgCh  []chan *iface.EventPubSubMessage
	closed bool
}

func (p *simPubSub) TopicSubscribe(ctx context.Context, topic string) (iface.PubSubTopic, error) {
	n := p.n
	n.mu.Lock()
	mem := n.subs[topic]
	if mem == nil {
		mem = map[int]*simTopic{}
		n.subs[topic] = mem
	}
	t := mem[p.idx]
	if t == nil || t.closed {
		t = &simTopic{n: n, idx: p.idx, name: topic}
		mem[p.idx] = t
		for _, per := range []map[int]map[int]bool{n.joinSeen[topic]} {
			if per != nil {
				delete(per, p.idx)
				for _, m := range per {
					delete(m, p.idx)
				}
			}
		}
	}
	n.mu.Unlock()
	go func() {
		<-ctx.Done()
		t.close()
	}()
	return t, nil
}

func (t *simTopic) close() {
	t.n.mu.Lock()
	if mem := t.n.subs[t.name]; mem != nil && mem[t.idx] == t {
		delete(mem, t.idx)
		if per := t.n.joinSeen[t.name]; per != nil {
			delete(per, t.idx)
			for _, m := range per {
				delete(m, t.idx)
			}
		}
	}
	t.n.mu.Unlock()
	t.mu.Lock()
	if !t.closed {
		t.closed = true
		for _, c := range t.peerCh {
			close(c)
		}
		for _, c := range t.msgCh {
			close(c)
		}
	}
	t.mu.Unlock()
}

func (t *simTopic) pushPeer(e events.Event) {
	t.mu.Lock()
	defer t.mu.Unlock()
	if t.closed {
		return
	}
	for _, c := range t.peerCh {
		select {
		case c <- e:
		default:
			panic("sim: peer event channel full")
		}
	}
}

func (t *simTopic) pushMsg(m *iface.EventPubSubMessage) {
	t.mu.Lock()
	defer t.mu.Unlock()
	if t.closed {
		return
	}
	for _, c := range t.msgCh {
		select {
		case c <- m:
		default:
			panic("sim: message channel full")
		}
	}
}

func (t *simTopic) Publish(ctx context.Context, message []byte) error {
	n := t.n
	n.mu.Lock()
	var tos []int
	for b := range n.subs[t.name] {
		if b != t.idx && !n.cut[pair(t.idx, b)] {
			tos = append(tos, b)
		}
	}
	n.mu.Unlock()
	sortInts(tos)
	for _, b := range tos {
		n.enqueue(Msg{Kind: "topic", Topic: t.name, From: t.idx, To: b, Payload: append([]byte(nil), message...)})
	}
	if len(tos) == 0 {
		// still record the publication for per-topic payload inspection
		n.mu.Lock()
		n.seq++
		n.Log = append(n.Log, Msg{Seq: n.seq, Kind: "topic", Topic: t.name, From: t.idx, To: -1, Payload: append([]byte(nil), message...)})
		n.mu.Unlock()
	}
	return nil
}

func sortInts(a []int) {
	for i := 1; i < len(a); i++ {
		for j := i; j > 0 && a[j-1] > a[j]; j-- {
			a[j-1], a[j] = a[j], a[j-1]
		}
	}
}

func (t *simTopic) Peers(ctx context.Context) ([]peer.ID, error) {
	n := t.n
	n.mu.Lock()
	gate := n.peersGate[t.name]
	n.mu.Unlock()
	if gate != nil {
		n.mu.Lock()
		n.peersWaiting[t.name]++
		n.mu.Unlock()
		select {
		case <-gate:
		case <-ctx.Done():
		}
	}
	n.mu.Lock()
	defer n.mu.Unlock()
	var out []peer.ID
	for b := range n.subs[t.name] {
		if b != t.idx && !n.cut[pair(t.idx, b)] {
			out = append(out, n.peers[b])
		}
	}
	if n.AlwaysPeers && len(out) == 0 {
		out = append(out, n.peers[t.idx])
	}
	return out, nil
}

func (t *simTopic) WatchPeers(ctx context.Context) (<-chan events.Event, error) {
	c := make(chan events.Event, 4096)
	t.mu.Lock()
	t.peerCh = append(t.peerCh, c)
	t.mu.Unlock()
	go t.n.announceJoins()
	return c, nil
}

func (t *simTopic) WatchMessages(ctx context.Context) (<-chan *iface.EventPubSubMessage, error) {
	c := make(chan *iface.EventPubSubMessage, 4096)
	t.mu.Lock()
	t.msgCh = append(t.msgCh, c)
	t.mu.Unlock()
	return c, nil
}

func (t *simTopic) Topic() string { return t.name }

// ---- iface.DirectChannel per replica ----

type simDirect struct {
	n   *Net
	idx int
}

func (n *Net) DirectChannelFactory(idx int) iface.DirectChannelFactory {
	return func(ctx context.Context, emitter iface.DirectChannelEmitter, opts *iface.DirectChannelOptions) (iface.DirectChannel, error) {
		n.mu.Lock()
		n.direct[idx] = emitter
		n.mu.Unlock()
		return &simDirect{n, idx}, nil
	}
}

func (d *simDirect) Connect(ctx context.Context, p peer.ID) error {
	d.n.mu.Lock()
	b, ok := d.n.byPeer[p]
	cut := ok && d.n.cut[pair(d.idx, b)]
	d.n.mu.Unlock()
	if !ok {
		return fmt.Errorf("sim: unknown peer %s", p)
	}
	if cut {
		return fmt.Errorf("sim: peer %s unreachable", p)
	}
	return nil
}

func (d *simDirect) Send(ctx context.Context, p peer.ID, data []byte) error {
	d.n.mu.Lock()
	b, ok := d.n.byPeer[p]
	cut := ok && d.n.cut[pair(d.idx, b)]
	d.n.mu.Unlock()
	if !ok || cut {
		return fmt.Errorf("sim: peer %s unreachable", p)
	}
	d.n.enqueue(Msg{Kind: "direct", From: d.idx, To: b, Payload: append([]byte(nil), data...)})
	return nil
}

func (d *simDirect) Close() error {
	d.n.mu.Lock()
	delete(d.n.direct, d.idx)
	d.n.mu.Unlock()
	return nil
}

func (n *Net) seqNow() int {
	n.mu.Lock()
	defer n.mu.Unlock()
	return n.seq
}

// ResetTraffic drops all queued traffic and the traffic log and sets the delivery mode.
func (n *Net) ResetTraffic(auto bool) {
	n.mu.Lock()
	n.Pending = nil
	n.Log = nil
	n.Auto = auto
	n.mu.Unlock()
}

// CutBlocks makes blocks unfetchable between a and b while messages still pass.
func (n *Net) CutBlocks(a, b int) {
	n.mu.Lock()
	n.blockCut[pair(a, b)] = true
	n.mu.Unlock()
}

// CutBlockHash makes block c unobtainable for replica a (unless a holds it itself): the
// partition from the holders of c hit before a could fetch it.  Deterministic stand-in for
// "the link went down between two fetches of one replication request"; it lasts until a
// link of a is healed (Heal).
func (n *Net) CutBlockHash(a int, c string) {
	n.mu.Lock()
	if n.hashCut[a] == nil {
		n.hashCut[a] = map[string]bool{}
	}
	n.hashCut[a][c] = true
	n.mu.Unlock()
}

// HashReachable reports whether replica a may fetch block c from other replicas.
func (n *Net) HashReachable(a int, c string) bool {
	n.mu.Lock()
	defer n.mu.Unlock()
	return !n.hashCut[a][c]
}

// PendingSnapshot returns a copy of the undelivered payloads, in queue order.
func (n *Net) PendingSnapshot() []Msg {
	n.mu.Lock()
	defer n.mu.Unlock()
	return append([]Msg(nil), n.Pending...)
}

// BlocksReachable reports whether a can fetch blocks held by b.
func (n *Net) BlocksReachable(a, b int) bool {
	if a == b {
		return true
	}
	n.mu.Lock()
	defer n.mu.Unlock()
	return !n.cut[pair(a, b)] && !n.blockCut[pair(a, b)]
}

// PublishedCount returns how many topic messages of replica `from` have been logged so far
// (one per recipient, or one with To = -1 when nobody was connected).
func (n *Net) PublishedCount(from int) int {
	n.mu.Lock()
	defer n.mu.Unlock()
	k := 0
	for _, m := range n.Log {
		if m.Kind == "topic" && m.From == from {
			k++
		}
	}
	return k
}

// Fanout returns the number of log records one publication of `from` on `topic` produces now.
func (n *Net) Fanout(topic string, from int) int {
	n.mu.Lock()
	defer n.mu.Unlock()
	k := 0
	for b := range n.subs[topic] {
		if b != from && !n.cut[pair(from, b)] {
			k++
		}
	}
	if k == 0 && n.AlwaysPeers {
		return 1
	}
	return k // 0: the store sees no peer on the topic and does not publish at all
}

// GatePeers makes every Peers() call on `topic` wait until the returned function is called
// (a slow pubsub: the announcer of a write asks for the topic's peers before it publishes).
func (n *Net) GatePeers(topic string) (release func()) {
	ch := make(chan struct{})
	n.mu.Lock()
	if n.peersGate == nil {
		n.peersGate = map[string]chan struct{}{}
		n.peersWaiting = map[string]int{}
	}
	n.peersGate[topic] = ch
	n.peersWaiting[topic] = 0
	n.mu.Unlock()
	return func() {
		n.mu.Lock()
		delete(n.peersGate, topic)
		n.mu.Unlock()
		close(ch)
	}
}

// PeersWaiting tells how many Peers() calls are held at the gate of `topic`.
func (n *Net) PeersWaiting(topic string) int {
	n.mu.Lock()
	defer n.mu.Unlock()
	return n.peersWaiting[topic]
}

// JoinWhileCut lets a and b observe each other joining the topics both subscribe to although
// the link between them stays down: the peer is listed by pubsub (e.g. through a relaying
// mesh) but cannot be reached over the direct channel, so a head exchange attempted now fails.
func (n *Net) JoinWhileCut(a, b int) {
	type ev struct {
		t    *simTopic
		peer peer.ID
	}
	var evs []ev
	n.mu.Lock()
	for _, members := range n.subs {
		ta, tb := members[a], members[b]
		if ta == nil || tb == nil {
			continue
		}
		evs = append(evs, ev{ta, n.peers[b]}, ev{tb, n.peers[a]})
	}
	n.mu.Unlock()
	for _, e := range evs {
		e.t.pushPeer(&iface.EventPubSubJoin{Topic: e.t.name, Peer: e.peer})
	}
}

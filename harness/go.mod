module verifharness

go 1.22

toolchain go1.22.5

require (
	berty.tech/go-ipfs-log v1.10.3-0.20240719141234-29e2d26e2aeb
	berty.tech/go-orbit-db v0.0.0
	github.com/ipfs/boxo v0.20.0
	github.com/ipfs/go-cid v0.4.1
	github.com/ipfs/go-datastore v0.6.0
	github.com/ipfs/go-ipld-cbor v0.1.0
	github.com/ipfs/go-ipld-format v0.6.0
	github.com/ipfs/kubo v0.29.0
	github.com/libp2p/go-libp2p v0.34.1
	github.com/libp2p/go-libp2p-pubsub v0.11.0
	github.com/multiformats/go-multibase v0.2.0
	github.com/multiformats/go-multihash v0.2.3
	github.com/polydawn/refmt v0.89.0
	go.uber.org/zap v1.27.0
)

require (
	bazil.org/fuse v0.0.0-20200117225306-7b5117fecadc // indirect
	github.com/AndreasBriese/bbloom v0.0.0-20190825152654-46b345b51c96 // indirect
	github.com/Jorropo/jsync v1.0.1 // indirect
	github.com/alecthomas/units v0.0.0-20231202071711-9a357b53e9c9 // indirect
	github.com/benbjohnson/clock v1.3.5 // indirect
	github.com/beorn7/perks v1.0.1 // indirect
	github.com/blang/semver/v4 v4.0.0 // indirect
	github.com/btcsuite/btcd v0.22.1 // indirect
	github.com/cenkalti/backoff/v4 v4.3.0 // indirect
	github.com/ceramicnetwork/go-dag-jose v0.1.0 // indirect
	github.com/cespare/xxhash v1.1.0 // indirect
	github.com/cespare/xxhash/v2 v2.3.0 // indirect
	github.com/containerd/cgroups v1.1.0 // indirect
	github.com/coreos/go-systemd/v22 v22.5.0 // indirect
	github.com/crackcomm/go-gitignore v0.0.0-20231225121904-e25f5bc08668 // indirect
	github.com/cskr/pubsub v1.0.2 // indirect
	github.com/davecgh/go-spew v1.1.1 // indirect
	github.com/davidlazar/go-crypto v0.0.0-20200604182044-b73af7476f6c // indirect
	github.com/decred/dcrd/dcrec/secp256k1/v4 v4.3.0 // indirect
	github.com/dgraph-io/badger v1.6.2 // indirect
	github.com/dgraph-io/ristretto v0.0.3 // indirect
	github.com/docker/go-units v0.5.0 // indirect
	github.com/dustin/go-humanize v1.0.1 // indirect
	github.com/elastic/gosigar v0.14.2 // indirect
	github.com/facebookgo/atomicfile v0.0.0-20151019160806-2de1f203e7d5 // indirect
	github.com/felixge/httpsnoop v1.0.4 // indirect
	github.com/flynn/noise v1.1.0 // indirect
	github.com/francoispqt/gojay v1.2.13 // indirect
	github.com/fsnotify/fsnotify v1.6.0 // indirect
	github.com/gabriel-vasile/mimetype v1.4.3 // indirect
	github.com/go-logr/logr v1.4.1 // indirect
	github.com/go-logr/stdr v1.2.2 // indirect
	github.com/godbus/dbus/v5 v5.1.0 // indirect
	github.com/gogo/protobuf v1.3.2 // indirect
	github.com/golang/protobuf v1.5.4 // indirect
	github.com/golang/snappy v0.0.4 // indirect
	github.com/google/gopacket v1.1.19 // indirect
	github.com/google/uuid v1.6.0 // indirect
	github.com/gorilla/websocket v1.5.1 // indirect
	github.com/grpc-ecosystem/grpc-gateway/v2 v2.20.0 // indirect
	github.com/hashicorp/errwrap v1.1.0 // indirect
	github.com/hashicorp/go-multierror v1.1.1 // indirect
	github.com/hashicorp/golang-lru v1.0.2 // indirect
	github.com/hashicorp/golang-lru/v2 v2.0.7 // indirect
	github.com/huin/goupnp v1.3.0 // indirect
	github.com/ipfs-shipyard/nopfs v0.0.12 // indirect
	github.com/ipfs-shipyard/nopfs/ipfs v0.13.2-0.20231027223058-cde3b5ba964c // indirect
	github.com/ipfs/bbloom v0.0.4 // indirect
	github.com/ipfs/go-bitfield v1.1.0 // indirect
	github.com/ipfs/go-block-format v0.2.0 // indirect
	github.com/ipfs/go-blockservice v0.5.2 // indirect
	github.com/ipfs/go-cidutil v0.1.0 // indirect
	github.com/ipfs/go-ds-badger v0.3.0 // indirect
	github.com/ipfs/go-ds-flatfs v0.5.1 // indirect
	github.com/ipfs/go-ds-leveldb v0.5.0 // indirect
	github.com/ipfs/go-ds-measure v0.2.0 // indirect
	github.com/ipfs/go-fs-lock v0.0.7 // indirect
	github.com/ipfs/go-ipfs-blockstore v1.3.1 // indirect
	github.com/ipfs/go-ipfs-cmds v0.11.0 // indirect
	github.com/ipfs/go-ipfs-delay v0.0.1 // indirect
	github.com/ipfs/go-ipfs-ds-help v1.1.1 // indirect
	github.com/ipfs/go-ipfs-exchange-interface v0.2.1 // indirect
	github.com/ipfs/go-ipfs-pq v0.0.3 // indirect
	github.com/ipfs/go-ipfs-redirects-file v0.1.1 // indirect
	github.com/ipfs/go-ipfs-util v0.0.3 // indirect
	github.com/ipfs/go-ipld-git v0.1.1 // indirect
	github.com/ipfs/go-ipld-legacy v0.2.1 // indirect
	github.com/ipfs/go-libipfs v0.6.2 // indirect
	github.com/ipfs/go-log v1.0.5 // indirect
	github.com/ipfs/go-log/v2 v2.5.1 // indirect
	github.com/ipfs/go-merkledag v0.11.0 // indirect
	github.com/ipfs/go-metrics-interface v0.0.1 // indirect
	github.com/ipfs/go-peertaskqueue v0.8.1 // indirect
	github.com/ipfs/go-unixfsnode v1.9.0 // indirect
	github.com/ipfs/go-verifcid v0.0.3 // indirect
	github.com/ipld/go-car v0.6.2 // indirect
	github.com/ipld/go-car/v2 v2.13.1 // indirect
	github.com/ipld/go-codec-dagpb v1.6.0 // indirect
	github.com/ipld/go-ipld-prime v0.21.0 // indirect
	github.com/jackpal/go-nat-pmp v1.0.2 // indirect
	github.com/jbenet/go-temp-err-catcher v0.1.0 // indirect
	github.com/jbenet/goprocess v0.1.4 // indirect
	github.com/klauspost/compress v1.17.8 // indirect
	github.com/klauspost/cpuid/v2 v2.2.7 // indirect
	github.com/koron/go-ssdp v0.0.4 // indirect
	github.com/libp2p/go-buffer-pool v0.1.0 // indirect
	github.com/libp2p/go-cidranger v1.1.0 // indirect
	github.com/libp2p/go-doh-resolver v0.4.0 // indirect
	github.com/libp2p/go-flow-metrics v0.1.0 // indirect
	github.com/libp2p/go-libp2p-asn-util v0.4.1 // indirect
	github.com/libp2p/go-libp2p-kad-dht v0.25.2 // indirect
	github.com/libp2p/go-libp2p-kbucket v0.6.3 // indirect
	github.com/libp2p/go-libp2p-pubsub-router v0.6.0 // indirect
	github.com/libp2p/go-libp2p-record v0.2.0 // indirect
	github.com/libp2p/go-libp2p-routing-helpers v0.7.3 // indirect
	github.com/libp2p/go-libp2p-testing v0.12.0 // indirect
	github.com/libp2p/go-libp2p-xor v0.1.0 // indirect
	github.com/libp2p/go-msgio v0.3.0 // indirect
	github.com/libp2p/go-nat v0.2.0 // indirect
	github.com/libp2p/go-netroute v0.2.1 // indirect
	github.com/libp2p/go-reuseport v0.4.0 // indirect
	github.com/libp2p/go-yamux/v4 v4.0.1 // indirect
	github.com/libp2p/zeroconf/v2 v2.2.0 // indirect
	github.com/marten-seemann/tcp v0.0.0-20210406111302-dfbc87cc63fd // indirect
	github.com/mattn/go-isatty v0.0.20 // indirect
	github.com/miekg/dns v1.1.59 // indirect
	github.com/mikioh/tcpinfo v0.0.0-20190314235526-30a79bb1804b // indirect
	github.com/mikioh/tcpopt v0.0.0-20190314235656-172688c1accc // indirect
	github.com/minio/sha256-simd v1.0.1 // indirect
	github.com/mitchellh/go-homedir v1.1.0 // indirect
	github.com/mr-tron/base58 v1.2.0 // indirect
	github.com/multiformats/go-base32 v0.1.0 // indirect
	github.com/multiformats/go-base36 v0.2.0 // indirect
	github.com/multiformats/go-multiaddr v0.12.4 // indirect
	github.com/multiformats/go-multiaddr-dns v0.3.1 // indirect
	github.com/multiformats/go-multiaddr-fmt v0.1.0 // indirect
	github.com/multiformats/go-multicodec v0.9.0 // indirect
	github.com/multiformats/go-multistream v0.5.0 // indirect
	github.com/multiformats/go-varint v0.0.7 // indirect
	github.com/opencontainers/runtime-spec v1.2.0 // indirect
	github.com/opentracing/opentracing-go v1.2.0 // indirect
	github.com/openzipkin/zipkin-go v0.4.3 // indirect
	github.com/pbnjay/memory v0.0.0-20210728143218-7b4eea64cf58 // indirect
	github.com/petar/GoLLRB v0.0.0-20210522233825-ae3b015fd3e9 // indirect
	github.com/pion/datachannel v1.5.6 // indirect
	github.com/pion/dtls/v2 v2.2.11 // indirect
	github.com/pion/ice/v2 v2.3.24 // indirect
	github.com/pion/interceptor v0.1.29 // indirect
	github.com/pion/logging v0.2.2 // indirect
	github.com/pion/mdns v0.0.12 // indirect
	github.com/pion/randutil v0.1.0 // indirect
	github.com/pion/rtcp v1.2.14 // indirect
	github.com/pion/rtp v1.8.6 // indirect
	github.com/pion/sctp v1.8.16 // indirect
	github.com/pion/sdp/v3 v3.0.9 // indirect
	github.com/pion/srtp/v2 v2.0.18 // indirect
	github.com/pion/stun v0.6.1 // indirect
	github.com/pion/transport/v2 v2.2.5 // indirect
	github.com/pion/turn/v2 v2.1.6 // indirect
	github.com/pion/webrtc/v3 v3.2.40 // indirect
	github.com/pkg/errors v0.9.1 // indirect
	github.com/pmezard/go-difflib v1.0.0 // indirect
	github.com/prometheus/client_golang v1.19.1 // indirect
	github.com/prometheus/client_model v0.6.1 // indirect
	github.com/prometheus/common v0.53.0 // indirect
	github.com/prometheus/procfs v0.15.0 // indirect
	github.com/quic-go/qpack v0.4.0 // indirect
	github.com/quic-go/quic-go v0.44.0 // indirect
	github.com/quic-go/webtransport-go v0.8.0 // indirect
	github.com/raulk/go-watchdog v1.3.0 // indirect
	github.com/samber/lo v1.39.0 // indirect
	github.com/spaolacci/murmur3 v1.1.0 // indirect
	github.com/stretchr/testify v1.9.0 // indirect
	github.com/syndtr/goleveldb v1.0.1-0.20210819022825-2ae1ddf74ef7 // indirect
	github.com/ucarion/urlpath v0.0.0-20200424170820-7ccc79b76bbb // indirect
	github.com/whyrusleeping/base32 v0.0.0-20170828182744-c30ac30633cc // indirect
	github.com/whyrusleeping/cbor v0.0.0-20171005072247-63513f603b11 // indirect
	github.com/whyrusleeping/cbor-gen v0.1.1 // indirect
	github.com/whyrusleeping/chunker v0.0.0-20181014151217-fe64bd25879f // indirect
	github.com/whyrusleeping/go-keyspace v0.0.0-20160322163242-5b898ac5add1 // indirect
	github.com/whyrusleeping/multiaddr-filter v0.0.0-20160516205228-e903e4adabd7 // indirect
	go.opencensus.io v0.24.0 // indirect
	go.opentelemetry.io/contrib/instrumentation/net/http/otelhttp v0.51.0 // indirect
	go.opentelemetry.io/otel v1.26.0 // indirect
	go.opentelemetry.io/otel/exporters/otlp/otlptrace v1.26.0 // indirect
	go.opentelemetry.io/otel/exporters/otlp/otlptrace/otlptracegrpc v1.26.0 // indirect
	go.opentelemetry.io/otel/exporters/otlp/otlptrace/otlptracehttp v1.26.0 // indirect
	go.opentelemetry.io/otel/exporters/stdout/stdouttrace v1.26.0 // indirect
	go.opentelemetry.io/otel/exporters/zipkin v1.26.0 // indirect
	go.opentelemetry.io/otel/metric v1.26.0 // indirect
	go.opentelemetry.io/otel/sdk v1.26.0 // indirect
	go.opentelemetry.io/otel/trace v1.26.0 // indirect
	go.opentelemetry.io/proto/otlp v1.2.0 // indirect
	go.uber.org/atomic v1.11.0 // indirect
	go.uber.org/dig v1.17.1 // indirect
	go.uber.org/fx v1.21.1 // indirect
	go.uber.org/multierr v1.11.0 // indirect
	go4.org v0.0.0-20230225012048-214862532bf5 // indirect
	golang.org/x/crypto v0.31.0 // indirect
	golang.org/x/exp v0.0.0-20240506185415-9bf2ced13842 // indirect
	golang.org/x/net v0.26.0 // indirect
	golang.org/x/sync v0.10.0 // indirect
	golang.org/x/sys v0.28.0 // indirect
	golang.org/x/text v0.21.0 // indirect
	golang.org/x/xerrors v0.0.0-20231012003039-104605ab7028 // indirect
	gonum.org/v1/gonum v0.15.0 // indirect
	google.golang.org/genproto/googleapis/api v0.0.0-20240515191416-fc5f0ca64291 // indirect
	google.golang.org/genproto/googleapis/rpc v0.0.0-20240515191416-fc5f0ca64291 // indirect
	google.golang.org/grpc v1.64.1 // indirect
	google.golang.org/protobuf v1.34.1 // indirect
	gopkg.in/square/go-jose.v2 v2.6.0 // indirect
	gopkg.in/yaml.v3 v3.0.1 // indirect
	lukechampine.com/blake3 v1.3.0 // indirect
)

replace berty.tech/go-orbit-db => /repo

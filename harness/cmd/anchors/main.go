// anchors prints a digest of every top-level declaration of the non-test Go files of a
// source tree (comments and formatting removed), as JSON {file: {decl: digest}}.
// bin/check compares it with the committed anchors.lock.json: a change in a file a property
// is anchored in makes the check of that property explore more (never changes a verdict).
package main

import (
	"bytes"
	"crypto/sha256"
	"encoding/hex"
	"encoding/json"
	"flag"
	"fmt"
	"go/ast"
	"go/parser"
	"go/printer"
	"go/token"
	"os"
	"path/filepath"
	"strings"
)

func recvName(fd *ast.FuncDecl) string {
	if fd.Recv == nil || len(fd.Recv.List) == 0 {
		return ""
	}
	t := fd.Recv.List[0].Type
	for {
		switch x := t.(type) {
		case *ast.StarExpr:
			t = x.X
			continue
		case *ast.IndexExpr:
			t = x.X
			continue
		case *ast.Ident:
			return x.Name + "."
		}
		return "?."
	}
}

func digest(fset *token.FileSet, n ast.Node) string {
	var buf bytes.Buffer
	cfg := printer.Config{Mode: printer.RawFormat}
	if err := cfg.Fprint(&buf, fset, n); err != nil {
		return "unprintable"
	}
	s := strings.Join(strings.Fields(buf.String()), " ")
	h := sha256.Sum256([]byte(s))
	return hex.EncodeToString(h[:8])
}

func main() {
	repo := flag.String("repo", "/repo", "source tree")
	flag.Parse()
	out := map[string]map[string]string{}
	err := filepath.Walk(*repo, func(p string, info os.FileInfo, err error) error {
		if err != nil {
			return err
		}
		if info.IsDir() {
			if n := info.Name(); n == ".git" || n == "vendor" || n == "node_modules" {
				return filepath.SkipDir
			}
			return nil
		}
		if !strings.HasSuffix(p, ".go") || strings.HasSuffix(p, "_test.go") {
			return nil
		}
		rel, _ := filepath.Rel(*repo, p)
		fset := token.NewFileSet()
		f, perr := parser.ParseFile(fset, p, nil, parser.SkipObjectResolution) // comments dropped
		if perr != nil {
			out[rel] = map[string]string{"<parse error>": perr.Error()}
			return nil
		}
		m := map[string]string{}
		for i, d := range f.Decls {
			switch x := d.(type) {
			case *ast.FuncDecl:
				m["func "+recvName(x)+x.Name.Name] = digest(fset, x)
			case *ast.GenDecl:
				if x.Tok == token.IMPORT {
					continue
				}
				name := fmt.Sprintf("%s #%d", x.Tok, i)
				if len(x.Specs) > 0 {
					switch s := x.Specs[0].(type) {
					case *ast.TypeSpec:
						name = "type " + s.Name.Name
					case *ast.ValueSpec:
						if len(s.Names) > 0 {
							name = x.Tok.String() + " " + s.Names[0].Name
						}
					}
				}
				m[name] = digest(fset, x)
			}
		}
		out[rel] = m
		return nil
	})
	if err != nil {
		fmt.Fprintln(os.Stderr, err)
		os.Exit(1)
	}
	b, _ := json.MarshalIndent(out, "", " ")
	os.Stdout.Write(b)
}

package main

import (
	"context"
	"fmt"
	"os"
	"sort"
	"time"

	ipfslog "berty.tech/go-ipfs-log"
	"berty.tech/go-orbit-db/iface"
	"berty.tech/go-orbit-db/stores/replicator"
	"verifharness/sim"
)

func init() { drivers["C11"] = driver{"C11", runC11} }

// replSlots is the replicator's default concurrency (NewReplicator: 0 -> 32); the store
// option that would lower it is not reachable through CreateDBOptions.
const replSlots = 32

// replRig drives the replicator of one receiving replica through a script of steps and
// records the corresponding abstract script (Corr/ReplCommon.v: ev) for the model.
type replRig struct {
	r      *Run
	s      *Scen
	R      int
	store  iface.Store
	ents   map[string]ipfslog.Entry // universe: hash -> entry
	valid  map[string]bool
	kind   map[string]string
	keys   []string // universe in order of first sight
	script []string
	hang   bool
	hangAt string
	direct int // Replicator().Load calls made by the driver itself (not through Sync)
}

// request issues one replication request on the receiver: Store.Sync (pre-check of the
// heads, then a background Replicator.Load) or, when direct, Store.LoadMoreFrom in a
// goroutine (the entries go to Replicator.Load as they are; it returns when the request
// is done).
func (g *replRig) request(ctx context.Context, heads []ipfslog.Entry, direct bool) error {
	if direct {
		g.direct++
		sim.TheHooks.DirectLoads++
		cp := copyHeads(heads)
		go g.store.LoadMoreFrom(ctx, uint(len(cp)), cp)
		return nil
	}
	return g.store.Sync(ctx, copyHeads(heads))
}

func newReplRig(r *Run, s *Scen, recv int) *replRig {
	return &replRig{r: r, s: s, R: recv, store: s.Stores[recv], ents: map[string]ipfslog.Entry{}, valid: map[string]bool{}, kind: map[string]string{}}
}

func (g *replRig) num(h string) int { return g.s.Canon.Hash.ID(h) }

func (g *replRig) nums(hs []string) []int {
	out := make([]int, len(hs))
	for i, h := range hs {
		out[i] = g.num(h)
	}
	return out
}

func (g *replRig) note(e ipfslog.Entry, valid bool, kind string) {
	k := e.GetHash().String()
	if _, ok := g.ents[k]; ok {
		return
	}
	g.ents[k] = e
	g.valid[k] = valid
	g.kind[k] = kind
	g.keys = append(g.keys, k)
	g.num(k)
}

func linksOf(e ipfslog.Entry) []string {
	var out []string
	seen := map[string]bool{}
	for _, c := range e.GetNext() {
		if !seen[c.String()] {
			seen[c.String()] = true
			out = append(out, c.String())
		}
	}
	for _, c := range e.GetRefs() {
		if !seen[c.String()] {
			seen[c.String()] = true
			out = append(out, c.String())
		}
	}
	return out
}

// universe renders the entries as a list of Model.Replicator.uent.
func (g *replRig) universe() string {
	terms := make([]string, len(g.keys))
	for i, k := range g.keys {
		// links sorted by number: the order of next pointers follows the byte order of fresh keys
		ln := g.nums(linksOf(g.ents[k]))
		sort.Ints(ln)
		terms[i] = fmt.Sprintf("mkU %s %s %s", sim.CoqN(g.num(k)), sim.CoqListN(ln), sim.CoqBool(g.valid[k]))
	}
	return sim.CoqList(terms)
}

// closure is the ancestry of heads within the universe.
func (g *replRig) closure(heads []string) map[string]bool {
	out := map[string]bool{}
	todo := append([]string(nil), heads...)
	for len(todo) > 0 {
		h := todo[0]
		todo = todo[1:]
		if out[h] {
			continue
		}
		e, ok := g.ents[h]
		if !ok {
			continue
		}
		out[h] = true
		todo = append(todo, linksOf(e)...)
	}
	return out
}

func (g *replRig) emit(ev string) { g.script = append(g.script, ev) }

type joinIdle interface{ VerifJoinIdle() bool }

// quiesce waits until nothing but the parked goroutines can move on the receiver:
// every spawned load has queued its items, every emitted load-end has been merged, the
// only tasks in state fetching are the `fetch` ones parked behind a gate, and either all
// loads have returned (nothing parked: exact, also for a wedged replicator) or the queue
// holds exactly the items of the `slots` workers parked before the slot wait.  On a
// replicator with abandoned items (pre-repair trees) the last condition cannot be exact;
// there a long calm period is required instead.
func (g *replRig) quiesce(slots int, parkedFetch func() int, where string) bool {
	h := sim.TheHooks
	deadline := time.Now().Add(20 * time.Second)
	stable, last := 0, ""
	for time.Now().Before(deadline) {
		pf := 0
		if parkedFetch != nil {
			pf = parkedFetch()
		}
		st := sim.ReplState(g.store)
		emitted, done := h.Count("replicator.load_end"), h.Count("store.load_end_done")
		spawn, queued, ret := h.Count("store.sync_spawn"), h.Count("replicator.load_queued"), h.Count("replicator.load_return")
		idle := true
		if ji, ok := g.store.(joinIdle); ok {
			idle = ji.VerifJoinIdle()
		}
		base := emitted == done && spawn+g.direct == queued && idle && st.Fetching == pf && int(st.InProgress) == pf
		exact := false
		if slots == 0 && pf == 0 {
			base = base && queued == ret
			exact = true
		} else {
			exact = st.Queue == slots && st.Added == slots
		}
		if base {
			fp := fmt.Sprintf("%d/%d/%d/%d/%+v/%d", emitted, spawn, queued, ret, st, g.store.OpLog().Len())
			if fp == last {
				stable++
			} else {
				stable = 0
			}
			last = fp
			need := 6
			if !exact {
				need = 80
			}
			if stable >= need {
				g.trace(where)
				return true
			}
		} else {
			stable, last = 0, ""
		}
		time.Sleep(3 * time.Millisecond)
	}
	if !g.hang {
		g.hang = true
		g.hangAt = fmt.Sprintf("%s: %+v", where, sim.ReplState(g.store))
	}
	return false
}

func (g *replRig) trace(where string) {
	if os.Getenv("REPL_TRACE") == "" {
		return
	}
	vals := g.nums(hashesOf(g.store.OpLog().Values().Slice()))
	ents := g.nums(hashesOf(g.store.OpLog().GetEntries().Slice()))
	sort.Ints(vals)
	sort.Ints(ents)
	fmt.Fprintf(os.Stderr, "[%s] %s: values=%v entries=%v state=%+v script=%v\n", g.s.Label, where, vals, ents, sim.ReplState(g.store), g.script)
}

// waitQueued waits until every spawned background load has queued its items.
func (g *replRig) waitQueued() bool {
	h := sim.TheHooks
	deadline := time.Now().Add(20 * time.Second)
	for time.Now().Before(deadline) {
		if h.Count("store.sync_spawn")+g.direct == h.Count("replicator.load_queued") {
			return true
		}
		time.Sleep(time.Millisecond)
	}
	return false
}

func copyHeads(es []ipfslog.Entry) []ipfslog.Entry {
	cp := make([]ipfslog.Entry, len(es))
	for i, e := range es {
		cp[i] = e.Copy()
	}
	return cp
}

// observe renders the receiver's final state (Corr/ReplCommon.v: obs).
func (g *replRig) observe() (string, []string, replicator.VerifState) {
	vals := hashesOf(g.store.OpLog().Values().Slice())
	st := sim.ReplState(g.store)
	nums := g.nums(vals)
	sort.Ints(nums)
	return fmt.Sprintf("(mkOb %s %s %s %s)", sim.CoqListN(nums), sim.CoqN(st.Added), sim.CoqN(st.Queue), sim.CoqBool(g.hang)), vals, st
}

func (g *replRig) caseTerm(want, never []string, ob string) string {
	return fmt.Sprintf("(CRepl %s %s %s %s %s %s)", g.universe(), sim.CoqNat(replSlots), sim.CoqList(g.script),
		sim.CoqListN(g.nums(want)), sim.CoqListN(g.nums(never)), ob)
}

// buildDag lets the writers produce a small DAG (chains, forks, merges) and returns the
// head sets seen along the way.  All entries end up in the rig's universe as valid.
func buildDag(r *Run, s *Scen, g *replRig, writers []int, steps int) ([][]ipfslog.Entry, error) {
	var snaps [][]ipfslog.Entry
	for st := 0; st < steps; st++ {
		w := writers[r.Rng.Intn(len(writers))]
		if len(writers) > 1 && r.Rng.Intn(4) == 0 {
			from := writers[r.Rng.Intn(len(writers))]
			if from != w {
				if err := s.SyncFrom(w, from); err != nil {
					return nil, err
				}
				if !s.Settle() {
					return nil, fmt.Errorf("writers did not settle: %s", sim.LastSettleState)
				}
				continue
			}
		}
		if err := writeOp(r, s, s.Stores[w], st); err != nil {
			return nil, err
		}
		// hash numbers follow the order of creation (keys are fresh in every run, so any
		// order derived from them would not be reproducible)
		hs := s.Stores[w].OpLog().Heads().Slice()
		for _, e := range hs {
			g.note(e, true, "valid")
		}
		snaps = append(snaps, g.sortHeads(hs))
	}
	for _, w := range writers {
		for _, e := range s.Stores[w].OpLog().Values().Slice() {
			if _, ok := g.ents[e.GetHash().String()]; !ok {
				return nil, fmt.Errorf("entry not seen at creation")
			}
		}
	}
	return snaps, nil
}

// sortHeads orders entries by hash number.
func (g *replRig) sortHeads(es []ipfslog.Entry) []ipfslog.Entry {
	out := append([]ipfslog.Entry(nil), es...)
	sort.Slice(out, func(i, j int) bool { return g.num(out[i].GetHash().String()) < g.num(out[j].GetHash().String()) })
	return out
}

// newestHeads is the union of the writers' current heads, ordered by hash number.
func (g *replRig) newestHeads(writers []int) []ipfslog.Entry {
	seen := map[string]bool{}
	var out []ipfslog.Entry
	for _, w := range writers {
		for _, e := range g.s.Stores[w].OpLog().Heads().Slice() {
			if !seen[e.GetHash().String()] {
				seen[e.GetHash().String()] = true
				out = append(out, e)
			}
		}
	}
	return g.sortHeads(out)
}

func sortedByNum(g *replRig, m map[string]bool) []string {
	var out []string
	for k := range m {
		out = append(out, k)
	}
	sort.Slice(out, func(i, j int) bool { return g.num(out[i]) < g.num(out[j]) })
	return out
}

// C11: cancelled or failed replication requests do not wedge later replication.
// Scenario: a sequence of 1-4 Sync requests on the receiver, each under its own
// cancellable context; a request may be cancelled before it starts, while some of its
// workers wait for a fetch slot (gates at replicator.before_slot), while one of its
// fetches is in flight (gate at replicator.after_dequeue keyed by hash), between that
// fetch and its completion (replicator.before_done), after it is finished, or never;
// block fetches of chosen hashes fail (FailGet) during chosen parts of the scenario;
// finally an uncancelled request for the same or newer heads with all failures cleared.
func runC11(r *Run) error {
	defer closeEnv()
	scens := 90
	if r.Tier == "thorough" {
		scens = 600
	}
	for _, w := range []string{"cancel-while-waiting", "fetch-fails-once", "fetch-fails-many", "request-while-fetch-is-failing"} {
		if err := c11Forced(r, w); err != nil {
			return err
		}
	}
	for si := 0; si < scens; si++ {
		if err := c11Scenario(r, si); err != nil {
			return err
		}
	}
	return nil
}

func c11Scenario(r *Run, si int) error {
	nw := 1 + r.Rng.Intn(2)
	s, err := NewScen(nw+1, "eventlog", &ScenOpts{Writers: seq(nw)})
	if err != nil {
		return err
	}
	defer s.Close()
	R := nw
	g := newReplRig(r, s, R)
	steps := 1 + r.Rng.Intn(6)
	if nw > 1 {
		steps += 2
	}
	snaps, err := buildDag(r, s, g, seq(nw), steps)
	if err != nil {
		return err
	}
	if len(snaps) == 0 {
		return nil
	}
	newest := g.newestHeads(seq(nw))
	api := s.Reps[R].API
	ctxBase := context.Background()

	nreq := 1 + r.Rng.Intn(4)
	failing := map[string]bool{}
	everFailed := map[string]bool{}
	setFail := func(hs []string) {
		for k := range failing {
			api.FailGet(k, false)
		}
		failing = map[string]bool{}
		for _, k := range hs {
			api.FailGet(k, true)
			failing[k] = true
			everFailed[k] = true
		}
		g.emit("EFail " + sim.CoqListN(g.nums(hs)))
	}
	// active hold
	holdKind := ""
	var holdGates []*sim.Gate
	var parkedFetch func() int
	holdSlots := 0
	release := func() {
		if holdKind == "" {
			return
		}
		for _, gt := range holdGates {
			gt.Release()
		}
		if holdKind != "done" {
			g.emit("ERelease")
		}
		holdKind, holdGates, parkedFetch, holdSlots = "", nil, nil, 0
		g.quiesce(0, nil, "release")
	}
	cancels, cancelKinds, holds := 0, []string{}, []string{}
	var cancelFns []context.CancelFunc
	defer func() {
		for _, f := range cancelFns {
			f()
		}
	}()
	var lastHeads []ipfslog.Entry
	for i := 1; i <= nreq; i++ {
		// failures change only while nothing is held
		if holdKind == "" && r.Rng.Intn(3) == 0 {
			var hs []string
			for _, k := range g.keys {
				if r.Rng.Intn(3) == 0 {
					hs = append(hs, k)
				}
			}
			setFail(hs)
			r.Count("c11:fail-set")
		}
		heads := snaps[r.Rng.Intn(len(snaps))]
		if r.Rng.Intn(3) == 0 {
			heads = newest
		}
		lastHeads = heads
		ctx, cancel := context.WithCancel(ctxBase)
		cancelFns = append(cancelFns, cancel)
		cancelAt := []string{"never", "never", "before", "during", "during", "after"}[r.Rng.Intn(6)]
		doCancel := func(kind string) {
			cancel()
			g.emit("ECancel " + sim.CoqN(i))
			cancels++
			cancelKinds = append(cancelKinds, kind)
			r.Count("c11:cancel-" + kind)
		}
		if cancelAt == "before" {
			doCancel("before-start")
		}
		mode := "plain"
		pick := r.Rng.Intn(1000)
		victimPick := r.Rng.Intn(1000)
		if holdKind == "" {
			mode = []string{"plain", "slots", "fetch", "done", "slots", "fetch"}[r.Rng.Intn(6)]
		}
		loadEv := fmt.Sprintf("ELoad %s %s", sim.CoqN(i), sim.CoqListN(g.nums(hashesOf(heads))))
		direct := r.Rng.Intn(4) == 0
		if direct {
			r.Count("c11:request-direct-load")
		} else {
			r.Count("c11:request-sync")
		}
		// candidates for the held fetch: ancestry of the heads not yet visible on the receiver
		var victim string
		if mode == "fetch" || mode == "done" {
			have := map[string]bool{}
			for _, k := range hashesOf(g.store.OpLog().Values().Slice()) {
				have[k] = true
			}
			var cand []string
			for _, k := range sortedByNum(g, g.closure(hashesOf(heads))) {
				if !have[k] {
					cand = append(cand, k)
				}
			}
			if len(cand) == 0 {
				mode = "plain"
			} else {
				victim = cand[victimPick%len(cand)]
			}
		}
		switch mode {
		case "plain":
			if err := g.request(ctx, heads, direct); err != nil {
				return fmt.Errorf("sync: %w", err)
			}
			g.emit(loadEv)
		case "slots":
			before := sim.ReplState(g.store).Queue
			gates := make([]*sim.Gate, 48)
			for k := range gates {
				gates[k] = sim.TheHooks.Park("replicator.before_slot", "", 1)
			}
			if err := g.request(ctx, heads, direct); err != nil {
				return fmt.Errorf("sync: %w", err)
			}
			if !g.waitQueued() {
				g.hang, g.hangAt = true, "load never queued its items"
			}
			n := sim.ReplState(g.store).Queue - before
			if n > len(gates) {
				n = len(gates)
			}
			for k := 0; k < n; k++ {
				if !gates[k].WaitArrived(20 * time.Second) {
					g.hang, g.hangAt = true, "worker never reached the slot wait"
				}
			}
			keep := 0
			if n > 0 {
				keep = 1 + pick%n
			}
			for k := keep; k < len(gates); k++ {
				gates[k].Release()
			}
			if keep > 0 {
				holdKind, holdGates, holdSlots = "slots", gates[:keep], keep
				g.emit("EHoldSlots " + sim.CoqNat(keep))
				holds = append(holds, fmt.Sprintf("slots:%d/%d", keep, n))
				r.Count("c11:hold-slots")
			}
			g.emit(loadEv)
		case "fetch", "done":
			point := "replicator.after_dequeue"
			if mode == "done" {
				point = "replicator.before_done"
			}
			gt := sim.TheHooks.Park(point, victim, 1)
			arrived := false
			parkedFetch = func() int {
				if !arrived && gt.WaitArrived(time.Millisecond) {
					arrived = true
				}
				if arrived {
					return 1
				}
				return 0
			}
			holdKind, holdGates = mode, []*sim.Gate{gt}
			if mode == "fetch" {
				g.emit("EHoldFetch " + sim.CoqListN([]int{g.num(victim)}))
			}
			holds = append(holds, mode)
			r.Count("c11:hold-" + mode)
			if err := g.request(ctx, heads, direct); err != nil {
				return fmt.Errorf("sync: %w", err)
			}
			g.emit(loadEv)
		}
		g.quiesce(holdSlots, parkedFetch, "after load")
		if cancelAt == "during" {
			kind := "at-rest"
			switch holdKind {
			case "slots":
				kind = "waiting-for-slot"
			case "fetch":
				kind = "mid-fetch"
			case "done":
				kind = "between-fetch-and-done"
			}
			doCancel(kind)
			g.quiesce(holdSlots, parkedFetch, "after cancel")
		}
		// a hold may stay across the following requests; not the one between fetch and done:
		// the model's fetch-and-done step is atomic, so that hold is modelled as "everything
		// has run" and must not see other requests before it is over
		if keep := r.Rng.Intn(3) == 0; holdKind != "" && (i == nreq || holdKind == "done" || !keep) {
			release()
		}
		if cancelAt == "after" {
			doCancel("after")
			g.quiesce(holdSlots, parkedFetch, "after late cancel")
		}
	}
	release()
	// the final, uncancelled request: same heads as the last request, or the newest heads
	setFail(nil)
	final := lastHeads
	finalKind := "same"
	if r.Rng.Intn(2) == 0 {
		final, finalKind = newest, "newer"
	}
	if err := g.store.Sync(ctxBase, copyHeads(final)); err != nil {
		return fmt.Errorf("final sync: %w", err)
	}
	g.emit(fmt.Sprintf("ELoad 99%%N %s", sim.CoqListN(g.nums(hashesOf(final)))))
	g.quiesce(0, nil, "final")

	ob, vals, st := g.observe()
	got := map[string]bool{}
	for _, v := range vals {
		got[v] = true
	}
	var missing []int
	poisoned := false
	for _, k := range sortedByNum(g, g.closure(hashesOf(final))) {
		if !got[k] {
			missing = append(missing, g.num(k))
			if everFailed[k] {
				poisoned = true
			}
		}
	}
	sig := "repl-ok"
	if len(missing) > 0 || g.hang {
		switch {
		case st.Added > 0 && st.InProgress == 0 && cancels > 0:
			sig = "cancel-wedge"
		case poisoned:
			sig = "fetch-failure-poisons"
		default:
			sig = "repl-other"
		}
	}
	descr := map[string]interface{}{"kind": "c11", "sig": sig, "scen": si, "writers": nw, "entries": len(g.keys), "requests": nreq,
		"cancels": cancelKinds, "holds": holds, "ever_failed": len(everFailed), "final": finalKind, "missing": missing,
		"state": fmt.Sprintf("%+v", st), "script": g.script}
	if g.hang {
		descr["hang"] = g.hangAt
	}
	r.AddCase(g.caseTerm(hashesOf(final), nil, ob), descr, cancels > 0 || len(everFailed) > 0)
	r.Count("c11:scenarios")
	r.Count(fmt.Sprintf("c11:requests=%d", nreq))
	r.Count("c11:final-" + finalKind)
	if len(everFailed) > 0 {
		r.Count("c11:with-fetch-failures")
	}
	if sig != "repl-ok" {
		r.Count("c11:sig=" + sig)
	}
	return nil
}

// c11Forced runs the two minimal schedules that separate the repaired replicator from
// the pinned one (recorded as ordinary cases, so that every seed contains them):
//
//	"cancel-while-waiting": Sync(ctx1,[h]); ctx1 is cancelled while the only worker is parked
//	    before the slot wait; the worker continues; Sync(background,[h]).
//	"fetch-fails-once": the block of h cannot be fetched; Sync(ctx1,[h]); the block becomes
//	    fetchable again; Sync(background,[h]).
//	"fetch-fails-many": the same with 40 failing requests (more than there are fetch slots).
func c11Forced(r *Run, which string) error {
	s, err := NewScen(2, "eventlog", &ScenOpts{Writers: []int{0}})
	if err != nil {
		return err
	}
	defer s.Close()
	g := newReplRig(r, s, 1)
	for i := 0; i < 2; i++ {
		if err := writeOp(r, s, s.Stores[0], i); err != nil {
			return err
		}
	}
	for _, e := range s.Stores[0].OpLog().Values().Slice() {
		g.note(e, true, "valid")
	}
	heads := s.Stores[0].OpLog().Heads().Slice()
	hk := heads[0].GetHash().String()
	ak := hk // an ancestor of the head (the entry written first)
	for _, e := range s.Stores[0].OpLog().Values().Slice() {
		if e.GetHash().String() != hk {
			ak = e.GetHash().String()
			break
		}
	}
	ctx1, cancel1 := context.WithCancel(context.Background())
	defer cancel1()
	loadEv := func(c int) string {
		return fmt.Sprintf("ELoad %s %s", sim.CoqN(c), sim.CoqListN(g.nums(hashesOf(heads))))
	}
	cancels, failed := 0, 0
	switch which {
	case "cancel-while-waiting":
		gt := sim.TheHooks.Park("replicator.before_slot", "", 1)
		if err := g.store.Sync(ctx1, copyHeads(heads)); err != nil {
			return err
		}
		if !gt.WaitArrived(20 * time.Second) {
			g.hang, g.hangAt = true, "worker never reached the slot wait"
		}
		g.emit("EHoldSlots 1%nat")
		g.emit(loadEv(1))
		g.quiesce(1, nil, "worker parked")
		cancel1()
		cancels++
		g.emit("ECancel 1%N")
		gt.Release()
		g.emit("ERelease")
		g.quiesce(0, nil, "released")
	case "fetch-fails-once":
		s.Reps[1].API.FailGet(hk, true)
		failed++
		g.emit("EFail " + sim.CoqListN([]int{g.num(hk)}))
		if err := g.store.Sync(ctx1, copyHeads(heads)); err != nil {
			return err
		}
		g.emit(loadEv(1))
		g.quiesce(0, nil, "failed fetch")
		s.Reps[1].API.FailGet(hk, false)
		g.emit("EFail []")
	case "request-while-fetch-is-failing":
		// (the failing hash is the ANCESTOR of the requested head: it is only ever requested by
		// hash, as a link of the head or as a retry)
		// the fetch of h has failed but its worker is held before it records the outcome (the
		// schedule point replicator.before_done: for the bookkeeping the fetch is still in
		// progress); a second request for the same head arrives in that window; the worker
		// goes on.  Later requests must still retry h.
		s.Reps[1].API.FailGet(ak, true)
		failed++
		g.emit("EFail " + sim.CoqListN([]int{g.num(ak)}))
		gt := sim.TheHooks.Park("replicator.before_done", ak, 1)
		g.emit("EHoldFetch " + sim.CoqListN([]int{g.num(ak)}))
		if err := g.store.Sync(ctx1, copyHeads(heads)); err != nil {
			return err
		}
		g.emit(loadEv(1))
		if !gt.WaitArrived(20 * time.Second) {
			g.hang, g.hangAt = true, "worker never reached the end of its failed fetch"
		}
		if err := g.store.Sync(context.Background(), copyHeads(heads)); err != nil {
			return err
		}
		g.emit(loadEv(2))
		time.Sleep(50 * time.Millisecond)
		gt.Release()
		g.emit("EFetch " + sim.CoqN(g.num(ak)))
		g.emit("ERelease")
		g.quiesce(0, nil, "failed fetch recorded")
		{
			// the failed fetch of the ancestor was the LAST item of that busy period to finish: the
			// head that was fetched meanwhile must have been handed over and merged all the same,
			// while the ancestor is still unreachable
			obMid, valsMid, stMid := g.observe()
			seen := false
			for _, v := range valsMid {
				seen = seen || v == hk
			}
			if !seen {
				r.AddDirect("c11:fetched-head-not-merged-after-failed-fetch", "a head that was fetched was not merged when the failed fetch of its ancestor, the last item of the busy period, had been recorded", map[string]interface{}{"which": which, "script": append([]string{}, g.script...), "state": fmt.Sprintf("%+v", stMid)})
			}
			// (the case demands nothing of its own - the ancestry of the head cannot be complete yet -
			// but the model has to compute the same log)
			r.AddCase(g.caseTerm(nil, nil, obMid), map[string]interface{}{"kind": "c11-forced", "which": which + " (while the ancestor is still unreachable)",
				"sig": "fetch-failure-poisons", "entries": len(g.keys), "visible": len(valsMid), "state": fmt.Sprintf("%+v", stMid), "script": append([]string{}, g.script...)}, true)
			r.Count("c11:forced-mid-observation")
		}
		s.Reps[1].API.FailGet(ak, false)
		g.emit("EFail []")
	case "fetch-fails-many":
		// more failed fetches than the replicator has fetch slots (32): every failure must give
		// its slot back, or the later requests find none
		s.Reps[1].API.FailGet(hk, true)
		g.emit("EFail " + sim.CoqListN([]int{g.num(hk)}))
		for k := 1; k <= 40 && !g.hang; k++ {
			failed++
			if err := g.store.Sync(context.Background(), copyHeads(heads)); err != nil {
				return err
			}
			g.emit(loadEv(k))
			g.quiesce(0, nil, fmt.Sprintf("failed fetch %d", k))
		}
		s.Reps[1].API.FailGet(hk, false)
		g.emit("EFail []")
	}
	mid := sim.ReplState(g.store)
	if err := g.store.Sync(context.Background(), copyHeads(heads)); err != nil {
		return err
	}
	g.emit(loadEv(99))
	g.quiesce(0, nil, "final")
	ob, vals, st := g.observe()
	sig := "repl-ok"
	if len(vals) < len(g.keys) || g.hang {
		switch {
		case st.Added > 0 && st.InProgress == 0 && cancels > 0:
			sig = "cancel-wedge"
		case failed > 0:
			sig = "fetch-failure-poisons"
		default:
			sig = "repl-other"
		}
	}
	descr := map[string]interface{}{"kind": "c11-forced", "which": which, "sig": sig, "entries": len(g.keys), "visible": len(vals),
		"state_before_final_request": fmt.Sprintf("%+v", mid), "state": fmt.Sprintf("%+v", st), "script": g.script}
	if g.hang {
		descr["hang"] = g.hangAt
	}
	r.AddCase(g.caseTerm(hashesOf(heads), nil, ob), descr, true)
	r.Count("c11:forced-" + which)
	return nil
}

package main

import (
	"bufio"
	"bytes"
	"context"
	crand "crypto/rand"
	"encoding/base64"
	"encoding/json"
	"fmt"
	"math/rand"
	"os"
	"os/exec"
	"path/filepath"
	"regexp"
	"runtime"
	"sort"
	"strconv"
	"strings"
	"sync"
	"time"
	"verifharness/sim"

	ipfslog "berty.tech/go-ipfs-log"
	"berty.tech/go-ipfs-log/entry"
	"berty.tech/go-ipfs-log/identityprovider"
	orbitdb "berty.tech/go-orbit-db"
	"berty.tech/go-orbit-db/accesscontroller"
	"berty.tech/go-orbit-db/address"
	"berty.tech/go-orbit-db/iface"
	"berty.tech/go-orbit-db/stores/basestore"
	"berty.tech/go-orbit-db/stores/documentstore"
	"berty.tech/go-orbit-db/stores/eventlogstore"
	"berty.tech/go-orbit-db/stores/kvstore"
	"berty.tech/go-orbit-db/stores/operation"
	cid "github.com/ipfs/go-cid"
	datastore "github.com/ipfs/go-datastore"
	ds "github.com/ipfs/go-datastore"
	dsync "github.com/ipfs/go-datastore/sync"
	ipld "github.com/ipfs/go-ipld-format"
	cfg "github.com/ipfs/kubo/config"
	ipfsCore "github.com/ipfs/kubo/core"
	"github.com/ipfs/kubo/core/coreapi"
	coreiface "github.com/ipfs/kubo/core/coreiface"
	"github.com/ipfs/kubo/core/coreiface/options"
	mock "github.com/ipfs/kubo/core/mock"
	"github.com/ipfs/kubo/repo"
	"github.com/libp2p/go-libp2p/core/crypto"
	"github.com/libp2p/go-libp2p/core/peer"
	mocknet "github.com/libp2p/go-libp2p/p2p/net/mock"
	multihash "github.com/multiformats/go-multihash"
)

func init() { drivers["C18"] = driver{"C18", runC18} }

// C18: Close and Drop are clean.
//
// The observation part of the property (goroutine exit, promptness, reopenability, drop
// scope) is done here on the real code; the bookkeeping part (which signals Close raises,
// what every operation answers on a closed store, which directory Drop removes) is the Coq
// model Model/Lifecycle.v, which the cases are compared with.
//
// The parent process draws a plan of scenarios from r.Rng and has it executed by CHILD
// processes (re-exec of os.Args[0] with VCHECK_C18_CHILD set): a fatal panic on a library
// goroutine or a deadlock then costs one scenario, not the run.  A child that dies is
// restarted after the scenario it died in.

// outcome classes
const (
	clsOK    = 0
	clsErr   = 1
	clsPanic = 2
	clsHang  = 3
)

var clsName = []string{"ok", "error", "panic", "hang"}

// moments of Close (CClose.when)
const (
	whenIdle         = 0
	whenAfterAppend  = 1 // a local write is parked between log append and cache write
	whenAfterPersist = 2 // a local write is parked between cache write and index update
	whenAfterDequeue = 3 // replication workers parked after taking an item
	whenBeforeDone   = 4 // replication workers parked after fetching, before bookkeeping
	whenMidLoad      = 5 // Load parked in its first block fetch
	whenInstance     = 6 // instance Close with several databases
	whenLegacySub    = 7 // idle store with a legacy Subscribe(ctx) whose ctx stays live
	whenAfterOps     = 8 // after the whole API was exercised on the closed store
	whenDropped      = 9 // after Drop
	whenRealNet      = 10
	whenMidFetch     = 11 // a replication worker is inside a block fetch that then SUCCEEDS (as kubo does for a block it finds locally, whatever the context)
	// 12..15: replication workers inside a block fetch that NEVER completes (a block nobody
	// provides: the fetch only ends with its context), by the route that fed the replicator
	whenStuckSync      = 12 // Sync (what the topic listener and the direct-channel monitor call)
	whenStuckLoadMore  = 13 // LoadMoreFrom, still running on its caller's goroutine
	whenStuckSnapshot  = 14 // the saved queue of LoadFromSnapshot
	whenStuckAncestors = 15 // the missing ancestors an unlimited Load hands to the replicator
	whenDropStuck      = 16 // right after Drop (instance still open), LoadMoreFrom in flight or idle
	whenInstanceStuck  = 17 // instance Close, databases of mixed configurations, fetches in flight
	whenLoadStuck      = 18 // Load itself inside a block fetch that never completes
	whenSnapStuck      = 19 // LoadFromSnapshot inside a fetch of the snapshot file that never completes
)

// operations invoked on a closed store (CAfterClose.op); numbers are shared with Model/Lifecycle.v
const (
	opAdd = 1 + iota
	opLogGet
	opLogList
	opKvPut
	opKvDelete
	opKvGet
	opKvAll
	opDocPut
	opDocDelete
	opDocGet
	opDocQuery
	opDocPutBatch
	opDocPutAll
	opLoad
	opSync
	opLoadFromSnapshot
	opLoadMoreFrom
	opAccessors
	opClose
	opDrop
	opLegacyEmit
	opLegacySubscribe
	// 23..: after Drop
	opAddAfterDrop
	opLoadAfterDrop
	opCloseAfterDrop
	opDropAfterDrop
	// 27..: instance closed
	opInstClose
	opInstOpen
	opInstCreate
	opStoreWriteInstClosed
	opStoreReadInstClosed
	// 32..: operations in flight when Close ran
	opInflightAppend  // write parked after append: Close, then released
	opInflightPersist // write parked after cache write
	opInflightLoad    // Load parked in a fetch
	opInflightDropWrite
	opDropStale             // Drop through a closed handle after the database was opened again on the instance
	opInflightLoadMoreFrom  // LoadMoreFrom running, its workers in a fetch that never completes, when Close/Drop ran
	opInflightLoadStuck     // Load in a fetch that never completes when Close ran
	opInflightSnapshotStuck // LoadFromSnapshot in a fetch that never completes when Close ran
)

var opNames = map[int]string{
	opAdd: "eventlog.Add", opLogGet: "eventlog.Get", opLogList: "eventlog.List", opKvPut: "kv.Put", opKvDelete: "kv.Delete",
	opKvGet: "kv.Get", opKvAll: "kv.All", opDocPut: "docs.Put", opDocDelete: "docs.Delete", opDocGet: "docs.Get", opDocQuery: "docs.Query",
	opDocPutBatch: "docs.PutBatch", opDocPutAll: "docs.PutAll", opLoad: "Load", opSync: "Sync", opLoadFromSnapshot: "LoadFromSnapshot",
	opLoadMoreFrom: "LoadMoreFrom", opAccessors: "accessors", opClose: "Close", opDrop: "Drop", opLegacyEmit: "legacy.Emit",
	opLegacySubscribe: "legacy.Subscribe", opAddAfterDrop: "write after Drop", opLoadAfterDrop: "Load after Drop",
	opCloseAfterDrop: "Close after Drop", opDropAfterDrop: "Drop after Drop", opInstClose: "instance.Close (again)",
	opInstOpen: "instance.Open after instance.Close", opInstCreate: "instance.Create after instance.Close",
	opStoreWriteInstClosed: "store write after instance.Close", opStoreReadInstClosed: "store read after instance.Close",
	opInflightAppend: "write in flight (after append) during Close", opInflightPersist: "write in flight (after cache write) during Close",
	opInflightLoad: "Load in flight during Close", opInflightDropWrite: "write in flight (after cache write) during Drop",
	opDropStale:             "Drop (stale handle, database open again)",
	opInflightLoadMoreFrom:  "LoadMoreFrom in flight (fetch that never completes) during Close/Drop",
	opInflightLoadStuck:     "Load in a fetch that never completes during Close",
	opInflightSnapshotStuck: "LoadFromSnapshot in a fetch that never completes during Close",
}

// creation sites inside go-orbit-db (CClose.leaked_sites); numbers are shared with Model/Lifecycle.v
var siteTable = []struct {
	suffix string
	n      int
}{
	{"stores/basestore.(*BaseStore).InitBaseStore", 1},
	{"stores/basestore.(*BaseStore).storeListener", 2},
	{"stores/basestore.(*BaseStore).storeListener.func1", 3},
	{"stores/basestore.(*BaseStore).pubSubChanListener", 4},
	{"stores/basestore.(*BaseStore).pubSubChanListener.func1", 5},
	{"stores/basestore.(*BaseStore).Load", 6},
	{"stores/basestore.(*BaseStore).Sync", 7},
	{"stores/replicator.(*replicator).rootContextWithCancel", 8},
	{"stores/replicator.(*replicator).Load", 9},
	{"stores/replicator.(*replicator).processItems", 10},
	{"stores/replicator.(*replicator).processHash", 11},
	{"events.(*EventEmitter).handleSubscriber", 12},
	{"baseorbitdb.(*orbitDB).monitorDirectChannel", 13},
	{"pubsub/pubsubcoreapi.(*psTopic).WatchPeers", 14},
	{"pubsub/pubsubcoreapi.(*psTopic).WatchMessages", 15},
	{"pubsub/oneonone.(*channels).Connect", 16},
	{"stores/basestore.(*BaseStore).pubSubChanListener.func2", 17},
	{"stores/basestore.(*BaseStore).LoadFromSnapshot", 18},
}

const orbitPrefix = "berty.tech/go-orbit-db/"

func siteNum(site string) int {
	s := strings.TrimPrefix(site, orbitPrefix)
	for _, e := range siteTable {
		if e.suffix == s {
			return e.n
		}
	}
	return 99
}

// ---- goroutine accounting ----

type gor struct {
	ID    int
	State string
	Top   string
	Site  string // creating function ("" for main/unknown)
	Stack string
}

var reGoHeader = regexp.MustCompile(`^goroutine (\d+) \[([^\]]*)\]:`)

// goroutines parses runtime.Stack(all).
func goroutines() []gor {
	buf := make([]byte, 1<<20)
	for {
		n := runtime.Stack(buf, true)
		if n < len(buf) {
			buf = buf[:n]
			break
		}
		buf = make([]byte, 2*len(buf))
	}
	var out []gor
	for _, blk := range strings.Split(string(buf), "\n\n") {
		lines := strings.Split(strings.TrimSpace(blk), "\n")
		if len(lines) == 0 {
			continue
		}
		m := reGoHeader.FindStringSubmatch(lines[0])
		if m == nil {
			continue
		}
		id, _ := strconv.Atoi(m[1])
		g := gor{ID: id, State: m[2], Stack: blk}
		if len(lines) > 1 {
			g.Top = lines[1]
		}
		for _, l := range lines {
			if strings.HasPrefix(l, "created by ") {
				s := strings.TrimPrefix(l, "created by ")
				if i := strings.Index(s, " in goroutine"); i >= 0 {
					s = s[:i]
				}
				g.Site = s
			}
		}
		out = append(out, g)
	}
	return out
}

func goroutineIDs() map[int]bool {
	m := map[int]bool{}
	for _, g := range goroutines() {
		m[g.ID] = true
	}
	return m
}

// newOrbitGoroutines: goroutines that did not exist at `before` and were created at a
// go-orbit-db creation site.
func newOrbitGoroutines(before map[int]bool) []gor {
	var out []gor
	for _, g := range goroutines() {
		if !before[g.ID] && strings.HasPrefix(g.Site, orbitPrefix) {
			out = append(out, g)
		}
	}
	return out
}

// settleLeaks polls until no new go-orbit-db goroutine is left or the budget is used up
// (goroutine exit is asynchronous).  Returns what is still there.
func settleLeaks(before map[int]bool, budget time.Duration) []gor {
	deadline := time.Now().Add(budget)
	for {
		l := newOrbitGoroutines(before)
		if len(l) == 0 || time.Now().After(deadline) {
			return l
		}
		time.Sleep(15 * time.Millisecond)
	}
}

const leakBudget = 3 * time.Second

func leakStacks(l []gor) []string {
	var out []string
	for _, g := range l {
		var fr []string
		for _, ln := range strings.Split(g.Stack, "\n") {
			if !strings.HasPrefix(ln, "\t") && !strings.HasPrefix(ln, "goroutine ") {
				if i := strings.LastIndex(ln, "("); i > 0 {
					ln = ln[:i]
				}
				fr = append(fr, ln)
			}
		}
		out = append(out, strings.Join(fr, " < "))
	}
	sort.Strings(out)
	return out
}

func leakSites(l []gor) (nums []int, names []string) {
	for _, g := range l {
		nums = append(nums, siteNum(g.Site))
		names = append(names, strings.TrimPrefix(g.Site, orbitPrefix)+" ["+g.State+"] "+g.Top)
	}
	sort.Ints(nums)
	// the Coq case carries the SET of creation sites (how many goroutines of a site are left
	// depends on the number of heads/items in flight); the description keeps every goroutine
	var uniq []int
	for i, n := range nums {
		if i == 0 || n != nums[i-1] {
			uniq = append(uniq, n)
		}
	}
	nums = uniq
	sort.Strings(names)
	return
}

// ---- guarded calls ----

const opWatchdog = 5 * time.Second

// callClass runs f on its own goroutine behind recover and a watchdog.
func callClass(d time.Duration, f func() error) (int, string) {
	type res struct {
		cls int
		msg string
	}
	ch := make(chan res, 1)
	go func() {
		defer func() {
			if p := recover(); p != nil {
				ch <- res{clsPanic, fmt.Sprint(p)}
			}
		}()
		if err := f(); err != nil {
			ch <- res{clsErr, err.Error()}
			return
		}
		ch <- res{clsOK, ""}
	}()
	select {
	case r := <-ch:
		return r.cls, r.msg
	case <-time.After(d):
		return clsHang, "watchdog " + d.String()
	}
}

// closeMany calls f `times` times, sequentially or concurrently (released together).
func closeMany(times int, concurrent bool, f func() error) (classes []int, msgs []string) {
	classes = make([]int, times)
	msgs = make([]string, times)
	if !concurrent {
		for i := 0; i < times; i++ {
			classes[i], msgs[i] = callClass(10*time.Second, f)
		}
		return
	}
	var wg sync.WaitGroup
	start := make(chan struct{})
	for i := 0; i < times; i++ {
		wg.Add(1)
		go func(i int) {
			defer wg.Done()
			<-start
			classes[i], msgs[i] = callClass(10*time.Second, f)
		}(i)
	}
	close(start)
	wg.Wait()
	sort.Ints(classes) // which goroutine got which answer is schedule noise
	return
}

// ---- plan / results ----

type c18Spec struct {
	ID         int    `json:"id"`
	Kind       string `json:"kind"` // close | iclose | drop | alias | afterclose | legacy | realnet
	Type       string `json:"type"`
	When       int    `json:"when"`
	Times      int    `json:"times"`
	Concurrent bool   `json:"concurrent"`
	Writes     int    `json:"writes"`
	Remote     int    `json:"remote"`
	NDB        int    `json:"ndb"`
	Variant    string `json:"variant"`
	Seed       int64  `json:"seed"`
	// configuration of the store under test (zero values = the defaults the driver always used)
	NoRepl  bool     `json:"norepl,omitempty"`  // CreateDBOptions.Replicate = false
	Mem     bool     `json:"mem,omitempty"`     // the instance's directory is ":memory:"
	MaxHist int      `json:"maxhist,omitempty"` // NewStoreOptions.MaxHistory (0 = unset), see withMaxHistory
	Opener  string   `json:"opener,omitempty"`  // "" = opened from its address by a second instance | "creator"
	Prep    string   `json:"prep,omitempty"`    // "" = written to, never loaded | "never" = opened, nothing else | "load" = Load before the writes
	Feed    string   `json:"feed,omitempty"`    // stuck: sync | direct | loadmore | loadmore-stub | snapshot | ancestors | load | snapfile
	Cfgs    []c18Cfg `json:"cfgs,omitempty"`    // iclose: configuration of every database
	// CreateDBOptions.Directory names a directory other than the instance's (altDir); cycle: the
	// database is opened the first time through Create (ViaCreate) and then Cycles times closed and
	// reopened from its address on the same instance
	CustomDir bool `json:"customdir,omitempty"`
	ViaCreate bool `json:"via_create,omitempty"`
	Cycles    int  `json:"cycles,omitempty"`
	// drop / sameroot: three databases share one manifest root R: "parent" /orbitdb/R/<name>
	// (created), "deep" /orbitdb/R/archive/<name> and "child" /orbitdb/R/<name>/sub (both opened by
	// hand-made address).  Shape names the one that is dropped (drop) or closed (sameroot).
	Shape string `json:"shape,omitempty"`
}

// c18Cfg mirrors Lifecycle.config.
type c18Cfg struct {
	Repl      bool `json:"replicate"`
	Mem       bool `json:"memory"`
	Limited   bool `json:"limited"`
	CustomDir bool `json:"customdir,omitempty"`
}

func (c c18Cfg) coq() string {
	return fmt.Sprintf("(mkCfg %s %s %s %s)", sim.CoqBool(c.Repl), sim.CoqBool(c.Mem), sim.CoqBool(c.Limited), sim.CoqBool(c.CustomDir))
}

func (sp c18Spec) cfg() c18Cfg {
	return c18Cfg{Repl: !sp.NoRepl, Mem: sp.Mem, Limited: sp.MaxHist > 0, CustomDir: sp.CustomDir}
}

// altDir: the directory given as CreateDBOptions.Directory to the databases of instance A that
// are opened with a custom directory (one per instance: the cache a lookup opens below it stays
// open, and locked, until the instance is closed).  Always on disk, also for an instance in memory.
func altDir(A *sim.Replica) string {
	return filepath.Join(A.Env.Work, fmt.Sprintf("alt-%s-%d", A.Label, A.Idx))
}

// on: the options of configuration c for a database of instance A (the Directory option needs
// the instance)
func (c c18Cfg) on(A *sim.Replica, o *orbitdb.CreateDBOptions) *orbitdb.CreateDBOptions {
	if c.CustomDir {
		d := altDir(A)
		o.Directory = &d
	}
	return o
}

func coqCfgs(cs []c18Cfg) string {
	var ts []string
	for _, c := range cs {
		ts = append(ts, c.coq())
	}
	return sim.CoqList(ts)
}

// dbOpts: the CreateDBOptions of a configuration (a fresh value for every call: Open stores
// defaults into it).
func (c c18Cfg) dbOpts(maxHist int, ac *accesscontroller.CreateAccessControllerOptions) *orbitdb.CreateDBOptions {
	o := &orbitdb.CreateDBOptions{}
	if ac != nil {
		o.AccessController = ac
	}
	if !c.Repl {
		f := false
		o.Replicate = &f
	}
	return o
}

// withMaxHistory runs open() with the store constructors of the instance wrapped so that the
// store is built with NewStoreOptions.MaxHistory = k.  (CreateDBOptions has no such field: a
// registered store type is the way the public API offers to get the option onto a store that
// the instance manages, i.e. one with the instance's cache, CacheDestroy and CloseFunc.)
func withMaxHistory(odb orbitdb.OrbitDB, k int, open func() (iface.Store, error)) (iface.Store, error) {
	if k <= 0 {
		return open()
	}
	plain := map[string]iface.StoreConstructor{
		"eventlog": eventlogstore.NewOrbitDBEventLogStore,
		"keyvalue": kvstore.NewOrbitDBKeyValue,
		"docstore": documentstore.NewOrbitDBDocumentStore,
	}
	for t, c := range plain {
		c := c
		odb.RegisterStoreType(t, func(ipfs coreiface.CoreAPI, id *identityprovider.Identity, addr address.Address, o *iface.NewStoreOptions) (iface.Store, error) {
			kk := k
			o.MaxHistory = &kk
			return c(ipfs, id, addr, o)
		})
	}
	defer func() {
		for t, c := range plain {
			odb.RegisterStoreType(t, c)
		}
	}()
	return open()
}

func (sp c18Spec) dbOpts(ac *accesscontroller.CreateAccessControllerOptions) *orbitdb.CreateDBOptions {
	return sp.cfg().dbOpts(sp.MaxHist, ac)
}

const memDir = ":memory:"

// memReplica replaces (or creates) replica idx by an instance whose directory is ":memory:".
func memReplica(env *sim.Env, idx int, label string) (*sim.Replica, error) {
	return env.NewReplicaOpts(idx, label, memDir, sim.PeerIDFor(label, idx), nil)
}

// memDirOnDisk: an instance on ":memory:" must leave nothing on disk; the name is only a
// table key (and would be a directory relative to the working directory if it ever got used)
func memDirOnDisk() bool {
	_, err := os.Stat(memDir)
	return err == nil
}

type c18Case struct {
	Coq        string                 `json:"coq"`
	Descr      map[string]interface{} `json:"descr"`
	Nontrivial bool                   `json:"nontrivial"`
}

type c18Direct struct {
	Sig  string                 `json:"sig"`
	What string                 `json:"what"`
	Case map[string]interface{} `json:"case"`
}

type c18Result struct {
	ID     int         `json:"id"`
	Cases  []c18Case   `json:"cases"`
	Direct []c18Direct `json:"direct"`
	Counts []string    `json:"counts"`
	Notes  []string    `json:"notes"`
	Err    string      `json:"err"`
	WallMs int64       `json:"wall_ms"`
}

func (o *c18Result) add(coq string, descr map[string]interface{}, nontrivial bool) {
	o.Cases = append(o.Cases, c18Case{coq, descr, nontrivial})
}
func (o *c18Result) count(k string) { o.Counts = append(o.Counts, k) }

func c18Plan(r *Run) []c18Spec {
	types := []string{"eventlog", "keyvalue", "docstore"}
	var plan []c18Spec
	add := func(s c18Spec) {
		s.ID = len(plan)
		s.Seed = r.Rng.Int63()
		plan = append(plan, s)
	}
	reps := 1
	if r.Tier == "thorough" {
		reps = 6
	}
	closeWhens := []int{whenIdle, whenAfterAppend, whenAfterPersist, whenAfterDequeue, whenBeforeDone, whenMidLoad, whenMidFetch}
	needsRemote := func(w int) bool { return w == whenAfterDequeue || w == whenBeforeDone || w == whenMidFetch }
	// a random configuration for a store-level scenario at moment w (not every moment can be
	// scripted in every configuration: a Load from the cache needs a cache that outlives its
	// first handle, the lenient block API of moment 11 is built on an on-disk instance)
	randomCfg := func(s *c18Spec, w int) {
		s.NoRepl = r.Rng.Intn(5) < 2
		if w != whenMidLoad && w != whenMidFetch {
			s.Mem = r.Rng.Intn(5) == 0
		}
		if r.Rng.Intn(4) == 0 {
			s.MaxHist = 1 + r.Rng.Intn(3)
		}
		if r.Rng.Intn(3) == 0 {
			s.Opener = "creator"
		}
		s.CustomDir = r.Rng.Intn(5) == 0
		switch r.Rng.Intn(6) {
		case 0:
			if w == whenIdle {
				s.Prep = "never"
			}
		case 1, 2:
			if !s.Mem || s.Opener == "" {
				s.Prep = "load"
			}
		}
	}
	for rep := 0; rep < reps; rep++ {
		// store Close at every moment x (once | twice | concurrently), default configuration; the
		// three modes rotate through the three store types, so that every type is closed at the
		// moments where the type matters (a write in flight)
		for wi, when := range closeWhens {
			for mode := 0; mode < 3; mode++ {
				s := c18Spec{Kind: "close", When: when, Type: types[(mode+wi+rep)%3], Writes: 1 + r.Rng.Intn(4), Remote: r.Rng.Intn(3)}
				switch mode {
				case 0:
					s.Times = 1
				case 1:
					s.Times = 2 + r.Rng.Intn(2)
				case 2:
					s.Times, s.Concurrent = 2+r.Rng.Intn(3), true
				}
				if needsRemote(when) {
					s.Remote = 1 + r.Rng.Intn(3)
				}
				add(s)
			}
		}
		// the same moments on a store opened with Replicate = false; every store type with a write in flight
		for wi, when := range closeWhens {
			n := 1
			if when == whenAfterAppend || when == whenAfterPersist {
				n = 3
			}
			for k := 0; k < n; k++ {
				s := c18Spec{Kind: "close", When: when, Type: types[(k+wi+rep)%3], Writes: 1 + r.Rng.Intn(4), Remote: r.Rng.Intn(3), NoRepl: true, Times: 1 + r.Rng.Intn(3)}
				s.Concurrent = s.Times > 1 && r.Rng.Intn(2) == 0
				if needsRemote(when) {
					s.Remote = 1 + r.Rng.Intn(3)
				}
				add(s)
			}
		}
		// an instance on ":memory:"
		for wi, when := range []int{whenIdle, whenAfterAppend, whenAfterPersist, whenAfterDequeue} {
			s := c18Spec{Kind: "close", When: when, Type: types[(wi+rep)%3], Writes: 1 + r.Rng.Intn(4), Remote: 1 + r.Rng.Intn(2), Mem: true, NoRepl: r.Rng.Intn(2) == 0, Times: 1 + r.Rng.Intn(2)}
			add(s)
		}
		// opened by its creator; opened and never touched; MaxHistory
		for _, when := range []int{whenIdle, whenAfterDequeue, whenMidLoad} {
			add(c18Spec{Kind: "close", When: when, Type: types[r.Rng.Intn(3)], Writes: 1 + r.Rng.Intn(4), Remote: 1 + r.Rng.Intn(2), Opener: "creator", NoRepl: r.Rng.Intn(2) == 0, Prep: []string{"", "load"}[r.Rng.Intn(2)], Times: 1})
		}
		add(c18Spec{Kind: "close", When: whenIdle, Type: types[r.Rng.Intn(3)], Prep: "never", Times: 1})
		add(c18Spec{Kind: "close", When: whenIdle, Type: types[r.Rng.Intn(3)], Prep: "never", NoRepl: true, Times: 2})
		add(c18Spec{Kind: "close", When: whenIdle, Type: types[r.Rng.Intn(3)], Prep: "never", Mem: true, Opener: "creator", Times: 1})
		add(c18Spec{Kind: "close", When: whenIdle, Type: types[r.Rng.Intn(3)], Writes: 2 + r.Rng.Intn(4), Remote: 1, MaxHist: 1 + r.Rng.Intn(2), Prep: "load", Opener: "creator", Times: 1})
		add(c18Spec{Kind: "close", When: whenMidLoad, Type: types[r.Rng.Intn(3)], Writes: 2 + r.Rng.Intn(4), Remote: 1, MaxHist: 1 + r.Rng.Intn(2), NoRepl: r.Rng.Intn(2) == 0, Times: 1})
		// a Directory option other than the instance's directory: idle, a write in flight, replication
		// in flight, mid-load (which closes and reopens the store first); on disk and in memory;
		// opened from the address by a second instance, or created with the option by its creator
		add(c18Spec{Kind: "close", When: whenIdle, Type: types[r.Rng.Intn(3)], Writes: 1 + r.Rng.Intn(4), CustomDir: true, NoRepl: r.Rng.Intn(2) == 0, Times: 1 + r.Rng.Intn(2)})
		add(c18Spec{Kind: "close", When: whenAfterPersist, Type: types[r.Rng.Intn(3)], Writes: 1 + r.Rng.Intn(4), CustomDir: true, Opener: "creator", Times: 1})
		add(c18Spec{Kind: "close", When: whenAfterDequeue, Type: types[r.Rng.Intn(3)], Writes: 1 + r.Rng.Intn(4), Remote: 1 + r.Rng.Intn(2), CustomDir: true, Mem: true, Times: 1})
		add(c18Spec{Kind: "close", When: whenMidLoad, Type: types[r.Rng.Intn(3)], Writes: 1 + r.Rng.Intn(4), Remote: r.Rng.Intn(2), CustomDir: true, Opener: []string{"", "creator"}[r.Rng.Intn(2)], Times: 1})
		// ... closed and reopened on the same instance several times (each incarnation loads, writes
		// and is closed), then reopened by a fresh instance; the control without the option
		add(c18Spec{Kind: "cycle", Type: types[r.Rng.Intn(3)], CustomDir: true, ViaCreate: false, Cycles: 3})
		add(c18Spec{Kind: "cycle", Type: types[r.Rng.Intn(3)], CustomDir: true, ViaCreate: true, Cycles: 3, NoRepl: r.Rng.Intn(2) == 0})
		add(c18Spec{Kind: "cycle", Type: types[r.Rng.Intn(3)], CustomDir: true, ViaCreate: r.Rng.Intn(2) == 0, Cycles: 2 + r.Rng.Intn(2), Mem: true})
		add(c18Spec{Kind: "cycle", Type: types[r.Rng.Intn(3)], ViaCreate: r.Rng.Intn(2) == 0, Cycles: 2 + r.Rng.Intn(2), NoRepl: r.Rng.Intn(2) == 0, Mem: r.Rng.Intn(4) == 0})
		add(c18Spec{Kind: "cycle", Type: types[r.Rng.Intn(3)], CustomDir: r.Rng.Intn(2) == 0, ViaCreate: r.Rng.Intn(2) == 0, Cycles: 1 + r.Rng.Intn(4), NoRepl: r.Rng.Intn(2) == 0, Mem: r.Rng.Intn(3) == 0})
		// Load parked in a fetch that succeeds after Close (block API that ignores cancellation for local blocks)
		add(c18Spec{Kind: "close", When: whenMidLoad, Variant: "lenient", Type: types[r.Rng.Intn(3)], Writes: 1 + r.Rng.Intn(4), Remote: r.Rng.Intn(3), Times: 1})
		add(c18Spec{Kind: "close", When: whenMidLoad, Variant: "lenient", Type: types[r.Rng.Intn(3)], Writes: 1 + r.Rng.Intn(4), Remote: r.Rng.Intn(3), NoRepl: true, Times: 1 + r.Rng.Intn(3)})
		// random extra close scenarios, random configuration
		for i := 0; i < 20; i++ {
			s := c18Spec{Kind: "close", When: closeWhens[r.Rng.Intn(7)], Type: types[r.Rng.Intn(3)], Writes: 1 + r.Rng.Intn(6), Remote: r.Rng.Intn(4),
				Times: 1 + r.Rng.Intn(4)}
			s.Concurrent = s.Times > 1 && r.Rng.Intn(2) == 0
			if needsRemote(s.When) {
				s.Remote = 1 + r.Rng.Intn(3)
			}
			randomCfg(&s, s.When)
			add(s)
		}
		// Close while a block fetch never completes: every route into the replicator, on a
		// replicating and on a non-replicating store
		feeds := []struct {
			feed string
			when int
		}{{"sync", whenStuckSync}, {"direct", whenStuckSync}, {"loadmore", whenStuckLoadMore}, {"loadmore-stub", whenStuckLoadMore}, {"snapshot", whenStuckSnapshot}, {"ancestors", whenStuckAncestors}}
		for fi, f := range feeds {
			for _, norepl := range []bool{false, true} {
				s := c18Spec{Kind: "stuck", Feed: f.feed, When: f.when, Type: types[(fi+rep)%3], Writes: 1 + r.Rng.Intn(3), Remote: 1 + r.Rng.Intn(3), NoRepl: norepl, Times: 1 + r.Rng.Intn(3)}
				s.Concurrent = s.Times > 1 && r.Rng.Intn(2) == 0
				if r.Rng.Intn(3) == 0 {
					s.Opener = "creator"
				}
				if f.feed != "ancestors" && r.Rng.Intn(4) == 0 {
					s.MaxHist = 1 + r.Rng.Intn(2)
				}
				add(s)
			}
		}
		add(c18Spec{Kind: "stuck", Feed: "sync", When: whenStuckSync, Type: types[r.Rng.Intn(3)], Writes: 1 + r.Rng.Intn(3), Remote: 1 + r.Rng.Intn(3), Mem: true, NoRepl: r.Rng.Intn(2) == 0, Times: 1})
		add(c18Spec{Kind: "stuck", Feed: "loadmore", When: whenStuckLoadMore, Type: types[r.Rng.Intn(3)], Writes: 1 + r.Rng.Intn(3), Remote: 1 + r.Rng.Intn(3), Mem: true, NoRepl: r.Rng.Intn(2) == 0, Opener: "creator", Times: 2})
		add(c18Spec{Kind: "stuck", Feed: "loadmore-stub", When: whenStuckLoadMore, Type: types[r.Rng.Intn(3)], Prep: "never", NoRepl: true, Times: 1})
		// Load / LoadFromSnapshot themselves waiting for the block
		add(c18Spec{Kind: "stuck", Feed: "load", When: whenLoadStuck, Type: types[r.Rng.Intn(3)], Writes: 1 + r.Rng.Intn(3), Remote: 2 + r.Rng.Intn(2), NoRepl: r.Rng.Intn(2) == 0, Times: 1})
		add(c18Spec{Kind: "stuck", Feed: "snapfile", When: whenSnapStuck, Type: types[r.Rng.Intn(3)], Writes: 1 + r.Rng.Intn(3), NoRepl: r.Rng.Intn(2) == 0, Times: 1})
		// instance Close with several databases of mixed configurations
		icfgs := func(n int, mem bool) []c18Cfg {
			var cs []c18Cfg
			for k := 0; k < n; k++ {
				cs = append(cs, c18Cfg{Repl: r.Rng.Intn(2) == 0, Mem: mem, Limited: r.Rng.Intn(4) == 0, CustomDir: r.Rng.Intn(4) == 0})
			}
			return cs
		}
		for i := 0; i < 10; i++ {
			s := c18Spec{Kind: "iclose", When: whenInstance, NDB: 2 + r.Rng.Intn(3), Writes: 1 + r.Rng.Intn(4), Times: 1 + r.Rng.Intn(3)}
			s.Concurrent = s.Times > 1 && r.Rng.Intn(2) == 0
			s.Variant = []string{"idle", "idle", "midwrite", "storeclosed"}[r.Rng.Intn(4)]
			s.Mem = i >= 8
			s.Cfgs = icfgs(s.NDB, s.Mem)
			if i == 0 {
				// all defaults, as the driver always did
				for k := range s.Cfgs {
					s.Cfgs[k] = c18Cfg{Repl: true}
				}
			}
			add(s)
		}
		{
			// three databases with the default configuration created with one options value, the
			// last one closed before the instance
			s := c18Spec{Kind: "iclose", When: whenInstance, NDB: 3, Writes: 2, Times: 1, Variant: "storeclosed"}
			s.Cfgs = []c18Cfg{{Repl: true}, {Repl: true}, {Repl: true}}
			add(s)
		}
		for i := 0; i < 3; i++ {
			s := c18Spec{Kind: "iclose", When: whenInstanceStuck, Variant: "stuckfetch", NDB: 2 + r.Rng.Intn(2), Writes: 1 + r.Rng.Intn(3), Times: 1 + r.Rng.Intn(2), Mem: i == 2}
			s.Cfgs = icfgs(s.NDB, s.Mem)
			s.Cfgs[0].Repl = i == 0 // at least one non-replicating database in two of the three
			add(s)
		}
		// Drop with siblings
		for i, v := range []string{"open", "closed", "twice", "midwrite", "stale", "open", "closed", "twice", "stale"} {
			s := c18Spec{Kind: "drop", Variant: v, Type: types[r.Rng.Intn(3)], Writes: 1 + r.Rng.Intn(4), NDB: 2 + r.Rng.Intn(2)}
			if i >= 5 {
				s.NoRepl = r.Rng.Intn(2) == 0
				s.Mem = r.Rng.Intn(3) == 0
				if r.Rng.Intn(4) == 0 {
					s.MaxHist = 2
				}
			}
			add(s)
		}
		add(c18Spec{Kind: "drop", Variant: "stuckfetch", Type: types[r.Rng.Intn(3)], Writes: 1 + r.Rng.Intn(4), NDB: 2})
		add(c18Spec{Kind: "drop", Variant: "stuckfetch", Type: types[r.Rng.Intn(3)], Writes: 1 + r.Rng.Intn(4), NDB: 2, NoRepl: true})
		add(c18Spec{Kind: "drop", Variant: "stuckfetch", Type: types[r.Rng.Intn(3)], Writes: 1 + r.Rng.Intn(4), NDB: 2, NoRepl: r.Rng.Intn(2) == 0, Mem: true})
		add(c18Spec{Kind: "drop", Variant: "open", Type: types[r.Rng.Intn(3)], Prep: "never", NDB: 2, NoRepl: r.Rng.Intn(2) == 0})
		add(c18Spec{Kind: "drop", Variant: []string{"open", "closed", "twice", "stale"}[r.Rng.Intn(4)], Type: types[r.Rng.Intn(3)], Writes: 1 + r.Rng.Intn(4), NDB: 2, Mem: true})
		// Drop of a database opened with a Directory option other than the instance's directory
		// (every second sibling has the same option; foreign files in both directories)
		for i, v := range []string{"open", "closed", "twice"} {
			add(c18Spec{Kind: "drop", Variant: []string{"open", "closed", "twice", "stale"}[(i+rep)%4], Type: types[r.Rng.Intn(3)], Writes: 1 + r.Rng.Intn(4), NDB: 2 + r.Rng.Intn(2), CustomDir: true, NoRepl: i == 1, Mem: v == "twice"})
		}
		// databases that share a manifest root: Drop of the parent, the deep one, the child ...
		for i, shape := range []string{"parent", "deep", "child"} {
			add(c18Spec{Kind: "drop", Variant: []string{"open", "closed", "twice"}[(i+rep)%3], Shape: shape, Type: types[r.Rng.Intn(3)], Writes: 1 + r.Rng.Intn(3), NDB: 1, NoRepl: r.Rng.Intn(3) == 0})
		}
		add(c18Spec{Kind: "drop", Variant: "open", Shape: "parent", Type: types[r.Rng.Intn(3)], Writes: 1 + r.Rng.Intn(3), NDB: 1, Mem: true})
		// ... and Close of one of them, the others written to afterwards, everything reopened
		for i, shape := range []string{"parent", "deep", "child"} {
			s := c18Spec{Kind: "sameroot", Shape: shape, Type: types[(i+rep)%3], Writes: 1 + r.Rng.Intn(3)}
			s.Cfgs = icfgs(3, false)
			for k := range s.Cfgs {
				s.Cfgs[k].Limited = false
			}
			add(s)
		}
		add(c18Spec{Kind: "sameroot", Shape: []string{"parent", "deep", "child"}[r.Rng.Intn(3)], Type: types[r.Rng.Intn(3)], Writes: 1 + r.Rng.Intn(3), Mem: true, Cfgs: []c18Cfg{{Repl: true, Mem: true}, {Repl: false, Mem: true}, {Repl: true, Mem: true}}})
		// an address whose path climbs out of its root
		add(c18Spec{Kind: "alias", Variant: "victim-open", Type: types[r.Rng.Intn(3)], Writes: 1 + r.Rng.Intn(3)})
		add(c18Spec{Kind: "alias", Variant: "victim-closed", Type: types[r.Rng.Intn(3)], Writes: 1 + r.Rng.Intn(3)})
		add(c18Spec{Kind: "alias", Variant: "harmless", Type: types[r.Rng.Intn(3)], Writes: 1 + r.Rng.Intn(3)})
		// every API operation on a closed store
		for _, t := range types {
			add(c18Spec{Kind: "afterclose", Type: t, Variant: "store", Writes: 1 + r.Rng.Intn(3), Remote: 1 + r.Rng.Intn(2)})
			add(c18Spec{Kind: "afterclose", Type: t, Variant: "instance", Writes: 1 + r.Rng.Intn(3)})
			add(c18Spec{Kind: "afterclose", Type: t, Variant: "store", Writes: 1 + r.Rng.Intn(3), Remote: 1 + r.Rng.Intn(2), NoRepl: true, Opener: []string{"", "creator"}[r.Rng.Intn(2)]})
		}
		add(c18Spec{Kind: "afterclose", Type: types[r.Rng.Intn(3)], Variant: "store", Writes: 1 + r.Rng.Intn(3), Remote: 1, Mem: true, NoRepl: r.Rng.Intn(2) == 0})
		add(c18Spec{Kind: "afterclose", Type: types[r.Rng.Intn(3)], Variant: "instance", Writes: 1 + r.Rng.Intn(3), Mem: true, NoRepl: r.Rng.Intn(2) == 0})
		// legacy emitter subscribers
		add(c18Spec{Kind: "legacy", When: whenLegacySub, Type: types[r.Rng.Intn(3)], Writes: 1 + r.Rng.Intn(3), Variant: "ctx-live", Times: 1})
		add(c18Spec{Kind: "legacy", When: whenLegacySub, Type: types[r.Rng.Intn(3)], Writes: 1 + r.Rng.Intn(3), Variant: "ctx-live", Times: 1, NoRepl: true})
		add(c18Spec{Kind: "legacy", When: whenIdle, Type: types[r.Rng.Intn(3)], Writes: 1 + r.Rng.Intn(3), Variant: "ctx-cancelled", Times: 1})
		add(c18Spec{Kind: "legacy", When: whenLegacySub, Type: "eventlog", Writes: 1100, Variant: "stalled", Times: 1})
		// real pubsub adapter and direct channel on a two-node mock network
		add(c18Spec{Kind: "realnet", When: whenRealNet, Type: types[r.Rng.Intn(3)], Writes: 1 + r.Rng.Intn(3), Times: 1})
		// measurements of racy behaviours (counters only)
		add(c18Spec{Kind: "race", NDB: 6})
	}
	return plan
}

func runC18(r *Run) error {
	if p := os.Getenv("VCHECK_C18_CHILD"); p != "" {
		return c18Child(r, p)
	}
	plan := c18Plan(r)
	if r.Replay != "" {
		// replay file: a case description (as stored in cases.json) or a spec
		b, err := os.ReadFile(r.Replay)
		if err != nil {
			return err
		}
		var d struct {
			Spec *c18Spec `json:"spec"`
		}
		if err := json.Unmarshal(b, &d); err != nil || d.Spec == nil {
			return fmt.Errorf("replay file has no \"spec\"")
		}
		d.Spec.ID = 0
		plan = []c18Spec{*d.Spec}
	}
	planPath := filepath.Join(r.Out, "c18_plan.json")
	resPath := filepath.Join(r.Out, "c18_results.jsonl")
	pb, _ := json.Marshal(plan)
	if err := os.WriteFile(planPath, pb, 0o644); err != nil {
		return err
	}
	_ = os.Remove(resPath)
	// scratch directories of the children (a child that dies cannot clean up after itself)
	tmpDir, err := filepath.Abs(filepath.Join(r.Out, "c18_tmp"))
	if err != nil {
		return err
	}
	_ = os.RemoveAll(tmpDir)
	if err := os.MkdirAll(tmpDir, 0o755); err != nil {
		return err
	}
	defer os.RemoveAll(tmpDir)
	results := map[int]*c18Result{}
	start := 0
	for start < len(plan) {
		cmd := exec.Command(os.Args[0], "-prop", "C18", "-seed", fmt.Sprint(r.Seed), "-tier", r.Tier, "-out", r.Out)
		cmd.Env = append(os.Environ(), "VCHECK_C18_CHILD="+planPath, "VCHECK_C18_START="+fmt.Sprint(start), "VCHECK_C18_RESULTS="+resPath, "TMPDIR="+tmpDir)
		var stderr bytes.Buffer
		cmd.Stderr = &stderr
		cmd.Stdout = &stderr
		done := make(chan error, 1)
		if err := cmd.Start(); err != nil {
			return err
		}
		go func() { done <- cmd.Wait() }()
		var werr error
		// the child has its own per-scenario watchdog; this one is the backstop
		select {
		case werr = <-done:
		case <-time.After(time.Duration(len(plan)-start)*40*time.Second + time.Minute):
			_ = cmd.Process.Kill()
			werr = fmt.Errorf("child killed by the backstop watchdog")
			<-done
		}
		// read what the child managed to report
		last := start - 1
		if f, err := os.Open(resPath); err == nil {
			sc := bufio.NewScanner(f)
			sc.Buffer(make([]byte, 1<<20), 1<<26)
			for sc.Scan() {
				var res c18Result
				if json.Unmarshal(sc.Bytes(), &res) == nil {
					cp := res
					results[res.ID] = &cp
					if res.ID > last {
						last = res.ID
					}
				}
			}
			f.Close()
		}
		if last+1 >= len(plan) && werr == nil {
			break
		}
		// the child died in scenario last+1
		died := last + 1
		if died >= len(plan) {
			break
		}
		tail := stderr.String()
		if len(tail) > 6000 {
			tail = tail[:3000] + "\n...\n" + tail[len(tail)-3000:]
		}
		kind := "panic"
		if strings.Contains(tail, "C18 scenario watchdog") || strings.Contains(fmt.Sprint(werr), "backstop") {
			kind = "hang"
		}
		sp := plan[died]
		results[died] = &c18Result{ID: died, Direct: []c18Direct{{
			Sig:  "fatal:" + kind + ":" + sp.Kind,
			What: fmt.Sprintf("child process died (%v) in scenario %d (%s): %s", werr, died, kind, firstLines(tail, 12)),
			Case: map[string]interface{}{"kind": "fatal", "spec": sp, "stderr": tail},
		}}}
		start = died + 1
	}
	if r.Replay == "" {
		if err := c18ConstructorCtxEnded(r); err != nil {
			return err
		}
	}
	// assemble in plan order
	for i := range plan {
		res := results[i]
		if res == nil {
			continue
		}
		if res.Err != "" {
			return fmt.Errorf("scenario %d (%+v): %s", i, plan[i], res.Err)
		}
		for _, c := range res.Cases {
			c.Descr["spec"] = plan[i]
			r.AddCase(c.Coq, c.Descr, c.Nontrivial)
		}
		for _, d := range res.Direct {
			if d.Case == nil {
				d.Case = map[string]interface{}{}
			}
			d.Case["spec"] = plan[i]
			r.AddDirect(d.Sig, d.What, d.Case)
		}
		for _, k := range res.Counts {
			r.Count(k)
		}
		for _, n := range res.Notes {
			r.Notes = append(r.Notes, fmt.Sprintf("scenario %d: %s", i, n))
		}
		r.Count("scenario:" + plan[i].Kind)
		r.Count("scenarios")
	}
	return nil
}

func firstLines(s string, n int) string {
	ls := strings.Split(s, "\n")
	if len(ls) > n {
		ls = ls[:n]
	}
	return strings.Join(ls, " | ")
}

// c18Child executes the plan from VCHECK_C18_START and appends one JSON line per scenario.
func c18Child(r *Run, planPath string) error {
	b, err := os.ReadFile(planPath)
	if err != nil {
		return err
	}
	var plan []c18Spec
	if err := json.Unmarshal(b, &plan); err != nil {
		return err
	}
	start, _ := strconv.Atoi(os.Getenv("VCHECK_C18_START"))
	f, err := os.OpenFile(os.Getenv("VCHECK_C18_RESULTS"), os.O_APPEND|os.O_CREATE|os.O_WRONLY, 0o644)
	if err != nil {
		return err
	}
	for i := start; i < len(plan); i++ {
		sp := plan[i]
		res := &c18Result{ID: sp.ID}
		r.Rng = rand.New(rand.NewSource(sp.Seed))
		t0 := time.Now()
		done := make(chan error, 1)
		go func() {
			defer func() {
				if p := recover(); p != nil {
					buf := make([]byte, 1<<16)
					buf = buf[:runtime.Stack(buf, false)]
					done <- fmt.Errorf("PANIC-IN-DRIVER %v\n%s", p, buf)
				}
			}()
			done <- c18Run(r, sp, res)
		}()
		select {
		case err := <-done:
			if err != nil {
				if strings.HasPrefix(err.Error(), "PANIC-IN-DRIVER") {
					// a panic on the scenario goroutine: report as a finding, not as a harness error
					res.Direct = append(res.Direct, c18Direct{Sig: "fatal:panic:" + sp.Kind, What: err.Error(), Case: map[string]interface{}{"kind": "fatal"}})
				} else {
					res.Err = err.Error()
				}
			}
		case <-time.After(60 * time.Second):
			buf := make([]byte, 1<<20)
			buf = buf[:runtime.Stack(buf, true)]
			fmt.Fprintf(os.Stderr, "C18 scenario watchdog: scenario %d (%+v) did not finish\n%s\n", i, sp, buf)
			os.Exit(4)
		}
		res.WallMs = time.Since(t0).Milliseconds()
		lb, _ := json.Marshal(res)
		if _, err := f.Write(append(lb, '\n')); err != nil {
			return err
		}
		_ = f.Sync()
	}
	f.Close()
	closeEnv()
	os.Exit(0)
	return nil
}

func c18Run(r *Run, sp c18Spec, out *c18Result) error {
	switch sp.Kind {
	case "close":
		return c18Close(r, sp, out)
	case "stuck":
		return c18Stuck(r, sp, out)
	case "iclose":
		return c18InstanceClose(r, sp, out)
	case "drop":
		return c18Drop(r, sp, out)
	case "sameroot":
		return c18SameRoot(r, sp, out)
	case "alias":
		return c18Alias(r, sp, out)
	case "afterclose":
		return c18AfterClose(r, sp, out)
	case "legacy":
		return c18Legacy(r, sp, out)
	case "realnet":
		return c18RealNet(r, sp, out)
	case "race":
		return c18Race(r, sp, out)
	case "cycle":
		return c18Cycle(r, sp, out)
	}
	return fmt.Errorf("unknown scenario kind %q", sp.Kind)
}

// ---- helpers on stores ----

func c18Hashes(st iface.Store) []string {
	return hashesOf(st.OpLog().Values().Slice())
}

func c18IDs(in *sim.Interner, hs []string) []int {
	out := make([]int, len(hs))
	for i, h := range hs {
		out[i] = in.ID(h)
	}
	sort.Ints(out)
	return out
}

func acBoth(reps ...*sim.Replica) *accesscontroller.CreateAccessControllerOptions {
	var w []string
	for _, rp := range reps {
		w = append(w, rp.Orbit.Identity().ID)
	}
	return &accesscontroller.CreateAccessControllerOptions{Access: map[string][]string{"write": w}}
}

func coqCClose(cfgs []c18Cfg, when, times int, concurrent bool, leaked []int, errs []int) string {
	return fmt.Sprintf("(CClose %s %s %s %s %s %s)", coqCfgs(cfgs), sim.CoqN(when), sim.CoqNat(times), sim.CoqBool(concurrent), sim.CoqListN(leaked), sim.CoqListN(errs))
}

// cfgsOf: the configurations a CClose case of this scenario carries
func cfgsOf(sp c18Spec) []c18Cfg {
	if len(sp.Cfgs) > 0 {
		return sp.Cfgs
	}
	return []c18Cfg{sp.cfg()}
}

func (o *c18Result) addClose(sp c18Spec, when, times int, concurrent bool, leaks []gor, classes []int, msgs []string, extra map[string]interface{}) {
	o.addCloseCfg(cfgsOf(sp), when, times, concurrent, leaks, classes, msgs, extra)
}

func (o *c18Result) addCloseCfg(cfgs []c18Cfg, when, times int, concurrent bool, leaks []gor, classes []int, msgs []string, extra map[string]interface{}) {
	nums, names := leakSites(leaks)
	d := map[string]interface{}{"kind": "close", "when": when, "times": times, "concurrent": concurrent, "leaked": names, "close_results": msgs, "configs": cfgs}
	for k, v := range extra {
		d[k] = v
	}
	if len(nums) > 0 {
		var ss []string
		for _, n := range names {
			x := strings.TrimSpace(strings.SplitN(n, " [", 2)[0])
			if len(ss) == 0 || ss[len(ss)-1] != x {
				ss = append(ss, x)
			}
		}
		d["sig"] = "leak:" + strings.Join(ss, "+")
		d["leaked_stacks"] = leakStacks(leaks)
	}
	for _, c := range classes {
		if c != clsOK {
			d["sig"] = "close:" + clsName[c]
			if concurrent {
				d["sig"] = "close:concurrent-" + clsName[c]
			}
		}
	}
	o.add(coqCClose(cfgs, when, times, concurrent, nums, classes), d, true)
	o.count(fmt.Sprintf("close:when=%d", when))
	for _, c := range cfgs {
		o.count(fmt.Sprintf("close:config:replicate=%v,memory=%v,limited=%v,customdir=%v", c.Repl, c.Mem, c.Limited, c.CustomDir))
	}
	if concurrent {
		o.count("close:concurrent")
	} else if times > 1 {
		o.count("close:repeated")
	}
}

func (o *c18Result) addAfter(op, cls int, msg string, extra map[string]interface{}) {
	d := map[string]interface{}{"kind": "afterclose", "op": opNames[op], "outcome": clsName[cls], "message": msg}
	for k, v := range extra {
		d[k] = v
	}
	if cls >= clsPanic {
		d["sig"] = "afterclose:" + clsName[cls] + ":" + opNames[op]
	}
	o.add(fmt.Sprintf("(CAfterClose %s %s)", sim.CoqN(op), sim.CoqN(cls)), d, true)
	o.count("afterclose:" + clsName[cls])
}

// reopenCheck: close the instance, reopen the directory with a fresh instance, Load(-1)
// every database and compare with what was acknowledged.
func (o *c18Result) reopenCheck(env *sim.Env, rep *sim.Replica, label string, dbs []string, acked map[string][]string, in *sim.Interner, why string) (*sim.Replica, error) {
	ctx := context.Background()
	// the configuration that matters for a reopen is where the instance keeps its data
	cfg := c18Cfg{Repl: true, Mem: rep.Dir == memDir}.coq()
	rep2, err := env.NewReplicaOpts(rep.Idx, label, rep.Dir, rep.PID, nil)
	if err != nil {
		// the directory cannot be opened again (e.g. a lock still held): a finding, not a harness error
		for _, addr := range dbs {
			a := c18IDs(in, acked[addr])
			o.add(fmt.Sprintf("(CReopen %s %s %s false)", cfg, sim.CoqListN(a), sim.CoqListN(nil)),
				map[string]interface{}{"kind": "reopen", "why": why, "acked": len(a), "present": 0, "message": "reopen instance: " + err.Error(), "sig": "reopen:instance:" + why}, true)
		}
		return nil, nil
	}
	for _, addr := range dbs {
		okAll := true
		var present []string
		msg := ""
		var st iface.Store
		cls, m := callClass(20*time.Second, func() error {
			var err error
			st, err = rep2.Orbit.Open(ctx, addr, &orbitdb.CreateDBOptions{})
			return err
		})
		if cls != clsOK {
			okAll, msg = false, "open: "+clsName[cls]+" "+m
		} else {
			cls, m = callClass(30*time.Second, func() error { return st.Load(ctx, -1) })
			if cls != clsOK {
				okAll, msg = false, "load: "+clsName[cls]+" "+m
			}
			present = c18Hashes(st)
		}
		a := c18IDs(in, acked[addr])
		p := c18IDs(in, present)
		d := map[string]interface{}{"kind": "reopen", "why": why, "acked": len(a), "present": len(p), "message": msg, "memory": rep.Dir == memDir}
		missing := 0
		for _, x := range a {
			if !containsInt(p, x) {
				missing++
			}
		}
		if rep.Dir == memDir {
			// nothing is promised to outlive a ":memory:" instance; the model says nothing does
			if !okAll {
				d["sig"] = fmt.Sprintf("reopen:memory:%s", why)
			} else if len(p) > 0 {
				d["sig"] = "reopen:memory-instance-found-data"
			}
			o.count("reopen:memory")
		} else if !okAll || missing > 0 {
			d["sig"] = fmt.Sprintf("reopen:%s", why)
			d["missing"] = missing
		}
		o.add(fmt.Sprintf("(CReopen %s %s %s %s)", cfg, sim.CoqListN(a), sim.CoqListN(p), sim.CoqBool(okAll)), d, len(a) > 0)
		o.count("reopen")
	}
	return rep2, nil
}

// ---- scenario: store Close at a scripted moment ----

// c18Pair sets up the two instances of a store-level scenario and the database: replica A is
// the one under test (on ":memory:" if the configuration says so), B the peer that holds the
// remote entries.  Opener "" : B creates the database and A opens it from its address (A is
// not its creator); "creator": A creates it (and closes that first handle), B opens it.
// Returns B's store; A's store is opened by the caller once it has recorded the goroutines.
func c18Pair(sp c18Spec) (s *Scen, A, B *sim.Replica, stB iface.Store, addr string, err error) {
	ctx := context.Background()
	s, err = NewScen(2, sp.Type, &ScenOpts{NoOpen: true})
	if err != nil {
		return
	}
	A, B = s.Reps[0], s.Reps[1]
	if sp.Mem {
		_ = A.Orbit.Close()
		if A, err = memReplica(s.Env, A.Idx, s.Label); err != nil {
			err = fmt.Errorf("instance on %s: %w", memDir, err)
			return
		}
		s.Reps[0] = A
	}
	if sp.Opener == "creator" {
		var st0 iface.Store
		if st0, err = A.Orbit.Create(ctx, "db-"+s.Label, sp.Type, sp.cfg().on(A, &orbitdb.CreateDBOptions{AccessController: acBoth(A, B)})); err != nil {
			return
		}
		addr = st0.Address().String()
		if c, m := callClass(10*time.Second, st0.Close); c != clsOK {
			err = fmt.Errorf("close of the creating handle: %s %s", clsName[c], m)
			return
		}
		stB, err = B.Orbit.Open(ctx, addr, &orbitdb.CreateDBOptions{})
	} else {
		if stB, err = B.Orbit.Create(ctx, "db-"+s.Label, sp.Type, &orbitdb.CreateDBOptions{AccessController: acBoth(A, B)}); err == nil {
			addr = stB.Address().String()
		}
	}
	s.Addr = addr
	return
}

// c18Open opens the store under test on A with the configuration of the scenario and applies
// its preparation ("load": Load before anything else, Load(0) when MaxHistory is set).
func c18Open(sp c18Spec, A *sim.Replica, addr string) (iface.Store, error) {
	ctx := context.Background()
	st, err := withMaxHistory(A.Orbit, sp.MaxHist, func() (iface.Store, error) { return A.Orbit.Open(ctx, addr, sp.cfg().on(A, sp.dbOpts(nil))) })
	if err != nil {
		return nil, err
	}
	if sp.Prep == "load" {
		amount := -1
		if sp.MaxHist > 0 {
			amount = 0
		}
		if c, m := callClass(20*time.Second, func() error { return st.Load(ctx, amount) }); c != clsOK {
			return nil, fmt.Errorf("preparatory load: %s %s", clsName[c], m)
		}
	}
	return st, nil
}

func (sp c18Spec) opDescr() map[string]interface{} {
	return map[string]interface{}{"type": sp.Type, "config": sp.cfg()}
}

func (sp c18Spec) describe(extra map[string]interface{}) {
	extra["type"] = sp.Type
	extra["config"] = sp.cfg()
	if sp.Opener != "" {
		extra["opener"] = sp.Opener
	}
	if sp.Prep != "" {
		extra["prep"] = sp.Prep
	}
	if sp.MaxHist > 0 {
		extra["max_history"] = sp.MaxHist
	}
	if sp.CustomDir {
		extra["directory_option"] = "other than the instance's directory"
	}
	if sp.Feed != "" {
		extra["feed"] = sp.Feed
	}
}

func c18Close(r *Run, sp c18Spec, out *c18Result) error {
	ctx := context.Background()
	s, A, B, stB, addr, err := c18Pair(sp)
	if err != nil {
		return err
	}
	in := sim.NewInterner()
	remote := sp.Remote
	if sp.When == whenAfterDequeue || sp.When == whenBeforeDone || sp.When == whenMidFetch {
		remote = 0 // the remote entries are the ones whose replication is interrupted
	}
	if sp.Prep == "never" {
		remote = 0
	}
	var lenient *lenientAPI
	if sp.When == whenMidFetch || (sp.When == whenMidLoad && sp.Variant == "lenient") {
		// same directory, identity, peer id and simulated network, but block fetches behave like
		// kubo's for locally available blocks: they succeed whatever the context says
		_ = A.Orbit.Close()
		lenient = &lenientAPI{ReplicaAPI: s.Env.NewAPI(A.Idx, A.PID)}
		dir := A.Dir
		odb, err := orbitdb.NewOrbitDB(s.Env.Ctx, lenient, &orbitdb.NewOrbitDBOptions{Directory: &dir, PubSub: s.Env.Net.PubSub(A.Idx),
			DirectChannelFactory: s.Env.Net.DirectChannelFactory(A.Idx), PeerID: A.PID})
		if err != nil {
			return fmt.Errorf("instance with lenient block API: %w", err)
		}
		A.Orbit = odb
	}
	for i := 0; i < remote; i++ {
		if err := writeOp(r, s, stB, 1000+i); err != nil {
			return err
		}
	}
	time.Sleep(30 * time.Millisecond)
	before := goroutineIDs()
	stA, err := c18Open(sp, A, addr)
	if err != nil {
		return err
	}
	s.Stores = []iface.Store{stA, stB}
	if sp.Prep != "never" {
		for i := 0; i < sp.Writes; i++ {
			if err := writeOp(r, s, stA, i); err != nil {
				return err
			}
		}
	}
	if remote > 0 {
		if err := s.SyncFrom(0, 1); err != nil {
			return err
		}
		if !s.Settle() {
			out.Direct = append(out.Direct, c18Direct{Sig: "hang:sync", What: "replication did not settle", Case: map[string]interface{}{"state": sim.LastSettleState}})
		}
	}
	acked := c18Hashes(stA)
	extra := map[string]interface{}{"acked": len(acked)}
	sp.describe(extra)
	doClose := func() ([]int, []string) { return closeMany(sp.Times, sp.Concurrent, stA.Close) }
	var classes []int
	var msgs []string
	switch sp.When {
	case whenIdle:
		classes, msgs = doClose()
	case whenAfterAppend, whenAfterPersist:
		point := "store.after_append"
		op := opInflightAppend
		if sp.When == whenAfterPersist {
			point, op = "store.after_persist", opInflightPersist
		}
		g := sim.TheHooks.Park(point, "", 1)
		type wr struct {
			cls int
			msg string
		}
		wres := make(chan wr, 1)
		go func() {
			c, m := callClass(20*time.Second, func() error { return c18Write(r, stA, 500) })
			wres <- wr{c, m}
		}()
		if !g.WaitArrived(5 * time.Second) {
			g.Release()
			return fmt.Errorf("write did not reach %s", point)
		}
		classes, msgs = doClose()
		g.Release()
		w := <-wres
		if w.cls == clsOK {
			acked = c18Hashes(stA) // acknowledged: must survive
		}
		extra["write_outcome"] = clsName[w.cls]
		out.addAfter(op, w.cls, w.msg, sp.opDescr())
	case whenAfterDequeue, whenBeforeDone:
		for i := 0; i < sp.Remote; i++ {
			if err := writeOp(r, s, stB, 2000+i); err != nil {
				return err
			}
		}
		point := "replicator.after_dequeue"
		if sp.When == whenBeforeDone {
			point = "replicator.before_done"
		}
		g := sim.TheHooks.Park(point, "", 0)
		if err := s.SyncFrom(0, 1); err != nil {
			g.Release()
			return err
		}
		if !g.WaitArrived(5 * time.Second) {
			g.Release()
			return fmt.Errorf("replication did not reach %s", point)
		}
		// every worker that can run has reached the gate: nothing queued, nobody in a fetch
		if !waitParked(stA, point, 5*time.Second) {
			g.Release()
			return fmt.Errorf("replication workers did not all reach %s: %+v", point, sim.ReplState(stA))
		}
		extra["parked_workers"] = sim.TheHooks.Count(point)
		classes, msgs = doClose()
		g.Release()
	case whenMidFetch:
		for i := 0; i < sp.Remote; i++ {
			if err := writeOp(r, s, stB, 2000+i); err != nil {
				return err
			}
		}
		arrived := make(chan struct{}, 64)
		release := make(chan struct{})
		lenient.setGate(func(cid.Cid) {
			select {
			case arrived <- struct{}{}:
			default:
			}
			<-release
		})
		if err := s.SyncFrom(0, 1); err != nil {
			close(release)
			return err
		}
		select {
		case <-arrived:
		case <-time.After(5 * time.Second):
			close(release)
			return fmt.Errorf("replication did not reach a block fetch")
		}
		classes, msgs = doClose()
		// the progress consumers of the workers have seen the cancellation: one that leaves on
		// cancellation (the defect this moment is about) is gone within microseconds; one that
		// drains stays until its channel is closed, and then the wait is not needed
		waitNoSite(before, "stores/replicator.(*replicator).processHash", 300*time.Millisecond)
		lenient.setGate(nil)
		close(release)
	case whenMidLoad:
		// a fresh store object on the same instance, loading from the cache
		if c, m := callClass(10*time.Second, stA.Close); c != clsOK {
			return fmt.Errorf("preparatory close: %s %s", clsName[c], m)
		}
		stA, err = withMaxHistory(A.Orbit, sp.MaxHist, func() (iface.Store, error) { return A.Orbit.Open(ctx, addr, sp.cfg().on(A, sp.dbOpts(nil))) })
		if err != nil {
			return fmt.Errorf("preparatory reopen: %w", err)
		}
		s.Stores[0] = stA
		loadAmount := -1
		if sp.MaxHist > 0 {
			loadAmount = 0 // MaxHistory applies
		}
		arrived := make(chan struct{}, 1)
		release := make(chan struct{})
		if lenient != nil {
			// the fetch Load is parked in SUCCEEDS after Close, whatever the context says (kubo
			// and a block it holds locally): the fetcher then reports the entry on Load's
			// progress channel, whose consumer must still be there
			extra["variant"] = "the parked fetch succeeds after Close"
			lenient.setGate(func(cid.Cid) {
				select {
				case arrived <- struct{}{}:
				default:
				}
				<-release
			})
		}
		A.API.SetGate(func(ctx context.Context, c cid.Cid) error {
			if lenient != nil {
				return nil
			}
			select {
			case arrived <- struct{}{}:
			default:
			}
			select {
			case <-release:
			case <-ctx.Done():
				// (a tree that binds Load to the store cancels this fetch from within Close: the
				// fetch notices after Close has returned, so that Load always finishes on a store
				// that is completely closed - otherwise its last step, the ready event, races
				// with the rest of Close and Load answers nil or an error as the schedule has it)
				<-release
				return ctx.Err()
			}
			return nil
		})
		type lr struct {
			cls int
			msg string
		}
		lres := make(chan lr, 1)
		go func() {
			c, m := callClass(30*time.Second, func() error { return stA.Load(ctx, loadAmount) })
			lres <- lr{c, m}
		}()
		select {
		case <-arrived:
		case l := <-lres:
			// Load answered without fetching a block
			close(release)
			A.API.SetGate(nil)
			if lenient != nil {
				lenient.setGate(nil)
			}
			if l.cls == clsOK {
				return fmt.Errorf("load returned without a block fetch")
			}
			// the store, closed and opened again on the same instance, cannot load: the observation of
			// a close/reopen cycle whose last incarnation fails (the earlier ones loaded and wrote)
			outcomes := []int{clsOK, l.cls}
			if sp.Opener == "creator" {
				outcomes = []int{clsOK, clsOK, l.cls}
			}
			d := map[string]interface{}{"kind": "cycle", "address": addr, "via_create": sp.Opener == "creator", "outcomes": outcomes, "messages": []string{"load: " + l.msg},
				"complete": false, "note": "the reopened store of a mid-load scenario"}
			sp.describe(d)
			d["sig"] = "cycle:reopen-on-the-same-instance"
			if sp.CustomDir && strings.Contains(l.msg, "leveldb: closed") {
				d["sig"] = "cycle:directory-option:reopened-store-has-a-closed-cache"
			}
			out.add(fmt.Sprintf("(CCycle %s %s %s false)", sp.cfg().coq(), sim.CoqBool(sp.Opener == "creator"), sim.CoqListN(outcomes)), d, true)
			_ = callClassIgnore(stA.Close)
			_ = callClassIgnore(A.Orbit.Close)
			_ = callClassIgnore(B.Orbit.Close)
			return nil
		case <-time.After(5 * time.Second):
			close(release)
			A.API.SetGate(nil)
			if lenient != nil {
				lenient.setGate(nil)
			}
			return fmt.Errorf("load did not reach a block fetch")
		}
		classes, msgs = closeMany(sp.Times, sp.Concurrent, stA.Close)
		close(release)
		A.API.SetGate(nil)
		if lenient != nil {
			lenient.setGate(nil)
		}
		l := <-lres
		extra["load_outcome"] = clsName[l.cls]
		out.addAfter(opInflightLoad, l.cls, l.msg, sp.opDescr())
	}
	leaks := settleLeaks(before, leakBudget)
	out.addClose(sp, sp.When, sp.Times, sp.Concurrent, leaks, classes, msgs, extra)
	// reopen the directory
	if c, m := callClass(20*time.Second, A.Orbit.Close); c != clsOK {
		out.addAfter(opInstClose, c, m, map[string]interface{}{"note": "first instance close"})
	}
	A2, err := out.reopenCheck(s.Env, A, s.Label, []string{addr}, map[string][]string{addr: acked}, in, fmt.Sprintf("close-when-%d", sp.When))
	if err != nil {
		return err
	}
	if A2 != nil {
		_ = A2.Orbit.Close()
	}
	_ = B.Orbit.Close()
	return nil
}

// ---- scenario: Close while a block fetch never completes ----

// stuckGate is installed on the block API of the replica under test.  A fetch of a cid in
// `block` never completes: it waits until its context is done (what a bitswap request does for
// a block nobody provides).  A fetch of a cid in `fail` fails at once (used to prepare a
// replicator that remembers a failed hash, or a log with a missing ancestor).
type stuckGate struct {
	mu       sync.Mutex
	block    map[string]bool
	fail     map[string]bool
	blocked  int
	arrived  chan struct{}
	release  chan struct{}
	relOnce  sync.Once
	everSeen int
	// hold: a fetch whose context ends notices it only once closeDone is closed (the scenario
	// closes it when Close has returned).  Used where the operation that waits for the block
	// would otherwise finish while Close is still running (see c18Close, moment 5).
	hold      bool
	closeDone chan struct{}
	cdOnce    sync.Once
}

func newStuckGate() *stuckGate {
	return &stuckGate{block: map[string]bool{}, fail: map[string]bool{}, arrived: make(chan struct{}, 1), release: make(chan struct{}), closeDone: make(chan struct{})}
}

func (g *stuckGate) markClosed() { g.cdOnce.Do(func() { close(g.closeDone) }) }

func (g *stuckGate) set(block, fail []string) {
	g.mu.Lock()
	g.block, g.fail = map[string]bool{}, map[string]bool{}
	for _, c := range block {
		g.block[c] = true
	}
	for _, c := range fail {
		g.fail[c] = true
	}
	g.mu.Unlock()
}

func (g *stuckGate) fetch(ctx context.Context, c cid.Cid) error {
	k := c.String()
	g.mu.Lock()
	b, f := g.block[k], g.fail[k]
	if b {
		g.blocked++
		g.everSeen++
	}
	g.mu.Unlock()
	if f && !b {
		return fmt.Errorf("sim: block %s not found (scripted)", k)
	}
	if !b {
		return nil
	}
	defer func() {
		g.mu.Lock()
		g.blocked--
		g.mu.Unlock()
	}()
	select {
	case g.arrived <- struct{}{}:
	default:
	}
	select {
	case <-ctx.Done():
		if g.hold {
			select {
			case <-g.closeDone:
			case <-g.release:
			}
		}
		return ctx.Err()
	case <-g.release:
		return fmt.Errorf("sim: block %s withheld (end of scenario)", k)
	}
}

func (g *stuckGate) nBlocked() int {
	g.mu.Lock()
	defer g.mu.Unlock()
	return g.blocked
}

// free lets every waiting fetch fail (end of the scenario: nothing of it may linger in the
// child process, whatever the tree under test does).
func (g *stuckGate) free() { g.relOnce.Do(func() { close(g.release) }) }

// waitStuck: every replication task of the store that can run is inside a blocked fetch.
func (g *stuckGate) waitStuck(st iface.Store, d time.Duration) bool {
	deadline := time.Now().Add(d)
	stable := 0
	for time.Now().Before(deadline) {
		rs := sim.ReplState(st)
		if n := g.nBlocked(); n > 0 && rs.Added == 0 && rs.Queue == 0 && rs.Fetching == n {
			stable++
			if stable >= 5 {
				return true
			}
		} else {
			stable = 0
		}
		time.Sleep(4 * time.Millisecond)
	}
	return false
}

// waitStuckN: the replicator of the store has exactly n tasks, all being fetched (several
// stores share the gate, so the gate's own count cannot be compared with one store's).
func (g *stuckGate) waitStuckN(st iface.Store, n int, d time.Duration) bool {
	deadline := time.Now().Add(d)
	stable := 0
	for time.Now().Before(deadline) {
		rs := sim.ReplState(st)
		if rs.Added == 0 && rs.Queue == 0 && rs.Fetching == n && g.nBlocked() >= n {
			stable++
			if stable >= 5 {
				return true
			}
		} else {
			stable = 0
		}
		time.Sleep(4 * time.Millisecond)
	}
	return false
}

// waitBlocked: at least one fetch is blocked and the number has not moved for a few polls.
func (g *stuckGate) waitBlocked(d time.Duration) bool {
	deadline := time.Now().Add(d)
	stable, last := 0, -1
	for time.Now().Before(deadline) {
		n := g.nBlocked()
		if n > 0 && n == last {
			stable++
			if stable >= 5 {
				return true
			}
		} else {
			stable = 0
		}
		last = n
		time.Sleep(4 * time.Millisecond)
	}
	return false
}

// fabricatedCid: the cid of a block that exists nowhere.
func fabricatedCid(r *Run) cid.Cid {
	b := make([]byte, 32)
	r.Rng.Read(b)
	mh, err := multihash.Sum(b, multihash.SHA2_256, -1)
	if err != nil {
		panic(err)
	}
	return cid.NewCidV1(cid.DagCBOR, mh)
}

type callRes struct {
	cls int
	msg string
}

// goCall starts f behind recover on its own goroutine; the result is delivered on the channel.
func goCall(f func() error) chan callRes {
	ch := make(chan callRes, 1)
	go func() {
		defer func() {
			if p := recover(); p != nil {
				ch <- callRes{clsPanic, fmt.Sprint(p)}
			}
		}()
		if err := f(); err != nil {
			ch <- callRes{clsErr, err.Error()}
			return
		}
		ch <- callRes{clsOK, ""}
	}()
	return ch
}

func awaitCall(ch chan callRes, d time.Duration) callRes {
	select {
	case r := <-ch:
		return r
	case <-time.After(d):
		return callRes{clsHang, "no answer within " + d.String()}
	}
}

// c18Stuck: the replicator of the store under test (any configuration: replicating or not, on
// disk or in memory, with or without MaxHistory, opened by its creator or by another instance)
// is fed by one of the routes that exist whether or not the store replicates, the block it
// then asks for never arrives, and the store is closed.  Afterwards: no goroutine of the store
// left, every Close nil, the operation that was in flight has answered, the directory reopens
// with everything acknowledged.  Feeds "load" and "snapfile": Load / LoadFromSnapshot
// themselves are the ones waiting for the block.
func c18Stuck(r *Run, sp c18Spec, out *c18Result) error {
	ctx := context.Background()
	s, A, B, stB, addr, err := c18Pair(sp)
	if err != nil {
		return err
	}
	in := sim.NewInterner()
	gate := newStuckGate()
	defer gate.free()
	A.API.SetGate(gate.fetch)
	defer A.API.SetGate(nil)
	defer func() { sim.TheHooks.Extra = nil }()
	nRemote := sp.Remote
	if nRemote < 1 {
		nRemote = 1
	}
	needsPrep := sp.Feed == "snapshot" || sp.Feed == "ancestors" || sp.Feed == "load" || sp.Feed == "snapfile"
	if (sp.Feed == "ancestors" || sp.Feed == "load") && nRemote < 2 {
		nRemote = 2
	}
	if needsPrep && sp.Mem {
		return fmt.Errorf("feed %s needs a cache that outlives the first handle", sp.Feed)
	}
	nonHeads := func() (heads []ipfslog.Entry, hs []string, rest []string) {
		heads = stB.OpLog().Heads().Slice()
		isHead := map[string]bool{}
		for _, h := range heads {
			isHead[h.GetHash().String()] = true
			hs = append(hs, h.GetHash().String())
		}
		for _, e := range stB.OpLog().Values().Slice() {
			if !isHead[e.GetHash().String()] {
				rest = append(rest, e.GetHash().String())
			}
		}
		return
	}
	var acked []string
	var queued []string // what the saved queue / the missing ancestors consist of
	if needsPrep {
		// a first handle (default options) produces the local state the scenario starts from
		st0, err := A.Orbit.Open(ctx, addr, &orbitdb.CreateDBOptions{})
		if err != nil {
			return err
		}
		s.Stores = []iface.Store{st0, stB}
		for i := 0; i < sp.Writes; i++ {
			if err := writeOp(r, s, st0, i); err != nil {
				return err
			}
		}
		switch sp.Feed {
		case "snapshot":
			// A replicates B's first entries completely, then hears of a newer head whose block
			// cannot be had: the replicator keeps the hash as failed, SaveSnapshot saves it as
			// the queue next to a complete snapshot
			for i := 0; i < nRemote; i++ {
				if err := writeOp(r, s, stB, 1000+i); err != nil {
					return err
				}
			}
			if err := s.SyncFrom(0, 1); err != nil {
				return err
			}
			if !s.Settle() {
				return fmt.Errorf("preparatory replication did not settle: %s", sim.LastSettleState)
			}
			if err := writeOp(r, s, stB, 1500); err != nil {
				return err
			}
			_, hs, _ := nonHeads()
			gate.set(nil, hs)
			queued = hs
			if err := s.SyncFrom(0, 1); err != nil {
				return err
			}
			if !s.Settle() {
				return fmt.Errorf("preparatory replication (failing head) did not settle: %s", sim.LastSettleState)
			}
		case "ancestors", "load":
			// A replicates B's head but not what it points to (those blocks cannot be had): the
			// head is joined and persisted, its ancestors are missing from the log
			for i := 0; i < nRemote; i++ {
				if err := writeOp(r, s, stB, 1000+i); err != nil {
					return err
				}
			}
			_, _, rest := nonHeads()
			gate.set(nil, rest)
			queued = rest
			if err := s.SyncFrom(0, 1); err != nil {
				return err
			}
			if !s.Settle() {
				return fmt.Errorf("preparatory replication (failing ancestors) did not settle: %s", sim.LastSettleState)
			}
		}
		if sp.Feed == "snapshot" || sp.Feed == "snapfile" {
			if c, m := callClass(20*time.Second, func() error { _, err := basestore.SaveSnapshot(ctx, st0); return err }); c != clsOK {
				return fmt.Errorf("preparatory SaveSnapshot: %s %s", clsName[c], m)
			}
			if sp.Feed == "snapshot" {
				saved, _, err := c13Stored(ctx, st0)
				if err != nil {
					return fmt.Errorf("reading the saved queue: %w", err)
				}
				var sq []string
				for _, c := range saved {
					sq = append(sq, c.String())
				}
				sort.Strings(sq)
				sort.Strings(queued)
				if strings.Join(sq, ",") != strings.Join(queued, ",") {
					return fmt.Errorf("saved queue %v, expected the failed head(s) %v", sq, queued)
				}
			}
		}
		acked = c18Hashes(st0)
		if c, m := callClass(10*time.Second, st0.Close); c != clsOK {
			return fmt.Errorf("close of the preparing handle: %s %s", clsName[c], m)
		}
	} else {
		for i := 0; i < nRemote; i++ {
			if err := writeOp(r, s, stB, 1000+i); err != nil {
				return err
			}
		}
	}
	time.Sleep(30 * time.Millisecond)
	before := goroutineIDs()
	stA, err := c18Open(sp, A, addr)
	if err != nil {
		return err
	}
	s.Stores = []iface.Store{stA, stB}
	if !needsPrep && sp.Prep != "never" {
		for i := 0; i < sp.Writes; i++ {
			if err := writeOp(r, s, stA, i); err != nil {
				return err
			}
		}
		acked = c18Hashes(stA)
	}
	extra := map[string]interface{}{"acked": len(acked)}
	sp.describe(extra)
	when := sp.When
	var inflight chan callRes
	inflightOp := 0
	callerCtx, cancelCaller := context.WithCancel(ctx)
	defer cancelCaller()
	stuckOK := false
	switch sp.Feed {
	case "sync":
		heads, hs, rest := nonHeads()
		if len(rest) == 0 {
			rest = hs // a single entry: the head itself is what never arrives
		}
		gate.set(rest, nil)
		if err := s.SyncHeads(0, heads); err != nil {
			return err
		}
		stuckOK = gate.waitStuck(stA, 5*time.Second)
	case "direct":
		// heads arriving on the INSTANCE's direct channel: its monitor hands them to Sync of the
		// store registered under the address - also when that store does not replicate
		heads, hs, rest := nonHeads()
		if len(rest) == 0 {
			rest = hs
		}
		gate.set(rest, nil)
		var es []*entry.Entry
		for _, h := range heads {
			e, ok := h.(*entry.Entry)
			if !ok {
				return fmt.Errorf("head is not an *entry.Entry")
			}
			es = append(es, clone(e))
		}
		payload, err := json.Marshal(&iface.MessageExchangeHeads{Address: addr, Heads: es})
		if err != nil {
			return err
		}
		s.Env.Net.InjectDirect(B.PID, A.Idx, payload)
		stuckOK = gate.waitStuck(stA, 5*time.Second)
	case "loadmore":
		heads, hs, rest := nonHeads()
		if len(rest) == 0 {
			rest = hs
		}
		gate.set(rest, nil)
		cp := make([]ipfslog.Entry, len(heads))
		for i, h := range heads {
			cp[i] = h.Copy()
		}
		inflight, inflightOp = goCall(func() error { stA.LoadMoreFrom(callerCtx, 10, cp); return nil }), opInflightLoadMoreFrom
		stuckOK = gate.waitStuck(stA, 5*time.Second)
	case "loadmore-stub":
		// hash-only entries, as LoadFromSnapshot and Load build them, for a block that exists nowhere
		c := fabricatedCid(r)
		gate.set([]string{c.String()}, nil)
		stub := []ipfslog.Entry{&entry.Entry{Hash: c}}
		inflight, inflightOp = goCall(func() error { stA.LoadMoreFrom(callerCtx, 10, stub); return nil }), opInflightLoadMoreFrom
		stuckOK = gate.waitStuck(stA, 5*time.Second)
	case "snapshot":
		gate.set(queued, nil)
		c, m := callClass(20*time.Second, func() error { return stA.LoadFromSnapshot(callerCtx) })
		extra["LoadFromSnapshot"] = clsName[c] + " " + m
		if c != clsOK {
			return fmt.Errorf("LoadFromSnapshot (complete snapshot, saved queue): %s %s", clsName[c], m)
		}
		stuckOK = gate.waitStuck(stA, 5*time.Second)
	case "ancestors":
		// Load's own fetcher is refused the missing blocks at once; what Load then hands to the
		// replicator never arrives
		sim.TheHooks.Extra = func(name string, keys []string) {
			if name == "store.sync_spawn" {
				gate.set(queued, nil)
			}
		}
		c, m := callClass(20*time.Second, func() error { return stA.Load(callerCtx, -1) })
		extra["Load"] = clsName[c] + " " + m
		if c != clsOK {
			return fmt.Errorf("Load (missing ancestors): %s %s", clsName[c], m)
		}
		stuckOK = gate.waitStuck(stA, 5*time.Second)
	case "load":
		gate.hold = true
		gate.set(queued, nil)
		amount := -1
		if sp.MaxHist > 0 {
			amount = 0
		}
		inflight, inflightOp = goCall(func() error { return stA.Load(callerCtx, amount) }), opInflightLoadStuck
		stuckOK = gate.waitBlocked(5 * time.Second)
	case "snapfile":
		arrived := make(chan struct{}, 1)
		A.API.SetFileGate(func(c context.Context) error {
			select {
			case arrived <- struct{}{}:
			default:
			}
			select {
			case <-c.Done():
				return c.Err()
			case <-gate.release:
				return fmt.Errorf("sim: snapshot file withheld (end of scenario)")
			}
		})
		defer A.API.SetFileGate(nil)
		inflight, inflightOp = goCall(func() error { return stA.LoadFromSnapshot(callerCtx) }), opInflightSnapshotStuck
		select {
		case <-arrived:
			stuckOK = true
		case <-time.After(5 * time.Second):
		}
	default:
		return fmt.Errorf("unknown feed %q", sp.Feed)
	}
	if !stuckOK {
		return fmt.Errorf("feed %s: the fetch did not get stuck (blocked=%d, replicator %+v)", sp.Feed, gate.nBlocked(), sim.ReplState(stA))
	}
	extra["blocked_fetches"] = gate.nBlocked()
	extra["replicator"] = fmt.Sprintf("%+v", sim.ReplState(stA))
	classes, msgs := closeMany(sp.Times, sp.Concurrent, stA.Close)
	gate.markClosed()
	// the goroutines wind down and the operation that was in flight answers, both within the
	// same budget (they run side by side)
	leaks := settleLeaks(before, leakBudget)
	var ires callRes
	if inflight != nil {
		ires = awaitCall(inflight, 300*time.Millisecond)
		if ires.cls == clsHang {
			ires.msg = "no answer within " + (leakBudget + 300*time.Millisecond).String() + " of Close"
			if len(leaks) == 0 {
				// nothing was left, so the budget was not used up: give the answer its full time
				ires = awaitCall(inflight, leakBudget)
			}
		}
	}
	if inflight != nil {
		d := sp.opDescr()
		d["feed"] = sp.Feed
		if ires.cls == clsHang {
			// does it at least end with its caller's context?
			cancelCaller()
			after := awaitCall(inflight, 5*time.Second)
			d["after_cancelling_the_callers_context"] = clsName[after.cls] + " " + after.msg
		}
		out.addAfter(inflightOp, ires.cls, ires.msg, d)
		extra["inflight_outcome"] = clsName[ires.cls]
	}
	out.addClose(sp, when, sp.Times, sp.Concurrent, leaks, classes, msgs, extra)
	gate.free()
	cancelCaller()
	if l := settleLeaks(before, time.Second); len(l) > 0 {
		_, names := leakSites(l)
		out.Notes = append(out.Notes, "still present after the fetches were failed and the caller's context cancelled: "+strings.Join(names, "; "))
	}
	A.API.SetGate(nil)
	A.API.SetFileGate(nil)
	// reopen the directory
	if c, m := callClass(20*time.Second, A.Orbit.Close); c != clsOK {
		out.addAfter(opInstClose, c, m, map[string]interface{}{"note": "first instance close"})
	}
	A2, err := out.reopenCheck(s.Env, A, s.Label, []string{addr}, map[string][]string{addr: acked}, in, fmt.Sprintf("close-when-%d", when))
	if err != nil {
		return err
	}
	if A2 != nil {
		_ = A2.Orbit.Close()
	}
	_ = B.Orbit.Close()
	if sp.Mem && memDirOnDisk() {
		out.Direct = append(out.Direct, c18Direct{Sig: "memory:on-disk", What: "an instance on " + memDir + " left a directory of that name in the working directory", Case: map[string]interface{}{}})
	}
	return nil
}

// c18Write performs one write whatever the store type (no randomness: used for in-flight writes).
func c18Write(r *Run, st iface.Store, i int) error {
	ctx := context.Background()
	switch x := st.(type) {
	case iface.EventLogStore:
		_, err := x.Add(ctx, []byte(fmt.Sprintf("w%d", i)))
		return err
	case iface.KeyValueStore:
		_, err := x.Put(ctx, "k", []byte(fmt.Sprintf("w%d", i)))
		return err
	case iface.DocumentStore:
		_, err := x.Put(ctx, map[string]interface{}{"_id": "k", "v": i})
		return err
	}
	return fmt.Errorf("unknown store type")
}

// ---- scenario: instance Close with several databases ----

func c18InstanceClose(r *Run, sp c18Spec, out *c18Result) error {
	ctx := context.Background()
	env, err := sharedEnv()
	if err != nil {
		return err
	}
	scenCounter++
	sim.TheHooks.Reset()
	env.Net.ResetTraffic(false)
	label := fmt.Sprintf("i%d", scenCounter)
	in := sim.NewInterner()
	time.Sleep(30 * time.Millisecond)
	before := goroutineIDs()
	var A *sim.Replica
	if sp.Mem {
		A, err = memReplica(env, scenCounter*100, label)
	} else {
		A, err = env.NewReplica(scenCounter*100, label)
	}
	if err != nil {
		return err
	}
	types := []string{"eventlog", "keyvalue", "docstore"}
	s := &Scen{Env: env, Reps: []*sim.Replica{A}, Canon: sim.NewCanon(), Label: label}
	var stores []iface.Store
	var addrs []string
	acked := map[string][]string{}
	shareOpts := sp.Variant == "storeclosed" || (sp.Variant == "idle" && sp.Writes%2 == 0)
	var sharedOpts *orbitdb.CreateDBOptions
	var cfg0 c18Cfg
	lastShared := 0 // the last database created with the shared options value (0: none but the first)
	for k := 0; k < sp.NDB; k++ {
		typ := types[r.Rng.Intn(3)]
		cfg := c18Cfg{Repl: true, Mem: sp.Mem}
		if k < len(sp.Cfgs) {
			cfg = sp.Cfgs[k]
		}
		name := fmt.Sprintf("db-%s-%d", label, k)
		// the databases that have the configuration of the first one are created with ONE options
		// value (a caller may keep its options in a variable; only the access controller is set
		// anew): what Create leaves in it must not tie the databases together
		opts := cfg.on(A, cfg.dbOpts(0, acBoth(A)))
		if shareOpts && k == 0 {
			sharedOpts, cfg0 = opts, cfg
		} else if shareOpts && cfg == cfg0 {
			sharedOpts.AccessController = acBoth(A)
			opts = sharedOpts
			lastShared = k
		}
		st, err := withMaxHistory(A.Orbit, map[bool]int{true: 2, false: 0}[cfg.Limited], func() (iface.Store, error) {
			return A.Orbit.Create(ctx, name, typ, opts)
		})
		if err != nil {
			return err
		}
		stores = append(stores, st)
		addrs = append(addrs, st.Address().String())
		for i := 0; i < sp.Writes; i++ {
			if err := writeOp(r, s, st, i); err != nil {
				return err
			}
		}
		acked[st.Address().String()] = c18Hashes(st)
	}
	extra := map[string]interface{}{"databases": sp.NDB, "variant": sp.Variant, "shared_options_value": shareOpts && lastShared > 0}
	var classes []int
	var msgs []string
	when := whenInstance
	gate := newStuckGate()
	defer gate.free()
	switch sp.Variant {
	case "stuckfetch":
		// every database (whatever its configuration) has a LoadMoreFrom running whose workers
		// wait for a block that exists nowhere
		when = whenInstanceStuck
		A.API.SetGate(gate.fetch)
		defer A.API.SetGate(nil)
		var blocked []string
		var stubs [][]ipfslog.Entry
		for range stores {
			c := fabricatedCid(r)
			blocked = append(blocked, c.String())
			stubs = append(stubs, []ipfslog.Entry{&entry.Entry{Hash: c}})
		}
		gate.set(blocked, nil)
		var inflight []chan callRes
		for k, st := range stores {
			st, stub := st, stubs[k]
			inflight = append(inflight, goCall(func() error { st.LoadMoreFrom(ctx, 10, stub); return nil }))
		}
		for _, st := range stores {
			if !gate.waitStuckN(st, 1, 5*time.Second) {
				return fmt.Errorf("iclose/stuckfetch: the fetch did not get stuck (replicator %+v)", sim.ReplState(st))
			}
		}
		classes, msgs = closeMany(sp.Times, sp.Concurrent, A.Orbit.Close)
		for k, ch := range inflight {
			ires := awaitCall(ch, leakBudget)
			cfg := c18Cfg{Repl: true, Mem: sp.Mem}
			if k < len(sp.Cfgs) {
				cfg = sp.Cfgs[k]
			}
			out.addAfter(opInflightLoadMoreFrom, ires.cls, ires.msg, map[string]interface{}{"during": "instance Close", "config": cfg})
		}
	case "midwrite":
		g := sim.TheHooks.Park("store.after_persist", "", 1)
		type wr struct {
			cls int
			msg string
		}
		wres := make(chan wr, 1)
		go func() {
			c, m := callClass(20*time.Second, func() error { return c18Write(r, stores[0], 500) })
			wres <- wr{c, m}
		}()
		if !g.WaitArrived(5 * time.Second) {
			g.Release()
			return fmt.Errorf("write did not reach store.after_persist")
		}
		classes, msgs = closeMany(sp.Times, sp.Concurrent, A.Orbit.Close)
		g.Release()
		w := <-wres
		if w.cls == clsOK {
			acked[addrs[0]] = c18Hashes(stores[0])
		}
		extra["write_outcome"] = clsName[w.cls]
		out.addAfter(opInflightPersist, w.cls, w.msg, map[string]interface{}{"instance_close": true})
	case "storeclosed":
		// (the database closed first is the LAST one created with the shared options value, the
		// first database when nothing is shared)
		extra["closed_first"] = lastShared
		if c, m := callClass(10*time.Second, stores[lastShared].Close); c != clsOK {
			out.addAfter(opClose, c, m, map[string]interface{}{"note": "store close before instance close"})
		}
		classes, msgs = closeMany(sp.Times, sp.Concurrent, A.Orbit.Close)
	default:
		classes, msgs = closeMany(sp.Times, sp.Concurrent, A.Orbit.Close)
	}
	leaks := settleLeaks(before, leakBudget)
	out.addClose(sp, when, sp.Times, sp.Concurrent, leaks, classes, msgs, extra)
	gate.free()
	A.API.SetGate(nil)
	A2, err := out.reopenCheck(env, A, label, addrs, acked, in, "instance-close")
	if err != nil {
		return err
	}
	if A2 == nil {
		return nil
	}
	c, m := callClass(20*time.Second, A2.Orbit.Close)
	leaks = settleLeaks(before, leakBudget)
	// (the reopened stores are opened with the default options)
	var recfgs []c18Cfg
	for range addrs {
		recfgs = append(recfgs, c18Cfg{Repl: true, Mem: sp.Mem})
	}
	out.addCloseCfg(recfgs, whenInstance, 1, false, leaks, []int{c}, []string{m}, map[string]interface{}{"note": "close of the reopened instance (stores loaded, not closed individually)"})
	if sp.Mem && memDirOnDisk() {
		out.Direct = append(out.Direct, c18Direct{Sig: "memory:on-disk", What: "an instance on " + memDir + " left a directory of that name in the working directory", Case: map[string]interface{}{}})
	}
	return nil
}

// ---- scenario: Drop with siblings ----

type segInterner struct{ in *sim.Interner }

func (si segInterner) segs(p string) []string {
	var out []string
	for _, x := range strings.Split(p, "/") {
		switch x {
		case "..":
			out = append(out, "SDotDot")
		case ".":
			out = append(out, "SDot")
		case "":
			out = append(out, "SEmpty")
		default:
			out = append(out, "(SNorm "+sim.CoqN(si.in.ID(x))+")")
		}
	}
	return out
}

func (si segInterner) dir(p string) []int {
	var out []int
	for _, x := range strings.Split(filepath.Clean(p), "/") {
		if x != "" {
			out = append(out, si.in.ID(x))
		}
	}
	return out
}

func cacheDirOf(dir string, st iface.Store) string {
	return filepath.Join(dir, st.Address().GetRoot().String(), st.Address().GetPath())
}

func dirFiles(p string) int {
	es, err := os.ReadDir(p)
	if err != nil {
		return -1
	}
	return len(es)
}

type sibling struct {
	st     iface.Store
	addr   string
	acked  []string
	heads  []byte
	cdir   string
	typ    string
	intact bool
	why    string
	role   string // same-root sibling: parent | deep | child
	odir   string // opened with a Directory option: what its lookup left below that directory
}

// sameRootTrio: the addresses of three databases under the manifest root of `name`: Open accepts
// any path below a manifest root, so these are three databases (three addresses, log ids,
// topics, cache directories) with the same type and write list.  The child's cache directory
// <dir>/R/<name>/sub lies inside the parent's <dir>/R/<name>.
func sameRootTrio(ctx context.Context, A *sim.Replica, name, typ string) (map[string]string, error) {
	pa, err := A.Orbit.DetermineAddress(ctx, name, typ, &orbitdb.DetermineAddressOptions{AccessController: acBoth(A)})
	if err != nil {
		return nil, err
	}
	R := pa.GetRoot().String()
	return map[string]string{"parent": pa.String(), "deep": "/orbitdb/" + R + "/archive/" + name, "child": "/orbitdb/" + R + "/" + name + "/sub"}, nil
}

// openRole opens (or, for the parent, creates) one database of a same-root trio.
func openRole(ctx context.Context, A *sim.Replica, trio map[string]string, role, name, typ string, opts *orbitdb.CreateDBOptions) (iface.Store, error) {
	if role == "parent" {
		opts.AccessController = acBoth(A)
		return A.Orbit.Create(ctx, name, typ, opts)
	}
	return A.Orbit.Open(ctx, trio[role], opts)
}

// ownFiles: the number of files (not directories) directly in p; -1 if p does not exist.
func ownFiles(p string) int {
	es, err := os.ReadDir(p)
	if err != nil {
		return -1
	}
	n := 0
	for _, e := range es {
		if !e.IsDir() {
			n++
		}
	}
	return n
}

func c18Drop(r *Run, sp c18Spec, out *c18Result) error {
	ctx := context.Background()
	env, err := sharedEnv()
	if err != nil {
		return err
	}
	scenCounter++
	sim.TheHooks.Reset()
	env.Net.ResetTraffic(false)
	label := fmt.Sprintf("p%d", scenCounter)
	in := sim.NewInterner()
	si := segInterner{sim.NewInterner()}
	time.Sleep(30 * time.Millisecond)
	before := goroutineIDs()
	var A *sim.Replica
	if sp.Mem {
		A, err = memReplica(env, scenCounter*100, label)
	} else {
		A, err = env.NewReplica(scenCounter*100, label)
	}
	if err != nil {
		return err
	}
	s := &Scen{Env: env, Reps: []*sim.Replica{A}, Canon: sim.NewCanon(), Label: label}
	types := []string{"eventlog", "keyvalue", "docstore"}
	// siblings: other names, and one with the SAME name but another manifest (other root)
	var sibs []*sibling
	for k := 0; k < sp.NDB; k++ {
		name := fmt.Sprintf("y%d-%s", k, label)
		ac := acBoth(A)
		typ := types[r.Rng.Intn(3)]
		if k == 0 {
			name = "x-" + label
			typ = sp.Type
			ac = &accesscontroller.CreateAccessControllerOptions{Access: map[string][]string{"write": {A.Orbit.Identity().ID, "someone-else"}}}
		}
		// siblings alternate between replicating and not; when the dropped database has a Directory
		// option, every second sibling has the same one
		scfg := c18Cfg{Repl: k%2 == 0, CustomDir: sp.CustomDir && k%2 == 1}
		st, err := A.Orbit.Create(ctx, name, typ, scfg.on(A, scfg.dbOpts(0, ac)))
		if err != nil {
			return fmt.Errorf("create sibling %d: %w", k, err)
		}
		for i := 0; i < 1+r.Rng.Intn(4); i++ {
			if err := writeOp(r, s, st, 100*k+i); err != nil {
				return err
			}
		}
		h, _ := st.Cache().Get(ctx, datastore.NewKey("_localHeads"))
		sb := &sibling{st: st, addr: st.Address().String(), acked: c18Hashes(st), heads: h, cdir: cacheDirOf(A.Dir, st), typ: typ}
		if od := cacheDirOf(altDir(A), st); scfg.CustomDir && dirFiles(od) > 0 {
			sb.odir = od // what the lookup of its Open left below the option's directory
		}
		sibs = append(sibs, sb)
	}
	// files that are nobody's database, in the instance's directory and in the option's
	var foreignFiles []string
	if sp.CustomDir {
		dirs := []string{altDir(A)}
		if !sp.Mem {
			dirs = append(dirs, A.Dir)
		}
		for _, d := range dirs {
			f := filepath.Join(d, "notes-"+label+".txt")
			if err := os.MkdirAll(d, 0o755); err != nil {
				return err
			}
			if err := os.WriteFile(f, []byte("not a database: "+label), 0o644); err != nil {
				return err
			}
			foreignFiles = append(foreignFiles, f)
		}
	}
	// siblings that share the manifest root with the database that is dropped
	var trio map[string]string
	if sp.Shape != "" {
		if trio, err = sameRootTrio(ctx, A, "x-"+label, sp.Type); err != nil {
			return err
		}
		for k, role := range []string{"child", "deep", "parent"} {
			if role == sp.Shape {
				continue
			}
			st, err := openRole(ctx, A, trio, role, "x-"+label, sp.Type, c18Cfg{Repl: k%2 == 0}.dbOpts(0, nil))
			if err != nil {
				return fmt.Errorf("same-root sibling %s (%s): %w", role, trio[role], err)
			}
			for i := 0; i < 1+r.Rng.Intn(3); i++ {
				if err := writeOp(r, s, st, 700+100*k+i); err != nil {
					return fmt.Errorf("write to same-root sibling %s: %w", role, err)
				}
			}
			h, _ := st.Cache().Get(ctx, datastore.NewKey("_localHeads"))
			sibs = append(sibs, &sibling{st: st, addr: st.Address().String(), acked: c18Hashes(st), heads: h, cdir: cacheDirOf(A.Dir, st), typ: sp.Type, role: role})
		}
	}
	// the database that is dropped: created last, so that every go-orbit-db goroutine that
	// appears from here on is its own
	time.Sleep(30 * time.Millisecond)
	beforeX := goroutineIDs()
	X, err := withMaxHistory(A.Orbit, sp.MaxHist, func() (iface.Store, error) {
		if sp.Shape != "" {
			return openRole(ctx, A, trio, sp.Shape, "x-"+label, sp.Type, sp.cfg().on(A, sp.dbOpts(nil)))
		}
		return A.Orbit.Create(ctx, "x-"+label, sp.Type, sp.cfg().on(A, sp.dbOpts(acBoth(A))))
	})
	if err != nil {
		return err
	}
	if sp.Prep != "never" {
		for i := 0; i < sp.Writes; i++ {
			if err := writeOp(r, s, X, i); err != nil {
				return err
			}
		}
	}
	xdir := cacheDirOf(A.Dir, X)
	xaddr := X.Address().String()
	extra := map[string]interface{}{"variant": sp.Variant, "siblings": len(sibs)}
	sp.describe(extra)
	var dcls int
	var dmsg string
	gate := newStuckGate()
	defer gate.free()
	switch sp.Variant {
	case "open":
		dcls, dmsg = callClass(15*time.Second, X.Drop)
	case "stuckfetch":
		// a LoadMoreFrom whose workers wait for a block that exists nowhere is running when Drop is called
		A.API.SetGate(gate.fetch)
		defer A.API.SetGate(nil)
		c := fabricatedCid(r)
		gate.set([]string{c.String()}, nil)
		stub := []ipfslog.Entry{&entry.Entry{Hash: c}}
		inflight := goCall(func() error { X.LoadMoreFrom(ctx, 10, stub); return nil })
		if !gate.waitStuck(X, 5*time.Second) {
			return fmt.Errorf("drop/stuckfetch: the fetch did not get stuck (replicator %+v)", sim.ReplState(X))
		}
		dcls, dmsg = callClass(15*time.Second, X.Drop)
		ires := awaitCall(inflight, leakBudget)
		d := sp.opDescr()
		d["during"] = "Drop"
		out.addAfter(opInflightLoadMoreFrom, ires.cls, ires.msg, d)
	case "closed":
		if c, m := callClass(10*time.Second, X.Close); c != clsOK {
			out.addAfter(opClose, c, m, map[string]interface{}{"note": "close before drop"})
		}
		dcls, dmsg = callClass(15*time.Second, X.Drop)
		out.addAfter(opDrop, dcls, dmsg, sp.opDescr())
	case "stale":
		// the handle is closed, the database is opened again on the same instance, and the
		// OLD handle is dropped
		if c, m := callClass(10*time.Second, X.Close); c != clsOK {
			out.addAfter(opClose, c, m, map[string]interface{}{"note": "close before drop"})
		}
		var XF iface.Store
		if c, m := callClass(20*time.Second, func() error {
			var err error
			XF, err = A.Orbit.Open(ctx, xaddr, &orbitdb.CreateDBOptions{})
			return err
		}); c != clsOK {
			return fmt.Errorf("reopen before stale drop: %s %s", clsName[c], m)
		}
		dcls, dmsg = callClass(opWatchdog, X.Drop)
		out.addAfter(opDropStale, dcls, dmsg, sp.opDescr())
		if dcls == clsHang {
			// the instance's cache manager is wedged (every later Load/Close of a cache on this
			// instance blocks, the directory stays locked): record and abandon the instance
			c2, _ := callClass(2*time.Second, XF.Close)
			c3, _ := callClass(2*time.Second, A.Orbit.Close)
			out.Notes = append(out.Notes, fmt.Sprintf("after the hanging Drop: Close of the fresh handle: %s, Close of the instance: %s", clsName[c2], clsName[c3]))
			return nil
		}
		_ = callClassIgnore(XF.Close)
	case "twice":
		dcls, dmsg = callClass(15*time.Second, X.Drop)
		c2, m2 := callClass(15*time.Second, X.Drop)
		out.addAfter(opDropAfterDrop, c2, m2, sp.opDescr())
	case "midwrite":
		g := sim.TheHooks.Park("store.after_persist", "", 1)
		type wr struct {
			cls int
			msg string
		}
		wres := make(chan wr, 1)
		go func() {
			c, m := callClass(20*time.Second, func() error { return c18Write(r, X, 500) })
			wres <- wr{c, m}
		}()
		if !g.WaitArrived(5 * time.Second) {
			g.Release()
			return fmt.Errorf("write did not reach store.after_persist")
		}
		dcls, dmsg = callClass(15*time.Second, X.Drop)
		g.Release()
		w := <-wres
		out.addAfter(opInflightDropWrite, w.cls, w.msg, sp.opDescr())
	}
	extra["drop_result"] = dmsg
	// nothing of the dropped store is left while the instance is still open (the fresh handle
	// of the stale variant belongs to the same database and is closed by now)
	{
		leaks := settleLeaks(beforeX, leakBudget)
		out.addClose(sp, whenDropStuck, 1, false, leaks, []int{dcls}, []string{dmsg}, map[string]interface{}{"note": "right after Drop, instance still open", "variant": sp.Variant, "config": sp.cfg()})
	}
	gate.free()
	A.API.SetGate(nil)
	// the dropped database's directory: gone - or, when the cache directory of another database
	// lies inside it (same manifest root, longer path), at least without a file of its own
	removed := ownFiles(xdir) <= 0
	extra["dropped_dir_own_files_left"] = ownFiles(xdir)
	// siblings, live: cache key, directory, still writable
	for _, sb := range sibs {
		sb.intact = true
		h, err := sb.st.Cache().Get(ctx, datastore.NewKey("_localHeads"))
		if err != nil || !bytes.Equal(h, sb.heads) {
			sb.intact, sb.why = false, fmt.Sprintf("cache key _localHeads changed (err=%v)", err)
		}
		if !sp.Mem && dirFiles(sb.cdir) <= 0 {
			sb.intact, sb.why = false, "cache directory gone or empty"
		}
		if sb.odir != "" && dirFiles(sb.odir) <= 0 {
			sb.intact, sb.why = false, "the sibling's directory below the Directory option gone or empty"
		}
		for _, f := range foreignFiles {
			if b, err := os.ReadFile(f); err != nil || !strings.HasPrefix(string(b), "not a database") {
				sb.intact, sb.why = false, fmt.Sprintf("foreign file %s damaged (err=%v)", f, err)
			}
		}
		if got := c18Hashes(sb.st); len(got) != len(sb.acked) {
			sb.intact, sb.why = false, "in-memory entries changed"
		}
		if c, m := callClass(10*time.Second, func() error { return c18Write(r, sb.st, 900) }); c != clsOK {
			sb.intact, sb.why = false, "write to sibling after drop: "+clsName[c]+" "+m
		} else {
			sb.acked = c18Hashes(sb.st)
		}
	}
	// the dropped database reopens empty on the same instance
	empty := false
	emsg := ""
	var X2 iface.Store
	if c, m := callClass(20*time.Second, func() error {
		var err error
		X2, err = A.Orbit.Open(ctx, xaddr, &orbitdb.CreateDBOptions{})
		return err
	}); c != clsOK {
		emsg = "reopen dropped: " + clsName[c] + " " + m
	} else if c, m := callClass(20*time.Second, func() error { return X2.Load(ctx, -1) }); c != clsOK {
		emsg = "load dropped: " + clsName[c] + " " + m
	} else {
		empty = X2.OpLog().Len() == 0
		emsg = fmt.Sprintf("%d entries after reopen", X2.OpLog().Len())
	}
	// with a Directory option: nothing of the database may be loaded with the option either,
	// now on this instance and later by fresh instances on the instance's and on the option's directory
	loadedFrom := func(o orbitdb.OrbitDB, opts *orbitdb.CreateDBOptions, what string) {
		var st iface.Store
		if c, m := callClass(20*time.Second, func() error {
			var err error
			st, err = o.Open(ctx, xaddr, opts)
			return err
		}); c != clsOK {
			empty, emsg = false, emsg+"; "+what+": open: "+clsName[c]+" "+m
			return
		}
		if c, m := callClass(20*time.Second, func() error { return st.Load(ctx, -1) }); c != clsOK {
			empty, emsg = false, emsg+"; "+what+": load: "+clsName[c]+" "+m
		} else if n := st.OpLog().Len(); n != 0 {
			empty, emsg = false, emsg+fmt.Sprintf("; %s: %d entries", what, n)
		} else {
			emsg += "; " + what + ": 0 entries"
		}
		_ = callClassIgnore(st.Close)
	}
	if sp.CustomDir && X2 != nil {
		_ = callClassIgnore(X2.Close)
		loadedFrom(A.Orbit, sp.cfg().on(A, &orbitdb.CreateDBOptions{}), "same instance, with the Directory option")
	}
	// instance close, reopen the directory: siblings complete
	c, m := callClass(20*time.Second, A.Orbit.Close)
	leaks := settleLeaks(before, leakBudget)
	out.addClose(sp, whenDropped, 1, false, leaks, []int{c}, []string{m}, map[string]interface{}{"note": "instance close after drop"})
	var addrs []string
	ack := map[string][]string{}
	for _, sb := range sibs {
		addrs = append(addrs, sb.addr)
		ack[sb.addr] = sb.acked
	}
	if !sp.Mem {
		// (the siblings of an instance on ":memory:" do not outlive it: they were checked live)
		nBefore := len(out.Cases)
		A2, err := out.reopenCheck(env, A, label, addrs, ack, in, "sibling-after-drop")
		if err != nil {
			return err
		}
		var keep []c18Case
		for i, cse := range out.Cases[nBefore:] {
			if cse.Descr["sig"] != nil {
				sibs[i].intact, sibs[i].why = false, fmt.Sprintf("entries missing after reopen (acked %v, present %v, %v)", cse.Descr["acked"], cse.Descr["present"], cse.Descr["message"])
			}
			// a sibling under the same manifest root: what becomes of it is the business of the
			// CDrop case (whose model knows which directories a Drop takes along), as for the alias
			if sibs[i].role == "" {
				keep = append(keep, cse)
			}
		}
		out.Cases = append(out.Cases[:nBefore], keep...)
		if A2 != nil {
			if sp.CustomDir {
				loadedFrom(A2.Orbit, &orbitdb.CreateDBOptions{}, "fresh instance on the instance's directory")
				loadedFrom(A2.Orbit, sp.cfg().on(A, &orbitdb.CreateDBOptions{}), "fresh instance on the instance's directory, with the Directory option")
			}
			_ = A2.Orbit.Close()
		}
	} else if memDirOnDisk() {
		out.Direct = append(out.Direct, c18Direct{Sig: "memory:on-disk", What: "an instance on " + memDir + " left a directory of that name in the working directory", Case: map[string]interface{}{}})
	}
	if sp.CustomDir {
		// a fresh instance whose own directory is the option's directory
		if A3, err := env.NewReplicaOpts(A.Idx, label, altDir(A), A.PID, nil); err != nil {
			empty, emsg = false, emsg+"; fresh instance on the option's directory: "+err.Error()
		} else {
			loadedFrom(A3.Orbit, &orbitdb.CreateDBOptions{}, "fresh instance on the option's directory")
			_ = A3.Orbit.Close()
		}
		for _, sb := range sibs {
			for _, f := range foreignFiles {
				if _, err := os.Stat(f); err != nil && sb.intact {
					sb.intact, sb.why = false, "foreign file "+f+" gone"
				}
			}
		}
	}
	settleLeaks(before, leakBudget)
	optDir := ""
	if sp.CustomDir {
		optDir = altDir(A)
	}
	for k, sb := range sibs {
		d := map[string]interface{}{"kind": "drop", "variant": sp.Variant, "dropped": xaddr, "sibling": sb.addr, "drop_outcome": clsName[dcls], "drop_message": dmsg,
			"dropped_dir_removed": removed, "dropped_reopens_empty": empty, "reopen": emsg, "sibling_intact": sb.intact, "why": sb.why, "same_name": k == 0, "config": sp.cfg()}
		if sb.role != "" {
			d["same_root"] = fmt.Sprintf("dropped: %s, sibling: %s", sp.Shape, sb.role)
		}
		if !sb.intact && sp.Shape == "parent" && sb.role == "child" {
			// the sibling's cache directory lies inside the dropped database's
			d["sig"] = "drop:nested-sibling-destroyed"
		} else if !sb.intact {
			d["sig"] = "drop:sibling-damaged"
		} else if dcls != clsOK {
			d["sig"] = "drop:" + clsName[dcls]
		} else if !empty || !removed {
			d["sig"] = "drop:not-empty"
		}
		out.add(coqCDrop(sp.cfg(), si, A.Dir, optDir, X.Address(), sb.st.Address(), true, dcls, removed && empty, sb.intact), d, true)
		out.count("drop:" + sp.Variant)
	}
	return nil
}

// ---- scenario: close and reopen on the same instance, again and again ----

// c18Cycle: a database is opened on instance A with the configuration of the scenario (a
// Directory option other than the instance's directory, typically; through Create the first
// time if ViaCreate, otherwise from an address A has never opened), then Cycles times closed and
// opened again from its address with the same options.  Every incarnation loads, must find
// everything acknowledged so far, writes, and is closed ("leaves the directory reopenable with all
// acknowledged data").  Then the instance is closed and a fresh instance on the same directory
// opens the database with the same options.
func c18Cycle(r *Run, sp c18Spec, out *c18Result) error {
	ctx := context.Background()
	env, err := sharedEnv()
	if err != nil {
		return err
	}
	scenCounter++
	sim.TheHooks.Reset()
	env.Net.ResetTraffic(false)
	label := fmt.Sprintf("c%d", scenCounter)
	in := sim.NewInterner()
	time.Sleep(30 * time.Millisecond)
	before := goroutineIDs()
	var A *sim.Replica
	if sp.Mem {
		A, err = memReplica(env, scenCounter*100, label)
	} else {
		A, err = env.NewReplica(scenCounter*100, label)
	}
	if err != nil {
		return err
	}
	cfg := sp.cfg()
	name := "cyc-" + label
	pa, err := A.Orbit.DetermineAddress(ctx, name, sp.Type, &orbitdb.DetermineAddressOptions{AccessController: acBoth(A)})
	if err != nil {
		return err
	}
	addr := pa.String()
	open := func(o orbitdb.OrbitDB, rep *sim.Replica, first bool) (iface.Store, error) {
		return withMaxHistory(o, sp.MaxHist, func() (iface.Store, error) {
			if first && sp.ViaCreate {
				return o.Create(ctx, name, sp.Type, cfg.on(rep, cfg.dbOpts(0, acBoth(A))))
			}
			return o.Open(ctx, addr, cfg.on(rep, cfg.dbOpts(0, nil)))
		})
	}
	var acked []string
	var outcomes []int
	var msgs []string
	complete := true
	worst := func(a, b int) int {
		if b > a {
			return b
		}
		return a
	}
	for i := 0; i <= sp.Cycles; i++ {
		oc := clsOK
		msg := ""
		note := func(what string, c int, m string) {
			oc = worst(oc, c)
			if c != clsOK {
				msg += fmt.Sprintf("%s: %s %s; ", what, clsName[c], m)
			}
		}
		var st iface.Store
		c, m := callClass(20*time.Second, func() error {
			var err error
			st, err = open(A.Orbit, A, i == 0)
			return err
		})
		note("open", c, m)
		if c != clsOK {
			if i == 0 {
				return fmt.Errorf("cycle: first open: %s %s", clsName[c], m)
			}
			outcomes, msgs, complete = append(outcomes, oc), append(msgs, msg), false
			continue
		}
		if st.Address().String() != addr {
			return fmt.Errorf("cycle: opened %s, expected %s", st.Address(), addr)
		}
		c, m = callClass(30*time.Second, func() error { return st.Load(ctx, -1) })
		note("load", c, m)
		if c != clsOK {
			complete = false
		} else if !sp.Mem && sp.MaxHist == 0 {
			present := c18Hashes(st)
			for _, h := range acked {
				if !containsStr(present, h) {
					complete = false
					msg += "acknowledged entry missing after load; "
					break
				}
			}
		}
		for k := 0; k < 1+r.Rng.Intn(2); k++ {
			nBefore := st.OpLog().Len()
			c, m = callClass(20*time.Second, func() error { return c18Write(r, st, 10*i+k) })
			note("write", c, m)
			if c == clsOK && st.OpLog().Len() > nBefore {
				hs := c18Hashes(st)
				for _, h := range hs {
					if !containsStr(acked, h) {
						acked = append(acked, h)
					}
				}
			}
		}
		c, m = callClass(10*time.Second, st.Close)
		note("close", c, m)
		outcomes, msgs = append(outcomes, oc), append(msgs, msg)
	}
	d := map[string]interface{}{"kind": "cycle", "address": addr, "via_create": sp.ViaCreate, "cycles": sp.Cycles, "outcomes": outcomes, "messages": msgs,
		"complete": complete, "acked": len(acked)}
	sp.describe(d)
	bad := !complete
	for _, o := range outcomes {
		if o != clsOK {
			bad = true
		}
	}
	if bad {
		d["sig"] = "cycle:reopen-on-the-same-instance"
		if cfg.CustomDir && strings.Contains(strings.Join(msgs, " "), "leveldb: closed") {
			// the known one: the store was given the bare datastore, its Close left a closed cache registered
			d["sig"] = "cycle:directory-option:reopened-store-has-a-closed-cache"
		}
	}
	out.add(fmt.Sprintf("(CCycle %s %s %s %s)", cfg.coq(), sim.CoqBool(sp.ViaCreate), sim.CoqListN(outcomes), sim.CoqBool(complete)), d, true)
	out.count(fmt.Sprintf("cycle:customdir=%v,memory=%v,via_create=%v", cfg.CustomDir, cfg.Mem, sp.ViaCreate))
	// instance close: nothing left (the lookups' caches below the option's directory included)
	c, m := callClass(20*time.Second, A.Orbit.Close)
	leaks := settleLeaks(before, leakBudget)
	out.addCloseCfg([]c18Cfg{cfg}, whenInstance, 1, false, leaks, []int{c}, []string{m}, map[string]interface{}{"note": "instance close after the cycles"})
	// a fresh instance on the same directory, the same options
	A2, err := env.NewReplicaOpts(A.Idx, label, A.Dir, A.PID, nil)
	ccfg := c18Cfg{Repl: true, Mem: sp.Mem, CustomDir: cfg.CustomDir}.coq()
	a := c18IDs(in, acked)
	if err != nil {
		out.add(fmt.Sprintf("(CReopen %s %s %s false)", ccfg, sim.CoqListN(a), sim.CoqListN(nil)),
			map[string]interface{}{"kind": "reopen", "why": "after-cycles", "message": "reopen instance: " + err.Error(), "sig": "reopen:instance:after-cycles"}, true)
		return nil
	}
	okAll, rmsg := true, ""
	var present []string
	var st iface.Store
	if c, m := callClass(20*time.Second, func() error {
		var err error
		st, err = open(A2.Orbit, A2, false)
		return err
	}); c != clsOK {
		okAll, rmsg = false, "open: "+clsName[c]+" "+m
	} else {
		amount := -1
		if c, m := callClass(30*time.Second, func() error { return st.Load(ctx, amount) }); c != clsOK {
			okAll, rmsg = false, "load: "+clsName[c]+" "+m
		}
		present = c18Hashes(st)
	}
	pr := c18IDs(in, present)
	rd := map[string]interface{}{"kind": "reopen", "why": "after-cycles", "acked": len(a), "present": len(pr), "message": rmsg, "memory": sp.Mem, "config": cfg}
	if sp.MaxHist > 0 {
		// a limited load leaves older entries out on purpose: only that it answers is judged
		a = nil
	}
	missing := 0
	for _, x := range a {
		if !containsInt(pr, x) {
			missing++
		}
	}
	if sp.Mem {
		if !okAll {
			rd["sig"] = "reopen:memory:after-cycles"
		} else if len(pr) > 0 {
			rd["sig"] = "reopen:memory-instance-found-data"
		}
	} else if !okAll || missing > 0 {
		rd["sig"] = "reopen:after-cycles"
		rd["missing"] = missing
	}
	out.add(fmt.Sprintf("(CReopen %s %s %s %s)", ccfg, sim.CoqListN(a), sim.CoqListN(pr), sim.CoqBool(okAll)), rd, len(a) > 0)
	out.count("reopen")
	c, m = callClass(20*time.Second, A2.Orbit.Close)
	leaks = settleLeaks(before, leakBudget)
	out.addCloseCfg([]c18Cfg{{Repl: cfg.Repl, Mem: sp.Mem, Limited: cfg.Limited, CustomDir: cfg.CustomDir}}, whenInstance, 1, false, leaks, []int{c}, []string{m},
		map[string]interface{}{"note": "close of the reopened instance (store loaded, not closed individually)"})
	if sp.Mem && memDirOnDisk() {
		out.Direct = append(out.Direct, c18Direct{Sig: "memory:on-disk", What: "an instance on " + memDir + " left a directory of that name in the working directory", Case: map[string]interface{}{}})
	}
	return nil
}

func containsStr(l []string, x string) bool {
	for _, y := range l {
		if y == x {
			return true
		}
	}
	return false
}

// ---- scenario: Close of one of several databases that share a manifest root ----

// c18SameRoot: parent /orbitdb/R/<name>, deep /orbitdb/R/archive/<name> and child
// /orbitdb/R/<name>/sub are open on one instance and written to; one of them (Shape) is closed.
// The two others must still accept writes (their caches are their own: the cache key is root +
// FULL path); then the instance is closed, the directory reopened, and each of the three must
// load everything it acknowledged.
func c18SameRoot(r *Run, sp c18Spec, out *c18Result) error {
	ctx := context.Background()
	env, err := sharedEnv()
	if err != nil {
		return err
	}
	scenCounter++
	sim.TheHooks.Reset()
	env.Net.ResetTraffic(false)
	label := fmt.Sprintf("r%d", scenCounter)
	in := sim.NewInterner()
	si := segInterner{sim.NewInterner()}
	time.Sleep(30 * time.Millisecond)
	before := goroutineIDs()
	var A *sim.Replica
	if sp.Mem {
		A, err = memReplica(env, scenCounter*100, label)
	} else {
		A, err = env.NewReplica(scenCounter*100, label)
	}
	if err != nil {
		return err
	}
	s := &Scen{Env: env, Reps: []*sim.Replica{A}, Canon: sim.NewCanon(), Label: label}
	name := "demo-" + label
	trio, err := sameRootTrio(ctx, A, name, sp.Type)
	if err != nil {
		return err
	}
	roles := []string{"parent", "deep", "child"}
	r.Rng.Shuffle(len(roles), func(i, j int) { roles[i], roles[j] = roles[j], roles[i] }) // the order of opening varies
	stores := map[string]iface.Store{}
	acked := map[string][]string{}
	cfgs := sp.Cfgs
	for k, role := range roles {
		cfg := c18Cfg{Repl: true, Mem: sp.Mem}
		if k < len(cfgs) {
			cfg = cfgs[k]
		}
		st, err := openRole(ctx, A, trio, role, name, sp.Type, cfg.dbOpts(0, nil))
		if err != nil {
			return fmt.Errorf("same-root %s (%s): %w", role, trio[role], err)
		}
		stores[role] = st
		for i := 0; i < sp.Writes; i++ {
			if err := writeOp(r, s, st, 100*k+i); err != nil {
				return fmt.Errorf("write to %s: %w", role, err)
			}
		}
		acked[trio[role]] = c18Hashes(st)
	}
	closed := stores[sp.Shape]
	var ccls int
	var cmsg string
	if sp.Variant == "drop-then-write" {
		ccls, cmsg = callClass(15*time.Second, closed.Drop)
		delete(acked, trio[sp.Shape])
	} else {
		ccls, cmsg = callClass(10*time.Second, closed.Close)
	}
	if ccls != clsOK {
		out.addAfter(opClose, ccls, cmsg, map[string]interface{}{"note": "close of the " + sp.Shape + " of a same-root trio"})
	}
	for _, role := range []string{"parent", "deep", "child"} {
		if role == sp.Shape {
			continue
		}
		st := stores[role]
		wc, wm := callClass(10*time.Second, func() error { return c18Write(r, st, 900) })
		d := map[string]interface{}{"kind": "sibling", "closed": trio[sp.Shape], "closed_role": sp.Shape, "written": trio[role], "written_role": role,
			"write_outcome": clsName[wc], "message": wm, "how": sp.Variant, "memory": sp.Mem}
		if wc == clsOK {
			acked[trio[role]] = c18Hashes(st)
		} else {
			d["sig"] = "sibling:write-after-close-of-same-root-sibling:" + clsName[wc]
		}
		if sp.Variant != "drop-then-write" {
			// (after a Drop the sibling is judged by the drop scenarios, whose model knows which
			// directories a Drop takes along)
			out.add(fmt.Sprintf("(CSibling %s %s %s %s %s %s)", sim.CoqListN(si.dir(A.Dir)),
				sim.CoqN(si.in.ID(closed.Address().GetRoot().String())), sim.CoqList(si.segs(closed.Address().GetPath())),
				sim.CoqN(si.in.ID(st.Address().GetRoot().String())), sim.CoqList(si.segs(st.Address().GetPath())), sim.CoqN(wc)), d, true)
			out.count("sibling:" + sp.Shape + "->" + role)
		}
	}
	// instance close: nothing left; the directory reopens with everything acknowledged
	c, m := callClass(20*time.Second, A.Orbit.Close)
	leaks := settleLeaks(before, leakBudget)
	var ccfgs []c18Cfg
	for k := range roles {
		cfg := c18Cfg{Repl: true, Mem: sp.Mem}
		if k < len(cfgs) {
			cfg = cfgs[k]
		}
		ccfgs = append(ccfgs, cfg)
	}
	out.addCloseCfg(ccfgs, whenInstance, 1, false, leaks, []int{c}, []string{m}, map[string]interface{}{"note": "instance close, three databases under one manifest root, the " + sp.Shape + " closed before", "variant": sp.Variant})
	if sp.Variant == "drop-then-write" {
		return nil
	}
	var addrs []string
	for _, role := range []string{"parent", "deep", "child"} {
		addrs = append(addrs, trio[role])
	}
	A2, err := out.reopenCheck(env, A, label, addrs, acked, in, "same-root-after-close-of-"+sp.Shape)
	if err != nil {
		return err
	}
	if A2 != nil {
		_ = A2.Orbit.Close()
	}
	return nil
}

type addrLike interface {
	GetRoot() cid.Cid
	GetPath() string
}

func coqCDrop(cfg c18Cfg, si segInterner, dir, opt string, dropped, sib addrLike, opened bool, dcls int, droppedEmpty, siblingIntact bool) string {
	var o []int
	if opt != "" {
		o = si.dir(opt)
	}
	return fmt.Sprintf("(CDrop %s %s %s %s %s %s %s %s %s %s %s)", cfg.coq(), sim.CoqListN(si.dir(dir)), sim.CoqListN(o),
		sim.CoqN(si.in.ID(dropped.GetRoot().String())), sim.CoqList(si.segs(dropped.GetPath())),
		sim.CoqN(si.in.ID(sib.GetRoot().String())), sim.CoqList(si.segs(sib.GetPath())),
		sim.CoqBool(opened), sim.CoqN(dcls), sim.CoqBool(droppedEmpty), sim.CoqBool(siblingIntact))
}

// ---- scenario: an address whose path leaves its root ----

type fakeAddr struct {
	root cid.Cid
	path string
}

func (f fakeAddr) GetRoot() cid.Cid { return f.root }
func (f fakeAddr) GetPath() string  { return f.path }

func c18Alias(r *Run, sp c18Spec, out *c18Result) error {
	ctx := context.Background()
	env, err := sharedEnv()
	if err != nil {
		return err
	}
	scenCounter++
	sim.TheHooks.Reset()
	env.Net.ResetTraffic(false)
	label := fmt.Sprintf("a%d", scenCounter)
	in := sim.NewInterner()
	si := segInterner{sim.NewInterner()}
	A, err := env.NewReplica(scenCounter*100, label)
	if err != nil {
		return err
	}
	s := &Scen{Env: env, Reps: []*sim.Replica{A}, Canon: sim.NewCanon(), Label: label}
	V, err := A.Orbit.Create(ctx, "victim-"+label, sp.Type, &orbitdb.CreateDBOptions{AccessController: acBoth(A)})
	if err != nil {
		return err
	}
	for i := 0; i < sp.Writes; i++ {
		if err := writeOp(r, s, V, i); err != nil {
			return err
		}
	}
	T, err := A.Orbit.Create(ctx, "other-"+label, sp.Type, &orbitdb.CreateDBOptions{AccessController: acBoth(A)})
	if err != nil {
		return err
	}
	vaddr := V.Address()
	acked := c18Hashes(V)
	vdir := cacheDirOf(A.Dir, V)
	if sp.Variant == "victim-closed" {
		if c, m := callClass(10*time.Second, V.Close); c != clsOK {
			out.addAfter(opClose, c, m, nil)
		}
	}
	var alias string
	switch sp.Variant {
	case "harmless":
		// dots and empty segments only: stays inside its own root
		alias = "/orbitdb/" + T.Address().GetRoot().String() + "/./sub//" + "name-" + label
	default:
		alias = "/orbitdb/" + T.Address().GetRoot().String() + "/../" + vaddr.GetRoot().String() + "/" + vaddr.GetPath()
	}
	var AL iface.Store
	ocls, omsg := callClass(20*time.Second, func() error {
		var err error
		AL, err = A.Orbit.Open(ctx, alias, &orbitdb.CreateDBOptions{})
		return err
	})
	d := map[string]interface{}{"kind": "alias", "variant": sp.Variant, "alias": alias, "victim": vaddr.String(), "open_outcome": clsName[ocls], "open_message": omsg}
	dcls, dmsg := clsOK, ""
	var dropped addrLike
	if ocls == clsOK {
		dropped = AL.Address()
		d["alias_address_string"] = AL.Address().String()
		d["alias_path"] = AL.Address().GetPath()
		d["alias_cache_dir"] = cacheDirOf(A.Dir, AL)
		d["victim_cache_dir"] = vdir
		dcls, dmsg = callClass(15*time.Second, AL.Drop)
		d["drop_outcome"], d["drop_message"] = clsName[dcls], dmsg
	} else {
		// what was asked for (the address was refused)
		root := T.Address().GetRoot()
		dropped = fakeAddr{root, strings.TrimPrefix(strings.TrimPrefix(alias, "/orbitdb/"+root.String()), "/")}
	}
	_, statErr := os.Stat(vdir)
	d["victim_dir_exists_after"] = statErr == nil
	_ = callClassIgnore(A.Orbit.Close)
	// the victim after a reopen of the directory (folded into the CDrop case: the model of
	// CReopen knows nothing about aliases)
	nBefore := len(out.Cases)
	A2, err := out.reopenCheck(env, A, label, []string{vaddr.String()}, map[string][]string{vaddr.String(): acked}, in, "victim-after-alias-drop")
	if err != nil {
		return err
	}
	rd := out.Cases[nBefore].Descr
	out.Cases = out.Cases[:nBefore]
	intact := statErr == nil && rd["sig"] == nil
	if A2 != nil {
		_ = A2.Orbit.Close()
	}
	d["sibling_intact"] = intact
	d["victim_acked"], d["victim_present_after_reopen"], d["victim_reopen_message"] = rd["acked"], rd["present"], rd["message"]
	if !intact {
		d["sig"] = "drop:dotdot-alias"
	} else if dcls != clsOK || ocls >= clsPanic {
		d["sig"] = "alias:" + clsName[dcls]
	}
	out.add(coqCDrop(sp.cfg(), si, A.Dir, "", dropped, vaddr, ocls == clsOK, dcls, true, intact), d, true)
	out.count("alias:" + sp.Variant)
	return nil
}

func callClassIgnore(f func() error) int {
	c, _ := callClass(20*time.Second, f)
	return c
}

// ---- scenario: every API operation on a closed store ----

func c18AfterClose(r *Run, sp c18Spec, out *c18Result) error {
	ctx := context.Background()
	s, A, B, stB, addr, err := c18Pair(sp)
	if err != nil {
		return err
	}
	time.Sleep(30 * time.Millisecond)
	before := goroutineIDs()
	stA, err := c18Open(sp, A, addr)
	if err != nil {
		return err
	}
	s.Stores = []iface.Store{stA, stB}
	for i := 0; i < sp.Writes; i++ {
		if err := writeOp(r, s, stA, i); err != nil {
			return err
		}
	}
	for i := 0; i < sp.Remote; i++ {
		if err := writeOp(r, s, stB, 1000+i); err != nil {
			return err
		}
	}
	known := stA.OpLog().Values().Slice()
	remoteHeads := stB.OpLog().Heads().Slice()
	instance := sp.Variant == "instance"
	if instance {
		c, m := callClass(20*time.Second, A.Orbit.Close)
		if c != clsOK {
			out.addAfter(opInstClose, c, m, map[string]interface{}{"note": "first"})
		}
	} else {
		c, m := callClass(10*time.Second, stA.Close)
		if c != clsOK {
			out.addAfter(opClose, c, m, map[string]interface{}{"note": "first"})
		}
	}
	ex := map[string]interface{}{"type": sp.Type, "closed": sp.Variant, "config": sp.cfg()}
	type opf struct {
		op int
		f  func() error
	}
	var ops []opf
	switch x := stA.(type) {
	case iface.EventLogStore:
		ops = append(ops,
			opf{opAdd, func() error { _, err := x.Add(ctx, []byte("late")); return err }},
			opf{opLogList, func() error { _, err := x.List(ctx, &iface.StreamOptions{Amount: intp(-1)}); return err }})
		if len(known) > 0 {
			h := known[0].GetHash()
			ops = append(ops, opf{opLogGet, func() error { _, err := x.Get(ctx, h); return err }})
		}
	case iface.KeyValueStore:
		ops = append(ops,
			opf{opKvPut, func() error { _, err := x.Put(ctx, "late", []byte("v")); return err }},
			opf{opKvDelete, func() error { _, err := x.Delete(ctx, "a"); return err }},
			opf{opKvGet, func() error { _, err := x.Get(ctx, "a"); return err }},
			opf{opKvAll, func() error { _ = x.All(); return nil }})
	case iface.DocumentStore:
		ops = append(ops,
			opf{opDocPut, func() error { _, err := x.Put(ctx, map[string]interface{}{"_id": "late", "v": 1}); return err }},
			opf{opDocPutBatch, func() error {
				_, err := x.PutBatch(ctx, []interface{}{map[string]interface{}{"_id": "l1", "v": 1}, map[string]interface{}{"_id": "l2", "v": 1}})
				return err
			}},
			opf{opDocPutAll, func() error {
				_, err := x.PutAll(ctx, []interface{}{map[string]interface{}{"_id": "l3", "v": 1}})
				return err
			}},
			opf{opDocDelete, func() error { _, err := x.Delete(ctx, "a"); return err }},
			opf{opDocGet, func() error { _, err := x.Get(ctx, "a", nil); return err }},
			opf{opDocQuery, func() error {
				_, err := x.Query(ctx, func(interface{}) (bool, error) { return true, nil })
				return err
			}})
	}
	if !instance {
		ops = append(ops,
			opf{opLoad, func() error { return stA.Load(ctx, -1) }},
			opf{opSync, gatedLoad(before, func() error { return s.SyncHeads(0, remoteHeads) })},
			opf{opLoadFromSnapshot, func() error { return stA.LoadFromSnapshot(ctx) }},
			opf{opLoadMoreFrom, gatedLoad(before, func() error { stA.LoadMoreFrom(ctx, 10, remoteHeads); return nil })},
			opf{opAccessors, func() error {
				_ = stA.OpLog().Len()
				_ = stA.Index()
				_ = stA.ReplicationStatus().GetProgress()
				_ = stA.Address().String()
				_ = stA.Cache()
				_ = stA.AccessController()
				_ = stA.Identity()
				_ = stA.DBName()
				_ = stA.Type()
				_ = stA.EventBus()
				return nil
			}},
			opf{opLegacyEmit, func() error { stA.Emit(ctx, "late event"); return nil }},
			opf{opLegacySubscribe, func() error {
				cctx, cancel := context.WithCancel(ctx)
				ch := stA.Subscribe(cctx)
				cancel()
				select {
				case <-ch:
				case <-time.After(2 * time.Second):
					return fmt.Errorf("legacy subscription channel not closed after cancelling its context")
				}
				return nil
			}},
			opf{opClose, stA.Close})
		r.Rng.Shuffle(len(ops), func(i, j int) { ops[i], ops[j] = ops[j], ops[i] })
		// Drop last (it replaces log and index), then the operations after Drop
		ops = append(ops,
			opf{opDrop, stA.Drop},
			opf{opAddAfterDrop, func() error { return c18Write(r, stA, 700) }},
			opf{opLoadAfterDrop, func() error { return stA.Load(ctx, -1) }},
			opf{opCloseAfterDrop, stA.Close},
			opf{opDropAfterDrop, stA.Drop})
	} else {
		// store operations once the INSTANCE is closed, then instance operations
		var wr, rd []opf
		for _, o := range ops {
			switch o.op {
			case opAdd, opKvPut, opDocPut:
				wr = append(wr, opf{opStoreWriteInstClosed, o.f})
			case opLogList, opKvGet, opDocQuery:
				rd = append(rd, opf{opStoreReadInstClosed, o.f})
			}
		}
		ops = append(append(wr, rd...),
			opf{opLoad, func() error { return stA.Load(ctx, -1) }},
			opf{opClose, stA.Close},
			opf{opInstClose, A.Orbit.Close},
			opf{opInstOpen, func() error {
				st, err := A.Orbit.Open(ctx, addr, &orbitdb.CreateDBOptions{})
				if err == nil {
					defer st.Close()
				}
				return err
			}},
			opf{opInstCreate, func() error {
				st, err := A.Orbit.Create(ctx, "late-"+s.Label, sp.Type, &orbitdb.CreateDBOptions{AccessController: acBoth(A)})
				if err == nil {
					defer st.Close()
				}
				return err
			}},
			opf{opInstClose, A.Orbit.Close})
	}
	for _, o := range ops {
		c, m := callClass(opWatchdog, o.f)
		out.addAfter(o.op, c, m, ex)
	}
	if !instance {
		_ = callClassIgnore(A.Orbit.Close)
	}
	leaks := settleLeaks(before, leakBudget)
	out.addClose(sp, whenAfterOps, 1, false, leaks, []int{clsOK}, nil, map[string]interface{}{"note": "after exercising the API on the closed " + sp.Variant, "type": sp.Type})
	_ = B.Orbit.Close()
	return nil
}

func intp(i int) *int { return &i }

// ---- scenario: legacy emitter subscribers ----

func c18Legacy(r *Run, sp c18Spec, out *c18Result) error {
	ctx := context.Background()
	s, err := NewScen(1, sp.Type, &ScenOpts{NoOpen: true})
	if err != nil {
		return err
	}
	A := s.Reps[0]
	time.Sleep(30 * time.Millisecond)
	before := goroutineIDs()
	st, err := A.Orbit.Create(ctx, "db-"+s.Label, sp.Type, sp.dbOpts(acBoth(A)))
	if err != nil {
		return err
	}
	s.Stores = []iface.Store{st}
	cctx, cancel := context.WithCancel(ctx)
	defer cancel()
	ch := st.Subscribe(cctx)
	got := 0
	consumerDone := make(chan struct{})
	// variant "stalled": the consumer does not read anything until the store has been closed, and
	// more events are pending for it than any buffer or window of the emitter holds
	stalled := sp.Variant == "stalled"
	startReading := make(chan struct{})
	if !stalled {
		close(startReading)
	}
	go func() {
		defer close(consumerDone)
		<-startReading
		for range ch {
			got++
		}
	}()
	writes := sp.Writes
	if stalled {
		writes = 1100
	}
	for i := 0; i < writes; i++ {
		if err := writeOp(r, s, st, i); err != nil {
			return err
		}
	}
	time.Sleep(50 * time.Millisecond)
	if sp.Variant == "ctx-cancelled" {
		cancel()
	}
	classes, msgs := closeMany(1, false, st.Close)
	if stalled {
		close(startReading)
		select {
		case <-consumerDone:
		case <-time.After(20 * time.Second):
			out.Direct = append(out.Direct, c18Direct{Sig: "hang:legacy-subscriber-after-close", What: "the channel of a legacy subscriber that had stalled was not closed within 20 s after the Close of the store although the subscriber drained it", Case: map[string]interface{}{"pending_writes": writes, "type": sp.Type}})
		}
	}
	leaks := settleLeaks(before, leakBudget)
	consumerEnded := false
	select {
	case <-consumerDone:
		consumerEnded = true
	default:
	}
	out.addClose(sp, sp.When, 1, false, leaks, classes, msgs, map[string]interface{}{"type": sp.Type, "variant": sp.Variant,
		"consumer_channel_closed": consumerEnded, "note": "store with one legacy Subscribe(ctx) consumer"})
	cancel()
	select {
	case <-consumerDone:
	case <-time.After(3 * time.Second):
		out.Direct = append(out.Direct, c18Direct{Sig: "hang:legacy-subscriber", What: "legacy subscription channel not closed 3 s after cancelling its context", Case: map[string]interface{}{}})
	}
	_ = A.Orbit.Close()
	if l := settleLeaks(before, leakBudget); len(l) > 0 {
		_, names := leakSites(l)
		out.Notes = append(out.Notes, "after cancelling the subscriber context and closing the instance still present: "+strings.Join(names, "; "))
	}
	return nil
}

var _ = operation.NewOperation
var _ ipfslog.Entry

// waitParked: all replication work of the store has reached the gate at `point`
// (no item queued, every item being fetched is parked there).
func waitParked(st iface.Store, point string, d time.Duration) bool {
	deadline := time.Now().Add(d)
	stable := 0
	for time.Now().Before(deadline) {
		rs := sim.ReplState(st)
		if rs.Added == 0 && rs.Queue == 0 && rs.Fetching > 0 && sim.TheHooks.Count(point) == rs.Fetching {
			stable++
			if stable >= 5 {
				return true
			}
		} else {
			stable = 0
		}
		time.Sleep(4 * time.Millisecond)
	}
	return false
}

// waitNoSite waits until no new goroutine created at the given go-orbit-db site is left.
func waitNoSite(before map[int]bool, suffix string, d time.Duration) bool {
	deadline := time.Now().Add(d)
	for time.Now().Before(deadline) {
		found := false
		for _, g := range newOrbitGoroutines(before) {
			if strings.TrimPrefix(g.Site, orbitPrefix) == suffix {
				found = true
			}
		}
		if !found {
			return true
		}
		time.Sleep(5 * time.Millisecond)
	}
	return false
}

// lenientAPI is a replica's CoreAPI whose block fetches, once started, deliver the block
// even if the context has been cancelled meanwhile -- which is what kubo's Dag().Get does
// for a block it finds in the local blockstore (probed by the driver in c18Race, counter probe:kubo-Dag.Get-local-block-cancelled-context).
type lenientAPI struct {
	*sim.ReplicaAPI
	mu   sync.Mutex
	gate func(cid.Cid)
}

func (a *lenientAPI) setGate(g func(cid.Cid)) {
	a.mu.Lock()
	a.gate = g
	a.mu.Unlock()
}

func (a *lenientAPI) WithOptions(...options.ApiOption) (coreiface.CoreAPI, error) { return a, nil }

func (a *lenientAPI) Dag() coreiface.APIDagService {
	return lenientDag{a.ReplicaAPI.Dag(), a}
}

type lenientDag struct {
	coreiface.APIDagService
	a *lenientAPI
}

func (d lenientDag) Get(ctx context.Context, c cid.Cid) (ipld.Node, error) {
	d.a.mu.Lock()
	g := d.a.gate
	d.a.mu.Unlock()
	if g != nil {
		g(c)
	}
	return d.APIDagService.Get(context.WithoutCancel(ctx), c)
}

// gatedLoad runs an operation that starts a replicator load on a CLOSED store with the
// workers held at replicator.before_slot until the load's context (cancelled
// asynchronously by a helper goroutine once the root context is done) is certainly
// cancelled.  Without this the outcome depends on a race between that helper goroutine and
// the workers (measured separately by the "race" scenario).
func gatedLoad(before map[int]bool, f func() error) func() error {
	return func() error {
		g := sim.TheHooks.Park("replicator.before_slot", "", 0)
		defer g.Release()
		queued0 := sim.TheHooks.Count("replicator.load_queued")
		done := make(chan error, 1)
		go func() {
			defer func() {
				if p := recover(); p != nil {
					done <- fmt.Errorf("PANIC: %v", p)
				}
			}()
			done <- f()
		}()
		// once the request has queued its items every worker it will ever have has been started
		// (none gets past the gate), and its context binder exists: when that binder is gone the
		// context is cancelled, whether or not a worker has reached the gate yet
		deadline := time.Now().Add(500 * time.Millisecond)
		for sim.TheHooks.Count("replicator.load_queued") == queued0 && time.Now().Before(deadline) {
			time.Sleep(2 * time.Millisecond)
		}
		if sim.TheHooks.Count("replicator.load_queued") > queued0 {
			waitNoSite(before, "stores/replicator.(*replicator).rootContextWithCancel", time.Second)
		}
		g.Release()
		err := <-done
		if err != nil && strings.HasPrefix(err.Error(), "PANIC: ") {
			panic(err.Error())
		}
		return err
	}
}

// ---- scenario: racy behaviours, measured, not judged ----

// c18Race counts (a) how often a load started on a closed store hangs when nothing is
// gated, (b) how often concurrent Close calls return an error.  Only counters are reported.
func c18Race(r *Run, sp c18Spec, out *c18Result) error {
	ctx := context.Background()
	s, err := NewScen(2, "eventlog", &ScenOpts{NoOpen: true})
	if err != nil {
		return err
	}
	A, B := s.Reps[0], s.Reps[1]
	hangs := 0
	for i := 0; i < sp.NDB; i++ {
		stB, err := B.Orbit.Create(ctx, fmt.Sprintf("race-%s-%d", s.Label, i), "eventlog", &orbitdb.CreateDBOptions{AccessController: acBoth(A, B)})
		if err != nil {
			return err
		}
		if err := c18Write(r, stB, i); err != nil {
			return err
		}
		stA, err := A.Orbit.Open(ctx, stB.Address().String(), &orbitdb.CreateDBOptions{})
		if err != nil {
			return err
		}
		classes, _ := closeMany(4, true, stA.Close)
		for _, c := range classes {
			out.count("race:concurrent-close:" + clsName[c])
		}
		heads := stB.OpLog().Heads().Slice()
		c, _ := callClass(2*time.Second, func() error { stA.LoadMoreFrom(ctx, 10, heads); return nil })
		out.count("race:ungated-LoadMoreFrom-after-close:" + clsName[c])
		if c == clsHang {
			hangs++
		}
		// c18Probe: does the real kubo API deliver a locally held block to a cancelled context?
		// (the premise of the mid-fetch moment, when = 11)
		cctx, cancel := context.WithCancel(ctx)
		cancel()
		if n, err := s.Env.API.Dag().Get(cctx, heads[0].GetHash()); err == nil && n != nil {
			out.count("probe:kubo-Dag.Get-local-block-cancelled-context:delivered")
		} else {
			out.count("probe:kubo-Dag.Get-local-block-cancelled-context:refused")
		}
		_ = stB.Close()
	}
	if hangs > 0 {
		out.Notes = append(out.Notes, fmt.Sprintf("ungated LoadMoreFrom on a closed store did not return within 2 s in %d of %d trials (same defect as the leak at when=11: the progress consumer leaves on cancellation)", hangs, sp.NDB))
	}
	_ = A.Orbit.Close()
	_ = B.Orbit.Close()
	return nil
}

// ---- scenario: real pubsub adapter and direct channel ----

func c18Node(ctx context.Context, mn mocknet.Mocknet) (*ipfsCore.IpfsNode, coreiface.CoreAPI, error) {
	priv, pub, err := crypto.GenerateKeyPairWithReader(crypto.Ed25519, 0, crand.Reader)
	if err != nil {
		return nil, nil, err
	}
	pid, _ := peer.IDFromPublicKey(pub)
	privb, _ := crypto.MarshalPrivateKey(priv)
	c := cfg.Config{}
	c.Pubsub.Enabled = cfg.True
	c.Bootstrap = []string{}
	c.Addresses.Swarm = []string{"/ip4/127.0.0.1/tcp/4001"}
	c.Identity.PeerID = pid.String()
	c.Identity.PrivKey = base64.StdEncoding.EncodeToString(privb)
	c.Swarm.ResourceMgr.Enabled = cfg.False
	r := &repo.Mock{D: dsync.MutexWrap(ds.NewMapDatastore()), C: c}
	node, err := ipfsCore.NewNode(ctx, &ipfsCore.BuildCfg{Online: true, Repo: r, Host: mock.MockHostOption(mn), ExtraOpts: map[string]bool{"pubsub": true}})
	if err != nil {
		return nil, nil, err
	}
	api, err := coreapi.NewCoreAPI(node)
	return node, api, err
}

// c18RealNet: two instances with the REAL pubsub adapter (pubsub/pubsubcoreapi) and the real
// direct channel (pubsub/oneonone) on two connected kubo mock nodes: write, replicate, close
// one store individually and both instances; afterwards no goroutine created inside
// go-orbit-db may be left.
func c18RealNet(r *Run, sp c18Spec, out *c18Result) error {
	ctx, cancel := context.WithCancel(context.Background())
	defer cancel()
	mn := mocknet.New()
	defer mn.Close()
	work, err := os.MkdirTemp("", "verif-c18-real-")
	if err != nil {
		return err
	}
	defer os.RemoveAll(work)
	var nodes []*ipfsCore.IpfsNode
	var apis []coreiface.CoreAPI
	for i := 0; i < 2; i++ {
		n, api, err := c18Node(ctx, mn)
		if err != nil {
			return err
		}
		nodes = append(nodes, n)
		apis = append(apis, api)
	}
	defer func() {
		for _, n := range nodes {
			_ = n.Close()
		}
	}()
	if err := mn.LinkAll(); err != nil {
		return err
	}
	if err := mn.ConnectAllButSelf(); err != nil {
		return err
	}
	time.Sleep(30 * time.Millisecond)
	before := goroutineIDs()
	var odbs []orbitdb.OrbitDB
	for i := 0; i < 2; i++ {
		dir := filepath.Join(work, fmt.Sprintf("n%d", i))
		o, err := orbitdb.NewOrbitDB(ctx, apis[i], &orbitdb.NewOrbitDBOptions{Directory: &dir})
		if err != nil {
			return err
		}
		odbs = append(odbs, o)
	}
	ac := &accesscontroller.CreateAccessControllerOptions{Access: map[string][]string{"write": {odbs[0].Identity().ID, odbs[1].Identity().ID}}}
	st0, err := odbs[0].Create(ctx, "real-"+fmt.Sprint(sp.ID), sp.Type, &orbitdb.CreateDBOptions{AccessController: ac})
	if err != nil {
		return err
	}
	st1, err := odbs[1].Open(ctx, st0.Address().String(), &orbitdb.CreateDBOptions{})
	if err != nil {
		return err
	}
	for i := 0; i < sp.Writes; i++ {
		if err := c18Write(r, st0, i); err != nil {
			return err
		}
	}
	// give head exchange / pubsub a chance (not required for the check)
	replicated := false
	deadline := time.Now().Add(8 * time.Second)
	for time.Now().Before(deadline) {
		if st1.OpLog().Len() >= st0.OpLog().Len() {
			replicated = true
			break
		}
		time.Sleep(50 * time.Millisecond)
	}
	var classes []int
	var msgs []string
	c, m := callClass(20*time.Second, st1.Close)
	classes, msgs = append(classes, c), append(msgs, m)
	c, m = callClass(20*time.Second, odbs[1].Close)
	classes, msgs = append(classes, c), append(msgs, m)
	c, m = callClass(20*time.Second, odbs[0].Close)
	classes, msgs = append(classes, c), append(msgs, m)
	leaks := settleLeaks(before, leakBudget)
	var _ iface.Store = st0
	out.addClose(sp, whenRealNet, len(classes), false, leaks, classes, msgs, map[string]interface{}{"type": sp.Type, "replicated_before_close": replicated,
		"note": "real pubsubcoreapi + oneonone on two mock nodes; store close, then both instance closes"})
	return nil
}

// c18ConstructorCtxEnded: the context an instance was constructed with has ended (the
// application cancelled it, or it was a context with a deadline) before Close is called.
// Close must still close everything: the instance's stores refuse writes afterwards and the
// directory can be opened again, with all acknowledged entries.  Runs in the parent process;
// Close is given a bounded wait.
func c18ConstructorCtxEnded(r *Run) error {
	env, err := sharedEnv()
	if err != nil {
		return err
	}
	defer closeEnv()
	bg := context.Background()
	for k := 0; k < 2; k++ {
		idx := 9100 + k
		label := fmt.Sprintf("ctxended%d", k)
		dir := filepath.Join(env.Work, label)
		pid := sim.PeerIDFor(label, idx)
		ctx2, cancel := context.WithCancel(env.Ctx)
		rep, err := env.NewReplicaCtx(ctx2, idx, label, dir, pid, nil)
		if err != nil {
			cancel()
			return err
		}
		typ := []string{"eventlog", "keyvalue"}[k%2]
		st, err := rep.Orbit.Create(bg, "db-"+label, typ, &orbitdb.CreateDBOptions{})
		if err != nil {
			cancel()
			return err
		}
		addr := st.Address().String()
		n := 3 + r.Rng.Intn(3)
		write := func(i int) error {
			switch x := st.(type) {
			case iface.EventLogStore:
				_, err := x.Add(bg, []byte(fmt.Sprintf("v%d", i)))
				return err
			case iface.KeyValueStore:
				_, err := x.Put(bg, fmt.Sprintf("k%d", i), []byte(fmt.Sprintf("v%d", i)))
				return err
			}
			return fmt.Errorf("store type")
		}
		for i := 0; i < n; i++ {
			if err := write(i); err != nil {
				cancel()
				return err
			}
		}
		cancel() // the constructor's context ends ...
		time.Sleep(20 * time.Millisecond)
		closed := make(chan error, 1)
		go func() { closed <- rep.Orbit.Close() }() // ... and then the instance is closed
		descr := map[string]interface{}{"kind": "ctx-ended", "type": typ, "entries": n}
		select {
		case cerr := <-closed:
			if cerr != nil {
				descr["close_error"] = cerr.Error()
			}
		case <-time.After(20 * time.Second):
			r.AddDirect("close:constructor-context-ended:hang", "Close of an instance whose constructor context had ended did not return", descr)
			continue
		}
		bad := ""
		if werr := write(n); werr == nil {
			bad = "a store of the closed instance still accepts writes"
		}
		rep2, err := env.NewReplicaOpts(idx, label, dir, pid, nil)
		if err != nil {
			bad += "; the directory cannot be opened again: " + err.Error()
		} else {
			st2, err := rep2.Orbit.Open(bg, addr, &orbitdb.CreateDBOptions{})
			if err != nil {
				bad += "; the database cannot be opened again: " + err.Error()
			} else {
				if err := st2.Load(bg, -1); err != nil {
					bad += "; load failed: " + err.Error()
				} else if got := st2.OpLog().Len(); got < n {
					bad += fmt.Sprintf("; %d of %d acknowledged entries after reopening", got, n)
				}
			}
			_ = rep2.Orbit.Close()
		}
		if bad != "" {
			descr["what"] = bad
			r.AddDirect("close:constructor-context-ended", "Close after the constructor context ended is not clean: "+bad, descr)
		}
		r.Count("close:constructor-context-ended:checked")
	}
	return nil
}

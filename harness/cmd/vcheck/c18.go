package main

import (
	"bufio"
	"bytes"
	"context"
	crand "crypto/rand"
	"encoding/base64"
	"encoding/json"
	"fmt"
	"math/rand"
	"os"
	"os/exec"
	"path/filepath"
	"regexp"
	"runtime"
	"sort"
	"strconv"
	"strings"
	"sync"
	"time"
	"verifharness/sim"

	ipfslog "berty.tech/go-ipfs-log"
	orbitdb "berty.tech/go-orbit-db"
	"berty.tech/go-orbit-db/accesscontroller"
	"berty.tech/go-orbit-db/iface"
	"berty.tech/go-orbit-db/stores/operation"
	cid "github.com/ipfs/go-cid"
	datastore "github.com/ipfs/go-datastore"
	ds "github.com/ipfs/go-datastore"
	dsync "github.com/ipfs/go-datastore/sync"
	ipld "github.com/ipfs/go-ipld-format"
	cfg "github.com/ipfs/kubo/config"
	ipfsCore "github.com/ipfs/kubo/core"
	"github.com/ipfs/kubo/core/coreapi"
	coreiface "github.com/ipfs/kubo/core/coreiface"
	"github.com/ipfs/kubo/core/coreiface/options"
	mock "github.com/ipfs/kubo/core/mock"
	"github.com/ipfs/kubo/repo"
	"github.com/libp2p/go-libp2p/core/crypto"
	"github.com/libp2p/go-libp2p/core/peer"
	mocknet "github.com/libp2p/go-libp2p/p2p/net/mock"
)

func init() { drivers["C18"] = driver{"C18", runC18} }

// C18: Close and Drop are clean.
//
// The observation part of the property (goroutine exit, promptness, reopenability, drop
// scope) is done here on the real code; the bookkeeping part (which signals Close raises,
// what every operation answers on a closed store, which directory Drop removes) is the Coq
// model Model/Lifecycle.v, which the cases are compared with.
//
// The parent process draws a plan of scenarios from r.Rng and has it executed by CHILD
// processes (re-exec of os.Args[0] with VCHECK_C18_CHILD set): a fatal panic on a library
// goroutine or a deadlock then costs one scenario, not the run.  A child that dies is
// restarted after the scenario it died in.

// outcome classes
const (
	clsOK    = 0
	clsErr   = 1
	clsPanic = 2
	clsHang  = 3
)

var clsName = []string{"ok", "error", "panic", "hang"}

// moments of Close (CClose.when)
const (
	whenIdle         = 0
	whenAfterAppend  = 1 // a local write is parked between log append and cache write
	whenAfterPersist = 2 // a local write is parked between cache write and index update
	whenAfterDequeue = 3 // replication workers parked after taking an item
	whenBeforeDone   = 4 // replication workers parked after fetching, before bookkeeping
	whenMidLoad      = 5 // Load parked in its first block fetch
	whenInstance     = 6 // instance Close with several databases
	whenLegacySub    = 7 // idle store with a legacy Subscribe(ctx) whose ctx stays live
	whenAfterOps     = 8 // after the whole API was exercised on the closed store
	whenDropped      = 9 // after Drop
	whenRealNet      = 10
	whenMidFetch     = 11 // a replication worker is inside a block fetch that then SUCCEEDS (as kubo does for a block it finds locally, whatever the context)
)

// operations invoked on a closed store (CAfterClose.op); numbers are shared with Model/Lifecycle.v
const (
	opAdd = 1 + iota
	opLogGet
	opLogList
	opKvPut
	opKvDelete
	opKvGet
	opKvAll
	opDocPut
	opDocDelete
	opDocGet
	opDocQuery
	opDocPutBatch
	opDocPutAll
	opLoad
	opSync
	opLoadFromSnapshot
	opLoadMoreFrom
	opAccessors
	opClose
	opDrop
	opLegacyEmit
	opLegacySubscribe
	// 23..: after Drop
	opAddAfterDrop
	opLoadAfterDrop
	opCloseAfterDrop
	opDropAfterDrop
	// 27..: instance closed
	opInstClose
	opInstOpen
	opInstCreate
	opStoreWriteInstClosed
	opStoreReadInstClosed
	// 32..: operations in flight when Close ran
	opInflightAppend  // write parked after append: Close, then released
	opInflightPersist // write parked after cache write
	opInflightLoad    // Load parked in a fetch
	opInflightDropWrite
	opDropStale // Drop through a closed handle after the database was opened again on the instance
)

var opNames = map[int]string{
	opAdd: "eventlog.Add", opLogGet: "eventlog.Get", opLogList: "eventlog.List", opKvPut: "kv.Put", opKvDelete: "kv.Delete",
	opKvGet: "kv.Get", opKvAll: "kv.All", opDocPut: "docs.Put", opDocDelete: "docs.Delete", opDocGet: "docs.Get", opDocQuery: "docs.Query",
	opDocPutBatch: "docs.PutBatch", opDocPutAll: "docs.PutAll", opLoad: "Load", opSync: "Sync", opLoadFromSnapshot: "LoadFromSnapshot",
	opLoadMoreFrom: "LoadMoreFrom", opAccessors: "accessors", opClose: "Close", opDrop: "Drop", opLegacyEmit: "legacy.Emit",
	opLegacySubscribe: "legacy.Subscribe", opAddAfterDrop: "write after Drop", opLoadAfterDrop: "Load after Drop",
	opCloseAfterDrop: "Close after Drop", opDropAfterDrop: "Drop after Drop", opInstClose: "instance.Close (again)",
	opInstOpen: "instance.Open after instance.Close", opInstCreate: "instance.Create after instance.Close",
	opStoreWriteInstClosed: "store write after instance.Close", opStoreReadInstClosed: "store read after instance.Close",
	opInflightAppend: "write in flight (after append) during Close", opInflightPersist: "write in flight (after cache write) during Close",
	opInflightLoad: "Load in flight during Close", opInflightDropWrite: "write in flight (after cache write) during Drop",
	opDropStale: "Drop (stale handle, database open again)",
}

// creation sites inside go-orbit-db (CClose.leaked_sites); numbers are shared with Model/Lifecycle.v
var siteTable = []struct {
	suffix string
	n      int
}{
	{"stores/basestore.(*BaseStore).InitBaseStore", 1},
	{"stores/basestore.(*BaseStore).storeListener", 2},
	{"stores/basestore.(*BaseStore).storeListener.func1", 3},
	{"stores/basestore.(*BaseStore).pubSubChanListener", 4},
	{"stores/basestore.(*BaseStore).pubSubChanListener.func1", 5},
	{"stores/basestore.(*BaseStore).Load", 6},
	{"stores/basestore.(*BaseStore).Sync", 7},
	{"stores/replicator.(*replicator).rootContextWithCancel", 8},
	{"stores/replicator.(*replicator).Load", 9},
	{"stores/replicator.(*replicator).processItems", 10},
	{"stores/replicator.(*replicator).processHash", 11},
	{"events.(*EventEmitter).handleSubscriber", 12},
	{"baseorbitdb.(*orbitDB).monitorDirectChannel", 13},
	{"pubsub/pubsubcoreapi.(*psTopic).WatchPeers", 14},
	{"pubsub/pubsubcoreapi.(*psTopic).WatchMessages", 15},
	{"pubsub/oneonone.(*channels).Connect", 16},
	{"stores/basestore.(*BaseStore).pubSubChanListener.func2", 17},
}

const orbitPrefix = "berty.tech/go-orbit-db/"

func siteNum(site string) int {
	s := strings.TrimPrefix(site, orbitPrefix)
	for _, e := range siteTable {
		if e.suffix == s {
			return e.n
		}
	}
	return 99
}

// ---- goroutine accounting ----

type gor struct {
	ID    int
	State string
	Top   string
	Site  string // creating function ("" for main/unknown)
	Stack string
}

var reGoHeader = regexp.MustCompile(`^goroutine (\d+) \[([^\]]*)\]:`)

// goroutines parses runtime.Stack(all).
func goroutines() []gor {
	buf := make([]byte, 1<<20)
	for {
		n := runtime.Stack(buf, true)
		if n < len(buf) {
			buf = buf[:n]
			break
		}
		buf = make([]byte, 2*len(buf))
	}
	var out []gor
	for _, blk := range strings.Split(string(buf), "\n\n") {
		lines := strings.Split(strings.TrimSpace(blk), "\n")
		if len(lines) == 0 {
			continue
		}
		m := reGoHeader.FindStringSubmatch(lines[0])
		if m == nil {
			continue
		}
		id, _ := strconv.Atoi(m[1])
		g := gor{ID: id, State: m[2], Stack: blk}
		if len(lines) > 1 {
			g.Top = lines[1]
		}
		for _, l := range lines {
			if strings.HasPrefix(l, "created by ") {
				s := strings.TrimPrefix(l, "created by ")
				if i := strings.Index(s, " in goroutine"); i >= 0 {
					s = s[:i]
				}
				g.Site = s
			}
		}
		out = append(out, g)
	}
	return out
}

func goroutineIDs() map[int]bool {
	m := map[int]bool{}
	for _, g := range goroutines() {
		m[g.ID] = true
	}
	return m
}

// newOrbitGoroutines: goroutines that did not exist at `before` and were created at a
// go-orbit-db creation site.
func newOrbitGoroutines(before map[int]bool) []gor {
	var out []gor
	for _, g := range goroutines() {
		if !before[g.ID] && strings.HasPrefix(g.Site, orbitPrefix) {
			out = append(out, g)
		}
	}
	return out
}

// settleLeaks polls until no new go-orbit-db goroutine is left or the budget is used up
// (goroutine exit is asynchronous).  Returns what is still there.
func settleLeaks(before map[int]bool, budget time.Duration) []gor {
	deadline := time.Now().Add(budget)
	for {
		l := newOrbitGoroutines(before)
		if len(l) == 0 || time.Now().After(deadline) {
			return l
		}
		time.Sleep(15 * time.Millisecond)
	}
}

const leakBudget = 3 * time.Second

func leakStacks(l []gor) []string {
	var out []string
	for _, g := range l {
		var fr []string
		for _, ln := range strings.Split(g.Stack, "\n") {
			if !strings.HasPrefix(ln, "\t") && !strings.HasPrefix(ln, "goroutine ") {
				if i := strings.LastIndex(ln, "("); i > 0 {
					ln = ln[:i]
				}
				fr = append(fr, ln)
			}
		}
		out = append(out, strings.Join(fr, " < "))
	}
	sort.Strings(out)
	return out
}

func leakSites(l []gor) (nums []int, names []string) {
	for _, g := range l {
		nums = append(nums, siteNum(g.Site))
		names = append(names, strings.TrimPrefix(g.Site, orbitPrefix)+" ["+g.State+"] "+g.Top)
	}
	sort.Ints(nums)
	// the Coq case carries the SET of creation sites (how many goroutines of a site are left
	// depends on the number of heads/items in flight); the description keeps every goroutine
	var uniq []int
	for i, n := range nums {
		if i == 0 || n != nums[i-1] {
			uniq = append(uniq, n)
		}
	}
	nums = uniq
	sort.Strings(names)
	return
}

// ---- guarded calls ----

const opWatchdog = 5 * time.Second

// callClass runs f on its own goroutine behind recover and a watchdog.
func callClass(d time.Duration, f func() error) (int, string) {
	type res struct {
		cls int
		msg string
	}
	ch := make(chan res, 1)
	go func() {
		defer func() {
			if p := recover(); p != nil {
				ch <- res{clsPanic, fmt.Sprint(p)}
			}
		}()
		if err := f(); err != nil {
			ch <- res{clsErr, err.Error()}
			return
		}
		ch <- res{clsOK, ""}
	}()
	select {
	case r := <-ch:
		return r.cls, r.msg
	case <-time.After(d):
		return clsHang, "watchdog " + d.String()
	}
}

// closeMany calls f `times` times, sequentially or concurrently (released together).
func closeMany(times int, concurrent bool, f func() error) (classes []int, msgs []string) {
	classes = make([]int, times)
	msgs = make([]string, times)
	if !concurrent {
		for i := 0; i < times; i++ {
			classes[i], msgs[i] = callClass(10*time.Second, f)
		}
		return
	}
	var wg sync.WaitGroup
	start := make(chan struct{})
	for i := 0; i < times; i++ {
		wg.Add(1)
		go func(i int) {
			defer wg.Done()
			<-start
			classes[i], msgs[i] = callClass(10*time.Second, f)
		}(i)
	}
	close(start)
	wg.Wait()
	sort.Ints(classes) // which goroutine got which answer is schedule noise
	return
}

// ---- plan / results ----

type c18Spec struct {
	ID         int    `json:"id"`
	Kind       string `json:"kind"` // close | iclose | drop | alias | afterclose | legacy | realnet
	Type       string `json:"type"`
	When       int    `json:"when"`
	Times      int    `json:"times"`
	Concurrent bool   `json:"concurrent"`
	Writes     int    `json:"writes"`
	Remote     int    `json:"remote"`
	NDB        int    `json:"ndb"`
	Variant    string `json:"variant"`
	Seed       int64  `json:"seed"`
}

type c18Case struct {
	Coq        string                 `json:"coq"`
	Descr      map[string]interface{} `json:"descr"`
	Nontrivial bool                   `json:"nontrivial"`
}

type c18Direct struct {
	Sig  string                 `json:"sig"`
	What string                 `json:"what"`
	Case map[string]interface{} `json:"case"`
}

type c18Result struct {
	ID     int         `json:"id"`
	Cases  []c18Case   `json:"cases"`
	Direct []c18Direct `json:"direct"`
	Counts []string    `json:"counts"`
	Notes  []string    `json:"notes"`
	Err    string      `json:"err"`
	WallMs int64       `json:"wall_ms"`
}

func (o *c18Result) add(coq string, descr map[string]interface{}, nontrivial bool) {
	o.Cases = append(o.Cases, c18Case{coq, descr, nontrivial})
}
func (o *c18Result) count(k string) { o.Counts = append(o.Counts, k) }

func c18Plan(r *Run) []c18Spec {
	types := []string{"eventlog", "keyvalue", "docstore"}
	var plan []c18Spec
	add := func(s c18Spec) {
		s.ID = len(plan)
		s.Seed = r.Rng.Int63()
		plan = append(plan, s)
	}
	reps := 1
	if r.Tier == "thorough" {
		reps = 6
	}
	for rep := 0; rep < reps; rep++ {
		// store Close at every moment x (once | twice | concurrently)
		for _, when := range []int{whenIdle, whenAfterAppend, whenAfterPersist, whenAfterDequeue, whenBeforeDone, whenMidLoad, whenMidFetch} {
			for mode := 0; mode < 3; mode++ {
				s := c18Spec{Kind: "close", When: when, Type: types[r.Rng.Intn(3)], Writes: 1 + r.Rng.Intn(4), Remote: r.Rng.Intn(3)}
				switch mode {
				case 0:
					s.Times = 1
				case 1:
					s.Times = 2 + r.Rng.Intn(2)
				case 2:
					s.Times, s.Concurrent = 2+r.Rng.Intn(3), true
				}
				if when == whenAfterDequeue || when == whenBeforeDone || when == whenMidFetch {
					s.Remote = 1 + r.Rng.Intn(3)
				}
				add(s)
			}
		}
		// random extra close scenarios
		for i := 0; i < 26; i++ {
			s := c18Spec{Kind: "close", When: []int{whenIdle, whenAfterAppend, whenAfterPersist, whenAfterDequeue, whenBeforeDone, whenMidLoad, whenMidFetch}[r.Rng.Intn(7)], Type: types[r.Rng.Intn(3)], Writes: 1 + r.Rng.Intn(6), Remote: r.Rng.Intn(4),
				Times: 1 + r.Rng.Intn(4)}
			s.Concurrent = s.Times > 1 && r.Rng.Intn(2) == 0
			if s.When == whenAfterDequeue || s.When == whenBeforeDone || s.When == whenMidFetch {
				s.Remote = 1 + r.Rng.Intn(3)
			}
			add(s)
		}
		// instance Close with several databases
		for i := 0; i < 10; i++ {
			s := c18Spec{Kind: "iclose", When: whenInstance, NDB: 2 + r.Rng.Intn(3), Writes: 1 + r.Rng.Intn(4), Times: 1 + r.Rng.Intn(3)}
			s.Concurrent = s.Times > 1 && r.Rng.Intn(2) == 0
			s.Variant = []string{"idle", "idle", "midwrite", "storeclosed"}[r.Rng.Intn(4)]
			add(s)
		}
		// Drop with siblings
		for _, v := range []string{"open", "closed", "twice", "midwrite", "stale", "open", "closed", "twice", "stale"} {
			add(c18Spec{Kind: "drop", Variant: v, Type: types[r.Rng.Intn(3)], Writes: 1 + r.Rng.Intn(4), NDB: 2 + r.Rng.Intn(2)})
		}
		// an address whose path climbs out of its root
		add(c18Spec{Kind: "alias", Variant: "victim-open", Type: types[r.Rng.Intn(3)], Writes: 1 + r.Rng.Intn(3)})
		add(c18Spec{Kind: "alias", Variant: "victim-closed", Type: types[r.Rng.Intn(3)], Writes: 1 + r.Rng.Intn(3)})
		add(c18Spec{Kind: "alias", Variant: "harmless", Type: types[r.Rng.Intn(3)], Writes: 1 + r.Rng.Intn(3)})
		// every API operation on a closed store
		for _, t := range types {
			add(c18Spec{Kind: "afterclose", Type: t, Variant: "store", Writes: 1 + r.Rng.Intn(3), Remote: 1 + r.Rng.Intn(2)})
			add(c18Spec{Kind: "afterclose", Type: t, Variant: "instance", Writes: 1 + r.Rng.Intn(3)})
		}
		// legacy emitter subscribers
		add(c18Spec{Kind: "legacy", When: whenLegacySub, Type: types[r.Rng.Intn(3)], Writes: 1 + r.Rng.Intn(3), Variant: "ctx-live", Times: 1})
		add(c18Spec{Kind: "legacy", When: whenIdle, Type: types[r.Rng.Intn(3)], Writes: 1 + r.Rng.Intn(3), Variant: "ctx-cancelled", Times: 1})
		// real pubsub adapter and direct channel on a two-node mock network
		add(c18Spec{Kind: "realnet", When: whenRealNet, Type: types[r.Rng.Intn(3)], Writes: 1 + r.Rng.Intn(3), Times: 1})
		// measurements of racy behaviours (counters only)
		add(c18Spec{Kind: "race", NDB: 6})
	}
	return plan
}

func runC18(r *Run) error {
	if p := os.Getenv("VCHECK_C18_CHILD"); p != "" {
		return c18Child(r, p)
	}
	plan := c18Plan(r)
	if r.Replay != "" {
		// replay file: a case description (as stored in cases.json) or a spec
		b, err := os.ReadFile(r.Replay)
		if err != nil {
			return err
		}
		var d struct {
			Spec *c18Spec `json:"spec"`
		}
		if err := json.Unmarshal(b, &d); err != nil || d.Spec == nil {
			return fmt.Errorf("replay file has no \"spec\"")
		}
		d.Spec.ID = 0
		plan = []c18Spec{*d.Spec}
	}
	planPath := filepath.Join(r.Out, "c18_plan.json")
	resPath := filepath.Join(r.Out, "c18_results.jsonl")
	pb, _ := json.Marshal(plan)
	if err := os.WriteFile(planPath, pb, 0o644); err != nil {
		return err
	}
	_ = os.Remove(resPath)
	// scratch directories of the children (a child that dies cannot clean up after itself)
	tmpDir, err := filepath.Abs(filepath.Join(r.Out, "c18_tmp"))
	if err != nil {
		return err
	}
	_ = os.RemoveAll(tmpDir)
	if err := os.MkdirAll(tmpDir, 0o755); err != nil {
		return err
	}
	defer os.RemoveAll(tmpDir)
	results := map[int]*c18Result{}
	start := 0
	for start < len(plan) {
		cmd := exec.Command(os.Args[0], "-prop", "C18", "-seed", fmt.Sprint(r.Seed), "-tier", r.Tier, "-out", r.Out)
		cmd.Env = append(os.Environ(), "VCHECK_C18_CHILD="+planPath, "VCHECK_C18_START="+fmt.Sprint(start), "VCHECK_C18_RESULTS="+resPath, "TMPDIR="+tmpDir)
		var stderr bytes.Buffer
		cmd.Stderr = &stderr
		cmd.Stdout = &stderr
		done := make(chan error, 1)
		if err := cmd.Start(); err != nil {
			return err
		}
		go func() { done <- cmd.Wait() }()
		var werr error
		// the child has its own per-scenario watchdog; this one is the backstop
		select {
		case werr = <-done:
		case <-time.After(time.Duration(len(plan)-start)*40*time.Second + time.Minute):
			_ = cmd.Process.Kill()
			werr = fmt.Errorf("child killed by the backstop watchdog")
			<-done
		}
		// read what the child managed to report
		last := start - 1
		if f, err := os.Open(resPath); err == nil {
			sc := bufio.NewScanner(f)
			sc.Buffer(make([]byte, 1<<20), 1<<26)
			for sc.Scan() {
				var res c18Result
				if json.Unmarshal(sc.Bytes(), &res) == nil {
					cp := res
					results[res.ID] = &cp
					if res.ID > last {
						last = res.ID
					}
				}
			}
			f.Close()
		}
		if last+1 >= len(plan) && werr == nil {
			break
		}
		// the child died in scenario last+1
		died := last + 1
		if died >= len(plan) {
			break
		}
		tail := stderr.String()
		if len(tail) > 6000 {
			tail = tail[:3000] + "\n...\n" + tail[len(tail)-3000:]
		}
		kind := "panic"
		if strings.Contains(tail, "C18 scenario watchdog") || strings.Contains(fmt.Sprint(werr), "backstop") {
			kind = "hang"
		}
		sp := plan[died]
		results[died] = &c18Result{ID: died, Direct: []c18Direct{{
			Sig:  "fatal:" + kind + ":" + sp.Kind,
			What: fmt.Sprintf("child process died (%v) in scenario %d (%s): %s", werr, died, kind, firstLines(tail, 12)),
			Case: map[string]interface{}{"kind": "fatal", "spec": sp, "stderr": tail},
		}}}
		start = died + 1
	}
	// assemble in plan order
	for i := range plan {
		res := results[i]
		if res == nil {
			continue
		}
		if res.Err != "" {
			return fmt.Errorf("scenario %d (%+v): %s", i, plan[i], res.Err)
		}
		for _, c := range res.Cases {
			c.Descr["spec"] = plan[i]
			r.AddCase(c.Coq, c.Descr, c.Nontrivial)
		}
		for _, d := range res.Direct {
			if d.Case == nil {
				d.Case = map[string]interface{}{}
			}
			d.Case["spec"] = plan[i]
			r.AddDirect(d.Sig, d.What, d.Case)
		}
		for _, k := range res.Counts {
			r.Count(k)
		}
		for _, n := range res.Notes {
			r.Notes = append(r.Notes, fmt.Sprintf("scenario %d: %s", i, n))
		}
		r.Count("scenario:" + plan[i].Kind)
		r.Count("scenarios")
	}
	return nil
}

func firstLines(s string, n int) string {
	ls := strings.Split(s, "\n")
	if len(ls) > n {
		ls = ls[:n]
	}
	return strings.Join(ls, " | ")
}

// c18Child executes the plan from VCHECK_C18_START and appends one JSON line per scenario.
func c18Child(r *Run, planPath string) error {
	b, err := os.ReadFile(planPath)
	if err != nil {
		return err
	}
	var plan []c18Spec
	if err := json.Unmarshal(b, &plan); err != nil {
		return err
	}
	start, _ := strconv.Atoi(os.Getenv("VCHECK_C18_START"))
	f, err := os.OpenFile(os.Getenv("VCHECK_C18_RESULTS"), os.O_APPEND|os.O_CREATE|os.O_WRONLY, 0o644)
	if err != nil {
		return err
	}
	for i := start; i < len(plan); i++ {
		sp := plan[i]
		res := &c18Result{ID: sp.ID}
		r.Rng = rand.New(rand.NewSource(sp.Seed))
		t0 := time.Now()
		done := make(chan error, 1)
		go func() {
			defer func() {
				if p := recover(); p != nil {
					buf := make([]byte, 1<<16)
					buf = buf[:runtime.Stack(buf, false)]
					done <- fmt.Errorf("PANIC-IN-DRIVER %v\n%s", p, buf)
				}
			}()
			done <- c18Run(r, sp, res)
		}()
		select {
		case err := <-done:
			if err != nil {
				if strings.HasPrefix(err.Error(), "PANIC-IN-DRIVER") {
					// a panic on the scenario goroutine: report as a finding, not as a harness error
					res.Direct = append(res.Direct, c18Direct{Sig: "fatal:panic:" + sp.Kind, What: err.Error(), Case: map[string]interface{}{"kind": "fatal"}})
				} else {
					res.Err = err.Error()
				}
			}
		case <-time.After(60 * time.Second):
			buf := make([]byte, 1<<20)
			buf = buf[:runtime.Stack(buf, true)]
			fmt.Fprintf(os.Stderr, "C18 scenario watchdog: scenario %d (%+v) did not finish\n%s\n", i, sp, buf)
			os.Exit(4)
		}
		res.WallMs = time.Since(t0).Milliseconds()
		lb, _ := json.Marshal(res)
		if _, err := f.Write(append(lb, '\n')); err != nil {
			return err
		}
		_ = f.Sync()
	}
	f.Close()
	closeEnv()
	os.Exit(0)
	return nil
}

func c18Run(r *Run, sp c18Spec, out *c18Result) error {
	switch sp.Kind {
	case "close":
		return c18Close(r, sp, out)
	case "iclose":
		return c18InstanceClose(r, sp, out)
	case "drop":
		return c18Drop(r, sp, out)
	case "alias":
		return c18Alias(r, sp, out)
	case "afterclose":
		return c18AfterClose(r, sp, out)
	case "legacy":
		return c18Legacy(r, sp, out)
	case "realnet":
		return c18RealNet(r, sp, out)
	case "race":
		return c18Race(r, sp, out)
	}
	return fmt.Errorf("unknown scenario kind %q", sp.Kind)
}

// ---- helpers on stores ----

func c18Hashes(st iface.Store) []string {
	return hashesOf(st.OpLog().Values().Slice())
}

func c18IDs(in *sim.Interner, hs []string) []int {
	out := make([]int, len(hs))
	for i, h := range hs {
		out[i] = in.ID(h)
	}
	sort.Ints(out)
	return out
}

func acBoth(reps ...*sim.Replica) *accesscontroller.CreateAccessControllerOptions {
	var w []string
	for _, rp := range reps {
		w = append(w, rp.Orbit.Identity().ID)
	}
	return &accesscontroller.CreateAccessControllerOptions{Access: map[string][]string{"write": w}}
}

func coqCClose(when, times int, concurrent bool, leaked []int, errs []int) string {
	return fmt.Sprintf("(CClose %s %s %s %s %s)", sim.CoqN(when), sim.CoqNat(times), sim.CoqBool(concurrent), sim.CoqListN(leaked), sim.CoqListN(errs))
}

func (o *c18Result) addClose(sp c18Spec, when, times int, concurrent bool, leaks []gor, classes []int, msgs []string, extra map[string]interface{}) {
	nums, names := leakSites(leaks)
	d := map[string]interface{}{"kind": "close", "when": when, "times": times, "concurrent": concurrent, "leaked": names, "close_results": msgs}
	for k, v := range extra {
		d[k] = v
	}
	if len(nums) > 0 {
		var ss []string
		for _, n := range names {
			x := strings.TrimSpace(strings.SplitN(n, " [", 2)[0])
			if len(ss) == 0 || ss[len(ss)-1] != x {
				ss = append(ss, x)
			}
		}
		d["sig"] = "leak:" + strings.Join(ss, "+")
		d["leaked_stacks"] = leakStacks(leaks)
	}
	for _, c := range classes {
		if c != clsOK {
			d["sig"] = "close:" + clsName[c]
			if concurrent {
				d["sig"] = "close:concurrent-" + clsName[c]
			}
		}
	}
	o.add(coqCClose(when, times, concurrent, nums, classes), d, true)
	o.count(fmt.Sprintf("close:when=%d", when))
	if concurrent {
		o.count("close:concurrent")
	} else if times > 1 {
		o.count("close:repeated")
	}
}

func (o *c18Result) addAfter(op, cls int, msg string, extra map[string]interface{}) {
	d := map[string]interface{}{"kind": "afterclose", "op": opNames[op], "outcome": clsName[cls], "message": msg}
	for k, v := range extra {
		d[k] = v
	}
	if cls >= clsPanic {
		d["sig"] = "afterclose:" + clsName[cls] + ":" + opNames[op]
	}
	o.add(fmt.Sprintf("(CAfterClose %s %s)", sim.CoqN(op), sim.CoqN(cls)), d, true)
	o.count("afterclose:" + clsName[cls])
}

// reopenCheck: close the instance, reopen the directory with a fresh instance, Load(-1)
// every database and compare with what was acknowledged.
func (o *c18Result) reopenCheck(env *sim.Env, rep *sim.Replica, label string, dbs []string, acked map[string][]string, in *sim.Interner, why string) (*sim.Replica, error) {
	ctx := context.Background()
	rep2, err := env.NewReplicaOpts(rep.Idx, label, rep.Dir, rep.PID, nil)
	if err != nil {
		// the directory cannot be opened again (e.g. a lock still held): a finding, not a harness error
		for _, addr := range dbs {
			a := c18IDs(in, acked[addr])
			o.add(fmt.Sprintf("(CReopen %s %s false)", sim.CoqListN(a), sim.CoqListN(nil)),
				map[string]interface{}{"kind": "reopen", "why": why, "acked": len(a), "present": 0, "message": "reopen instance: " + err.Error(), "sig": "reopen:instance:" + why}, true)
		}
		return nil, nil
	}
	for _, addr := range dbs {
		okAll := true
		var present []string
		msg := ""
		var st iface.Store
		cls, m := callClass(20*time.Second, func() error {
			var err error
			st, err = rep2.Orbit.Open(ctx, addr, &orbitdb.CreateDBOptions{})
			return err
		})
		if cls != clsOK {
			okAll, msg = false, "open: "+clsName[cls]+" "+m
		} else {
			cls, m = callClass(30*time.Second, func() error { return st.Load(ctx, -1) })
			if cls != clsOK {
				okAll, msg = false, "load: "+clsName[cls]+" "+m
			}
			present = c18Hashes(st)
		}
		a := c18IDs(in, acked[addr])
		p := c18IDs(in, present)
		d := map[string]interface{}{"kind": "reopen", "why": why, "acked": len(a), "present": len(p), "message": msg}
		missing := 0
		for _, x := range a {
			if !containsInt(p, x) {
				missing++
			}
		}
		if !okAll || missing > 0 {
			d["sig"] = fmt.Sprintf("reopen:%s", why)
			d["missing"] = missing
		}
		o.add(fmt.Sprintf("(CReopen %s %s %s)", sim.CoqListN(a), sim.CoqListN(p), sim.CoqBool(okAll)), d, len(a) > 0)
		o.count("reopen")
	}
	return rep2, nil
}

// ---- scenario: store Close at a scripted moment ----

func c18Close(r *Run, sp c18Spec, out *c18Result) error {
	ctx := context.Background()
	s, err := NewScen(2, sp.Type, &ScenOpts{NoOpen: true})
	if err != nil {
		return err
	}
	A, B := s.Reps[0], s.Reps[1]
	in := sim.NewInterner()
	stB, err := B.Orbit.Create(ctx, "db-"+s.Label, sp.Type, &orbitdb.CreateDBOptions{AccessController: acBoth(A, B)})
	if err != nil {
		return err
	}
	addr := stB.Address().String()
	s.Addr = addr
	remote := sp.Remote
	if sp.When == whenAfterDequeue || sp.When == whenBeforeDone || sp.When == whenMidFetch {
		remote = 0 // the remote entries are the ones whose replication is interrupted
	}
	var lenient *lenientAPI
	if sp.When == whenMidFetch {
		// same directory, identity, peer id and simulated network, but block fetches behave like
		// kubo's for locally available blocks: they succeed whatever the context says
		_ = A.Orbit.Close()
		lenient = &lenientAPI{ReplicaAPI: s.Env.NewAPI(A.Idx, A.PID)}
		dir := A.Dir
		odb, err := orbitdb.NewOrbitDB(s.Env.Ctx, lenient, &orbitdb.NewOrbitDBOptions{Directory: &dir, PubSub: s.Env.Net.PubSub(A.Idx),
			DirectChannelFactory: s.Env.Net.DirectChannelFactory(A.Idx), PeerID: A.PID})
		if err != nil {
			return fmt.Errorf("instance with lenient block API: %w", err)
		}
		A.Orbit = odb
	}
	for i := 0; i < remote; i++ {
		if err := writeOp(r, s, stB, 1000+i); err != nil {
			return err
		}
	}
	time.Sleep(30 * time.Millisecond)
	before := goroutineIDs()
	stA, err := A.Orbit.Open(ctx, addr, &orbitdb.CreateDBOptions{})
	if err != nil {
		return err
	}
	s.Stores = []iface.Store{stA, stB}
	for i := 0; i < sp.Writes; i++ {
		if err := writeOp(r, s, stA, i); err != nil {
			return err
		}
	}
	if remote > 0 {
		if err := s.SyncFrom(0, 1); err != nil {
			return err
		}
		if !s.Settle() {
			out.Direct = append(out.Direct, c18Direct{Sig: "hang:sync", What: "replication did not settle", Case: map[string]interface{}{"state": sim.LastSettleState}})
		}
	}
	acked := c18Hashes(stA)
	extra := map[string]interface{}{"type": sp.Type, "acked": len(acked)}
	doClose := func() ([]int, []string) { return closeMany(sp.Times, sp.Concurrent, stA.Close) }
	var classes []int
	var msgs []string
	switch sp.When {
	case whenIdle:
		classes, msgs = doClose()
	case whenAfterAppend, whenAfterPersist:
		point := "store.after_append"
		op := opInflightAppend
		if sp.When == whenAfterPersist {
			point, op = "store.after_persist", opInflightPersist
		}
		g := sim.TheHooks.Park(point, "", 1)
		type wr struct {
			cls int
			msg string
		}
		wres := make(chan wr, 1)
		go func() {
			c, m := callClass(20*time.Second, func() error { return c18Write(r, stA, 500) })
			wres <- wr{c, m}
		}()
		if !g.WaitArrived(5 * time.Second) {
			g.Release()
			return fmt.Errorf("write did not reach %s", point)
		}
		classes, msgs = doClose()
		g.Release()
		w := <-wres
		if w.cls == clsOK {
			acked = c18Hashes(stA) // acknowledged: must survive
		}
		extra["write_outcome"] = clsName[w.cls]
		out.addAfter(op, w.cls, w.msg, map[string]interface{}{"type": sp.Type})
	case whenAfterDequeue, whenBeforeDone:
		for i := 0; i < sp.Remote; i++ {
			if err := writeOp(r, s, stB, 2000+i); err != nil {
				return err
			}
		}
		point := "replicator.after_dequeue"
		if sp.When == whenBeforeDone {
			point = "replicator.before_done"
		}
		g := sim.TheHooks.Park(point, "", 0)
		if err := s.SyncFrom(0, 1); err != nil {
			g.Release()
			return err
		}
		if !g.WaitArrived(5 * time.Second) {
			g.Release()
			return fmt.Errorf("replication did not reach %s", point)
		}
		// every worker that can run has reached the gate: nothing queued, nobody in a fetch
		if !waitParked(stA, point, 5*time.Second) {
			g.Release()
			return fmt.Errorf("replication workers did not all reach %s: %+v", point, sim.ReplState(stA))
		}
		extra["parked_workers"] = sim.TheHooks.Count(point)
		classes, msgs = doClose()
		g.Release()
	case whenMidFetch:
		for i := 0; i < sp.Remote; i++ {
			if err := writeOp(r, s, stB, 2000+i); err != nil {
				return err
			}
		}
		arrived := make(chan struct{}, 64)
		release := make(chan struct{})
		lenient.setGate(func(cid.Cid) {
			select {
			case arrived <- struct{}{}:
			default:
			}
			<-release
		})
		if err := s.SyncFrom(0, 1); err != nil {
			close(release)
			return err
		}
		select {
		case <-arrived:
		case <-time.After(5 * time.Second):
			close(release)
			return fmt.Errorf("replication did not reach a block fetch")
		}
		classes, msgs = doClose()
		// the progress consumers of the workers have seen the cancellation
		waitNoSite(before, "stores/replicator.(*replicator).processHash", 2*time.Second)
		lenient.setGate(nil)
		close(release)
	case whenMidLoad:
		// a fresh store object on the same instance, loading from the cache
		if c, m := callClass(10*time.Second, stA.Close); c != clsOK {
			return fmt.Errorf("preparatory close: %s %s", clsName[c], m)
		}
		stA, err = A.Orbit.Open(ctx, addr, &orbitdb.CreateDBOptions{})
		if err != nil {
			return fmt.Errorf("preparatory reopen: %w", err)
		}
		s.Stores[0] = stA
		arrived := make(chan struct{}, 1)
		release := make(chan struct{})
		A.API.SetGate(func(ctx context.Context, c cid.Cid) error {
			select {
			case arrived <- struct{}{}:
			default:
			}
			select {
			case <-release:
			case <-ctx.Done():
				return ctx.Err()
			}
			return nil
		})
		type lr struct {
			cls int
			msg string
		}
		lres := make(chan lr, 1)
		go func() {
			c, m := callClass(30*time.Second, func() error { return stA.Load(ctx, -1) })
			lres <- lr{c, m}
		}()
		select {
		case <-arrived:
		case <-time.After(5 * time.Second):
			close(release)
			A.API.SetGate(nil)
			return fmt.Errorf("load did not reach a block fetch")
		}
		classes, msgs = closeMany(sp.Times, sp.Concurrent, stA.Close)
		close(release)
		A.API.SetGate(nil)
		l := <-lres
		extra["load_outcome"] = clsName[l.cls]
		out.addAfter(opInflightLoad, l.cls, l.msg, map[string]interface{}{"type": sp.Type})
	}
	leaks := settleLeaks(before, leakBudget)
	out.addClose(sp, sp.When, sp.Times, sp.Concurrent, leaks, classes, msgs, extra)
	// reopen the directory
	if c, m := callClass(20*time.Second, A.Orbit.Close); c != clsOK {
		out.addAfter(opInstClose, c, m, map[string]interface{}{"note": "first instance close"})
	}
	A2, err := out.reopenCheck(s.Env, A, s.Label, []string{addr}, map[string][]string{addr: acked}, in, fmt.Sprintf("close-when-%d", sp.When))
	if err != nil {
		return err
	}
	if A2 != nil {
		_ = A2.Orbit.Close()
	}
	_ = B.Orbit.Close()
	return nil
}

// c18Write performs one write whatever the store type (no randomness: used for in-flight writes).
func c18Write(r *Run, st iface.Store, i int) error {
	ctx := context.Background()
	switch x := st.(type) {
	case iface.EventLogStore:
		_, err := x.Add(ctx, []byte(fmt.Sprintf("w%d", i)))
		return err
	case iface.KeyValueStore:
		_, err := x.Put(ctx, "k", []byte(fmt.Sprintf("w%d", i)))
		return err
	case iface.DocumentStore:
		_, err := x.Put(ctx, map[string]interface{}{"_id": "k", "v": i})
		return err
	}
	return fmt.Errorf("unknown store type")
}

// ---- scenario: instance Close with several databases ----

func c18InstanceClose(r *Run, sp c18Spec, out *c18Result) error {
	ctx := context.Background()
	env, err := sharedEnv()
	if err != nil {
		return err
	}
	scenCounter++
	sim.TheHooks.Reset()
	env.Net.ResetTraffic(false)
	label := fmt.Sprintf("i%d", scenCounter)
	in := sim.NewInterner()
	time.Sleep(30 * time.Millisecond)
	before := goroutineIDs()
	A, err := env.NewReplica(scenCounter*100, label)
	if err != nil {
		return err
	}
	types := []string{"eventlog", "keyvalue", "docstore"}
	s := &Scen{Env: env, Reps: []*sim.Replica{A}, Canon: sim.NewCanon(), Label: label}
	var stores []iface.Store
	var addrs []string
	acked := map[string][]string{}
	for k := 0; k < sp.NDB; k++ {
		typ := types[r.Rng.Intn(3)]
		st, err := A.Orbit.Create(ctx, fmt.Sprintf("db-%s-%d", label, k), typ, &orbitdb.CreateDBOptions{AccessController: acBoth(A)})
		if err != nil {
			return err
		}
		stores = append(stores, st)
		addrs = append(addrs, st.Address().String())
		for i := 0; i < sp.Writes; i++ {
			if err := writeOp(r, s, st, i); err != nil {
				return err
			}
		}
		acked[st.Address().String()] = c18Hashes(st)
	}
	extra := map[string]interface{}{"databases": sp.NDB, "variant": sp.Variant}
	var classes []int
	var msgs []string
	switch sp.Variant {
	case "midwrite":
		g := sim.TheHooks.Park("store.after_persist", "", 1)
		type wr struct {
			cls int
			msg string
		}
		wres := make(chan wr, 1)
		go func() {
			c, m := callClass(20*time.Second, func() error { return c18Write(r, stores[0], 500) })
			wres <- wr{c, m}
		}()
		if !g.WaitArrived(5 * time.Second) {
			g.Release()
			return fmt.Errorf("write did not reach store.after_persist")
		}
		classes, msgs = closeMany(sp.Times, sp.Concurrent, A.Orbit.Close)
		g.Release()
		w := <-wres
		if w.cls == clsOK {
			acked[addrs[0]] = c18Hashes(stores[0])
		}
		extra["write_outcome"] = clsName[w.cls]
		out.addAfter(opInflightPersist, w.cls, w.msg, map[string]interface{}{"instance_close": true})
	case "storeclosed":
		if c, m := callClass(10*time.Second, stores[0].Close); c != clsOK {
			out.addAfter(opClose, c, m, map[string]interface{}{"note": "store close before instance close"})
		}
		classes, msgs = closeMany(sp.Times, sp.Concurrent, A.Orbit.Close)
	default:
		classes, msgs = closeMany(sp.Times, sp.Concurrent, A.Orbit.Close)
	}
	leaks := settleLeaks(before, leakBudget)
	out.addClose(sp, whenInstance, sp.Times, sp.Concurrent, leaks, classes, msgs, extra)
	A2, err := out.reopenCheck(env, A, label, addrs, acked, in, "instance-close")
	if err != nil {
		return err
	}
	if A2 == nil {
		return nil
	}
	c, m := callClass(20*time.Second, A2.Orbit.Close)
	leaks = settleLeaks(before, leakBudget)
	out.addClose(sp, whenInstance, 1, false, leaks, []int{c}, []string{m}, map[string]interface{}{"note": "close of the reopened instance (stores loaded, not closed individually)"})
	return nil
}

// ---- scenario: Drop with siblings ----

type segInterner struct{ in *sim.Interner }

func (si segInterner) segs(p string) []string {
	var out []string
	for _, x := range strings.Split(p, "/") {
		switch x {
		case "..":
			out = append(out, "SDotDot")
		case ".":
			out = append(out, "SDot")
		case "":
			out = append(out, "SEmpty")
		default:
			out = append(out, "(SNorm "+sim.CoqN(si.in.ID(x))+")")
		}
	}
	return out
}

func (si segInterner) dir(p string) []int {
	var out []int
	for _, x := range strings.Split(filepath.Clean(p), "/") {
		if x != "" {
			out = append(out, si.in.ID(x))
		}
	}
	return out
}

func cacheDirOf(dir string, st iface.Store) string {
	return filepath.Join(dir, st.Address().GetRoot().String(), st.Address().GetPath())
}

func dirFiles(p string) int {
	es, err := os.ReadDir(p)
	if err != nil {
		return -1
	}
	return len(es)
}

type sibling struct {
	st     iface.Store
	addr   string
	acked  []string
	heads  []byte
	cdir   string
	typ    string
	intact bool
	why    string
}

func c18Drop(r *Run, sp c18Spec, out *c18Result) error {
	ctx := context.Background()
	env, err := sharedEnv()
	if err != nil {
		return err
	}
	scenCounter++
	sim.TheHooks.Reset()
	env.Net.ResetTraffic(false)
	label := fmt.Sprintf("p%d", scenCounter)
	in := sim.NewInterner()
	si := segInterner{sim.NewInterner()}
	time.Sleep(30 * time.Millisecond)
	before := goroutineIDs()
	A, err := env.NewReplica(scenCounter*100, label)
	if err != nil {
		return err
	}
	s := &Scen{Env: env, Reps: []*sim.Replica{A}, Canon: sim.NewCanon(), Label: label}
	types := []string{"eventlog", "keyvalue", "docstore"}
	X, err := A.Orbit.Create(ctx, "x-"+label, sp.Type, &orbitdb.CreateDBOptions{AccessController: acBoth(A)})
	if err != nil {
		return err
	}
	for i := 0; i < sp.Writes; i++ {
		if err := writeOp(r, s, X, i); err != nil {
			return err
		}
	}
	// siblings: other names, and one with the SAME name but another manifest (other root)
	var sibs []*sibling
	for k := 0; k < sp.NDB; k++ {
		name := fmt.Sprintf("y%d-%s", k, label)
		ac := acBoth(A)
		typ := types[r.Rng.Intn(3)]
		if k == 0 {
			name = "x-" + label
			typ = sp.Type
			ac = &accesscontroller.CreateAccessControllerOptions{Access: map[string][]string{"write": {A.Orbit.Identity().ID, "someone-else"}}}
		}
		st, err := A.Orbit.Create(ctx, name, typ, &orbitdb.CreateDBOptions{AccessController: ac})
		if err != nil {
			return fmt.Errorf("create sibling %d: %w", k, err)
		}
		for i := 0; i < 1+r.Rng.Intn(4); i++ {
			if err := writeOp(r, s, st, 100*k+i); err != nil {
				return err
			}
		}
		h, _ := st.Cache().Get(ctx, datastore.NewKey("_localHeads"))
		sibs = append(sibs, &sibling{st: st, addr: st.Address().String(), acked: c18Hashes(st), heads: h, cdir: cacheDirOf(A.Dir, st), typ: typ})
	}
	xdir := cacheDirOf(A.Dir, X)
	xaddr := X.Address().String()
	extra := map[string]interface{}{"variant": sp.Variant, "type": sp.Type, "siblings": len(sibs)}
	var dcls int
	var dmsg string
	switch sp.Variant {
	case "open":
		dcls, dmsg = callClass(15*time.Second, X.Drop)
	case "closed":
		if c, m := callClass(10*time.Second, X.Close); c != clsOK {
			out.addAfter(opClose, c, m, map[string]interface{}{"note": "close before drop"})
		}
		dcls, dmsg = callClass(15*time.Second, X.Drop)
		out.addAfter(opDrop, dcls, dmsg, map[string]interface{}{"type": sp.Type})
	case "stale":
		// the handle is closed, the database is opened again on the same instance, and the
		// OLD handle is dropped
		if c, m := callClass(10*time.Second, X.Close); c != clsOK {
			out.addAfter(opClose, c, m, map[string]interface{}{"note": "close before drop"})
		}
		var XF iface.Store
		if c, m := callClass(20*time.Second, func() error {
			var err error
			XF, err = A.Orbit.Open(ctx, xaddr, &orbitdb.CreateDBOptions{})
			return err
		}); c != clsOK {
			return fmt.Errorf("reopen before stale drop: %s %s", clsName[c], m)
		}
		dcls, dmsg = callClass(opWatchdog, X.Drop)
		out.addAfter(opDropStale, dcls, dmsg, map[string]interface{}{"type": sp.Type})
		if dcls == clsHang {
			// the instance's cache manager is wedged (every later Load/Close of a cache on this
			// instance blocks, the directory stays locked): record and abandon the instance
			c2, _ := callClass(2*time.Second, XF.Close)
			c3, _ := callClass(2*time.Second, A.Orbit.Close)
			out.Notes = append(out.Notes, fmt.Sprintf("after the hanging Drop: Close of the fresh handle: %s, Close of the instance: %s", clsName[c2], clsName[c3]))
			return nil
		}
		_ = callClassIgnore(XF.Close)
	case "twice":
		dcls, dmsg = callClass(15*time.Second, X.Drop)
		c2, m2 := callClass(15*time.Second, X.Drop)
		out.addAfter(opDropAfterDrop, c2, m2, map[string]interface{}{"type": sp.Type})
	case "midwrite":
		g := sim.TheHooks.Park("store.after_persist", "", 1)
		type wr struct {
			cls int
			msg string
		}
		wres := make(chan wr, 1)
		go func() {
			c, m := callClass(20*time.Second, func() error { return c18Write(r, X, 500) })
			wres <- wr{c, m}
		}()
		if !g.WaitArrived(5 * time.Second) {
			g.Release()
			return fmt.Errorf("write did not reach store.after_persist")
		}
		dcls, dmsg = callClass(15*time.Second, X.Drop)
		g.Release()
		w := <-wres
		out.addAfter(opInflightDropWrite, w.cls, w.msg, map[string]interface{}{"type": sp.Type})
	}
	extra["drop_result"] = dmsg
	// the dropped database's directory
	_, statErr := os.Stat(xdir)
	removed := os.IsNotExist(statErr)
	// siblings, live: cache key, directory, still writable
	for _, sb := range sibs {
		sb.intact = true
		h, err := sb.st.Cache().Get(ctx, datastore.NewKey("_localHeads"))
		if err != nil || !bytes.Equal(h, sb.heads) {
			sb.intact, sb.why = false, fmt.Sprintf("cache key _localHeads changed (err=%v)", err)
		}
		if dirFiles(sb.cdir) <= 0 {
			sb.intact, sb.why = false, "cache directory gone or empty"
		}
		if got := c18Hashes(sb.st); len(got) != len(sb.acked) {
			sb.intact, sb.why = false, "in-memory entries changed"
		}
		if c, m := callClass(10*time.Second, func() error { return c18Write(r, sb.st, 900) }); c != clsOK {
			sb.intact, sb.why = false, "write to sibling after drop: "+clsName[c]+" "+m
		} else {
			sb.acked = c18Hashes(sb.st)
		}
	}
	// the dropped database reopens empty on the same instance
	empty := false
	emsg := ""
	var X2 iface.Store
	if c, m := callClass(20*time.Second, func() error {
		var err error
		X2, err = A.Orbit.Open(ctx, xaddr, &orbitdb.CreateDBOptions{})
		return err
	}); c != clsOK {
		emsg = "reopen dropped: " + clsName[c] + " " + m
	} else if c, m := callClass(20*time.Second, func() error { return X2.Load(ctx, -1) }); c != clsOK {
		emsg = "load dropped: " + clsName[c] + " " + m
	} else {
		empty = X2.OpLog().Len() == 0
		emsg = fmt.Sprintf("%d entries after reopen", X2.OpLog().Len())
	}
	// instance close, reopen the directory: siblings complete
	c, m := callClass(20*time.Second, A.Orbit.Close)
	leaks := settleLeaks(before, leakBudget)
	out.addClose(sp, whenDropped, 1, false, leaks, []int{c}, []string{m}, map[string]interface{}{"note": "instance close after drop"})
	var addrs []string
	ack := map[string][]string{}
	for _, sb := range sibs {
		addrs = append(addrs, sb.addr)
		ack[sb.addr] = sb.acked
	}
	nBefore := len(out.Cases)
	A2, err := out.reopenCheck(env, A, label, addrs, ack, in, "sibling-after-drop")
	if err != nil {
		return err
	}
	for i, cse := range out.Cases[nBefore:] {
		if cse.Descr["sig"] != nil {
			sibs[i].intact, sibs[i].why = false, "entries missing after reopen"
		}
	}
	if A2 != nil {
		_ = A2.Orbit.Close()
	}
	settleLeaks(before, leakBudget)
	for k, sb := range sibs {
		d := map[string]interface{}{"kind": "drop", "variant": sp.Variant, "dropped": xaddr, "sibling": sb.addr, "drop_outcome": clsName[dcls], "drop_message": dmsg,
			"dropped_dir_removed": removed, "dropped_reopens_empty": empty, "reopen": emsg, "sibling_intact": sb.intact, "why": sb.why, "same_name": k == 0}
		if !sb.intact {
			d["sig"] = "drop:sibling-damaged"
		} else if dcls != clsOK {
			d["sig"] = "drop:" + clsName[dcls]
		} else if !empty || !removed {
			d["sig"] = "drop:not-empty"
		}
		out.add(coqCDrop(si, A.Dir, X.Address(), sb.st.Address(), true, dcls, removed && empty, sb.intact), d, true)
		out.count("drop:" + sp.Variant)
	}
	return nil
}

type addrLike interface {
	GetRoot() cid.Cid
	GetPath() string
}

func coqCDrop(si segInterner, dir string, dropped, sib addrLike, opened bool, dcls int, droppedEmpty, siblingIntact bool) string {
	return fmt.Sprintf("(CDrop %s %s %s %s %s %s %s %s %s)", sim.CoqListN(si.dir(dir)),
		sim.CoqN(si.in.ID(dropped.GetRoot().String())), sim.CoqList(si.segs(dropped.GetPath())),
		sim.CoqN(si.in.ID(sib.GetRoot().String())), sim.CoqList(si.segs(sib.GetPath())),
		sim.CoqBool(opened), sim.CoqN(dcls), sim.CoqBool(droppedEmpty), sim.CoqBool(siblingIntact))
}

// ---- scenario: an address whose path leaves its root ----

type fakeAddr struct {
	root cid.Cid
	path string
}

func (f fakeAddr) GetRoot() cid.Cid { return f.root }
func (f fakeAddr) GetPath() string  { return f.path }

func c18Alias(r *Run, sp c18Spec, out *c18Result) error {
	ctx := context.Background()
	env, err := sharedEnv()
	if err != nil {
		return err
	}
	scenCounter++
	sim.TheHooks.Reset()
	env.Net.ResetTraffic(false)
	label := fmt.Sprintf("a%d", scenCounter)
	in := sim.NewInterner()
	si := segInterner{sim.NewInterner()}
	A, err := env.NewReplica(scenCounter*100, label)
	if err != nil {
		return err
	}
	s := &Scen{Env: env, Reps: []*sim.Replica{A}, Canon: sim.NewCanon(), Label: label}
	V, err := A.Orbit.Create(ctx, "victim-"+label, sp.Type, &orbitdb.CreateDBOptions{AccessController: acBoth(A)})
	if err != nil {
		return err
	}
	for i := 0; i < sp.Writes; i++ {
		if err := writeOp(r, s, V, i); err != nil {
			return err
		}
	}
	T, err := A.Orbit.Create(ctx, "other-"+label, sp.Type, &orbitdb.CreateDBOptions{AccessController: acBoth(A)})
	if err != nil {
		return err
	}
	vaddr := V.Address()
	acked := c18Hashes(V)
	vdir := cacheDirOf(A.Dir, V)
	if sp.Variant == "victim-closed" {
		if c, m := callClass(10*time.Second, V.Close); c != clsOK {
			out.addAfter(opClose, c, m, nil)
		}
	}
	var alias string
	switch sp.Variant {
	case "harmless":
		// dots and empty segments only: stays inside its own root
		alias = "/orbitdb/" + T.Address().GetRoot().String() + "/./sub//" + "name-" + label
	default:
		alias = "/orbitdb/" + T.Address().GetRoot().String() + "/../" + vaddr.GetRoot().String() + "/" + vaddr.GetPath()
	}
	var AL iface.Store
	ocls, omsg := callClass(20*time.Second, func() error {
		var err error
		AL, err = A.Orbit.Open(ctx, alias, &orbitdb.CreateDBOptions{})
		return err
	})
	d := map[string]interface{}{"kind": "alias", "variant": sp.Variant, "alias": alias, "victim": vaddr.String(), "open_outcome": clsName[ocls], "open_message": omsg}
	dcls, dmsg := clsOK, ""
	var dropped addrLike
	if ocls == clsOK {
		dropped = AL.Address()
		d["alias_address_string"] = AL.Address().String()
		d["alias_path"] = AL.Address().GetPath()
		d["alias_cache_dir"] = cacheDirOf(A.Dir, AL)
		d["victim_cache_dir"] = vdir
		dcls, dmsg = callClass(15*time.Second, AL.Drop)
		d["drop_outcome"], d["drop_message"] = clsName[dcls], dmsg
	} else {
		// what was asked for (the address was refused)
		root := T.Address().GetRoot()
		dropped = fakeAddr{root, strings.TrimPrefix(strings.TrimPrefix(alias, "/orbitdb/"+root.String()), "/")}
	}
	_, statErr := os.Stat(vdir)
	d["victim_dir_exists_after"] = statErr == nil
	_ = callClassIgnore(A.Orbit.Close)
	// the victim after a reopen of the directory (folded into the CDrop case: the model of
	// CReopen knows nothing about aliases)
	nBefore := len(out.Cases)
	A2, err := out.reopenCheck(env, A, label, []string{vaddr.String()}, map[string][]string{vaddr.String(): acked}, in, "victim-after-alias-drop")
	if err != nil {
		return err
	}
	rd := out.Cases[nBefore].Descr
	out.Cases = out.Cases[:nBefore]
	intact := statErr == nil && rd["sig"] == nil
	if A2 != nil {
		_ = A2.Orbit.Close()
	}
	d["sibling_intact"] = intact
	d["victim_acked"], d["victim_present_after_reopen"], d["victim_reopen_message"] = rd["acked"], rd["present"], rd["message"]
	if !intact {
		d["sig"] = "drop:dotdot-alias"
	} else if dcls != clsOK || ocls >= clsPanic {
		d["sig"] = "alias:" + clsName[dcls]
	}
	out.add(coqCDrop(si, A.Dir, dropped, vaddr, ocls == clsOK, dcls, true, intact), d, true)
	out.count("alias:" + sp.Variant)
	return nil
}

func callClassIgnore(f func() error) int {
	c, _ := callClass(20*time.Second, f)
	return c
}

// ---- scenario: every API operation on a closed store ----

func c18AfterClose(r *Run, sp c18Spec, out *c18Result) error {
	ctx := context.Background()
	s, err := NewScen(2, sp.Type, &ScenOpts{NoOpen: true})
	if err != nil {
		return err
	}
	A, B := s.Reps[0], s.Reps[1]
	stB, err := B.Orbit.Create(ctx, "db-"+s.Label, sp.Type, &orbitdb.CreateDBOptions{AccessController: acBoth(A, B)})
	if err != nil {
		return err
	}
	addr := stB.Address().String()
	s.Addr = addr
	time.Sleep(30 * time.Millisecond)
	before := goroutineIDs()
	stA, err := A.Orbit.Open(ctx, addr, &orbitdb.CreateDBOptions{})
	if err != nil {
		return err
	}
	s.Stores = []iface.Store{stA, stB}
	for i := 0; i < sp.Writes; i++ {
		if err := writeOp(r, s, stA, i); err != nil {
			return err
		}
	}
	for i := 0; i < sp.Remote; i++ {
		if err := writeOp(r, s, stB, 1000+i); err != nil {
			return err
		}
	}
	known := stA.OpLog().Values().Slice()
	remoteHeads := stB.OpLog().Heads().Slice()
	instance := sp.Variant == "instance"
	if instance {
		c, m := callClass(20*time.Second, A.Orbit.Close)
		if c != clsOK {
			out.addAfter(opInstClose, c, m, map[string]interface{}{"note": "first"})
		}
	} else {
		c, m := callClass(10*time.Second, stA.Close)
		if c != clsOK {
			out.addAfter(opClose, c, m, map[string]interface{}{"note": "first"})
		}
	}
	ex := map[string]interface{}{"type": sp.Type, "closed": sp.Variant}
	type opf struct {
		op int
		f  func() error
	}
	var ops []opf
	switch x := stA.(type) {
	case iface.EventLogStore:
		ops = append(ops,
			opf{opAdd, func() error { _, err := x.Add(ctx, []byte("late")); return err }},
			opf{opLogList, func() error { _, err := x.List(ctx, &iface.StreamOptions{Amount: intp(-1)}); return err }})
		if len(known) > 0 {
			h := known[0].GetHash()
			ops = append(ops, opf{opLogGet, func() error { _, err := x.Get(ctx, h); return err }})
		}
	case iface.KeyValueStore:
		ops = append(ops,
			opf{opKvPut, func() error { _, err := x.Put(ctx, "late", []byte("v")); return err }},
			opf{opKvDelete, func() error { _, err := x.Delete(ctx, "a"); return err }},
			opf{opKvGet, func() error { _, err := x.Get(ctx, "a"); return err }},
			opf{opKvAll, func() error { _ = x.All(); return nil }})
	case iface.DocumentStore:
		ops = append(ops,
			opf{opDocPut, func() error { _, err := x.Put(ctx, map[string]interface{}{"_id": "late", "v": 1}); return err }},
			opf{opDocPutBatch, func() error {
				_, err := x.PutBatch(ctx, []interface{}{map[string]interface{}{"_id": "l1", "v": 1}, map[string]interface{}{"_id": "l2", "v": 1}})
				return err
			}},
			opf{opDocPutAll, func() error {
				_, err := x.PutAll(ctx, []interface{}{map[string]interface{}{"_id": "l3", "v": 1}})
				return err
			}},
			opf{opDocDelete, func() error { _, err := x.Delete(ctx, "a"); return err }},
			opf{opDocGet, func() error { _, err := x.Get(ctx, "a", nil); return err }},
			opf{opDocQuery, func() error {
				_, err := x.Query(ctx, func(interface{}) (bool, error) { return true, nil })
				return err
			}})
	}
	if !instance {
		ops = append(ops,
			opf{opLoad, func() error { return stA.Load(ctx, -1) }},
			opf{opSync, gatedLoad(before, func() error { return s.SyncHeads(0, remoteHeads) })},
			opf{opLoadFromSnapshot, func() error { return stA.LoadFromSnapshot(ctx) }},
			opf{opLoadMoreFrom, gatedLoad(before, func() error { stA.LoadMoreFrom(ctx, 10, remoteHeads); return nil })},
			opf{opAccessors, func() error {
				_ = stA.OpLog().Len()
				_ = stA.Index()
				_ = stA.ReplicationStatus().GetProgress()
				_ = stA.Address().String()
				_ = stA.Cache()
				_ = stA.AccessController()
				_ = stA.Identity()
				_ = stA.DBName()
				_ = stA.Type()
				_ = stA.EventBus()
				return nil
			}},
			opf{opLegacyEmit, func() error { stA.Emit(ctx, "late event"); return nil }},
			opf{opLegacySubscribe, func() error {
				cctx, cancel := context.WithCancel(ctx)
				ch := stA.Subscribe(cctx)
				cancel()
				select {
				case <-ch:
				case <-time.After(2 * time.Second):
					return fmt.Errorf("legacy subscription channel not closed after cancelling its context")
				}
				return nil
			}},
			opf{opClose, stA.Close})
		r.Rng.Shuffle(len(ops), func(i, j int) { ops[i], ops[j] = ops[j], ops[i] })
		// Drop last (it replaces log and index), then the operations after Drop
		ops = append(ops,
			opf{opDrop, stA.Drop},
			opf{opAddAfterDrop, func() error { return c18Write(r, stA, 700) }},
			opf{opLoadAfterDrop, func() error { return stA.Load(ctx, -1) }},
			opf{opCloseAfterDrop, stA.Close},
			opf{opDropAfterDrop, stA.Drop})
	} else {
		// store operations once the INSTANCE is closed, then instance operations
		var wr, rd []opf
		for _, o := range ops {
			switch o.op {
			case opAdd, opKvPut, opDocPut:
				wr = append(wr, opf{opStoreWriteInstClosed, o.f})
			case opLogList, opKvGet, opDocQuery:
				rd = append(rd, opf{opStoreReadInstClosed, o.f})
			}
		}
		ops = append(append(wr, rd...),
			opf{opLoad, func() error { return stA.Load(ctx, -1) }},
			opf{opClose, stA.Close},
			opf{opInstClose, A.Orbit.Close},
			opf{opInstOpen, func() error {
				st, err := A.Orbit.Open(ctx, addr, &orbitdb.CreateDBOptions{})
				if err == nil {
					defer st.Close()
				}
				return err
			}},
			opf{opInstCreate, func() error {
				st, err := A.Orbit.Create(ctx, "late-"+s.Label, sp.Type, &orbitdb.CreateDBOptions{AccessController: acBoth(A)})
				if err == nil {
					defer st.Close()
				}
				return err
			}},
			opf{opInstClose, A.Orbit.Close})
	}
	for _, o := range ops {
		c, m := callClass(opWatchdog, o.f)
		out.addAfter(o.op, c, m, ex)
	}
	if !instance {
		_ = callClassIgnore(A.Orbit.Close)
	}
	leaks := settleLeaks(before, leakBudget)
	out.addClose(sp, whenAfterOps, 1, false, leaks, []int{clsOK}, nil, map[string]interface{}{"note": "after exercising the API on the closed " + sp.Variant, "type": sp.Type})
	_ = B.Orbit.Close()
	return nil
}

func intp(i int) *int { return &i }

// ---- scenario: legacy emitter subscribers ----

func c18Legacy(r *Run, sp c18Spec, out *c18Result) error {
	ctx := context.Background()
	s, err := NewScen(1, sp.Type, &ScenOpts{NoOpen: true})
	if err != nil {
		return err
	}
	A := s.Reps[0]
	time.Sleep(30 * time.Millisecond)
	before := goroutineIDs()
	st, err := A.Orbit.Create(ctx, "db-"+s.Label, sp.Type, &orbitdb.CreateDBOptions{AccessController: acBoth(A)})
	if err != nil {
		return err
	}
	s.Stores = []iface.Store{st}
	cctx, cancel := context.WithCancel(ctx)
	defer cancel()
	ch := st.Subscribe(cctx)
	got := 0
	consumerDone := make(chan struct{})
	go func() {
		defer close(consumerDone)
		for range ch {
			got++
		}
	}()
	for i := 0; i < sp.Writes; i++ {
		if err := writeOp(r, s, st, i); err != nil {
			return err
		}
	}
	time.Sleep(50 * time.Millisecond)
	if sp.Variant == "ctx-cancelled" {
		cancel()
	}
	classes, msgs := closeMany(1, false, st.Close)
	leaks := settleLeaks(before, leakBudget)
	consumerEnded := false
	select {
	case <-consumerDone:
		consumerEnded = true
	default:
	}
	out.addClose(sp, sp.When, 1, false, leaks, classes, msgs, map[string]interface{}{"type": sp.Type, "variant": sp.Variant,
		"consumer_channel_closed": consumerEnded, "note": "store with one legacy Subscribe(ctx) consumer"})
	cancel()
	select {
	case <-consumerDone:
	case <-time.After(3 * time.Second):
		out.Direct = append(out.Direct, c18Direct{Sig: "hang:legacy-subscriber", What: "legacy subscription channel not closed 3 s after cancelling its context", Case: map[string]interface{}{}})
	}
	_ = A.Orbit.Close()
	if l := settleLeaks(before, leakBudget); len(l) > 0 {
		_, names := leakSites(l)
		out.Notes = append(out.Notes, "after cancelling the subscriber context and closing the instance still present: "+strings.Join(names, "; "))
	}
	return nil
}

var _ = operation.NewOperation
var _ ipfslog.Entry

// waitParked: all replication work of the store has reached the gate at `point`
// (no item queued, every item being fetched is parked there).
func waitParked(st iface.Store, point string, d time.Duration) bool {
	deadline := time.Now().Add(d)
	stable := 0
	for time.Now().Before(deadline) {
		rs := sim.ReplState(st)
		if rs.Added == 0 && rs.Queue == 0 && rs.Fetching > 0 && sim.TheHooks.Count(point) == rs.Fetching {
			stable++
			if stable >= 5 {
				return true
			}
		} else {
			stable = 0
		}
		time.Sleep(4 * time.Millisecond)
	}
	return false
}

// waitNoSite waits until no new goroutine created at the given go-orbit-db site is left.
func waitNoSite(before map[int]bool, suffix string, d time.Duration) bool {
	deadline := time.Now().Add(d)
	for time.Now().Before(deadline) {
		found := false
		for _, g := range newOrbitGoroutines(before) {
			if strings.TrimPrefix(g.Site, orbitPrefix) == suffix {
				found = true
			}
		}
		if !found {
			return true
		}
		time.Sleep(5 * time.Millisecond)
	}
	return false
}

// lenientAPI is a replica's CoreAPI whose block fetches, once started, deliver the block
// even if the context has been cancelled meanwhile -- which is what kubo's Dag().Get does
// for a block it finds in the local blockstore (probed by the driver in c18Race, counter probe:kubo-Dag.Get-local-block-cancelled-context).
type lenientAPI struct {
	*sim.ReplicaAPI
	mu   sync.Mutex
	gate func(cid.Cid)
}

func (a *lenientAPI) setGate(g func(cid.Cid)) {
	a.mu.Lock()
	a.gate = g
	a.mu.Unlock()
}

func (a *lenientAPI) WithOptions(...options.ApiOption) (coreiface.CoreAPI, error) { return a, nil }

func (a *lenientAPI) Dag() coreiface.APIDagService {
	return lenientDag{a.ReplicaAPI.Dag(), a}
}

type lenientDag struct {
	coreiface.APIDagService
	a *lenientAPI
}

func (d lenientDag) Get(ctx context.Context, c cid.Cid) (ipld.Node, error) {
	d.a.mu.Lock()
	g := d.a.gate
	d.a.mu.Unlock()
	if g != nil {
		g(c)
	}
	return d.APIDagService.Get(context.WithoutCancel(ctx), c)
}

// gatedLoad runs an operation that starts a replicator load on a CLOSED store with the
// workers held at replicator.before_slot until the load's context (cancelled
// asynchronously by a helper goroutine once the root context is done) is certainly
// cancelled.  Without this the outcome depends on a race between that helper goroutine and
// the workers (measured separately by the "race" scenario).
func gatedLoad(before map[int]bool, f func() error) func() error {
	return func() error {
		g := sim.TheHooks.Park("replicator.before_slot", "", 0)
		defer g.Release()
		done := make(chan error, 1)
		go func() {
			defer func() {
				if p := recover(); p != nil {
					done <- fmt.Errorf("PANIC: %v", p)
				}
			}()
			done <- f()
		}()
		if g.WaitArrived(500 * time.Millisecond) {
			waitNoSite(before, "stores/replicator.(*replicator).rootContextWithCancel", time.Second)
		}
		g.Release()
		err := <-done
		if err != nil && strings.HasPrefix(err.Error(), "PANIC: ") {
			panic(err.Error())
		}
		return err
	}
}

// ---- scenario: racy behaviours, measured, not judged ----

// c18Race counts (a) how often a load started on a closed store hangs when nothing is
// gated, (b) how often concurrent Close calls return an error.  Only counters are reported.
func c18Race(r *Run, sp c18Spec, out *c18Result) error {
	ctx := context.Background()
	s, err := NewScen(2, "eventlog", &ScenOpts{NoOpen: true})
	if err != nil {
		return err
	}
	A, B := s.Reps[0], s.Reps[1]
	hangs := 0
	for i := 0; i < sp.NDB; i++ {
		stB, err := B.Orbit.Create(ctx, fmt.Sprintf("race-%s-%d", s.Label, i), "eventlog", &orbitdb.CreateDBOptions{AccessController: acBoth(A, B)})
		if err != nil {
			return err
		}
		if err := c18Write(r, stB, i); err != nil {
			return err
		}
		stA, err := A.Orbit.Open(ctx, stB.Address().String(), &orbitdb.CreateDBOptions{})
		if err != nil {
			return err
		}
		classes, _ := closeMany(4, true, stA.Close)
		for _, c := range classes {
			out.count("race:concurrent-close:" + clsName[c])
		}
		heads := stB.OpLog().Heads().Slice()
		c, _ := callClass(2*time.Second, func() error { stA.LoadMoreFrom(ctx, 10, heads); return nil })
		out.count("race:ungated-LoadMoreFrom-after-close:" + clsName[c])
		if c == clsHang {
			hangs++
		}
		// c18Probe: does the real kubo API deliver a locally held block to a cancelled context?
		// (the premise of the mid-fetch moment, when = 11)
		cctx, cancel := context.WithCancel(ctx)
		cancel()
		if n, err := s.Env.API.Dag().Get(cctx, heads[0].GetHash()); err == nil && n != nil {
			out.count("probe:kubo-Dag.Get-local-block-cancelled-context:delivered")
		} else {
			out.count("probe:kubo-Dag.Get-local-block-cancelled-context:refused")
		}
		_ = stB.Close()
	}
	if hangs > 0 {
		out.Notes = append(out.Notes, fmt.Sprintf("ungated LoadMoreFrom on a closed store did not return within 2 s in %d of %d trials (same defect as the leak at when=11: the progress consumer leaves on cancellation)", hangs, sp.NDB))
	}
	_ = A.Orbit.Close()
	_ = B.Orbit.Close()
	return nil
}

// ---- scenario: real pubsub adapter and direct channel ----

func c18Node(ctx context.Context, mn mocknet.Mocknet) (*ipfsCore.IpfsNode, coreiface.CoreAPI, error) {
	priv, pub, err := crypto.GenerateKeyPairWithReader(crypto.Ed25519, 0, crand.Reader)
	if err != nil {
		return nil, nil, err
	}
	pid, _ := peer.IDFromPublicKey(pub)
	privb, _ := crypto.MarshalPrivateKey(priv)
	c := cfg.Config{}
	c.Pubsub.Enabled = cfg.True
	c.Bootstrap = []string{}
	c.Addresses.Swarm = []string{"/ip4/127.0.0.1/tcp/4001"}
	c.Identity.PeerID = pid.String()
	c.Identity.PrivKey = base64.StdEncoding.EncodeToString(privb)
	c.Swarm.ResourceMgr.Enabled = cfg.False
	r := &repo.Mock{D: dsync.MutexWrap(ds.NewMapDatastore()), C: c}
	node, err := ipfsCore.NewNode(ctx, &ipfsCore.BuildCfg{Online: true, Repo: r, Host: mock.MockHostOption(mn), ExtraOpts: map[string]bool{"pubsub": true}})
	if err != nil {
		return nil, nil, err
	}
	api, err := coreapi.NewCoreAPI(node)
	return node, api, err
}

// c18RealNet: two instances with the REAL pubsub adapter (pubsub/pubsubcoreapi) and the real
// direct channel (pubsub/oneonone) on two connected kubo mock nodes: write, replicate, close
// one store individually and both instances; afterwards no goroutine created inside
// go-orbit-db may be left.
func c18RealNet(r *Run, sp c18Spec, out *c18Result) error {
	ctx, cancel := context.WithCancel(context.Background())
	defer cancel()
	mn := mocknet.New()
	defer mn.Close()
	work, err := os.MkdirTemp("", "verif-c18-real-")
	if err != nil {
		return err
	}
	defer os.RemoveAll(work)
	var nodes []*ipfsCore.IpfsNode
	var apis []coreiface.CoreAPI
	for i := 0; i < 2; i++ {
		n, api, err := c18Node(ctx, mn)
		if err != nil {
			return err
		}
		nodes = append(nodes, n)
		apis = append(apis, api)
	}
	defer func() {
		for _, n := range nodes {
			_ = n.Close()
		}
	}()
	if err := mn.LinkAll(); err != nil {
		return err
	}
	if err := mn.ConnectAllButSelf(); err != nil {
		return err
	}
	time.Sleep(30 * time.Millisecond)
	before := goroutineIDs()
	var odbs []orbitdb.OrbitDB
	for i := 0; i < 2; i++ {
		dir := filepath.Join(work, fmt.Sprintf("n%d", i))
		o, err := orbitdb.NewOrbitDB(ctx, apis[i], &orbitdb.NewOrbitDBOptions{Directory: &dir})
		if err != nil {
			return err
		}
		odbs = append(odbs, o)
	}
	ac := &accesscontroller.CreateAccessControllerOptions{Access: map[string][]string{"write": {odbs[0].Identity().ID, odbs[1].Identity().ID}}}
	st0, err := odbs[0].Create(ctx, "real-"+fmt.Sprint(sp.ID), sp.Type, &orbitdb.CreateDBOptions{AccessController: ac})
	if err != nil {
		return err
	}
	st1, err := odbs[1].Open(ctx, st0.Address().String(), &orbitdb.CreateDBOptions{})
	if err != nil {
		return err
	}
	for i := 0; i < sp.Writes; i++ {
		if err := c18Write(r, st0, i); err != nil {
			return err
		}
	}
	// give head exchange / pubsub a chance (not required for the check)
	replicated := false
	deadline := time.Now().Add(8 * time.Second)
	for time.Now().Before(deadline) {
		if st1.OpLog().Len() >= st0.OpLog().Len() {
			replicated = true
			break
		}
		time.Sleep(50 * time.Millisecond)
	}
	var classes []int
	var msgs []string
	c, m := callClass(20*time.Second, st1.Close)
	classes, msgs = append(classes, c), append(msgs, m)
	c, m = callClass(20*time.Second, odbs[1].Close)
	classes, msgs = append(classes, c), append(msgs, m)
	c, m = callClass(20*time.Second, odbs[0].Close)
	classes, msgs = append(classes, c), append(msgs, m)
	leaks := settleLeaks(before, leakBudget)
	var _ iface.Store = st0
	out.addClose(sp, whenRealNet, len(classes), false, leaks, classes, msgs, map[string]interface{}{"type": sp.Type, "replicated_before_close": replicated,
		"note": "real pubsubcoreapi + oneonone on two mock nodes; store close, then both instance closes"})
	return nil
}

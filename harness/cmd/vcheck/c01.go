package main

import (
	"context"
	"encoding/json"
	"fmt"
	"time"

	ipfslog "berty.tech/go-ipfs-log"
	"berty.tech/go-orbit-db/iface"
	"verifharness/sim"
)

func init() { drivers["C01"] = driver{"C01", runC01} }

// OLog is the observed internal state of a store's log.
type OLog struct {
	Ents, Heads, Next []int
	Clock             int
}

func (o OLog) Coq() string {
	return fmt.Sprintf("(mkO %s %s %s %s)", sim.CoqListN(o.Ents), sim.CoqListN(o.Heads), sim.CoqListN(o.Next), sim.CoqZ(o.Clock))
}

func snapLog(s *Scen, u *Universe, st iface.Store) OLog {
	l := st.OpLog().(*ipfslog.IPFSLog)
	// take a consistent copy through the locked accessors
	ents := l.GetEntries().Slice()
	heads := l.RawHeads().Slice()
	o := OLog{Ents: u.Note(ents), Heads: u.Note(heads), Clock: l.Clock.GetTime()}
	for _, k := range l.Next.Keys() {
		o.Next = append(o.Next, s.Canon.Hash.ID(k))
	}
	return o
}

func viewOf(s *Scen, st iface.Store) map[string][]byte {
	switch x := st.(type) {
	case iface.KeyValueStore:
		return x.All()
	case iface.DocumentStore:
		docs, _ := x.Query(context.Background(), func(interface{}) (bool, error) { return true, nil })
		return docsToMap(docs)
	}
	return map[string][]byte{}
}

func diffNew(before, after []int) []int {
	seen := map[int]bool{}
	for _, x := range before {
		seen[x] = true
	}
	var out []int
	for _, x := range after {
		if !seen[x] {
			out = append(out, x)
		}
	}
	return out
}

// writeOp performs one random local write on a store of the scenario's type.
func writeOp(r *Run, s *Scen, st iface.Store, i int) error {
	ctx := context.Background()
	keys := []string{"a", "b", "c"}
	switch x := st.(type) {
	case iface.EventLogStore:
		_, err := x.Add(ctx, []byte(fmt.Sprintf("v%d", i)))
		return err
	case iface.KeyValueStore:
		if r.Rng.Intn(4) == 0 {
			_, err := x.Delete(ctx, keys[r.Rng.Intn(3)])
			return err
		}
		_, err := x.Put(ctx, keys[r.Rng.Intn(3)], []byte(fmt.Sprintf("v%d", i)))
		return err
	case iface.DocumentStore:
		k := keys[r.Rng.Intn(3)]
		switch r.Rng.Intn(4) {
		case 0:
			if _, err := x.Delete(ctx, k); err != nil {
				_, err = x.Put(ctx, map[string]interface{}{"_id": k, "v": i})
				return err
			}
			return nil
		case 1:
			_, err := x.PutAll(ctx, []interface{}{map[string]interface{}{"_id": k, "v": i}, map[string]interface{}{"_id": keys[r.Rng.Intn(3)] + "x", "v": i}})
			return err
		default:
			_, err := x.Put(ctx, map[string]interface{}{"_id": k, "v": i})
			return err
		}
	}
	return fmt.Errorf("unknown store type")
}

// C01: convergence.  Writers create a random causal DAG (writes interleaved with
// partial syncs); observers receive the entries by different routes, orders, batchings
// and with duplicates.  Cases tie the log model to every append and merge observed and
// compare replicas with equal entry sets.
func runC01(r *Run) error {
	defer closeEnv()
	hists := 10
	if r.Tier == "thorough" {
		hists = 120
	}
	types := []string{"eventlog", "keyvalue", "docstore"}
	for hi := 0; hi < hists; hi++ {
		nw := 1 + r.Rng.Intn(3)
		nobs := 3
		typ := types[hi%3]
		s, err := NewScen(nw+nobs, typ, &ScenOpts{Writers: seq(nw)})
		if err != nil {
			return err
		}
		u := s.NewUniverse()
		steps := 4 + r.Rng.Intn(10)
		if r.Tier == "thorough" {
			steps = 4 + r.Rng.Intn(30)
		}
		var headSets [][]ipfslog.Entry // head sets seen along the way (for batched delivery later)
		syncObserved := func(to int, heads []ipfslog.Entry, what string) error {
			before := snapLog(s, u, s.Stores[to])
			if err := s.SyncHeads(to, heads); err != nil {
				return err
			}
			if !s.Settle() {
				r.AddDirect("hang:sync", "replication did not settle", map[string]interface{}{"hist": hi, "state": sim.LastSettleState})
			}
			after := snapLog(s, u, s.Stores[to])
			batch := diffNew(before.Ents, after.Ents)
			r.AddCase(fmt.Sprintf("(CMerge %s %s %s %s)", u.Name, before.Coq(), sim.CoqListN(batch), after.Coq()),
				map[string]interface{}{"kind": "merge", "hist": hi, "route": what, "new": len(batch), "before": len(before.Ents)}, len(batch) > 0)
			r.Count("merge:" + what)
			observeLog(r, s, u, to, hi)
			return nil
		}
		for st := 0; st < steps; st++ {
			w := r.Rng.Intn(nw)
			if r.Rng.Intn(3) > 0 || nw == 1 {
				before := snapLog(s, u, s.Stores[w])
				if err := writeOp(r, s, s.Stores[w], st); err != nil {
					return err
				}
				after := snapLog(s, u, s.Stores[w])
				nw_ := diffNew(before.Ents, after.Ents)
				if len(nw_) == 1 {
					r.AddCase(fmt.Sprintf("(CAppend %s %s %s %s)", u.Name, before.Coq(), sim.CoqN(nw_[0]), after.Coq()),
						map[string]interface{}{"kind": "append", "hist": hi, "before": len(before.Ents)}, len(before.Ents) > 0)
					r.Count("append")
				}
				headSets = append(headSets, s.Stores[w].OpLog().Heads().Slice())
			} else {
				from := r.Rng.Intn(nw)
				if from != w {
					if err := syncObserved(w, s.Stores[from].OpLog().Heads().Slice(), "writer-sync"); err != nil {
						return err
					}
				}
			}
		}
		// final heads of every writer
		for w := 0; w < nw; w++ {
			headSets = append(headSets, s.Stores[w].OpLog().Heads().Slice())
		}
		// observer A: announced head sets in random order, with duplicates, one at a time
		oa := nw
		perm := r.Rng.Perm(len(headSets))
		for _, i := range perm {
			if err := syncObserved(oa, headSets[i], "batched"); err != nil {
				return err
			}
			if r.Rng.Intn(4) == 0 {
				if err := syncObserved(oa, headSets[perm[r.Rng.Intn(len(perm))]], "duplicate"); err != nil {
					return err
				}
			}
		}
		// observer B: head exchange on connect with each writer (direct channel route), then
		// one combined manual sync of everything still missing
		ob := nw + 1
		s.Env.Net.ResetTraffic(true)
		for w := 0; w < nw; w++ {
			s.Env.Net.Cut(s.Reps[w].Idx, s.Reps[ob].Idx)
		}
		for w := 0; w < nw; w++ {
			before := snapLog(s, u, s.Stores[ob])
			s.Env.Net.Heal(s.Reps[w].Idx, s.Reps[ob].Idx)
			time.Sleep(20 * time.Millisecond)
			if !s.Settle() {
				r.AddDirect("hang:exchange", "head exchange did not settle", map[string]interface{}{"hist": hi, "state": sim.LastSettleState})
			}
			after := snapLog(s, u, s.Stores[ob])
			batch := diffNew(before.Ents, after.Ents)
			r.AddCase(fmt.Sprintf("(CMerge %s %s %s %s)", u.Name, before.Coq(), sim.CoqListN(batch), after.Coq()),
				map[string]interface{}{"kind": "merge", "hist": hi, "route": "exchange", "new": len(batch)}, len(batch) > 0)
			r.Count("merge:exchange")
		}
		s.Env.Net.ResetTraffic(false)
		var allHeads []ipfslog.Entry
		for w := 0; w < nw; w++ {
			allHeads = append(allHeads, s.Stores[w].OpLog().Heads().Slice()...)
		}
		if err := syncObserved(ob, allHeads, "combined"); err != nil {
			return err
		}
		// writers catch up with each other so that several replicas hold the full set
		for w := 0; w < nw; w++ {
			if err := syncObserved(w, allHeads, "catch-up"); err != nil {
				return err
			}
		}
		// a WRITER (local head + replicated remote heads in its cache) is restarted and loaded
		// from its directory: the route must deliver exactly the entries it held
		{
			w0 := r.Rng.Intn(nw)
			beforeSet := u.Note(s.Stores[w0].OpLog().Values().Slice())
			if err := c13Reopen(s, w0); err != nil {
				return err
			}
			if err := s.Stores[w0].Load(ctx01, -1); err != nil {
				return fmt.Errorf("load writer: %w", err)
			}
			if !s.Settle() {
				r.AddDirect("hang:load", "store did not settle after Load", map[string]interface{}{"hist": hi, "state": sim.LastSettleState})
			}
			afterSet := u.Note(s.Stores[w0].OpLog().Values().Slice())
			r.AddCase(fmt.Sprintf("(CReload %s %s)", sim.CoqListN(beforeSet), sim.CoqListN(afterSet)),
				map[string]interface{}{"kind": "reload", "sig": "reload-loses-entries", "hist": hi, "writer": w0, "before": len(beforeSet), "after": len(afterSet)}, len(beforeSet) >= 2)
			observeLog(r, s, u, w0, hi)
			r.Count("route:writer-reload")
		}
		// observer C: the load routes.  It takes a snapshot while it holds only a prefix of the
		// history, receives everything, and then rebuilds its log through Load from its cache
		// directory and/or LoadFromSnapshot of the older snapshot -- into an empty or a non-empty
		// store.  Nothing is synced afterwards, so its view is whatever those routes built.
		oc := nw + 2
		route := []string{"restart-load-snapshot", "snapshot-into-nonempty", "restart-load", "restart-snapshot-then-sync", "restart-load-n-loadmore"}[r.Rng.Intn(5)]
		if err := syncObserved(oc, headSets[r.Rng.Intn(len(headSets))], "prefix"); err != nil {
			return err
		}
		haveSnap := false
		if s.Stores[oc].OpLog().Len() > 0 {
			if out, msg, _ := c13Save(ctx01, s.Stores[oc]); out != c13Ok {
				r.AddDirect("c01:snapshot-save", "SaveSnapshot failed on an at-rest store: "+msg, map[string]interface{}{"hist": hi})
			} else {
				haveSnap = true
			}
		}
		if route != "restart-snapshot-then-sync" {
			if err := syncObserved(oc, allHeads, "combined"); err != nil {
				return err
			}
		}
		loadStep := func(what string, f func() error) error {
			before := snapLog(s, u, s.Stores[oc])
			if err := f(); err != nil {
				return fmt.Errorf("%s: %w", what, err)
			}
			if !s.Settle() {
				r.AddDirect("hang:"+what, "store did not settle", map[string]interface{}{"hist": hi, "state": sim.LastSettleState})
			}
			after := snapLog(s, u, s.Stores[oc])
			r.Count("route:" + what)
			_ = before
			_ = after
			observeLog(r, s, u, oc, hi)
			return nil
		}
		if route != "snapshot-into-nonempty" {
			if err := c13Reopen(s, oc); err != nil {
				return err
			}
		}
		if route == "restart-load-n-loadmore" {
			// a limited load, then the rest handed to the replicator (paging): the entries arrive
			// BELOW what the log holds, its heads do not change
			total := s.Stores[oc].OpLog().Len()
			full := s.Stores[0].OpLog().Values().Slice()
			n := 1
			if total > 2 {
				n = 1 + r.Rng.Intn(total-1)
			}
			if err := loadStep("load-n", func() error { return s.Stores[oc].Load(ctx01, n) }); err != nil {
				return err
			}
			var missing []ipfslog.Entry
			for _, e := range full {
				if _, ok := s.Stores[oc].OpLog().Get(e.GetHash()); !ok {
					missing = append(missing, e)
				}
			}
			if len(missing) > 0 {
				if err := loadStep("load-more-from", func() error {
					sim.TheHooks.DirectLoads++
					s.Stores[oc].LoadMoreFrom(ctx01, uint(len(missing)), missing)
					return nil
				}); err != nil {
					return err
				}
			}
		}
		if route == "restart-load-snapshot" || route == "restart-load" {
			if err := loadStep("load", func() error { return s.Stores[oc].Load(ctx01, -1) }); err != nil {
				return err
			}
		}
		if route != "restart-load" && haveSnap {
			if err := loadStep("snapshot", func() error { return s.Stores[oc].LoadFromSnapshot(ctx01) }); err != nil {
				return err
			}
		}
		if route == "restart-snapshot-then-sync" {
			if err := syncObserved(oc, allHeads, "combined-after-snapshot"); err != nil {
				return err
			}
		}
		r.Count("route=" + route)
		// pairwise convergence cases
		snaps := make([]OLog, len(s.Stores))
		vals := make([][]int, len(s.Stores))
		hds := make([][]int, len(s.Stores))
		views := make([]map[string][]byte, len(s.Stores))
		for i, st := range s.Stores {
			snaps[i] = snapLog(s, u, st)
			vals[i] = u.Note(st.OpLog().Values().Slice())
			hds[i] = u.Note(st.OpLog().Heads().Slice())
			views[i] = viewOf(s, st)
		}
		for i := 0; i < len(s.Stores); i++ {
			for j := i + 1; j < len(s.Stores); j++ {
				r.AddCase(fmt.Sprintf("(CConv %s %s %s %s %s %s %s %s %s)", u.Name, snaps[i].Coq(), snaps[j].Coq(),
					sim.CoqListN(vals[i]), sim.CoqListN(vals[j]), sim.CoqListN(hds[i]), sim.CoqListN(hds[j]),
					coqKvMap(s.Canon, views[i]), coqKvMap(s.Canon, views[j])),
					map[string]interface{}{"kind": "conv", "hist": hi, "type": typ, "a": i, "b": j, "entries_a": len(vals[i]), "entries_b": len(vals[j])}, len(vals[i]) >= 2)
				if len(vals[i]) == len(vals[j]) {
					r.Count("conv:same-size")
				} else {
					r.Count("conv:different")
				}
			}
		}
		r.Count("type=" + typ)
		r.Count(fmt.Sprintf("writers=%d", nw))
		r.Pre = append(r.Pre, u.Def())
		s.Settle()
		s.Close()
	}
	return nil
}

var ctx01 = context.Background()

func observeLog(r *Run, s *Scen, u *Universe, rep int, hi int) {
	st := s.Stores[rep]
	o := snapLog(s, u, st)
	vals := u.Note(st.OpLog().Values().Slice())
	hs := u.Note(st.OpLog().Heads().Slice())
	r.AddCase(fmt.Sprintf("(CLog %s %s %s %s)", u.Name, o.Coq(), sim.CoqListN(vals), sim.CoqListN(hs)),
		map[string]interface{}{"kind": "log", "hist": hi, "entries": len(vals), "heads": len(hs)}, len(vals) >= 2)
	r.Count("log")
}

func seq(n int) []int {
	out := make([]int, n)
	for i := range out {
		out[i] = i
	}
	return out
}

var _ = json.Marshal

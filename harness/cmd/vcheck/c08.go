package main

import (
	"context"
	"fmt"
	"time"

	"berty.tech/go-orbit-db/iface"
	"berty.tech/go-orbit-db/stores/eventlogstore"
	cid "github.com/ipfs/go-cid"
	"verifharness/sim"
)

func init() { drivers["C08"] = driver{"C08", runC08} }

// c08View runs the query matrix on one event log as it stands: every bound kind at every
// position of the LISTING x every amount class, Get of every listed entry, and listing =
// log values.  `every` > 1 samples the matrix (one query in `every`, drawn from r.Rng).
func c08View(r *Run, s *Scen, st iface.EventLogStore, li int, view string, every int, seen map[string]bool) error {
	ctx := context.Background()
	// views of one log holding the same entries give the same terms (listing, query, answer)
	// when they answer alike: evaluated once
	add := func(term string, descr map[string]interface{}, nontrivial bool) {
		if seen[term] {
			r.Count("same listing, query and answer as on another view of the log: recorded once")
			return
		}
		seen[term] = true
		r.AddCase(term, descr, nontrivial)
	}
	all := st.OpLog().Values().Slice()
	inf := -1
	full, err := st.List(ctx, &iface.StreamOptions{Amount: &inf})
	if err != nil {
		return err
	}
	fullIDs := make([]int, len(full))
	for i, op := range full {
		fullIDs[i] = s.Canon.Hash.ID(op.GetEntry().GetHash().String())
	}
	// does the log lack ancestors of its entries (limited load, failed fetches)?
	holes, shifted := 0, 0
	for i, e := range all {
		for _, c := range e.GetNext() {
			if _, ok := st.OpLog().Get(c); !ok {
				holes++
			}
		}
		if e.GetClock().GetTime()-1 > i {
			shifted++
		}
	}
	r.Count("view=" + view)
	if holes > 0 {
		r.Count("view lacks ancestors of listed entries")
	}
	if shifted > 0 {
		r.Count("view lists entries before their Lamport time")
	}
	r.Count(fmt.Sprintf("len=%d", len(all)))
	amounts := []*int{nil}
	for _, a := range []int{0, 1, 2, 3, len(all), len(all) + 2, -1, -3} {
		a := a
		amounts = append(amounts, &a)
	}
	type bnd struct {
		kind string
		h    *cid.Cid
	}
	bounds := []bnd{{"BNone", nil}}
	for _, e := range all {
		c := e.GetHash()
		for _, k := range []string{"BGt", "BGte", "BLt", "BLte"} {
			bounds = append(bounds, bnd{k, &c})
		}
	}
	for _, b := range bounds {
		for _, a := range amounts {
			if every > 1 && r.Rng.Intn(every) != 0 {
				continue
			}
			opts := &iface.StreamOptions{Amount: a}
			bterm := "BNone"
			switch b.kind {
			case "BGt":
				opts.GT = b.h
			case "BGte":
				opts.GTE = b.h
			case "BLt":
				opts.LT = b.h
			case "BLte":
				opts.LTE = b.h
			}
			if b.h != nil {
				bterm = fmt.Sprintf("(%s %s)", b.kind, sim.CoqN(s.Canon.Hash.ID(b.h.String())))
			}
			res, err := st.List(ctx, opts)
			if err != nil {
				return err
			}
			got := make([]int, len(res))
			for i, op := range res {
				got[i] = s.Canon.Hash.ID(op.GetEntry().GetHash().String())
			}
			add(fmt.Sprintf("(CQuery %s %s %s %s)", sim.CoqListN(fullIDs), bterm, sim.CoqOptZ(a), sim.CoqListN(got)),
				map[string]interface{}{"kind": "query", "log": li, "view": view, "len": len(all), "bound": b.kind, "amount": a, "got": len(got)}, len(all) >= 2)
			r.Count("bound=" + b.kind)
			if a == nil {
				r.Count("amount=unset")
			} else if *a < 0 {
				r.Count("amount<0")
			} else if *a == 0 {
				r.Count("amount=0")
			} else if *a > len(all) {
				r.Count("amount>len")
			} else {
				r.Count("amount=1..len")
			}
		}
	}
	// Get by address
	for _, e := range all {
		op, err := st.Get(ctx, e.GetHash())
		got := 0
		if err == nil && op != nil {
			got = s.Canon.Hash.ID(op.GetEntry().GetHash().String())
		}
		add(fmt.Sprintf("(CGet %s %s %s)", sim.CoqListN(fullIDs), sim.CoqN(s.Canon.Hash.ID(e.GetHash().String())), sim.CoqN(got)),
			map[string]interface{}{"kind": "get", "log": li, "view": view}, true)
		r.Count("get")
	}
	// listing equals log values
	add(fmt.Sprintf("(CListing %s %s)", s.Canon.CoqEntries(all), sim.CoqListN(fullIDs)),
		map[string]interface{}{"kind": "listing", "log": li, "view": view, "len": len(all)}, len(all) >= 2)
	return nil
}

// c08Limited reopens replica 0 and loads it with a limit, given to Load or through the
// MaxHistory store option (then on a store object built as C15 does); returns the store to
// query and a function closing what was opened besides s.Stores[0].
func c08Limited(s *Scen, limit int, maxHistory bool) (iface.EventLogStore, func(), error) {
	ctx := context.Background()
	if err := c13Reopen(s, 0); err != nil {
		return nil, nil, err
	}
	target, amount, done := s.Stores[0], limit, func() {}
	if maxHistory {
		st2 := s.Stores[0]
		m, no := limit, false
		st3, err := eventlogstore.NewOrbitDBEventLogStore(st2.IPFS(), st2.Identity(), st2.Address(), &iface.NewStoreOptions{
			AccessController: st2.AccessController(),
			Cache:            st2.Cache(),
			MaxHistory:       &m,
			Replicate:        &no,
			PubSub:           s.Env.Net.PubSub(s.Reps[0].Idx),
			PeerID:           s.Reps[0].PID,
			Directory:        s.Reps[0].Dir,
			IO:               st2.IO(),
		})
		if err != nil {
			return nil, nil, fmt.Errorf("store with MaxHistory: %w", err)
		}
		target, amount, done = st3, -1, func() { _ = st3.Close() }
	}
	if err := target.Load(ctx, amount); err != nil {
		done()
		return nil, nil, fmt.Errorf("Load(%d) (limit %d): %w", amount, limit, err)
	}
	if !sim.Settle(ctx, s.Env, 20*time.Second, 1, target) {
		done()
		return nil, nil, fmt.Errorf("Load(%d) did not settle: %s", limit, sim.LastSettleState)
	}
	return target.(iface.EventLogStore), done, nil
}

// C08: event-log listing and window queries.  Case = (listing, bound, amount, observed
// window); additionally listing-monotonicity cases (before, after a merge).  The query
// matrix runs on every kind of log a store can hold: the fully merged log (replica 0), the
// partially merged logs of the other writers, a replica that merged the heads but could
// not fetch some ancestors (log with holes), and replica 0 reopened and loaded with a
// limit (Load(n) / MaxHistory): the listing is whatever the log holds.
func runC08(r *Run) error {
	defer closeEnv()
	logs := 8
	if r.Tier == "thorough" {
		logs = 240
	}
	for li := 0; li < logs; li++ {
		writers := 1 + r.Rng.Intn(3)
		// one more replica that never writes: it merges the final heads with some ancestors
		// out of reach
		s, err := NewScen(writers+1, "eventlog", nil)
		if err != nil {
			return err
		}
		H := writers
		n := r.Rng.Intn(9)
		if li == 0 {
			n = 0
		}
		if r.Tier == "thorough" {
			n = r.Rng.Intn(14)
		}
		ctx := context.Background()
		for i := 0; i < n; i++ {
			w := r.Rng.Intn(writers)
			st := s.Stores[w].(iface.EventLogStore)
			if _, err := st.Add(ctx, []byte(fmt.Sprintf("v%d", i))); err != nil {
				return err
			}
			// interleave replication at random points; observe listing monotonicity on the receiver
			if writers > 1 && r.Rng.Intn(2) == 0 {
				to := r.Rng.Intn(writers)
				if to != w {
					before := s.Stores[to].OpLog().Values().Slice()
					if err := s.SyncFrom(to, w); err != nil {
						return err
					}
					if !s.Settle() {
						r.AddDirect("hang:sync", "replication did not settle", map[string]interface{}{"log": li, "step": i})
					}
					after := s.Stores[to].OpLog().Values().Slice()
					r.AddCase(fmt.Sprintf("(CMono %s %s)", sim.CoqListN(s.Canon.HashIDs(before)), s.Canon.CoqEntries(after)),
						map[string]interface{}{"kind": "mono", "log": li, "step": i, "before": len(before), "after": len(after)}, len(before) > 0 && len(after) > len(before))
					r.Count("mono")
				}
			}
		}
		// bring everything to replica 0
		for w := 1; w < writers; w++ {
			if err := s.SyncFrom(0, w); err != nil {
				return err
			}
			s.Settle()
		}
		thorough := r.Tier == "thorough"
		seen := map[string]bool{}
		r.Count(fmt.Sprintf("writers=%d", writers))
		all := s.Stores[0].OpLog().Values().Slice()
		every := 1
		if !thorough && len(all) > 4 {
			every = 3
		}
		if err := c08View(r, s, s.Stores[0].(iface.EventLogStore), li, "merged", every, seen); err != nil {
			return err
		}
		// the matrix on the additional views is sampled (the thorough tier runs 240 logs with
		// ten views each)
		sparse := 4
		if thorough {
			sparse = 4
		}
		// the other writers: whatever prefix of the merge sequence they have seen
		for w := 1; w < writers; w++ {
			if s.Stores[w].OpLog().Len() == len(all) && !thorough {
				continue
			}
			if err := c08View(r, s, s.Stores[w].(iface.EventLogStore), li, "partially-merged", sparse, seen); err != nil {
				return err
			}
		}
		// a replica that merges the heads while the blocks of some ancestors cannot be fetched:
		// its log has holes (entries whose parents are not listed)
		if len(all) >= 2 {
			api := s.Reps[H].API
			nv := 1 + r.Rng.Intn(2)
			var victims []string
			for k := 0; k < nv; k++ {
				v := all[r.Rng.Intn(len(all)-1)].GetHash().String() // never the newest entry
				api.FailGet(v, true)
				victims = append(victims, v)
			}
			if err := s.SyncFrom(H, 0); err != nil {
				return err
			}
			if !s.Settle() {
				r.AddDirect("hang:sync", "replication did not settle", map[string]interface{}{"log": li, "view": "holes", "state": sim.LastSettleState})
			}
			for _, v := range victims {
				api.FailGet(v, false)
			}
			if err := c08View(r, s, s.Stores[H].(iface.EventLogStore), li, "holes", sparse, seen); err != nil {
				return err
			}
		}
		// replica 0 reopened and loaded completely: from its cached heads, or from a snapshot
		// saved before the restart (quick tier: one of the two)
		if len(all) >= 1 {
			which := r.Rng.Intn(2)
			for k, view := range []string{"load(-1)", "snapshot"} {
				if !thorough && k != which {
					continue
				}
				if view == "snapshot" {
					if out, msg, _ := c13Save(ctx, s.Stores[0]); out != c13Ok {
						return fmt.Errorf("log %d SaveSnapshot: %s %s", li, c13OutcomeName[out], msg)
					}
				}
				if err := c13Reopen(s, 0); err != nil {
					return err
				}
				if view == "snapshot" {
					if out, msg := c13Load(ctx, s.Stores[0]); out != c13Ok {
						return fmt.Errorf("log %d LoadFromSnapshot: %s %s", li, c13OutcomeName[out], msg)
					}
				} else if err := s.Stores[0].Load(ctx, -1); err != nil {
					return fmt.Errorf("log %d Load(-1): %w", li, err)
				}
				if !s.Settle() {
					r.AddDirect("hang:load", "store did not settle", map[string]interface{}{"log": li, "view": view, "state": sim.LastSettleState})
				}
				if err := c08View(r, s, s.Stores[0].(iface.EventLogStore), li, view, sparse, seen); err != nil {
					return err
				}
			}
		}
		// replica 0 reopened and loaded with a limit
		if len(all) >= 1 {
			// the first limit leaves ancestors out whenever the log has two entries or more
			limits := []int{1, 1 + r.Rng.Intn(len(all))}
			if len(all) >= 2 {
				limits[0] = 1 + r.Rng.Intn(len(all)-1)
			}
			if thorough {
				limits = append(limits, 1, len(all), len(all)+1+r.Rng.Intn(2))
			} else if r.Rng.Intn(3) == 0 {
				limits[1] = len(all) + r.Rng.Intn(3)
			}
			for k, n := range limits {
				maxHistory := k%2 == 1
				view := fmt.Sprintf("load(%d)", n)
				if maxHistory {
					view = fmt.Sprintf("maxhistory(%d)", n)
				}
				st, done, err := c08Limited(s, n, maxHistory)
				if err != nil {
					return fmt.Errorf("log %d %s: %w", li, view, err)
				}
				kind := "limited-load"
				if n >= len(all) {
					kind = "limited-load-covering-the-log"
				}
				if maxHistory {
					kind += "-maxhistory"
				}
				r.Count(kind)
				err = c08View(r, s, st, li, view, sparse, seen)
				done()
				if err != nil {
					return err
				}
			}
		}
		s.Close()
	}
	return nil
}

package main

import (
	"context"
	"fmt"

	ipfslog "berty.tech/go-ipfs-log"
	"berty.tech/go-orbit-db/iface"
	cid "github.com/ipfs/go-cid"
	"verifharness/sim"
)

func init() { drivers["C08"] = driver{"C08", runC08} }

// C08: event-log listing and window queries.  Case = (full listing, bound, amount,
// observed window); additionally listing-monotonicity cases (before, after a merge).
func runC08(r *Run) error {
	defer closeEnv()
	logs := 6
	if r.Tier == "thorough" {
		logs = 240
	}
	for li := 0; li < logs; li++ {
		writers := 1 + r.Rng.Intn(3)
		s, err := NewScen(writers, "eventlog", nil)
		if err != nil {
			return err
		}
		n := r.Rng.Intn(9)
		if li == 0 {
			n = 0
		}
		if r.Tier == "thorough" {
			n = r.Rng.Intn(14)
		}
		ctx := context.Background()
		var prev []ipfslog.Entry
		for i := 0; i < n; i++ {
			w := r.Rng.Intn(writers)
			st := s.Stores[w].(iface.EventLogStore)
			if _, err := st.Add(ctx, []byte(fmt.Sprintf("v%d", i))); err != nil {
				return err
			}
			// interleave replication at random points; observe listing monotonicity on the receiver
			if writers > 1 && r.Rng.Intn(2) == 0 {
				to := r.Rng.Intn(writers)
				if to != w {
					before := s.Stores[to].OpLog().Values().Slice()
					if err := s.SyncFrom(to, w); err != nil {
						return err
					}
					if !s.Settle() {
						r.AddDirect("hang:sync", "replication did not settle", map[string]interface{}{"log": li, "step": i})
					}
					after := s.Stores[to].OpLog().Values().Slice()
					r.AddCase(fmt.Sprintf("(CMono %s %s)", sim.CoqListN(s.Canon.HashIDs(before)), s.Canon.CoqEntries(after)),
						map[string]interface{}{"kind": "mono", "log": li, "step": i, "before": len(before), "after": len(after)}, len(before) > 0 && len(after) > len(before))
					r.Count("mono")
				}
			}
		}
		// bring everything to replica 0
		for w := 1; w < writers; w++ {
			if err := s.SyncFrom(0, w); err != nil {
				return err
			}
			s.Settle()
		}
		st := s.Stores[0].(iface.EventLogStore)
		all := st.OpLog().Values().Slice()
		_ = prev
		inf := -1
		full, err := st.List(ctx, &iface.StreamOptions{Amount: &inf})
		if err != nil {
			return err
		}
		fullIDs := make([]int, len(full))
		for i, op := range full {
			fullIDs[i] = s.Canon.Hash.ID(op.GetEntry().GetHash().String())
		}
		r.Count(fmt.Sprintf("len=%d", len(all)))
		r.Count(fmt.Sprintf("writers=%d", writers))
		amounts := []*int{nil}
		for _, a := range []int{0, 1, 2, 3, len(all), len(all) + 2, -1, -3} {
			a := a
			amounts = append(amounts, &a)
		}
		type bnd struct {
			kind string
			h    *cid.Cid
		}
		bounds := []bnd{{"BNone", nil}}
		for _, e := range all {
			c := e.GetHash()
			for _, k := range []string{"BGt", "BGte", "BLt", "BLte"} {
				bounds = append(bounds, bnd{k, &c})
			}
		}
		for _, b := range bounds {
			for _, a := range amounts {
				if r.Tier != "thorough" && len(all) > 4 && r.Rng.Intn(3) != 0 {
					continue
				}
				opts := &iface.StreamOptions{Amount: a}
				bterm := "BNone"
				switch b.kind {
				case "BGt":
					opts.GT = b.h
				case "BGte":
					opts.GTE = b.h
				case "BLt":
					opts.LT = b.h
				case "BLte":
					opts.LTE = b.h
				}
				if b.h != nil {
					bterm = fmt.Sprintf("(%s %s)", b.kind, sim.CoqN(s.Canon.Hash.ID(b.h.String())))
				}
				res, err := st.List(ctx, opts)
				if err != nil {
					return err
				}
				got := make([]int, len(res))
				for i, op := range res {
					got[i] = s.Canon.Hash.ID(op.GetEntry().GetHash().String())
				}
				r.AddCase(fmt.Sprintf("(CQuery %s %s %s %s)", sim.CoqListN(fullIDs), bterm, sim.CoqOptZ(a), sim.CoqListN(got)),
					map[string]interface{}{"kind": "query", "log": li, "len": len(all), "bound": b.kind, "amount": a, "got": len(got)}, len(all) >= 2)
				r.Count("bound=" + b.kind)
				if a == nil {
					r.Count("amount=unset")
				} else if *a < 0 {
					r.Count("amount<0")
				} else if *a == 0 {
					r.Count("amount=0")
				} else if *a > len(all) {
					r.Count("amount>len")
				} else {
					r.Count("amount=1..len")
				}
			}
		}
		// Get by address
		for _, e := range all {
			op, err := st.Get(ctx, e.GetHash())
			got := 0
			if err == nil && op != nil {
				got = s.Canon.Hash.ID(op.GetEntry().GetHash().String())
			}
			r.AddCase(fmt.Sprintf("(CGet %s %s %s)", sim.CoqListN(fullIDs), sim.CoqN(s.Canon.Hash.ID(e.GetHash().String())), sim.CoqN(got)),
				map[string]interface{}{"kind": "get", "log": li}, true)
			r.Count("get")
		}
		// listing equals log values
		r.AddCase(fmt.Sprintf("(CListing %s %s)", s.Canon.CoqEntries(all), sim.CoqListN(fullIDs)),
			map[string]interface{}{"kind": "listing", "log": li, "len": len(all)}, len(all) >= 2)
		s.Close()
	}
	return nil
}

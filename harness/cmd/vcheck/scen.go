package main

import (
	"context"
	"fmt"
	"time"

	ipfslog "berty.tech/go-ipfs-log"
	orbitdb "berty.tech/go-orbit-db"
	"berty.tech/go-orbit-db/accesscontroller"
	"berty.tech/go-orbit-db/iface"
	"verifharness/sim"
)

var scenCounter int

// Scen is one scenario: n replicas of one database on a shared simulated environment.
type Scen struct {
	Env    *sim.Env
	Reps   []*sim.Replica
	Stores []iface.Store
	Canon  *sim.Canon
	Type   string
	Addr   string
	Label  string
	// ACType is the access-controller type of the database ("ipfs" unless ScenOpts says otherwise);
	// acParams builds the access-controller options an opener of the database passes (nil for the
	// ipfs controller, whose write list is stored with the database: openers pass nothing)
	ACType   string
	acParams func() accesscontroller.ManifestParams
	replic   *bool
	specific func() interface{}
	// Decoys: every instance has a second simple-controller database with another write list
	Decoys bool
}

type ScenOpts struct {
	Writers   []int // replica indices (0-based in scenario) allowed to write; nil = all
	Wildcard  bool
	NoOpen    bool // only create replicas
	AutoNet   bool // deliver published/sent payloads immediately (default: queue them; drivers sync manually)
	Replicate *bool
	// ACType selects the access-controller type: "" or "ipfs" (the default: the write list is saved
	// in IPFS and named by the database manifest), or "simple" (nothing is persisted: EVERY opener,
	// also the one reopening after a restart, builds the controller from the options it passes, so
	// all replicas of the scenario pass the same write list).
	ACType string
	// ACNoWriteKey (simple, empty list): the access map has no "write" key at all instead of an
	// empty list.  (Plain options with Type "simple" and without SkipManifest do not work for the
	// creator: the manifest address of a simple controller is the undefined CID, which Create's
	// own Open cannot parse; NewSimpleManifestParams is the only way in.)
	ACNoWriteKey bool
	// StoreSpecific, when set, is passed as CreateDBOptions.StoreSpecificOpts by the creator and
	// by every opener of the scenario (e.g. typed documents for a document store)
	StoreSpecific func() interface{}
}

func sharedEnv() (*sim.Env, error) {
	if theEnv != nil {
		return theEnv, nil
	}
	e, err := sim.NewEnv("")
	if err != nil {
		return nil, err
	}
	theEnv = e
	return e, nil
}

var theEnv *sim.Env

func closeEnv() {
	if theEnv != nil {
		theEnv.Close()
		theEnv = nil
	}
}

// NewScen creates n replicas and opens one database of the given type on all of them.
func NewScen(n int, storeType string, o *ScenOpts) (*Scen, error) {
	if o == nil {
		o = &ScenOpts{}
	}
	env, err := sharedEnv()
	if err != nil {
		return nil, err
	}
	scenCounter++
	sim.TheHooks.Reset()
	env.Net.ResetTraffic(o.AutoNet)
	s := &Scen{Env: env, Canon: sim.NewCanon(), Type: storeType, Label: fmt.Sprintf("s%d", scenCounter)}
	for i := 0; i < n; i++ {
		r, err := env.NewReplica(scenCounter*100+i, s.Label)
		if err != nil {
			return nil, err
		}
		s.Reps = append(s.Reps, r)
		s.Canon.Cid.Add(r.Orbit.Identity().PublicKey)
	}
	// stable numbering of identities: replica i has identity number i+1
	for _, r := range s.Reps {
		s.Canon.Ident.ID(r.Orbit.Identity().ID)
	}
	if o.NoOpen {
		return s, nil
	}
	var writers []string
	if o.Wildcard {
		writers = []string{"*"}
	} else if o.Writers == nil {
		for _, r := range s.Reps {
			writers = append(writers, r.Orbit.Identity().ID)
		}
	} else {
		for _, i := range o.Writers {
			writers = append(writers, s.Reps[i].Orbit.Identity().ID)
		}
	}
	access := func() map[string][]string {
		if o.ACNoWriteKey && len(writers) == 0 {
			return map[string][]string{}
		}
		return map[string][]string{"write": append([]string{}, writers...)}
	}
	var ac accesscontroller.ManifestParams = &accesscontroller.CreateAccessControllerOptions{Access: access()}
	s.ACType, s.replic, s.specific = "ipfs", o.Replicate, o.StoreSpecific
	switch o.ACType {
	case "", "ipfs":
	case "simple":
		s.ACType = "simple"
		// a fresh options value for every open: Create/Open write into the value they are given
		s.acParams = func() accesscontroller.ManifestParams {
			return accesscontroller.NewSimpleManifestParams("simple", access())
		}
		ac = s.acParams()
	default:
		return nil, fmt.Errorf("access controller type %q cannot be constructed here", o.ACType)
	}
	ctx := env.Ctx
	if s.ACType == "simple" && scenCounter%4 != 0 {
		// every instance already has another database with a simple controller open, whose write
		// list is the opposite of this scenario's (everybody, or nobody when the scenario lets
		// everybody write): the controllers of the databases of one instance are separate things
		decoyAccess := map[string][]string{"write": {"*"}}
		if o.Wildcard {
			decoyAccess = map[string][]string{"write": {}}
		}
		no := false
		for i, rp := range s.Reps {
			if _, err := rp.Orbit.Create(ctx, fmt.Sprintf("decoy-%s-%d", s.Label, i), "eventlog", &orbitdb.CreateDBOptions{
				AccessController: accesscontroller.NewSimpleManifestParams("simple", decoyAccess), Replicate: &no}); err != nil {
				return nil, fmt.Errorf("decoy database on replica %d: %w", i, err)
			}
		}
		s.Decoys = true
	}
	copts := &orbitdb.CreateDBOptions{AccessController: ac, Replicate: o.Replicate}
	if o.StoreSpecific != nil {
		copts.StoreSpecificOpts = o.StoreSpecific()
	}
	st, err := s.Reps[0].Orbit.Create(ctx, "db-"+s.Label, storeType, copts)
	if err != nil {
		return nil, fmt.Errorf("create: %w", err)
	}
	s.Stores = append(s.Stores, st)
	s.Addr = st.Address().String()
	for i := 1; i < n; i++ {
		st2, err := s.Reps[i].Orbit.Open(ctx, s.Addr, s.OpenOptions())
		if err != nil {
			return nil, fmt.Errorf("open on replica %d: %w", i, err)
		}
		s.Stores = append(s.Stores, st2)
	}
	s.Canon.LogID.ID(s.Addr)
	return s, nil
}

// OpenOptions are the options a replica of the scenario opens the database with.
func (s *Scen) OpenOptions() *orbitdb.CreateDBOptions {
	o := &orbitdb.CreateDBOptions{Replicate: s.replic}
	if s.acParams != nil {
		o.AccessController = s.acParams()
	}
	if s.specific != nil {
		o.StoreSpecificOpts = s.specific()
	}
	return o
}

// Reopen closes store i and opens the same address again on the same instance (a restart of
// the database), with the options the scenario's replicas open it with.
func (s *Scen) Reopen(i int) error {
	if err := s.Stores[i].Close(); err != nil {
		return fmt.Errorf("close: %w", err)
	}
	st2, err := s.Reps[i].Orbit.Open(context.Background(), s.Addr, s.OpenOptions())
	if err != nil {
		return fmt.Errorf("reopen: %w", err)
	}
	s.Stores[i] = st2
	return nil
}

// Close closes all instances of the scenario (the shared env stays).
func (s *Scen) Close() {
	for _, r := range s.Reps {
		_ = r.Orbit.Close()
	}
}

// Settle waits for all stores of the scenario to be at rest.
func (s *Scen) Settle() bool {
	return sim.Settle(s.Env.Ctx, s.Env, 20*time.Second, 1, s.Stores...)
}

// SyncFrom makes replica `to` sync the current heads of replica `from` (manual sync route).
func (s *Scen) SyncFrom(to, from int) error {
	heads := s.Stores[from].OpLog().Heads().Slice()
	return s.SyncHeads(to, heads)
}

func (s *Scen) SyncHeads(to int, heads []ipfslog.Entry) error {
	cp := make([]ipfslog.Entry, len(heads))
	for i, h := range heads {
		cp[i] = h.Copy()
	}
	return s.Stores[to].Sync(context.Background(), cp)
}

func hashesOf(es []ipfslog.Entry) []string {
	out := make([]string, len(es))
	for i, e := range es {
		out[i] = e.GetHash().String()
	}
	return out
}

// Universe accumulates every entry seen in a scenario and renders it once as a Coq
// definition, so that cases can refer to entries by hash number.
type Universe struct {
	s     *Scen
	seen  map[string]bool
	terms []string
	Name  string
}

func (s *Scen) NewUniverse() *Universe {
	return &Universe{s: s, seen: map[string]bool{}, Name: "u_" + s.Label}
}

// Note records entries (idempotent) and returns their hash numbers in order.
func (u *Universe) Note(es []ipfslog.Entry) []int {
	out := make([]int, len(es))
	for i, e := range es {
		k := e.GetHash().String()
		if !u.seen[k] {
			u.seen[k] = true
			u.terms = append(u.terms, u.s.Canon.CoqEntry(e, ""))
		}
		out[i] = u.s.Canon.Hash.ID(k)
	}
	return out
}

// Def renders the universe definition.
func (u *Universe) Def() string {
	return fmt.Sprintf("Definition %s : list entry := %s.", u.Name, sim.CoqList(u.terms))
}

package main

import (
	"bytes"
	"context"
	"encoding/binary"
	"encoding/json"
	"fmt"
	"io"
	"strings"
	"time"

	ipfslog "berty.tech/go-ipfs-log"
	"berty.tech/go-ipfs-log/entry"
	idp "berty.tech/go-ipfs-log/identityprovider"
	"berty.tech/go-orbit-db/iface"
	"berty.tech/go-orbit-db/stores/basestore"
	"berty.tech/go-orbit-db/stores/operation"
	files "github.com/ipfs/boxo/files"
	"github.com/ipfs/boxo/path"
	cid "github.com/ipfs/go-cid"
	datastore "github.com/ipfs/go-datastore"
	"verifharness/sim"
)

func init() { drivers["C03"] = driver{"C03", runC03} }

// ---------------------------------------------------------------------------
// Hostile deliveries: infrastructure shared by C03 and C04.
//
// Hostile entries are built with go-ipfs-log itself (entry.CreateEntryWithIO with one of
// the scenario's identities), then copied, altered and re-addressed (the store's IO
// writes the altered entry, its address is whatever the bytes hash to).  Every entry is
// rendered for Coq under its TRUE content address and with the key that really produced
// its signature (Canon.CoqEntry's signer); "nobody" stands for a signature that no key
// produced for this content (stale or damaged).
// ---------------------------------------------------------------------------

type hostile struct {
	r      *Run
	s      *Scen
	u      *Universe
	ctx    context.Context
	badBlk []int // hash numbers of entries whose identity block is not a genuinely issued one
	wl     []int // write list AS CONFIGURED, as identity numbers (the model derives the enforced list)
	wild   bool
	seq    int
	// nobody can write on this database (simple controller, empty list): there is no genuine
	// entry to announce behind a hostile message; the message routes wait for quiescence only
	noMarker bool
}

const nobody = "\x00nobody"

// newHostile: writers = the write list the database is configured with (replica indices;
// possibly empty), wild = the list is the wildcard.  The controller type is the scenario's.
func newHostile(r *Run, s *Scen, u *Universe, writers []int, wild bool) *hostile {
	h := &hostile{r: r, s: s, u: u, ctx: context.Background(), wild: wild}
	for _, w := range writers {
		h.wl = append(h.wl, s.Canon.Ident.ID(s.Reps[w].Orbit.Identity().ID))
	}
	// stable key numbering: replica i has key number i+1
	for _, rep := range s.Reps {
		s.Canon.Key.ID(string(rep.Orbit.Identity().PublicKey))
	}
	return h
}

func sameBlock(a, b *idp.Identity) bool {
	if a == nil || b == nil || a.Signatures == nil || b.Signatures == nil {
		return false
	}
	return a.ID == b.ID && bytes.Equal(a.PublicKey, b.PublicKey) &&
		bytes.Equal(a.Signatures.ID, b.Signatures.ID) && bytes.Equal(a.Signatures.PublicKey, b.Signatures.PublicKey)
}

// genuineBlock: the identity block is byte for byte one that an identity of the
// scenario issued (symbolically: the only blocks whose two signatures verify).
func (h *hostile) genuineBlock(id *idp.Identity) bool {
	for _, rep := range h.s.Reps {
		if sameBlock(id, rep.Orbit.Identity()) {
			return true
		}
	}
	return false
}

// note registers an entry (under its true address) with its real signer.
func (h *hostile) note(e *entry.Entry, signer string) int {
	k := e.GetHash().String()
	n := h.s.Canon.Hash.ID(k)
	if !h.u.seen[k] {
		h.u.seen[k] = true
		h.u.terms = append(h.u.terms, h.s.Canon.CoqEntry(e, signer))
		if !h.genuineBlock(e.Identity) {
			h.badBlk = append(h.badBlk, n)
		}
	}
	return n
}

func (h *hostile) cfgCoq() string {
	ik := make([]string, len(h.s.Reps))
	for i, rep := range h.s.Reps {
		id := rep.Orbit.Identity()
		ik[i] = fmt.Sprintf("(%s, %s)", sim.CoqN(h.s.Canon.Ident.ID(id.ID)), sim.CoqN(h.s.Canon.Key.ID(string(id.PublicKey))))
	}
	typ := "ACIpfs"
	if h.s.ACType == "simple" {
		typ = "ACSimple"
	}
	creator := h.s.Canon.Ident.ID(h.s.Reps[0].Orbit.Identity().ID)
	return fmt.Sprintf("(mkCfg %s %s %s %s %s %s)", typ, sim.CoqN(creator), sim.CoqListN(h.wl), sim.CoqBool(h.wild), sim.CoqList(ik), sim.CoqListN(h.badBlk))
}

// payload builds a fresh operation of the scenario's store type; tag identifies it in queries.
func (h *hostile) payload(tag string) ([]byte, string, string) {
	h.seq++
	val := fmt.Sprintf("%s-%d", tag, h.seq)
	if h.s.Type == "keyvalue" {
		key := fmt.Sprintf("k-%s-%d", tag, h.seq)
		b, _ := operation.NewOperation(&key, "PUT", []byte(val)).Marshal()
		return b, key, val
	}
	b, _ := operation.NewOperation(nil, "ADD", []byte(val)).Marshal()
	return b, "", val
}

// create builds a genuine, signed entry of replica rep's identity for log logID.
func (h *hostile) create(rep int, logID string, payload []byte, next []cid.Cid, t int) (*entry.Entry, error) {
	id := h.s.Reps[rep].Orbit.Identity()
	if next == nil {
		next = []cid.Cid{}
	}
	e, err := entry.CreateEntryWithIO(h.ctx, h.s.Reps[rep].API, id, &entry.Entry{
		LogID: logID, Payload: payload, Next: next, Refs: []cid.Cid{}, Clock: entry.NewLamportClock(id.PublicKey, t),
	}, nil, h.s.Stores[rep].IO())
	if err != nil {
		return nil, err
	}
	return e.(*entry.Entry), nil
}

// clone copies an entry deeply enough for field forgery.
func clone(e *entry.Entry) *entry.Entry {
	c := e.Copy().(*entry.Entry)
	c.Payload = append([]byte{}, e.Payload...)
	c.Key = append([]byte{}, e.Key...)
	c.Sig = append([]byte{}, e.Sig...)
	if e.Identity != nil {
		c.Identity = cloneIdentity(e.Identity)
	}
	return c
}

func cloneIdentity(i *idp.Identity) *idp.Identity {
	o := &idp.Identity{ID: i.ID, PublicKey: append([]byte{}, i.PublicKey...), Type: i.Type}
	if i.Signatures != nil {
		o.Signatures = &idp.IdentitySignature{ID: append([]byte{}, i.Signatures.ID...), PublicKey: append([]byte{}, i.Signatures.PublicKey...)}
	}
	return o
}

// trueAddress writes the entry through the store's IO on replica rep and returns the
// address its bytes hash to (the entry's Hash field is left alone).
func (h *hostile) trueAddress(rep int, e *entry.Entry) (cid.Cid, error) {
	return h.s.Stores[rep].IO().Write(h.ctx, h.s.Reps[rep].API, e.Copy(), nil)
}

func (h *hostile) readdress(rep int, e *entry.Entry) error {
	c, err := h.trueAddress(rep, e)
	if err != nil {
		return err
	}
	e.Hash = c
	return nil
}

// verifies runs the real signature check of go-ipfs-log on the entry.
func (h *hostile) verifies(e *entry.Entry) bool {
	return e.Verify(h.s.Reps[0].Orbit.Identity().Provider, h.s.Stores[0].IO()) == nil
}

// obs is what is observed on a replica's store.
type obs struct {
	log  OLog
	vals []int
}

func (h *hostile) observe(rep int) obs {
	st := h.s.Stores[rep]
	return obs{log: snapLog(h.s, h.u, st), vals: h.u.Note(st.OpLog().Values().Slice())}
}

// visible: does the target's value show in the store's queries?
func (h *hostile) visible(rep int, target cid.Cid, key, val string) bool {
	switch st := h.s.Stores[rep].(type) {
	case iface.EventLogStore:
		all := -1
		ops, err := st.List(h.ctx, &iface.StreamOptions{Amount: &all})
		if err != nil {
			return false
		}
		for _, op := range ops {
			if op.GetEntry().GetHash().Equals(target) && string(op.GetValue()) == val {
				return true
			}
		}
	case iface.KeyValueStore:
		v, err := st.Get(h.ctx, key)
		return err == nil && string(v) == val
	}
	return false
}

// delivery describes one hostile delivery to be performed and observed.
type hdelivery struct {
	// after the delivery has settled the victim's store is closed, reopened and loaded from its
	// cache directory before the state is observed (what the victim persisted is what counts)
	reloadAfter bool
	route       string         // sync | pubsub | exchange | ancestor
	victim      int            // replica receiving
	from        int            // hostile replica (sender on the direct channel)
	heads       []*entry.Entry // announced heads as presented (Hash = claimed address)
	headTrue    []int          // hash numbers of the true addresses of the announced contents
	target      int            // hash number (true address) of the hostile entry
	tcid        cid.Cid        // true address of the hostile entry
	key, val    string         // how the target's value would show in queries
	// judge visibility by membership in Values() (for values not attributable to the target)
	visByListing bool
	// route snapshot: how the hostile entry is put into the snapshot file
	//   extra   = an additional entry frame
	//   replace = in place of the frame (and header head) of a genuine entry, under that entry's address
	//   head    = an additional head in the header
	// (d.heads[0] is the entry as presented; "replace" re-labels it with the genuine entry's address)
	snapVariant string
	// route snapshot: the restarted replica first loads from its heads cache (Load), so that the
	// snapshot is joined into a log that already holds the entries, instead of an empty one
	snapPreload bool
	// the target's value is unique to it: its showing in queries under ANY address is the target showing
	uniqueVal bool
}

// snapHeader mirrors basestore.storeSnapshot (unexported): the first frame of a snapshot file.
type snapHeader struct {
	ID    string         `json:"id,omitempty"`
	Heads []*entry.Entry `json:"heads,omitempty"`
	Size  int            `json:"size,omitempty"`
	Type  string         `json:"type,omitempty"`
}

// readSnapshot fetches and parses the snapshot file the store's cache points to: 2-byte
// big-endian length + JSON header, then per entry 2-byte length + JSON.
func readSnapshot(ctx context.Context, st iface.Store) (string, *snapHeader, []*entry.Entry, error) {
	sp, err := st.Cache().Get(ctx, datastore.NewKey("snapshot"))
	if err != nil {
		return "", nil, nil, fmt.Errorf("snapshot key: %w", err)
	}
	p, err := path.NewPath(string(sp))
	if err != nil {
		return "", nil, nil, err
	}
	nd, err := st.IPFS().Unixfs().Get(ctx, p)
	if err != nil {
		return "", nil, nil, err
	}
	f, ok := nd.(files.File)
	if !ok {
		return "", nil, nil, fmt.Errorf("snapshot is not a file")
	}
	defer f.Close()
	raw, err := io.ReadAll(f)
	if err != nil {
		return "", nil, nil, err
	}
	frame := func() ([]byte, error) {
		if len(raw) < 2 {
			return nil, fmt.Errorf("snapshot file truncated")
		}
		n := int(binary.BigEndian.Uint16(raw))
		if len(raw) < 2+n {
			return nil, fmt.Errorf("snapshot file truncated")
		}
		b := raw[2 : 2+n]
		raw = raw[2+n:]
		return b, nil
	}
	hb, err := frame()
	if err != nil {
		return "", nil, nil, err
	}
	hdr := &snapHeader{}
	if err := json.Unmarshal(hb, hdr); err != nil {
		return "", nil, nil, err
	}
	var ents []*entry.Entry
	for i := 0; i < hdr.Size; i++ {
		eb, err := frame()
		if err != nil {
			return "", nil, nil, err
		}
		e := &entry.Entry{}
		if err := json.Unmarshal(eb, e); err != nil {
			return "", nil, nil, err
		}
		ents = append(ents, e)
	}
	return string(sp), hdr, ents, nil
}

// writeSnapshot serialises a snapshot exactly as basestore.SaveSnapshot does, adds the file to
// the store's IPFS and points the store's cache at it.
func writeSnapshot(ctx context.Context, st iface.Store, hdr *snapHeader, ents []*entry.Entry) error {
	var rs []byte
	put := func(v interface{}) error {
		b, err := json.Marshal(v)
		if err != nil {
			return err
		}
		if len(b) > 0xffff {
			return fmt.Errorf("snapshot frame of %d bytes", len(b))
		}
		sz := make([]byte, 2)
		binary.BigEndian.PutUint16(sz, uint16(len(b)))
		rs = append(append(rs, sz...), b...)
		return nil
	}
	if err := put(hdr); err != nil {
		return err
	}
	for _, e := range ents {
		if err := put(e); err != nil {
			return err
		}
	}
	rs = append(rs, 0)
	p, err := st.IPFS().Unixfs().Add(ctx, files.NewBytesFile(rs))
	if err != nil {
		return err
	}
	return st.Cache().Put(ctx, datastore.NewKey("snapshot"), []byte(p.String()))
}

// observeTrue observes a replica's store like observe, but numbers every object the log holds
// by the address its CONTENT hashes to (recomputed through the store's IO on the hostile
// replica's block store), whatever address the log files it under.
func (h *hostile) observeTrue(rep, via int) (obs, int, error) {
	st := h.s.Stores[rep]
	l := st.OpLog().(*ipfslog.IPFSLog)
	misfiled := 0
	conv := func(es []ipfslog.Entry) ([]int, error) {
		out := make([]int, len(es))
		for i, x := range es {
			e, ok := x.(*entry.Entry)
			if !ok {
				return nil, fmt.Errorf("log entry is not *entry.Entry")
			}
			c, err := h.trueAddress(via, e)
			if err != nil {
				return nil, err
			}
			if !c.Equals(e.Hash) {
				misfiled++
			}
			k := c.String()
			if !h.u.seen[k] {
				// a content nobody registered: render it under its true address (own key as signer
				// iff the real signature check accepts it)
				t := clone(e)
				t.Hash = c
				signer := ""
				if !h.verifies(t) {
					signer = nobody
				}
				h.note(t, signer)
			}
			out[i] = h.s.Canon.Hash.ID(k)
		}
		return out, nil
	}
	var o obs
	var err error
	if o.log.Ents, err = conv(l.GetEntries().Slice()); err != nil {
		return o, 0, err
	}
	if o.log.Heads, err = conv(l.RawHeads().Slice()); err != nil {
		return o, 0, err
	}
	o.log.Clock = l.Clock.GetTime()
	for _, k := range l.Next.Keys() {
		o.log.Next = append(o.log.Next, h.s.Canon.Hash.ID(k))
	}
	if o.vals, err = conv(st.OpLog().Values().Slice()); err != nil {
		return o, 0, err
	}
	return o, misfiled, nil
}

// perform delivers, waits for quiescence, and renders the Coq [delivery] record.
func (h *hostile) perform(d *hdelivery) (string, map[string]interface{}, error) {
	s := h.s
	api := s.Reps[d.victim].API
	before := h.observe(d.victim)
	mark := len(api.GetLog)
	syncObs := "None"
	extra := map[string]interface{}{}
	restore := func(bool) {}
	cp := func() []ipfslog.Entry {
		out := make([]ipfslog.Entry, len(d.heads))
		for i, e := range d.heads {
			out[i] = clone(e)
		}
		return out
	}
	switch d.route {
	case "sync", "ancestor":
		err := s.Stores[d.victim].Sync(h.ctx, cp())
		syncObs = "(Some " + sim.CoqBool(err == nil) + ")"
		if err != nil {
			extra["sync_error"] = err.Error()
		}
	case "pubsub", "exchange":
		send := func(heads []*entry.Entry) error {
			payload, err := json.Marshal(&iface.MessageExchangeHeads{Address: s.Addr, Heads: heads})
			if err != nil {
				return err
			}
			if d.route == "pubsub" {
				s.Env.Net.InjectTopic(s.Addr, s.Reps[d.victim].Idx, payload)
			} else {
				s.Env.Net.InjectDirect(s.Reps[d.from].PID, s.Reps[d.victim].Idx, payload)
			}
			return nil
		}
		if err := send(d.heads); err != nil {
			return "", nil, err
		}
		// The victim handles messages of one channel in order.  A genuine entry of the
		// creator announced right behind on the same channel tells when the hostile
		// message has been through Sync.
		if h.noMarker {
			time.Sleep(100 * time.Millisecond)
			break
		}
		mp, _, _ := h.payload("marker")
		var m ipfslog.Entry
		var err error
		switch st := s.Stores[0].(type) {
		case iface.EventLogStore:
			op, e := st.Add(h.ctx, []byte(fmt.Sprintf("marker-%d", h.seq)))
			if e == nil {
				m = op.GetEntry()
			}
			err = e
		case iface.KeyValueStore:
			op, e := st.Put(h.ctx, "marker", mp)
			if e == nil {
				m = op.GetEntry()
			}
			err = e
		}
		if err != nil || m == nil {
			// the creator cannot write on its own database: no marker; wait a fixed time instead
			h.r.Count("marker-write-refused")
			extra["marker_error"] = fmt.Sprint(err)
			time.Sleep(150 * time.Millisecond)
			break
		}
		h.u.Note([]ipfslog.Entry{m})
		if err := send([]*entry.Entry{m.(*entry.Entry)}); err != nil {
			return "", nil, err
		}
		deadline := time.Now().Add(15 * time.Second)
		for {
			if _, ok := s.Stores[d.victim].OpLog().Get(m.GetHash()); ok {
				break
			}
			if time.Now().After(deadline) {
				h.r.AddDirect("hang:deliver", "a genuine head announced behind the hostile message was never merged",
					map[string]interface{}{"route": d.route, "state": sim.LastSettleState})
				break
			}
			time.Sleep(2 * time.Millisecond)
		}
	case "cache":
		// load from disk: the heads are found in the victim's own heads cache (a cache written by
		// an earlier version, a damaged or tampered directory) when the database is reopened and
		// loaded; there is no per-head check on this route, only the checks of the join
		// the reference is what a restart yields WITHOUT the hostile heads (a restart by itself
		// may drop entries, e.g. a genuine entry whose ancestor is rejected: Load joins a head's
		// whole fetched log at once; that is not this property's business)
		if err := s.Reopen(d.victim); err != nil {
			return "", nil, err
		}
		if err := s.Stores[d.victim].Load(h.ctx, -1); err != nil {
			extra["load_error_reference"] = err.Error()
		}
		if !s.Settle() {
			h.r.AddDirect("hang:load", "store did not settle after Load", map[string]interface{}{"route": d.route, "state": sim.LastSettleState})
		}
		before = h.observe(d.victim)
		mark = len(api.GetLog)
		st := s.Stores[d.victim]
		var cached []*entry.Entry
		if raw, err := st.Cache().Get(h.ctx, datastoreKey("_remoteHeads")); err == nil {
			_ = json.Unmarshal(raw, &cached)
		}
		for _, e := range d.heads {
			cached = append(cached, clone(e))
		}
		raw, err := json.Marshal(cached)
		if err != nil {
			return "", nil, err
		}
		if err := st.Cache().Put(h.ctx, datastoreKey("_remoteHeads"), raw); err != nil {
			return "", nil, err
		}
		if err := s.Reopen(d.victim); err != nil {
			return "", nil, err
		}
		if err := s.Stores[d.victim].Load(h.ctx, -1); err != nil {
			extra["load_error"] = err.Error()
		}
	case "snapshot":
		// load from a snapshot file: the victim saves a snapshot, the file is rebuilt with the
		// hostile entry in it (the directory was tampered with, the file was produced by another
		// version or taken over from somebody else), and the database is reopened and loaded from it.
		// Reference: the same restart with the untouched snapshot.  (Every step of a scenario ends
		// settled: the replicator's queue, which the snapshot also records, is empty.)
		if _, err := basestore.SaveSnapshot(h.ctx, s.Stores[d.victim]); err != nil {
			return "", nil, fmt.Errorf("save snapshot: %w", err)
		}
		cleanPath, hdr, ents, err := readSnapshot(h.ctx, s.Stores[d.victim])
		if err != nil {
			return "", nil, err
		}
		restart := func() error {
			if err := s.Reopen(d.victim); err != nil {
				return err
			}
			if d.snapPreload {
				if err := s.Stores[d.victim].Load(h.ctx, -1); err != nil {
					extra["preload_error"] = err.Error()
				}
				if !s.Settle() {
					h.r.AddDirect("hang:load", "store did not settle after Load", map[string]interface{}{"route": d.route, "state": sim.LastSettleState})
				}
			}
			return nil
		}
		extra["snapshot_preload"] = d.snapPreload
		if err := restart(); err != nil {
			return "", nil, err
		}
		if err := s.Stores[d.victim].LoadFromSnapshot(h.ctx); err != nil {
			// LoadFromSnapshot walks the history again from the heads and joins all of it at once: a
			// log holding a genuine entry with an unacceptable ancestor (route ancestor, earlier)
			// reloads to nothing.  Not this property's business; the reference is then empty
			extra["load_error_reference"] = err.Error()
			h.r.Count("snapshot:reference-load-failed")
		}
		// (LoadFromSnapshot is synchronous, and nothing was queued when the snapshot was saved)
		before = h.observe(d.victim)
		mark = len(api.GetLog)
		pres := clone(d.heads[0])
		variant := d.snapVariant
		if variant == "replace" && len(ents) == 0 {
			variant = "extra"
		}
		switch variant {
		case "extra":
			ents = append(ents, pres)
			hdr.Size = len(ents)
		case "replace":
			// the genuine entry whose address the presented entry claims, else any
			gi := -1
			for i, e := range ents {
				if e.Hash.Equals(pres.Hash) && !pres.Hash.Equals(d.tcid) {
					gi = i
				}
			}
			if gi < 0 {
				gi = h.r.Rng.Intn(len(ents))
			}
			g := ents[gi].Hash
			pres.Hash = g
			ents[gi] = pres
			for i, hd := range hdr.Heads {
				if hd.Hash.Equals(g) {
					hdr.Heads[i] = pres
				}
			}
			d.heads = []*entry.Entry{pres}
		case "head":
			hdr.Heads = append(hdr.Heads, pres)
		default:
			return "", nil, fmt.Errorf("unknown snapshot variant %q", d.snapVariant)
		}
		extra["snapshot_variant"] = variant
		extra["snapshot_entries"] = len(ents)
		if err := writeSnapshot(h.ctx, s.Stores[d.victim], hdr, ents); err != nil {
			return "", nil, err
		}
		if err := restart(); err != nil {
			return "", nil, err
		}
		lerr := s.Stores[d.victim].LoadFromSnapshot(h.ctx)
		syncObs = "(Some " + sim.CoqBool(lerr == nil) + ")"
		if lerr != nil {
			extra["load_error"] = lerr.Error()
		}
		// afterwards: later restarts of this replica find the untouched snapshot again, and a
		// replica whose load failed as a whole gets its log back from it
		// (dirty: the log holds something it should not; start again from an empty log)
		restore = func(dirty bool) {
			_ = s.Stores[d.victim].Cache().Put(h.ctx, datastore.NewKey("snapshot"), []byte(cleanPath))
			if dirty {
				if err := s.Reopen(d.victim); err != nil {
					h.r.Count("snapshot-restore-failed")
					return
				}
			}
			if dirty || lerr != nil {
				if err := s.Stores[d.victim].LoadFromSnapshot(h.ctx); err != nil {
					h.r.Count("snapshot-restore-failed")
				}
				s.Settle()
			}
		}
	default:
		return "", nil, fmt.Errorf("unknown route %s", d.route)
	}
	if !s.Settle() {
		h.r.AddDirect("hang:sync", "replication did not settle", map[string]interface{}{"route": d.route, "state": sim.LastSettleState})
	}
	if d.reloadAfter {
		if err := s.Reopen(d.victim); err != nil {
			return "", nil, err
		}
		if err := s.Stores[d.victim].Load(h.ctx, -1); err != nil {
			extra["reload_error"] = err.Error()
		}
		if !s.Settle() {
			h.r.AddDirect("hang:reload", "store did not settle after the reload", map[string]interface{}{"route": d.route, "state": sim.LastSettleState})
		}
	}
	after := h.observe(d.victim)
	misfiled := 0
	if d.route == "snapshot" {
		var err error
		if after, misfiled, err = h.observeTrue(d.victim, d.from); err != nil {
			return "", nil, err
		}
		extra["misfiled"] = misfiled
	}
	// what the replica fetched during the step, in order, as entry numbers
	var fetched []int
	seenF := map[string]bool{}
	for _, c := range api.GetLog[mark:] {
		if seenF[c] || !h.u.seen[c] {
			continue
		}
		seenF[c] = true
		fetched = append(fetched, s.Canon.Hash.ID(c))
	}
	vis := h.visible(d.victim, d.tcid, d.key, d.val)
	if d.route == "snapshot" && d.uniqueVal && !vis {
		// filed under the address the snapshot claims for it
		vis = h.visible(d.victim, d.heads[0].Hash, d.key, d.val)
	}
	if d.visByListing {
		vis = false
		for _, x := range after.vals {
			if x == d.target {
				vis = true
			}
		}
	}
	hs := make([]string, len(d.heads))
	for i, e := range d.heads {
		hs[i] = fmt.Sprintf("(%s, %s)", sim.CoqN(d.headTrue[i]), sim.CoqN(s.Canon.Hash.ID(e.GetHash().String())))
	}
	term := fmt.Sprintf("(mkDel %s %s %s %s %s %s %s %s %s %s %s %s)", h.u.Name, h.cfgCoq(), sim.CoqN(s.Canon.LogID.ID(s.Addr)),
		before.log.Coq(), sim.CoqListN(before.vals), sim.CoqList(hs), sim.CoqListN(fetched), sim.CoqN(d.target), syncObs,
		after.log.Coq(), sim.CoqListN(after.vals), sim.CoqBool(vis))
	in := func(xs []int) bool {
		for _, x := range xs {
			if x == d.target {
				return true
			}
		}
		return false
	}
	restore(in(after.log.Ents) || in(after.log.Heads) || in(after.vals) || misfiled > 0)
	extra["route"] = d.route
	extra["victim"] = d.victim
	extra["fetched"] = len(fetched)
	extra["in_entries"] = in(after.log.Ents)
	extra["in_heads"] = in(after.log.Heads)
	extra["in_values"] = in(after.vals)
	extra["visible"] = vis
	extra["sync"] = syncObs
	extra["changed"] = len(after.log.Ents) != len(before.log.Ents)
	return term, extra, nil
}

// colluder builds a genuine entry of replica rep's identity whose next points to x.
func (h *hostile) colluder(rep int, x *entry.Entry) (*entry.Entry, error) {
	p, _, _ := h.payload("colluder")
	t := 1
	if x.Clock != nil {
		t = x.Clock.Time + 1
	}
	return h.create(rep, h.s.Addr, p, []cid.Cid{x.Hash}, t)
}

// colluderRefs: the writer's entry names x only among its refs (the skip list of the log);
// its next links are the heads the writer's replica holds.
func (h *hostile) colluderRefs(rep int, x *entry.Entry) (*entry.Entry, error) {
	p, _, _ := h.payload("colluder")
	t := 1
	if x.Clock != nil {
		t = x.Clock.Time + 1
	}
	var next []cid.Cid
	for _, e := range h.s.Stores[rep].OpLog().Heads().Slice() {
		if e.GetLogID() != h.s.Addr {
			continue
		}
		next = append(next, e.GetHash())
		if e.GetClock().GetTime() >= t {
			t = e.GetClock().GetTime() + 1
		}
	}
	id := h.s.Reps[rep].Orbit.Identity()
	e, err := entry.CreateEntryWithIO(h.ctx, h.s.Reps[rep].API, id, &entry.Entry{
		LogID: h.s.Addr, Payload: p, Next: next, Refs: []cid.Cid{x.Hash}, Clock: entry.NewLamportClock(id.PublicKey, t),
	}, nil, h.s.Stores[rep].IO())
	if err != nil {
		return nil, err
	}
	return e.(*entry.Entry), nil
}

func errClass(err error) int {
	switch {
	case err == nil:
		return 0
	case strings.Contains(err.Error(), "log append denied"):
		return 1
	}
	return 2
}

// ---------------------------------------------------------------------------
// C03
// ---------------------------------------------------------------------------

type wlConfig struct {
	name    string
	opts    ScenOpts
	conf    []int // the write list as configured (replica indices)
	writers []int // the list the controller is expected to enforce (replica indices)
	wild    bool
}

// forgeries of the author fields.  w = an authorised writer's identity (the creator),
// me = the hostile replica's own identity.  Returns the entry and its real signer.
var c03Forgeries = []string{"honest-nonwriter", "copied-id-own-key", "copied-block-own-key", "foreign-signing-key",
	"copied-id-and-signatures", "foreign-log-nonwriter",
	// the same forgeries with the identity's (unsigned) type field set to another provider's
	// name or emptied: who wrote the entry chooses that field
	"copied-id-own-key/ethereum", "copied-id-and-signatures/did", "copied-id-own-key/", "honest-nonwriter/ethereum"}

func (h *hostile) forge(kind string, me, w int, next []cid.Cid, t int) (*entry.Entry, string, string, string, error) {
	idType, retype := "", false
	if i := strings.Index(kind, "/"); i >= 0 {
		kind, idType, retype = kind[:i], kind[i+1:], true
	}
	e, signer, key, val, err := h.forgeBase(kind, me, w, next, t)
	if err != nil || !retype {
		return e, signer, key, val, err
	}
	f := clone(e)
	f.Identity.Type = idType
	if err := h.readdress(me, f); err != nil {
		return nil, "", "", "", err
	}
	return f, signer, key, val, nil
}

func (h *hostile) forgeBase(kind string, me, w int, next []cid.Cid, t int) (*entry.Entry, string, string, string, error) {
	p, key, val := h.payload("hostile")
	logID := h.s.Addr
	if kind == "foreign-log-nonwriter" {
		logID = h.s.Addr + "-other"
	}
	e, err := h.create(me, logID, p, next, t)
	if err != nil {
		return nil, "", "", "", err
	}
	mine := h.s.Reps[me].Orbit.Identity()
	wr := h.s.Reps[w].Orbit.Identity()
	signer := "" // signed by its own key field
	switch kind {
	case "honest-nonwriter", "foreign-log-nonwriter":
		return e, signer, key, val, nil
	case "copied-id-own-key":
		f := clone(e)
		f.Identity.ID = wr.ID
		e = f
	case "copied-block-own-key":
		f := clone(e)
		f.Identity = cloneIdentity(wr)
		e = f
	case "foreign-signing-key":
		f := clone(e)
		f.Identity = cloneIdentity(wr)
		f.Key = append([]byte{}, wr.PublicKey...)
		signer = string(mine.PublicKey)
		e = f
	case "copied-id-and-signatures":
		f := clone(e)
		f.Identity = cloneIdentity(wr)
		f.Identity.PublicKey = append([]byte{}, mine.PublicKey...)
		e = f
	default:
		return nil, "", "", "", fmt.Errorf("unknown forgery %s", kind)
	}
	if err := h.readdress(me, e); err != nil {
		return nil, "", "", "", err
	}
	return e, signer, key, val, nil
}

func c03Sig(kind string) string {
	if i := strings.Index(kind, "/"); i >= 0 {
		kind = kind[:i]
	}
	switch kind {
	case "copied-id-own-key", "copied-block-own-key", "copied-id-and-signatures":
		return "forged-identity-accepted"
	case "foreign-log-nonwriter":
		return "foreign-log-entry-becomes-head"
	}
	return "c03-other"
}

// C03: controller types x write lists x non-writer identities x routes x forgeries of the
// author fields.
// Replicas: 0 creator, 1 second writer in the explicit configurations, 2 hostile (never in
// the write list), 3 and 4 observers.  Victims: 1 and 3; the snapshot route mostly takes 4,
// which never receives a colluder's entry (route ancestor): a log holding a genuine entry
// with an unacceptable ancestor cannot be reloaded from a snapshot at all (the reload walks
// the history from the heads and joins everything at once), which would leave the snapshot
// route little to show.
// Controller types: ipfs (the default) and simple (nothing persisted: every opener passes the
// list).  The third type, "orbitdb", cannot be constructed in this port (its constructor
// panics) and is left out.
func runC03(r *Run) error {
	defer closeEnv()
	configs := []wlConfig{
		{"explicit", ScenOpts{Writers: []int{0, 1}}, []int{0, 1}, []int{0, 1}, false},
		{"wildcard", ScenOpts{Wildcard: true}, nil, nil, true},
		{"empty-default-creator", ScenOpts{Writers: []int{}}, nil, []int{0}, false},
		{"creator-only", ScenOpts{Writers: []int{0}}, []int{0}, []int{0}, false},
		{"simple/explicit", ScenOpts{ACType: "simple", Writers: []int{0, 1}}, []int{0, 1}, []int{0, 1}, false},
		{"simple/wildcard", ScenOpts{ACType: "simple", Wildcard: true}, nil, nil, true},
		{"simple/empty-nobody", ScenOpts{ACType: "simple", Writers: []int{}}, nil, nil, false},
	}
	types := []string{"eventlog", "keyvalue"}
	rounds := 2
	if r.Tier == "thorough" {
		rounds = 12
	}
	const nrep = 5
	routes := []string{"sync", "pubsub", "exchange", "ancestor", "cache", "snapshot"}
	snapVariants := []string{"extra", "replace", "head"}
	ctx := context.Background()
	for round := 0; round < rounds; round++ {
		for ci, cfg := range configs {
			typ := types[(round+ci)%2]
			opts := cfg.opts
			simple := opts.ACType == "simple"
			if r.Tier != "thorough" && simple && cfg.name != "simple/empty-nobody" && (ci+round)%2 != 0 {
				// quick: the empty list of the simple controller in every round, its explicit list
				// and its wildcard in turn
				continue
			}
			if simple {
				// an empty list as an empty "write" entry or as no entry at all
				opts.ACNoWriteKey = r.Rng.Intn(2) == 0
			}
			s, err := NewScen(nrep, typ, &opts)
			if err != nil {
				return err
			}
			u := s.NewUniverse()
			h := newHostile(r, s, u, cfg.conf, cfg.wild)
			h.noMarker = !cfg.wild && len(cfg.writers) == 0
			// which routes a forgery is delivered by.  thorough: all of them.  quick: the ipfs
			// configurations keep the five message/cache routes for every forgery and get the
			// snapshot route for every third; the simple configurations get two routes per forgery
			// (one when nobody can write: the log stays empty), rotating, so that every route is
			// taken by some forgery in every scenario
			off := r.Rng.Intn(len(routes))
			routesFor := func(fi int) []string {
				switch {
				case r.Tier == "thorough":
					return routes
				case simple && h.noMarker:
					return []string{routes[(off+fi)%len(routes)]}
				case simple:
					return []string{routes[(off+2*fi)%len(routes)], routes[(off+2*fi+1)%len(routes)]}
				case (fi+off)%3 == 0:
					return routes
				}
				return routes[:5]
			}
			lid := sim.CoqN(s.Canon.LogID.ID(s.Addr))
			isWriter := func(rep int) bool {
				if cfg.wild {
					return true
				}
				for _, w := range cfg.writers {
					if w == rep {
						return true
					}
				}
				return false
			}
			// one local write on replica rep, observed: error class and the log before/after
			localCase := func(rep int, what string, write func() error) {
				id := s.Reps[rep].Orbit.Identity()
				before := snapLog(s, u, s.Stores[rep])
				werr := write()
				after := snapLog(s, u, s.Stores[rep])
				cls := errClass(werr)
				descr := map[string]interface{}{"kind": what, "config": cfg.name, "type": typ, "replica": rep,
					"writer": isWriter(rep), "errclass": cls, "sig": "c03-other", "controller": s.ACType}
				if werr != nil {
					descr["error"] = werr.Error()
				}
				r.AddCase(fmt.Sprintf("(CLocal %s %s %s %s %s %s %s %s)", u.Name, h.cfgCoq(), lid,
					sim.CoqN(s.Canon.Ident.ID(id.ID)), sim.CoqN(s.Canon.Key.ID(string(id.PublicKey))),
					before.Coq(), sim.CoqN(cls), after.Coq()), descr, !isWriter(rep))
				r.Count(fmt.Sprintf("%s:writer=%v:class=%d", what, isWriter(rep), cls))
			}
			// a short genuine history by the writers, replicated to everybody
			nh := 1 + r.Rng.Intn(3)
			for i := 0; i < nh; i++ {
				w := 0
				if len(cfg.writers) > 1 && r.Rng.Intn(2) == 0 {
					w = 1
				}
				// (a refused write of an authorised writer is recorded, not fatal)
				localCase(w, "history", func() error { return writeOp(r, s, s.Stores[w], i) })
				for to := 0; to < nrep; to++ {
					if to != w && r.Rng.Intn(3) > 0 {
						if err := s.SyncFrom(to, w); err != nil {
							return err
						}
						s.Settle()
					}
				}
			}
			for to := 1; to < nrep; to++ {
				for _, w := range []int{0, 1} {
					if to != w {
						if err := s.SyncFrom(to, w); err != nil {
							return err
						}
						s.Settle()
					}
				}
			}
			for _, st := range s.Stores {
				u.Note(st.OpLog().Values().Slice())
			}
			// --- local write route: every replica tries to write on its own store
			for rep := 1; rep < nrep; rep++ {
				rep := rep
				localCase(rep, "local", func() error {
					var werr error
					switch st := s.Stores[rep].(type) {
					case iface.EventLogStore:
						_, werr = st.Add(ctx, []byte(fmt.Sprintf("local-%d", rep)))
					case iface.KeyValueStore:
						if r.Rng.Intn(3) == 0 {
							_, werr = st.Delete(ctx, "a")
						} else {
							_, werr = st.Put(ctx, "a", []byte(fmt.Sprintf("local-%d", rep)))
						}
					}
					return werr
				})
			}
			// bring the writers' local entries to everybody again so that victims start level
			for to := 1; to < nrep; to++ {
				for _, w := range []int{0, 1} {
					if to != w && isWriter(w) {
						if err := s.SyncFrom(to, w); err != nil {
							return err
						}
						s.Settle()
					}
				}
			}
			// --- remote routes
			me := 2
			for fi, kind := range c03Forgeries {
				for _, route := range routesFor(fi) {
					victim := []int{1, 3}[r.Rng.Intn(2)]
					if route == "snapshot" && r.Rng.Intn(3) > 0 {
						victim = 4
					}
					// links and clock of the hostile entry: on top of what the victim holds, or detached
					var next []cid.Cid
					t := 1 + r.Rng.Intn(3)
					if r.Rng.Intn(2) == 0 {
						for _, e := range s.Stores[victim].OpLog().Heads().Slice() {
							if e.GetLogID() != s.Addr {
								continue // never build on an entry of another log
							}
							next = append(next, e.GetHash())
							if e.GetClock().GetTime() >= t {
								t = e.GetClock().GetTime() + 1
							}
						}
					}
					// whose identity is forged: the creator's, or the VICTIM's own when it is a writer
					// (a replica must not trust a copy of its own identity block either)
					wv := 0
					if isWriter(victim) && !cfg.wild && r.Rng.Intn(2) == 0 {
						wv = victim
						r.Count("forged-identity-of-victim")
					}
					x, signer, key, val, err := h.forge(kind, me, wv, next, t)
					if err != nil {
						return fmt.Errorf("forge %s: %w", kind, err)
					}
					// harness sanity: the symbolic signer agrees with the real signature check
					if h.verifies(x) != (signer == "") {
						return fmt.Errorf("forgery %s: signature check %v does not match the symbolic signer", kind, h.verifies(x))
					}
					tn := h.note(x, signer)
					d := &hdelivery{route: route, victim: victim, from: me, target: tn, tcid: x.Hash, key: key, val: val, uniqueVal: true}
					if route == "snapshot" {
						d.snapVariant = snapVariants[r.Rng.Intn(len(snapVariants))]
						d.snapPreload = r.Rng.Intn(4) == 0
					}
					if route == "ancestor" {
						c, err := h.colluder(0, x)
						if err != nil {
							return err
						}
						cn := h.note(c, "")
						d.heads, d.headTrue = []*entry.Entry{c}, []int{cn}
					} else {
						d.heads, d.headTrue = []*entry.Entry{x}, []int{tn}
					}
					term, extra, err := h.perform(d)
					if err != nil {
						return err
					}
					extra["kind"] = "remote"
					extra["config"] = cfg.name
					extra["type"] = typ
					extra["forgery"] = kind
					extra["sig"] = c03Sig(kind)
					if route == "snapshot" {
						// not the known message-route findings: what a snapshot file states is trusted
						extra["sig"] = "snapshot/" + c03Sig(kind)
					}
					extra["write_list"] = h.wl
					extra["controller"] = s.ACType
					switch route {
					case "cache":
						r.AddCase("(CCached "+term+")", extra, true)
					case "snapshot":
						r.AddCase("(CSnapshot "+term+")", extra, true)
					default:
						r.AddCase("(CRemote "+term+")", extra, true)
					}
					r.Count("remote:" + route)
					r.Count("forgery:" + kind)
					r.Count(fmt.Sprintf("merged=%v", extra["in_entries"].(bool) || extra["in_heads"].(bool)))
				}
			}
			r.Count("config=" + cfg.name)
			r.Count("type=" + typ)
			r.Pre = append(r.Pre, u.Def())
			s.Settle()
			s.Close()
		}
	}
	return nil
}

package main

import (
	"bytes"
	"context"
	"encoding/json"
	"fmt"
	"strings"
	"time"

	ipfslog "berty.tech/go-ipfs-log"
	"berty.tech/go-ipfs-log/entry"
	idp "berty.tech/go-ipfs-log/identityprovider"
	"berty.tech/go-orbit-db/iface"
	"berty.tech/go-orbit-db/stores/operation"
	cid "github.com/ipfs/go-cid"
	"verifharness/sim"
)

func init() { drivers["C03"] = driver{"C03", runC03} }

// ---------------------------------------------------------------------------
// Hostile deliveries: infrastructure shared by C03 and C04.
//
// Hostile entries are built with go-ipfs-log itself (entry.CreateEntryWithIO with one of
// the scenario's identities), then copied, altered and re-addressed (the store's IO
// writes the altered entry, its address is whatever the bytes hash to).  Every entry is
// rendered for Coq under its TRUE content address and with the key that really produced
// its signature (Canon.CoqEntry's signer); "nobody" stands for a signature that no key
// produced for this content (stale or damaged).
// ---------------------------------------------------------------------------

type hostile struct {
	r      *Run
	s      *Scen
	u      *Universe
	ctx    context.Context
	badBlk []int // hash numbers of entries whose identity block is not a genuinely issued one
	wl     []int // write list as identity numbers
	wild   bool
	seq    int
}

const nobody = "\x00nobody"

func newHostile(r *Run, s *Scen, u *Universe, writers []int, wild bool) *hostile {
	h := &hostile{r: r, s: s, u: u, ctx: context.Background(), wild: wild}
	for _, w := range writers {
		h.wl = append(h.wl, s.Canon.Ident.ID(s.Reps[w].Orbit.Identity().ID))
	}
	// stable key numbering: replica i has key number i+1
	for _, rep := range s.Reps {
		s.Canon.Key.ID(string(rep.Orbit.Identity().PublicKey))
	}
	return h
}

func sameBlock(a, b *idp.Identity) bool {
	if a == nil || b == nil || a.Signatures == nil || b.Signatures == nil {
		return false
	}
	return a.ID == b.ID && bytes.Equal(a.PublicKey, b.PublicKey) &&
		bytes.Equal(a.Signatures.ID, b.Signatures.ID) && bytes.Equal(a.Signatures.PublicKey, b.Signatures.PublicKey)
}

// genuineBlock: the identity block is byte for byte one that an identity of the
// scenario issued (symbolically: the only blocks whose two signatures verify).
func (h *hostile) genuineBlock(id *idp.Identity) bool {
	for _, rep := range h.s.Reps {
		if sameBlock(id, rep.Orbit.Identity()) {
			return true
		}
	}
	return false
}

// note registers an entry (under its true address) with its real signer.
func (h *hostile) note(e *entry.Entry, signer string) int {
	k := e.GetHash().String()
	n := h.s.Canon.Hash.ID(k)
	if !h.u.seen[k] {
		h.u.seen[k] = true
		h.u.terms = append(h.u.terms, h.s.Canon.CoqEntry(e, signer))
		if !h.genuineBlock(e.Identity) {
			h.badBlk = append(h.badBlk, n)
		}
	}
	return n
}

func (h *hostile) cfgCoq() string {
	ik := make([]string, len(h.s.Reps))
	for i, rep := range h.s.Reps {
		id := rep.Orbit.Identity()
		ik[i] = fmt.Sprintf("(%s, %s)", sim.CoqN(h.s.Canon.Ident.ID(id.ID)), sim.CoqN(h.s.Canon.Key.ID(string(id.PublicKey))))
	}
	return fmt.Sprintf("(mkCfg %s %s %s %s)", sim.CoqListN(h.wl), sim.CoqBool(h.wild), sim.CoqList(ik), sim.CoqListN(h.badBlk))
}

// payload builds a fresh operation of the scenario's store type; tag identifies it in queries.
func (h *hostile) payload(tag string) ([]byte, string, string) {
	h.seq++
	val := fmt.Sprintf("%s-%d", tag, h.seq)
	if h.s.Type == "keyvalue" {
		key := fmt.Sprintf("k-%s-%d", tag, h.seq)
		b, _ := operation.NewOperation(&key, "PUT", []byte(val)).Marshal()
		return b, key, val
	}
	b, _ := operation.NewOperation(nil, "ADD", []byte(val)).Marshal()
	return b, "", val
}

// create builds a genuine, signed entry of replica rep's identity for log logID.
func (h *hostile) create(rep int, logID string, payload []byte, next []cid.Cid, t int) (*entry.Entry, error) {
	id := h.s.Reps[rep].Orbit.Identity()
	if next == nil {
		next = []cid.Cid{}
	}
	e, err := entry.CreateEntryWithIO(h.ctx, h.s.Reps[rep].API, id, &entry.Entry{
		LogID: logID, Payload: payload, Next: next, Refs: []cid.Cid{}, Clock: entry.NewLamportClock(id.PublicKey, t),
	}, nil, h.s.Stores[rep].IO())
	if err != nil {
		return nil, err
	}
	return e.(*entry.Entry), nil
}

// clone copies an entry deeply enough for field forgery.
func clone(e *entry.Entry) *entry.Entry {
	c := e.Copy().(*entry.Entry)
	c.Payload = append([]byte{}, e.Payload...)
	c.Key = append([]byte{}, e.Key...)
	c.Sig = append([]byte{}, e.Sig...)
	if e.Identity != nil {
		c.Identity = cloneIdentity(e.Identity)
	}
	return c
}

func cloneIdentity(i *idp.Identity) *idp.Identity {
	o := &idp.Identity{ID: i.ID, PublicKey: append([]byte{}, i.PublicKey...), Type: i.Type}
	if i.Signatures != nil {
		o.Signatures = &idp.IdentitySignature{ID: append([]byte{}, i.Signatures.ID...), PublicKey: append([]byte{}, i.Signatures.PublicKey...)}
	}
	return o
}

// trueAddress writes the entry through the store's IO on replica rep and returns the
// address its bytes hash to (the entry's Hash field is left alone).
func (h *hostile) trueAddress(rep int, e *entry.Entry) (cid.Cid, error) {
	return h.s.Stores[rep].IO().Write(h.ctx, h.s.Reps[rep].API, e.Copy(), nil)
}

func (h *hostile) readdress(rep int, e *entry.Entry) error {
	c, err := h.trueAddress(rep, e)
	if err != nil {
		return err
	}
	e.Hash = c
	return nil
}

// verifies runs the real signature check of go-ipfs-log on the entry.
func (h *hostile) verifies(e *entry.Entry) bool {
	return e.Verify(h.s.Reps[0].Orbit.Identity().Provider, h.s.Stores[0].IO()) == nil
}

// obs is what is observed on a replica's store.
type obs struct {
	log  OLog
	vals []int
}

func (h *hostile) observe(rep int) obs {
	st := h.s.Stores[rep]
	return obs{log: snapLog(h.s, h.u, st), vals: h.u.Note(st.OpLog().Values().Slice())}
}

// visible: does the target's value show in the store's queries?
func (h *hostile) visible(rep int, target cid.Cid, key, val string) bool {
	switch st := h.s.Stores[rep].(type) {
	case iface.EventLogStore:
		all := -1
		ops, err := st.List(h.ctx, &iface.StreamOptions{Amount: &all})
		if err != nil {
			return false
		}
		for _, op := range ops {
			if op.GetEntry().GetHash().Equals(target) && string(op.GetValue()) == val {
				return true
			}
		}
	case iface.KeyValueStore:
		v, err := st.Get(h.ctx, key)
		return err == nil && string(v) == val
	}
	return false
}

// delivery describes one hostile delivery to be performed and observed.
type hdelivery struct {
	route    string         // sync | pubsub | exchange | ancestor
	victim   int            // replica receiving
	from     int            // hostile replica (sender on the direct channel)
	heads    []*entry.Entry // announced heads as presented (Hash = claimed address)
	headTrue []int          // hash numbers of the true addresses of the announced contents
	target   int            // hash number (true address) of the hostile entry
	tcid     cid.Cid        // true address of the hostile entry
	key, val string         // how the target's value would show in queries
	// judge visibility by membership in Values() (for values not attributable to the target)
	visByListing bool
}

// perform delivers, waits for quiescence, and renders the Coq [delivery] record.
func (h *hostile) perform(d *hdelivery) (string, map[string]interface{}, error) {
	s := h.s
	api := s.Reps[d.victim].API
	before := h.observe(d.victim)
	mark := len(api.GetLog)
	syncObs := "None"
	extra := map[string]interface{}{}
	cp := func() []ipfslog.Entry {
		out := make([]ipfslog.Entry, len(d.heads))
		for i, e := range d.heads {
			out[i] = clone(e)
		}
		return out
	}
	switch d.route {
	case "sync", "ancestor":
		err := s.Stores[d.victim].Sync(h.ctx, cp())
		syncObs = "(Some " + sim.CoqBool(err == nil) + ")"
		if err != nil {
			extra["sync_error"] = err.Error()
		}
	case "pubsub", "exchange":
		send := func(heads []*entry.Entry) error {
			payload, err := json.Marshal(&iface.MessageExchangeHeads{Address: s.Addr, Heads: heads})
			if err != nil {
				return err
			}
			if d.route == "pubsub" {
				s.Env.Net.InjectTopic(s.Addr, s.Reps[d.victim].Idx, payload)
			} else {
				s.Env.Net.InjectDirect(s.Reps[d.from].PID, s.Reps[d.victim].Idx, payload)
			}
			return nil
		}
		if err := send(d.heads); err != nil {
			return "", nil, err
		}
		// The victim handles messages of one channel in order.  A genuine entry of the
		// creator announced right behind on the same channel tells when the hostile
		// message has been through Sync.
		mp, _, _ := h.payload("marker")
		var m ipfslog.Entry
		var err error
		switch st := s.Stores[0].(type) {
		case iface.EventLogStore:
			op, e := st.Add(h.ctx, []byte(fmt.Sprintf("marker-%d", h.seq)))
			if e == nil {
				m = op.GetEntry()
			}
			err = e
		case iface.KeyValueStore:
			op, e := st.Put(h.ctx, "marker", mp)
			if e == nil {
				m = op.GetEntry()
			}
			err = e
		}
		if err != nil || m == nil {
			// the creator cannot write on its own database: no marker; wait a fixed time instead
			h.r.Count("marker-write-refused")
			extra["marker_error"] = fmt.Sprint(err)
			time.Sleep(150 * time.Millisecond)
			break
		}
		h.u.Note([]ipfslog.Entry{m})
		if err := send([]*entry.Entry{m.(*entry.Entry)}); err != nil {
			return "", nil, err
		}
		deadline := time.Now().Add(15 * time.Second)
		for {
			if _, ok := s.Stores[d.victim].OpLog().Get(m.GetHash()); ok {
				break
			}
			if time.Now().After(deadline) {
				h.r.AddDirect("hang:deliver", "a genuine head announced behind the hostile message was never merged",
					map[string]interface{}{"route": d.route, "state": sim.LastSettleState})
				break
			}
			time.Sleep(2 * time.Millisecond)
		}
	case "cache":
		// load from disk: the heads are found in the victim's own heads cache (a cache written by
		// an earlier version, a damaged or tampered directory) when the database is reopened and
		// loaded; there is no per-head check on this route, only the checks of the join
		// the reference is what a restart yields WITHOUT the hostile heads (a restart by itself
		// may drop entries, e.g. a genuine entry whose ancestor is rejected: Load joins a head's
		// whole fetched log at once; that is not this property's business)
		if err := c13Reopen(s, d.victim); err != nil {
			return "", nil, err
		}
		if err := s.Stores[d.victim].Load(h.ctx, -1); err != nil {
			extra["load_error_reference"] = err.Error()
		}
		if !s.Settle() {
			h.r.AddDirect("hang:load", "store did not settle after Load", map[string]interface{}{"route": d.route, "state": sim.LastSettleState})
		}
		before = h.observe(d.victim)
		mark = len(api.GetLog)
		st := s.Stores[d.victim]
		var cached []*entry.Entry
		if raw, err := st.Cache().Get(h.ctx, datastoreKey("_remoteHeads")); err == nil {
			_ = json.Unmarshal(raw, &cached)
		}
		for _, e := range d.heads {
			cached = append(cached, clone(e))
		}
		raw, err := json.Marshal(cached)
		if err != nil {
			return "", nil, err
		}
		if err := st.Cache().Put(h.ctx, datastoreKey("_remoteHeads"), raw); err != nil {
			return "", nil, err
		}
		if err := c13Reopen(s, d.victim); err != nil {
			return "", nil, err
		}
		if err := s.Stores[d.victim].Load(h.ctx, -1); err != nil {
			extra["load_error"] = err.Error()
		}
	default:
		return "", nil, fmt.Errorf("unknown route %s", d.route)
	}
	if !s.Settle() {
		h.r.AddDirect("hang:sync", "replication did not settle", map[string]interface{}{"route": d.route, "state": sim.LastSettleState})
	}
	after := h.observe(d.victim)
	// what the replica fetched during the step, in order, as entry numbers
	var fetched []int
	seenF := map[string]bool{}
	for _, c := range api.GetLog[mark:] {
		if seenF[c] || !h.u.seen[c] {
			continue
		}
		seenF[c] = true
		fetched = append(fetched, s.Canon.Hash.ID(c))
	}
	vis := h.visible(d.victim, d.tcid, d.key, d.val)
	if d.visByListing {
		vis = false
		for _, x := range after.vals {
			if x == d.target {
				vis = true
			}
		}
	}
	hs := make([]string, len(d.heads))
	for i, e := range d.heads {
		hs[i] = fmt.Sprintf("(%s, %s)", sim.CoqN(d.headTrue[i]), sim.CoqN(s.Canon.Hash.ID(e.GetHash().String())))
	}
	term := fmt.Sprintf("(mkDel %s %s %s %s %s %s %s %s %s %s %s %s)", h.u.Name, h.cfgCoq(), sim.CoqN(s.Canon.LogID.ID(s.Addr)),
		before.log.Coq(), sim.CoqListN(before.vals), sim.CoqList(hs), sim.CoqListN(fetched), sim.CoqN(d.target), syncObs,
		after.log.Coq(), sim.CoqListN(after.vals), sim.CoqBool(vis))
	in := func(xs []int) bool {
		for _, x := range xs {
			if x == d.target {
				return true
			}
		}
		return false
	}
	extra["route"] = d.route
	extra["victim"] = d.victim
	extra["fetched"] = len(fetched)
	extra["in_entries"] = in(after.log.Ents)
	extra["in_heads"] = in(after.log.Heads)
	extra["in_values"] = in(after.vals)
	extra["visible"] = vis
	extra["sync"] = syncObs
	extra["changed"] = len(after.log.Ents) != len(before.log.Ents)
	return term, extra, nil
}

// colluder builds a genuine entry of replica rep's identity whose next points to x.
func (h *hostile) colluder(rep int, x *entry.Entry) (*entry.Entry, error) {
	p, _, _ := h.payload("colluder")
	t := 1
	if x.Clock != nil {
		t = x.Clock.Time + 1
	}
	return h.create(rep, h.s.Addr, p, []cid.Cid{x.Hash}, t)
}

func errClass(err error) int {
	switch {
	case err == nil:
		return 0
	case strings.Contains(err.Error(), "log append denied"):
		return 1
	}
	return 2
}

// ---------------------------------------------------------------------------
// C03
// ---------------------------------------------------------------------------

type wlConfig struct {
	name    string
	opts    ScenOpts
	writers []int // effective write list (replica indices)
	wild    bool
}

// forgeries of the author fields.  w = an authorised writer's identity (the creator),
// me = the hostile replica's own identity.  Returns the entry and its real signer.
var c03Forgeries = []string{"honest-nonwriter", "copied-id-own-key", "copied-block-own-key", "foreign-signing-key",
	"copied-id-and-signatures", "foreign-log-nonwriter",
	// the same forgeries with the identity's (unsigned) type field set to another provider's
	// name or emptied: who wrote the entry chooses that field
	"copied-id-own-key/ethereum", "copied-id-and-signatures/did", "copied-id-own-key/", "honest-nonwriter/ethereum"}

func (h *hostile) forge(kind string, me, w int, next []cid.Cid, t int) (*entry.Entry, string, string, string, error) {
	idType, retype := "", false
	if i := strings.Index(kind, "/"); i >= 0 {
		kind, idType, retype = kind[:i], kind[i+1:], true
	}
	e, signer, key, val, err := h.forgeBase(kind, me, w, next, t)
	if err != nil || !retype {
		return e, signer, key, val, err
	}
	f := clone(e)
	f.Identity.Type = idType
	if err := h.readdress(me, f); err != nil {
		return nil, "", "", "", err
	}
	return f, signer, key, val, nil
}

func (h *hostile) forgeBase(kind string, me, w int, next []cid.Cid, t int) (*entry.Entry, string, string, string, error) {
	p, key, val := h.payload("hostile")
	logID := h.s.Addr
	if kind == "foreign-log-nonwriter" {
		logID = h.s.Addr + "-other"
	}
	e, err := h.create(me, logID, p, next, t)
	if err != nil {
		return nil, "", "", "", err
	}
	mine := h.s.Reps[me].Orbit.Identity()
	wr := h.s.Reps[w].Orbit.Identity()
	signer := "" // signed by its own key field
	switch kind {
	case "honest-nonwriter", "foreign-log-nonwriter":
		return e, signer, key, val, nil
	case "copied-id-own-key":
		f := clone(e)
		f.Identity.ID = wr.ID
		e = f
	case "copied-block-own-key":
		f := clone(e)
		f.Identity = cloneIdentity(wr)
		e = f
	case "foreign-signing-key":
		f := clone(e)
		f.Identity = cloneIdentity(wr)
		f.Key = append([]byte{}, wr.PublicKey...)
		signer = string(mine.PublicKey)
		e = f
	case "copied-id-and-signatures":
		f := clone(e)
		f.Identity = cloneIdentity(wr)
		f.Identity.PublicKey = append([]byte{}, mine.PublicKey...)
		e = f
	default:
		return nil, "", "", "", fmt.Errorf("unknown forgery %s", kind)
	}
	if err := h.readdress(me, e); err != nil {
		return nil, "", "", "", err
	}
	return e, signer, key, val, nil
}

func c03Sig(kind string) string {
	if i := strings.Index(kind, "/"); i >= 0 {
		kind = kind[:i]
	}
	switch kind {
	case "copied-id-own-key", "copied-block-own-key", "copied-id-and-signatures":
		return "forged-identity-accepted"
	case "foreign-log-nonwriter":
		return "foreign-log-entry-becomes-head"
	}
	return "c03-other"
}

// C03: write lists x non-writer identities x routes x forgeries of the author fields.
// Replicas: 0 creator (always a writer), 1 second writer in the explicit configuration,
// 2 hostile (never in the write list), 3 observer.  Victims: 1 and 3.
func runC03(r *Run) error {
	defer closeEnv()
	configs := []wlConfig{
		{"explicit", ScenOpts{Writers: []int{0, 1}}, []int{0, 1}, false},
		{"wildcard", ScenOpts{Wildcard: true}, nil, true},
		{"empty-default-creator", ScenOpts{Writers: []int{}}, []int{0}, false},
		{"creator-only", ScenOpts{Writers: []int{0}}, []int{0}, false},
	}
	types := []string{"eventlog", "keyvalue"}
	rounds := 2
	if r.Tier == "thorough" {
		rounds = 12
	}
	routes := []string{"sync", "pubsub", "exchange", "ancestor", "cache"}
	ctx := context.Background()
	for round := 0; round < rounds; round++ {
		for ci, cfg := range configs {
			typ := types[(round+ci)%2]
			opts := cfg.opts
			s, err := NewScen(4, typ, &opts)
			if err != nil {
				return err
			}
			u := s.NewUniverse()
			h := newHostile(r, s, u, cfg.writers, cfg.wild)
			lid := sim.CoqN(s.Canon.LogID.ID(s.Addr))
			isWriter := func(rep int) bool {
				if cfg.wild {
					return true
				}
				for _, w := range cfg.writers {
					if w == rep {
						return true
					}
				}
				return false
			}
			// one local write on replica rep, observed: error class and the log before/after
			localCase := func(rep int, what string, write func() error) {
				id := s.Reps[rep].Orbit.Identity()
				before := snapLog(s, u, s.Stores[rep])
				werr := write()
				after := snapLog(s, u, s.Stores[rep])
				cls := errClass(werr)
				descr := map[string]interface{}{"kind": what, "config": cfg.name, "type": typ, "replica": rep,
					"writer": isWriter(rep), "errclass": cls, "sig": "c03-other"}
				if werr != nil {
					descr["error"] = werr.Error()
				}
				r.AddCase(fmt.Sprintf("(CLocal %s %s %s %s %s %s %s %s)", u.Name, h.cfgCoq(), lid,
					sim.CoqN(s.Canon.Ident.ID(id.ID)), sim.CoqN(s.Canon.Key.ID(string(id.PublicKey))),
					before.Coq(), sim.CoqN(cls), after.Coq()), descr, !isWriter(rep))
				r.Count(fmt.Sprintf("%s:writer=%v:class=%d", what, isWriter(rep), cls))
			}
			// a short genuine history by the writers, replicated to everybody
			nh := 1 + r.Rng.Intn(3)
			for i := 0; i < nh; i++ {
				w := 0
				if len(cfg.writers) > 1 && r.Rng.Intn(2) == 0 {
					w = 1
				}
				// (a refused write of an authorised writer is recorded, not fatal)
				localCase(w, "history", func() error { return writeOp(r, s, s.Stores[w], i) })
				for to := 0; to < 4; to++ {
					if to != w && r.Rng.Intn(3) > 0 {
						if err := s.SyncFrom(to, w); err != nil {
							return err
						}
						s.Settle()
					}
				}
			}
			for to := 1; to < 4; to++ {
				for _, w := range []int{0, 1} {
					if to != w {
						if err := s.SyncFrom(to, w); err != nil {
							return err
						}
						s.Settle()
					}
				}
			}
			for _, st := range s.Stores {
				u.Note(st.OpLog().Values().Slice())
			}
			// --- local write route: every replica tries to write on its own store
			for rep := 1; rep < 4; rep++ {
				rep := rep
				localCase(rep, "local", func() error {
					var werr error
					switch st := s.Stores[rep].(type) {
					case iface.EventLogStore:
						_, werr = st.Add(ctx, []byte(fmt.Sprintf("local-%d", rep)))
					case iface.KeyValueStore:
						if r.Rng.Intn(3) == 0 {
							_, werr = st.Delete(ctx, "a")
						} else {
							_, werr = st.Put(ctx, "a", []byte(fmt.Sprintf("local-%d", rep)))
						}
					}
					return werr
				})
			}
			// bring the writers' local entries to everybody again so that victims start level
			for to := 1; to < 4; to++ {
				for _, w := range []int{0, 1} {
					if to != w && isWriter(w) {
						if err := s.SyncFrom(to, w); err != nil {
							return err
						}
						s.Settle()
					}
				}
			}
			// --- remote routes
			me := 2
			for _, kind := range c03Forgeries {
				for _, route := range routes {
					victim := []int{1, 3}[r.Rng.Intn(2)]
					// links and clock of the hostile entry: on top of what the victim holds, or detached
					var next []cid.Cid
					t := 1 + r.Rng.Intn(3)
					if r.Rng.Intn(2) == 0 {
						for _, e := range s.Stores[victim].OpLog().Heads().Slice() {
							if e.GetLogID() != s.Addr {
								continue // never build on an entry of another log
							}
							next = append(next, e.GetHash())
							if e.GetClock().GetTime() >= t {
								t = e.GetClock().GetTime() + 1
							}
						}
					}
					x, signer, key, val, err := h.forge(kind, me, 0, next, t)
					if err != nil {
						return fmt.Errorf("forge %s: %w", kind, err)
					}
					// harness sanity: the symbolic signer agrees with the real signature check
					if h.verifies(x) != (signer == "") {
						return fmt.Errorf("forgery %s: signature check %v does not match the symbolic signer", kind, h.verifies(x))
					}
					tn := h.note(x, signer)
					d := &hdelivery{route: route, victim: victim, from: me, target: tn, tcid: x.Hash, key: key, val: val}
					if route == "ancestor" {
						c, err := h.colluder(0, x)
						if err != nil {
							return err
						}
						cn := h.note(c, "")
						d.heads, d.headTrue = []*entry.Entry{c}, []int{cn}
					} else {
						d.heads, d.headTrue = []*entry.Entry{x}, []int{tn}
					}
					term, extra, err := h.perform(d)
					if err != nil {
						return err
					}
					extra["kind"] = "remote"
					extra["config"] = cfg.name
					extra["type"] = typ
					extra["forgery"] = kind
					extra["sig"] = c03Sig(kind)
					extra["write_list"] = h.wl
					if route == "cache" {
						r.AddCase("(CCached "+term+")", extra, true)
					} else {
						r.AddCase("(CRemote "+term+")", extra, true)
					}
					r.Count("remote:" + route)
					r.Count("forgery:" + kind)
					r.Count(fmt.Sprintf("merged=%v", extra["in_entries"].(bool) || extra["in_heads"].(bool)))
				}
			}
			r.Count("config=" + cfg.name)
			r.Count("type=" + typ)
			r.Pre = append(r.Pre, u.Def())
			s.Settle()
			s.Close()
		}
	}
	return nil
}

package main

import (
	acutils "berty.tech/go-orbit-db/accesscontroller/utils"
	"bufio"
	"bytes"
	"context"
	"encoding/hex"
	"encoding/json"
	"fmt"
	"io"
	"math/rand"
	"os"
	"os/exec"
	"path/filepath"
	"sort"
	"strings"
	"sync"
	"syscall"
	"time"

	"berty.tech/go-ipfs-log/entry"
	"berty.tech/go-orbit-db/iface"
	"berty.tech/go-orbit-db/messagemarshaler"
	"berty.tech/go-orbit-db/pubsub"
	"berty.tech/go-orbit-db/pubsub/directchannel"
	cid "github.com/ipfs/go-cid"
	"github.com/libp2p/go-libp2p/core/event"
	"github.com/libp2p/go-libp2p/core/host"
	"github.com/libp2p/go-libp2p/p2p/host/eventbus"
	mocknet "github.com/libp2p/go-libp2p/p2p/net/mock"
	"go.uber.org/zap"
	"verifharness/sim"
)

func init() { drivers["C12"] = driver{"C12", runC12} }

// C12: malformed network messages never crash a peer or change its state.
//
// Every batch of cases runs in a CHILD process (this binary re-executed with
// VCHECK_C12_CHILD=<batch file>), because the failures looked for kill the process.
// The child prints "@@C12 BEGIN <json>" before and "@@C12 END <json>" after each case; a
// child that dies in between marks that case as crashed and is restarted for the rest.
//
//	stream a: structured messages (every shape of "heads"/head fields), topic + direct channel
//	stream b: byte-level mutations of real captured messages, topic + direct channel
//	stream c: raw frames written on a libp2p stream to the real directchannel adapter
const (
	c12ChildEnv = "VCHECK_C12_CHILD"
	c12Tag      = "@@C12 "
)

// ---- batch / case descriptions exchanged between parent and child ----

type c12Edit struct {
	P  []string        `json:"p"`           // path inside the head object
	Op string          `json:"op"`          // "del" | "set"
	V  json.RawMessage `json:"v,omitempty"` // JSON value, or a "@placeholder" string resolved by the child
}

type c12Head struct {
	Base  string    `json:"base"` // "null" | "empty" | "known" | "known2" | "new"
	Edits []c12Edit `json:"edits,omitempty"`
	Name  string    `json:"name"`
}

type c12Msg struct {
	Raw     string    `json:"raw,omitempty"`   // literal payload ("@addr" replaced by the JSON string of the real address)
	Address string    `json:"address"`         // "real" | "wrong" | "missing" | "null" | "number"
	HeadsAs string    `json:"heads_as"`        // "list" | "null" | "object" | "string" | "missing"
	Heads   []c12Head `json:"heads,omitempty"` // for HeadsAs == "list"
	Extra   bool      `json:"extra,omitempty"` // add unknown top-level fields
}

type c12Mut struct {
	Base string `json:"base"` // "known" | "new"
	Kind string `json:"kind"`
	Seed int64  `json:"seed"`
}

type c12Case struct {
	ID     string  `json:"id"`
	Stream string  `json:"stream"` // "a" | "b" | "c"
	Chan   string  `json:"chan"`   // "topic" | "direct" (a, b)
	Name   string  `json:"name"`
	Msg    *c12Msg `json:"msg,omitempty"`
	Mut    *c12Mut `json:"mut,omitempty"`
	Frame  []byte  `json:"frame,omitempty"`
}

type c12Batch struct {
	Mode  string    `json:"mode"` // "msg" | "frame"
	Seed  int64     `json:"seed"`
	Cases []c12Case `json:"cases"`
}

// oracle bits the child computes with the receiver's real access controller, identity
// provider and entry codec, for heads on which these calls are safe
type c12Oracle struct {
	Writer   bool `json:"writer"`
	Verifies bool `json:"verifies"`
	Valid    bool `json:"valid"`
}

type c12Begin struct {
	ID      string      `json:"id"`
	Payload []byte      `json:"payload,omitempty"`
	Addr    string      `json:"addr,omitempty"`
	Oracle  []c12Oracle `json:"oracle,omitempty"`
}

type c12End struct {
	ID         string `json:"id"`
	Settled    bool   `json:"settled"`
	Started    bool   `json:"started"`
	Unchanged  bool   `json:"unchanged"`
	ValidState bool   `json:"valid_state"`
	NextOK     bool   `json:"next_ok"`
	// frames
	Delivered bool   `json:"delivered,omitempty"`
	Data      []byte `json:"data,omitempty"`
	Note      string `json:"note,omitempty"`
}

type c12Outcome struct {
	c       c12Case
	begin   *c12Begin
	end     *c12End
	crashed bool
	hung    bool
	stderr  string // panicking goroutine's dump (excerpt)
	sig     string
}

// =====================================================================================
// parent
// =====================================================================================

func runC12(r *Run) error {
	if spec := os.Getenv(c12ChildEnv); spec != "" {
		err := c12Child(spec)
		if err != nil {
			fmt.Fprintf(os.Stderr, "c12 child: %v\n", err)
			os.Exit(3)
		}
		os.Exit(0)
	}
	nStruct, nMut, nFrameRand := 30, 150, 50
	if r.Tier == "thorough" {
		nStruct, nMut, nFrameRand = 400, 1200, 500
	}
	a := c12StructuredCases(r, nStruct)
	b := c12MutationCases(r, nMut)
	c := c12FrameCases(r, nFrameRand)
	// interleave a and b in message batches of ~50
	var msgCases []c12Case
	msgCases = append(msgCases, a...)
	msgCases = append(msgCases, b...)
	const per = 50
	var outs []c12Outcome
	for i := 0; i < len(msgCases); i += per {
		j := i + per
		if j > len(msgCases) {
			j = len(msgCases)
		}
		o, err := c12RunBatch(r, c12Batch{Mode: "msg", Seed: r.Rng.Int63(), Cases: msgCases[i:j]})
		if err != nil {
			return err
		}
		outs = append(outs, o...)
	}
	o, err := c12RunBatch(r, c12Batch{Mode: "frame", Seed: r.Rng.Int63(), Cases: c})
	if err != nil {
		return err
	}
	outs = append(outs, o...)
	for _, oc := range outs {
		c12Record(r, oc)
	}
	return nil
}

// c12RunBatch runs the cases in child processes, restarting after every crash.
func c12RunBatch(r *Run, b c12Batch) ([]c12Outcome, error) {
	var outs []c12Outcome
	remaining := b.Cases
	hungChildren := 0
	for len(remaining) > 0 {
		f := filepath.Join(r.Out, fmt.Sprintf("c12-batch-%d.json", time.Now().UnixNano()))
		js, _ := json.Marshal(c12Batch{Mode: b.Mode, Seed: b.Seed, Cases: remaining})
		if err := os.WriteFile(f, js, 0o644); err != nil {
			return nil, err
		}
		cmd := exec.Command(os.Args[0], "-prop", "C12", "-seed", fmt.Sprint(r.Seed), "-tier", r.Tier, "-out", r.Out)
		cmd.Env = append(os.Environ(), c12ChildEnv+"="+f)
		cmd.SysProcAttr = &syscall.SysProcAttr{Pdeathsig: syscall.SIGKILL} // no orphans when the parent is killed
		stdout, err := cmd.StdoutPipe()
		if err != nil {
			return nil, err
		}
		var stderr bytes.Buffer
		cmd.Stderr = &stderr
		if err := cmd.Start(); err != nil {
			return nil, err
		}
		byID := map[string]*c12Outcome{}
		var order []string
		var mu sync.Mutex
		lastProgress := time.Now()
		done := make(chan struct{})
		go func() {
			defer close(done)
			sc := bufio.NewScanner(stdout)
			sc.Buffer(make([]byte, 1<<20), 64<<20)
			for sc.Scan() {
				line := sc.Text()
				if !strings.HasPrefix(line, c12Tag) {
					continue
				}
				line = line[len(c12Tag):]
				mu.Lock()
				lastProgress = time.Now()
				switch {
				case strings.HasPrefix(line, "BEGIN "):
					var bg c12Begin
					if json.Unmarshal([]byte(line[6:]), &bg) == nil {
						byID[bg.ID] = &c12Outcome{begin: &bg}
						order = append(order, bg.ID)
					}
				case strings.HasPrefix(line, "END "):
					var en c12End
					if json.Unmarshal([]byte(line[4:]), &en) == nil && byID[en.ID] != nil {
						byID[en.ID].end = &en
					}
				}
				mu.Unlock()
			}
		}()
		hung := false
		waitErr := make(chan error, 1)
		go func() { <-done; waitErr <- cmd.Wait() }()
		var werr error
	wait:
		for {
			select {
			case werr = <-waitErr:
				break wait
			case <-time.After(500 * time.Millisecond):
				mu.Lock()
				idle := time.Since(lastProgress)
				mu.Unlock()
				if idle > 90*time.Second {
					hung = true
					_ = cmd.Process.Kill()
				}
			}
		}
		_ = os.Remove(f)
		// collect
		nDone := 0
		sawCrash := false
		for _, c := range remaining {
			oc := byID[c.ID]
			if oc == nil {
				break
			}
			oc.c = c
			nDone++
			if oc.end == nil {
				oc.crashed = !hung
				oc.hung = hung
				oc.stderr, oc.sig = c12Classify(stderr.String(), c.Stream)
				if hung {
					oc.sig = "c12-other"
				}
				sawCrash = true
				outs = append(outs, *oc)
				break
			}
			outs = append(outs, *oc)
		}
		if nDone < len(remaining) && !sawCrash && hung && nDone > 0 {
			// the child stopped making progress after a case had ended and before the next one
			// began (tearing down, or setting up on the same process): what the last case fed in
			// is the input to report
			last := &outs[len(outs)-1]
			last.hung = true
			last.sig = "c12-other"
			last.stderr = "the process made no progress for 90 s after this case had ended (teardown / next set-up did not complete)\n" + tail(stderr.String(), 2000)
			sawCrash = true
			r.Count("child-hung-after-a-case")
		} else if nDone == 0 && !sawCrash && hung && len(remaining) > 0 {
			// ... or before it reported the beginning of its first case (set-up and delivery of the
			// first input on a fresh process)
			outs = append(outs, c12Outcome{c: remaining[0], hung: true, sig: "c12-other",
				stderr: "the process made no progress for 90 s before it reported anything about this case\n" + tail(stderr.String(), 2000)})
			nDone, sawCrash = 1, true
			r.Count("child-hung-before-its-first-case")
		}
		if nDone < len(remaining) && !sawCrash {
			// the child stopped between two cases: not attributable to an input
			return nil, fmt.Errorf("c12: child stopped after %d of %d cases (exit: %v, hung=%v); stderr tail:\n%s",
				nDone, len(remaining), werr, hung, tail(stderr.String(), 3000))
		}
		remaining = remaining[nDone:]
		r.Count("children")
		if hung {
			hungChildren++
			if hungChildren >= 2 && len(remaining) > 0 {
				// every further child would cost another 90 s: two inputs are enough to report
				r.Count("cases-not-run-after-two-hung-children")
				r.Notes = append(r.Notes, fmt.Sprintf("c12: %d cases of a batch were not run after two child processes had hung", len(remaining)))
				break
			}
		}
	}
	return outs, nil
}

func tail(s string, n int) string {
	if len(s) > n {
		return s[len(s)-n:]
	}
	return s
}

// c12Classify extracts the panicking goroutine's dump and derives the finding signature.
func c12Classify(stderr string, stream string) (string, string) {
	i := strings.Index(stderr, "panic:")
	if j := strings.Index(stderr, "fatal error:"); i < 0 || (j >= 0 && j < i) {
		i = j
	}
	if i < 0 {
		return tail(stderr, 1500), "c12-other"
	}
	dump := stderr[i:]
	// first goroutine block
	if g := strings.Index(dump, "\ngoroutine "); g >= 0 {
		if e := strings.Index(dump[g+1:], "\n\n"); e >= 0 {
			dump = dump[:g+1+e]
		}
	}
	sig := "c12-other"
	switch {
	case stream == "c" && strings.Contains(dump, "directchannel.(*directChannel).handleNewPeer") && strings.Contains(dump, "makeslice"):
		sig = "frame-length-overflow"
	case stream != "c" && strings.Contains(dump, "basestore.(*BaseStore).Sync(") && strings.Contains(dump, "nil pointer dereference"):
		sig = "sync-malformed-head"
	}
	if len(dump) > 2500 {
		dump = dump[:2500]
	}
	return dump, sig
}

// ---- parent: decoding with the real unmarshaller, rendering the Coq terms ----

func c12IdentTerm(e *entry.Entry) string {
	switch {
	case e.Identity == nil:
		return "IdAbsent"
	case e.Identity.Signatures == nil:
		return "IdNoSigs"
	}
	return "IdFull"
}

// c12Decode runs the real message unmarshaller and projects the result on the model's shape.
func c12Decode(payload []byte, addr string, oracle []c12Oracle) (string, int, bool) {
	var msg iface.MessageExchangeHeads
	if err := (messagemarshaler.JSONMarshaler{}).Unmarshal(payload, &msg); err != nil {
		return "None", 0, false
	}
	hs := make([]string, len(msg.Heads))
	for i, h := range msg.Heads {
		var o c12Oracle
		if i < len(oracle) {
			o = oracle[i]
		}
		if h == nil {
			hs[i] = "(mkDH true IdAbsent false false false false false true true false)"
			continue
		}
		hs[i] = fmt.Sprintf("(mkDH false %s %s %s %s %s %s %s %s %s)", c12IdentTerm(h),
			sim.CoqBool(o.Writer), sim.CoqBool(o.Verifies),
			sim.CoqBool(h.Clock != nil), sim.CoqBool(h.Clock != nil && len(h.Clock.ID) > 0),
			sim.CoqBool(h.Hash.Defined()), sim.CoqBool(h.Next == nil), sim.CoqBool(h.Refs == nil), sim.CoqBool(o.Valid))
	}
	return fmt.Sprintf("(Some (mkDM %s %s))", sim.CoqBool(msg.Address == addr), sim.CoqList(hs)), len(msg.Heads), true
}

func c12Record(r *Run, oc c12Outcome) {
	c := oc.c
	d := map[string]interface{}{"kind": "c12:" + c.Stream, "id": c.ID, "name": c.Name, "chan": c.Chan}
	if oc.crashed || oc.hung {
		d["sig"] = oc.sig
		d["crash"] = oc.stderr
		if oc.hung {
			d["hung"] = true
		}
	} else {
		d["sig"] = "c12-other"
	}
	en := oc.end
	if en == nil {
		en = &c12End{}
	}
	crashed := oc.crashed || oc.hung
	if oc.begin == nil && c.Stream != "c" && (oc.hung || oc.crashed) {
		// the process hung before it reported the input it was about to deliver
		r.AddDirect("c12-other", "the process that was to handle this input stopped making progress", d)
		return
	}
	switch c.Stream {
	case "a", "b":
		if oc.begin != nil {
			d["payload"] = string(oc.begin.Payload)
		}
		if !crashed && !en.Settled {
			r.AddDirect("c12-other", "replication did not settle after a malformed message", d)
		}
		ch := "ChTopic"
		if c.Chan == "direct" {
			ch = "ChDirect"
		}
		if c.Stream == "a" {
			m, nh, ok := c12Decode(oc.begin.Payload, oc.begin.Addr, oc.begin.Oracle)
			d["decoded"] = ok
			d["heads"] = nh
			r.AddCase(fmt.Sprintf("(CMsg %s %s %s %s %s %s %s)", ch, m, sim.CoqBool(crashed), sim.CoqBool(en.Started),
				sim.CoqBool(en.Unchanged), sim.CoqBool(en.ValidState), sim.CoqBool(en.NextOK)), d, ok && nh > 0)
			r.Count("a:" + c.Chan)
			if !ok {
				r.Count("a:undecodable")
			} else {
				r.Count(fmt.Sprintf("a:heads=%d", nh))
			}
			if en.Started {
				r.Count("a:replication-started")
			}
		} else {
			var msg iface.MessageExchangeHeads
			ok := (messagemarshaler.JSONMarshaler{}).Unmarshal(oc.begin.Payload, &msg) == nil
			d["decoded"] = ok
			d["mutation"] = c.Mut.Kind
			r.AddCase(fmt.Sprintf("(CBytes %s %s %s %s)", sim.CoqBool(crashed), sim.CoqBool(en.Unchanged),
				sim.CoqBool(en.ValidState), sim.CoqBool(en.NextOK)), d, true)
			r.Count("b:" + c.Mut.Kind)
			if ok {
				r.Count("b:still-decodable")
			}
		}
	case "c":
		d["frame"] = hex.EncodeToString(c.Frame)
		obs := "FDropped"
		if crashed {
			obs = "FCrashed"
		} else if en.Delivered {
			obs = "(FDelivered " + sim.CoqBytes(en.Data) + ")"
		}
		if en.Note != "" {
			d["note"] = en.Note
		}
		r.AddCase(fmt.Sprintf("(CFrame %s %s %s)", sim.CoqBytes(c.Frame), obs, sim.CoqBool(en.NextOK)), d, true)
		r.Count("c:" + strings.SplitN(c.Name, ":", 2)[0])
		if en.Delivered {
			r.Count("c:delivered")
		}
	}
	if crashed {
		r.Count("crashed:" + oc.sig)
	}
}

// ---- parent: case generators ----

func rawJSON(s string) json.RawMessage { return json.RawMessage(s) }

func ed(op string, v string, path ...string) c12Edit {
	e := c12Edit{P: path, Op: op}
	if op == "set" {
		e.V = rawJSON(v)
	}
	return e
}

// c12HeadVariants: every field of a head present / absent / null / ill-typed / altered.
func c12HeadVariants() []c12Head {
	k := func(name string, edits ...c12Edit) c12Head { return c12Head{Base: "known", Name: name, Edits: edits} }
	del := func(p ...string) c12Edit { return ed("del", "", p...) }
	set := func(v string, p ...string) c12Edit { return ed("set", v, p...) }
	return []c12Head{
		{Base: "null", Name: "null"},
		{Base: "empty", Name: "{}"},
		k("known"),
		{Base: "known2", Name: "known-older"},
		{Base: "new", Name: "new"},
		k("no-identity", del("identity")),
		k("identity-null", set(`null`, "identity")),
		k("identity-{}", set(`{}`, "identity")),
		k("identity-string", set(`"x"`, "identity")),
		k("identity-array", set(`[]`, "identity")),
		k("no-signatures", del("identity", "signatures")),
		k("signatures-null", set(`null`, "identity", "signatures")),
		k("signatures-{}", set(`{}`, "identity", "signatures")),
		k("signatures-number", set(`3`, "identity", "signatures")),
		k("signature-id-altered", set(`"AAAA"`, "identity", "signatures", "id")),
		k("identity-id-altered", set(`"deadbeef"`, "identity", "id")),
		k("identity-id-missing", del("identity", "id")),
		k("identity-other-valid", set(`"@rep1identity"`, "identity")),
		k("identity-pubkey-garbage", set(`"AAAA"`, "identity", "publicKey")),
		k("identity-pubkey-missing-no-signatures", del("identity", "publicKey"), del("identity", "signatures")),
		k("identity-id-nothex-no-signatures", set(`"zz"`, "identity", "id"), del("identity", "signatures")),
		k("identity-type-unknown", set(`"nope"`, "identity", "type")),
		k("no-clock", del("clock")),
		k("clock-null", set(`null`, "clock")),
		k("clock-{}", set(`{}`, "clock")),
		k("clock-no-id", del("clock", "id")),
		k("clock-no-time", del("clock", "time")),
		k("clock-number", set(`7`, "clock")),
		k("clock-time-string", set(`"x"`, "clock", "time")),
		k("clock-id-not-base64", set(`"%%%"`, "clock", "id")),
		k("clock-time-huge", set(`99999999`, "clock", "time")),
		k("no-hash", del("hash")),
		k("hash-null", set(`null`, "hash")),
		k("hash-not-cid", set(`{"/":"notacid"}`, "hash")),
		k("hash-string", set(`"x"`, "hash")),
		k("hash-{}", set(`{}`, "hash")),
		k("hash-other", set(`"@otherhash"`, "hash")),
		k("hash-same-digest-other-codec", set(`"@selfrawcodec"`, "hash")),
		k("next-null", set(`null`, "next")),
		k("refs-null", set(`null`, "refs")),
		k("no-next-no-refs", del("next"), del("refs")),
		k("next-string", set(`"x"`, "next")),
		k("next-[null]", set(`[null]`, "next")),
		k("next-other", set(`["@otherhash"]`, "next")),
		k("payload-not-base64", set(`"%%%"`, "payload")),
		k("payload-altered", set(`"AAAA"`, "payload")),
		k("no-payload", del("payload")),
		k("no-sig", del("sig")),
		k("no-key", del("key")),
		k("no-v", del("v")),
		k("v-99", set(`99`, "v")),
		k("v-string", set(`"x"`, "v")),
		k("logid-altered", set(`"other"`, "id")),
		k("extra-fields", set(`{"a":[1,null]}`, "zzz"), set(`1`, "Hash2")),
		{Base: "new", Name: "new-no-identity", Edits: []c12Edit{del("identity")}},
		{Base: "new", Name: "new-no-hash", Edits: []c12Edit{del("hash")}},
		{Base: "new", Name: "new-no-clock", Edits: []c12Edit{del("clock")}},
		{Base: "new", Name: "new-no-signatures", Edits: []c12Edit{del("identity", "signatures")}},
	}
}

func c12StructuredCases(r *Run, nRandom int) []c12Case {
	var out []c12Case
	add := func(ch, name string, m *c12Msg) {
		out = append(out, c12Case{ID: fmt.Sprintf("a%d", len(out)), Stream: "a", Chan: ch, Name: name, Msg: m})
	}
	chans := []string{"topic", "direct"}
	// message-level shapes
	raws := []string{``, `null`, `[]`, `5`, `"x"`, `{`, `{}`, `{"address":@addr}`, `{"address":@addr,"heads":null}`,
		`{"address":@addr,"heads":{}}`, `{"address":@addr,"heads":"x"}`, `{"address":@addr,"heads":[]}`,
		`{"address":@addr,"heads":[[]]}`, `{"address":@addr,"heads":[5]}`, `{"address":@addr,"heads":["x"]}`,
		`{"address":@addr,"heads":[null]}`, `{"heads":[{}]}`, `{"heads":[null]}`, `{"address":@addr,"heads":[{}]}`,
		`{"address":@addr,"heads":[null,null,null]}`, `{"address":5,"heads":[null]}`, `{"address":null,"heads":[null]}`,
		`{"address":@addr,"heads":[{"identity":{}}]}`, `{"address":@addr,"heads":[{"clock":{}}]}`,
		`{"address":@addr,"heads":[{"hash":null}]}`, `{"address":@addr,"Heads":[null],"ADDRESS":@addr}`}
	for _, raw := range raws {
		for _, ch := range chans {
			add(ch, "raw:"+raw, &c12Msg{Raw: raw})
		}
	}
	// every single-head variant on both channels
	vs := c12HeadVariants()
	for _, v := range vs {
		for _, ch := range chans {
			add(ch, "one:"+v.Name, &c12Msg{Address: "real", HeadsAs: "list", Heads: []c12Head{v}})
		}
	}
	// address variants with a known and a null head
	for _, a := range []string{"wrong", "missing", "null", "number"} {
		for _, hv := range []int{0, 2, 4} {
			for _, ch := range chans {
				add(ch, "addr-"+a+":"+vs[hv].Name, &c12Msg{Address: a, HeadsAs: "list", Heads: []c12Head{vs[hv]}})
			}
		}
	}
	// every variant next to a valid head the receiver has not seen yet, before or after it:
	// a discarded head must not keep the good one from being replicated (nor crash the
	// replicator, which is handed the list)
	for i, v := range vs {
		if v.Base == "new" {
			continue
		}
		hs := []c12Head{v, vs[4]}
		name := "pair:" + v.Name + ",new"
		if i%2 == 1 {
			hs = []c12Head{vs[4], v}
			name = "pair:new," + v.Name
		}
		add(chans[(i/2)%2], name, &c12Msg{Address: "real", HeadsAs: "list", Heads: hs})
	}
	// random lists of 2-3 heads; at most one derived from the new head
	for i := 0; i < nRandom; i++ {
		n := 2 + r.Rng.Intn(2)
		var hs []c12Head
		var names []string
		usedNew := false
		for len(hs) < n {
			v := vs[r.Rng.Intn(len(vs))]
			if len(hs) == 0 && r.Rng.Intn(3) == 0 {
				v = vs[4] // favour lists containing a valid new head next to malformed ones
			}
			if v.Base == "new" {
				if usedNew {
					continue
				}
				usedNew = true
			}
			hs = append(hs, v)
			names = append(names, v.Name)
		}
		r.Rng.Shuffle(len(hs), func(a, b int) { hs[a], hs[b] = hs[b], hs[a]; names[a], names[b] = names[b], names[a] })
		add(chans[r.Rng.Intn(2)], "list:"+strings.Join(names, ","), &c12Msg{Address: "real", HeadsAs: "list", Heads: hs, Extra: r.Rng.Intn(4) == 0})
	}
	return out
}

func c12MutationCases(r *Run, n int) []c12Case {
	kinds := []string{"bitflip", "bitflips", "truncate", "delete-span", "dup-span", "cross-splice", "byte-replace",
		"insert-random", "random-bytes", "swap-token", "null-token"}
	var out []c12Case
	for i := 0; i < n; i++ {
		base := "known"
		if r.Rng.Intn(4) == 0 {
			base = "new"
		}
		k := kinds[i%len(kinds)]
		ch := "topic"
		if r.Rng.Intn(2) == 0 {
			ch = "direct"
		}
		out = append(out, c12Case{ID: fmt.Sprintf("b%d", i), Stream: "b", Chan: ch, Name: k + ":" + base,
			Mut: &c12Mut{Base: base, Kind: k, Seed: r.Rng.Int63()}})
	}
	return out
}

func putUvarint(x uint64) []byte {
	var out []byte
	for x >= 0x80 {
		out = append(out, byte(x)|0x80)
		x >>= 7
	}
	return append(out, byte(x))
}

func c12FrameCases(r *Run, nRandom int) []c12Case {
	var out []c12Case
	add := func(name string, f []byte) {
		out = append(out, c12Case{ID: fmt.Sprintf("c%d", len(out)), Stream: "c", Name: name, Frame: f})
	}
	body := func(n int) []byte {
		b := make([]byte, n)
		for i := range b {
			b[i] = byte(r.Rng.Intn(256))
		}
		return b
	}
	cat := func(a []byte, b []byte) []byte { return append(append([]byte(nil), a...), b...) }
	ff := func(n int) []byte { return bytes.Repeat([]byte{0xff}, n) }
	add("empty:no bytes", nil)
	add("varint-truncated:80", []byte{0x80})
	add("varint-truncated:ffff", []byte{0xff, 0xff})
	add("varint-truncated:9xff", ff(9))
	add("varint-overflow:10xff", ff(10))
	add("varint-overflow:11xff", ff(11))
	add("varint-overflow:9xff+02", cat(ff(9), []byte{0x02}))
	add("varint-overflow:9xff+7f", cat(ff(9), []byte{0x7f, 1, 2}))
	add("varint-noncanonical:8000", []byte{0x80, 0x00})
	add("varint-noncanonical:8100+body", []byte{0x81, 0x00, 0x41})
	add("varint-noncanonical:828000+body", []byte{0x82, 0x80, 0x00, 0x41, 0x42})
	lens := []struct {
		name string
		v    uint64
	}{{"0", 0}, {"1", 1}, {"5", 5}, {"127", 127}, {"128", 128}, {"300", 300}, {"cap", 4194304}, {"cap+1", 4194305},
		{"2^31-1", 1<<31 - 1}, {"2^31", 1 << 31}, {"2^32", 1 << 32}, {"2^32+5", 1<<32 + 5}, {"2^62", 1 << 62}, {"2^63-1", 1<<63 - 1},
		{"2^63", 1 << 63}, {"2^63+1", 1<<63 + 1}, {"2^63+cap", 1<<63 + 4194304}, {"2^64-cap", ^uint64(0) - 4194303}, {"2^64-2", ^uint64(0) - 1}, {"2^64-1", ^uint64(0)}}
	for _, l := range lens {
		p := putUvarint(l.v)
		add("len-"+l.name+":no body", p)
		add("len-"+l.name+":short body", cat(p, body(1+r.Rng.Intn(8))))
		if l.v <= 300 {
			add("len-"+l.name+":exact body", cat(p, body(int(l.v))))
			add("len-"+l.name+":long body", cat(p, body(int(l.v)+1+r.Rng.Intn(5))))
			if l.v > 0 {
				add("len-"+l.name+":body one short", cat(p, body(int(l.v)-1)))
			}
		}
	}
	for i := 0; i < nRandom; i++ {
		switch r.Rng.Intn(3) {
		case 0: // random bytes
			add("random:bytes", body(r.Rng.Intn(14)))
		case 1: // small valid-looking length with random amount of body
			l := r.Rng.Intn(12)
			add("random:small-length", cat(putUvarint(uint64(l)), body(r.Rng.Intn(16))))
		default: // random 64-bit length, biased to the top bits, short body
			v := r.Rng.Uint64()
			if r.Rng.Intn(2) == 0 {
				v >>= uint(r.Rng.Intn(64))
			}
			add("random:length", cat(putUvarint(v), body(r.Rng.Intn(4))))
		}
	}
	return out
}

// =====================================================================================
// child
// =====================================================================================

func c12Emit(kind string, v interface{}) {
	b, _ := json.Marshal(v)
	fmt.Fprintf(os.Stdout, "%s%s %s\n", c12Tag, kind, b)
	_ = os.Stdout.Sync()
}

func c12Child(specFile string) error {
	raw, err := os.ReadFile(specFile)
	if err != nil {
		return err
	}
	var b c12Batch
	if err := json.Unmarshal(raw, &b); err != nil {
		return err
	}
	if b.Mode == "frame" {
		return c12ChildFrames(b)
	}
	return c12ChildMsgs(b)
}

type c12World struct {
	s        *Scen
	kv0      iface.KeyValueStore
	kv1      iface.KeyValueStore
	known    [][]byte // captured valid announcements of entries replica 1 already holds
	counter  int
	rep1Iden json.RawMessage
	writers  []string
}

func (w *c12World) fingerprint(st iface.KeyValueStore) (string, string) {
	hs := hashesOf(st.OpLog().Values().Slice())
	sort.Strings(hs)
	all := st.All()
	keys := make([]string, 0, len(all))
	for k := range all {
		keys = append(keys, k)
	}
	sort.Strings(keys)
	var sb strings.Builder
	for _, k := range keys {
		fmt.Fprintf(&sb, "%q=%x;", k, all[k])
	}
	return strings.Join(hs, ","), sb.String()
}

// announce writes a new entry on replica 0 and returns the announcement it published for
// replica 1 (network in manual mode: the message is taken off the queue, not delivered).
func (w *c12World) announce() ([]byte, error) {
	net := w.s.Env.Net
	n0 := len(net.LogSnapshot())
	w.counter++
	if _, err := w.kv0.Put(context.Background(), fmt.Sprintf("k%d", w.counter%3), []byte(fmt.Sprintf("v%d", w.counter))); err != nil {
		return nil, err
	}
	deadline := time.Now().Add(10 * time.Second)
	for time.Now().Before(deadline) {
		log := net.LogSnapshot()
		for _, m := range log[n0:] {
			if m.Kind == "topic" && m.From == w.s.Reps[0].Idx && m.To == w.s.Reps[1].Idx {
				for net.PendingLen() > 0 {
					net.DropPending(0)
				}
				return m.Payload, nil
			}
		}
		time.Sleep(2 * time.Millisecond)
	}
	return nil, fmt.Errorf("no announcement published after a write")
}

func (w *c12World) inject(ch string, payload []byte) {
	if ch == "direct" {
		w.s.Env.Net.InjectDirect(w.s.Reps[0].PID, w.s.Reps[1].Idx, payload)
	} else {
		w.s.Env.Net.InjectTopic(w.s.Addr, w.s.Reps[1].Idx, payload)
	}
}

func c12ChildMsgs(b c12Batch) error {
	defer closeEnv()
	s, err := NewScen(2, "keyvalue", &ScenOpts{AutoNet: true, Writers: []int{0}})
	if err != nil {
		return err
	}
	w := &c12World{s: s, kv0: s.Stores[0].(iface.KeyValueStore), kv1: s.Stores[1].(iface.KeyValueStore)}
	ctx := context.Background()
	for i := 0; i < 3; i++ {
		if _, err := w.kv0.Put(ctx, fmt.Sprintf("k%d", i), []byte(fmt.Sprintf("init%d", i))); err != nil {
			return err
		}
		// wait for delivery so that every announcement carries one head
		deadline := time.Now().Add(10 * time.Second)
		for w.kv1.OpLog().Len() < i+1 && time.Now().Before(deadline) {
			time.Sleep(2 * time.Millisecond)
		}
	}
	if !s.Settle() {
		return fmt.Errorf("setup did not settle: %s", sim.LastSettleState)
	}
	if w.kv1.OpLog().Len() != 3 {
		return fmt.Errorf("setup: replica 1 holds %d entries, want 3", w.kv1.OpLog().Len())
	}
	for _, m := range s.Env.Net.LogSnapshot() {
		if m.Kind == "topic" && m.From == s.Reps[0].Idx && m.To == s.Reps[1].Idx {
			var msg iface.MessageExchangeHeads
			if json.Unmarshal(m.Payload, &msg) == nil && len(msg.Heads) == 1 {
				w.known = append(w.known, m.Payload)
			}
		}
	}
	if len(w.known) < 2 {
		return fmt.Errorf("setup: captured %d announcements, want >= 2", len(w.known))
	}
	// newest first
	for i, j := 0, len(w.known)-1; i < j; i, j = i+1, j-1 {
		w.known[i], w.known[j] = w.known[j], w.known[i]
	}
	id1 := s.Reps[1].Orbit.Identity().Filtered()
	w.rep1Iden, _ = json.Marshal(id1)
	w.writers, _ = s.Stores[1].AccessController().GetAuthorizedByRole("write")
	s.Env.Net.ResetTraffic(false) // manual mode from here on

	for _, c := range b.Cases {
		if err := w.runMsgCase(c); err != nil {
			return fmt.Errorf("case %s: %w", c.ID, err)
		}
	}
	s.Settle()
	s.Close()
	return nil
}

func (w *c12World) runMsgCase(c c12Case) error {
	s := w.s
	// does the case want a valid head replica 1 has not seen yet?
	wantsNew := (c.Mut != nil && c.Mut.Base == "new")
	if c.Msg != nil {
		for _, h := range c.Msg.Heads {
			if h.Base == "new" {
				wantsNew = true
			}
		}
	}
	var newMsg []byte
	if wantsNew {
		var err error
		if newMsg, err = w.announce(); err != nil {
			return err
		}
	}
	var payload []byte
	var err error
	if c.Msg != nil {
		payload, err = w.render(c.Msg, newMsg)
	} else {
		base := w.known[0]
		if c.Mut.Base == "new" {
			base = newMsg
		}
		payload = c12Mutate(rand.New(rand.NewSource(c.Mut.Seed)), c.Mut.Kind, base, w.known[len(w.known)-1])
	}
	if err != nil {
		return err
	}
	oracle := w.oracle(payload)
	h1, a1 := w.fingerprint(w.kv1)
	spawn0 := sim.TheHooks.Count("store.sync_spawn")
	c12Emit("BEGIN", c12Begin{ID: c.ID, Payload: payload, Addr: s.Addr, Oracle: oracle})

	w.inject(c.Chan, payload)
	settled := s.Settle()
	h2, a2 := w.fingerprint(w.kv1)
	h0, a0 := w.fingerprint(w.kv0)
	unchanged := h2 == h1 && a2 == a1
	valid := h2 == h0 && a2 == a0
	if !unchanged && !valid {
		// a replication of valid entries may be under way: positive expectation, polled
		deadline := time.Now().Add(5 * time.Second)
		for time.Now().Before(deadline) {
			time.Sleep(5 * time.Millisecond)
			h2, a2 = w.fingerprint(w.kv1)
			if h2 == h0 && a2 == a0 {
				valid = true
				break
			}
		}
	}
	// a valid message with a new head, on the same channel, must still be handled
	next, err := w.announce()
	if err != nil {
		return err
	}
	w.inject(c.Chan, next)
	h0, a0 = w.fingerprint(w.kv0)
	nextOK := false
	deadline := time.Now().Add(10 * time.Second)
	for time.Now().Before(deadline) {
		h3, a3 := w.fingerprint(w.kv1)
		if h3 == h0 && a3 == a0 {
			nextOK = true
			break
		}
		time.Sleep(3 * time.Millisecond)
	}
	settled2 := s.Settle()
	// the handlers are sequential per channel: once the follow-up has been applied, the case's
	// message has been handled completely; the follow-up itself accounts for one replication
	spawned := sim.TheHooks.Count("store.sync_spawn") - spawn0
	started := nextOK && spawned > 1
	if !nextOK {
		started = spawned > 0
	}
	c12Emit("END", c12End{ID: c.ID, Settled: settled && settled2, Started: started, Unchanged: unchanged, ValidState: valid, NextOK: nextOK})
	return nil
}

// render builds the payload of a structured case from real captured heads.
func (w *c12World) render(m *c12Msg, newMsg []byte) ([]byte, error) {
	addrJSON, _ := json.Marshal(w.s.Addr)
	if m.Raw != "" || m.HeadsAs == "" {
		return []byte(strings.ReplaceAll(m.Raw, "@addr", string(addrJSON))), nil
	}
	headOf := func(msg []byte) (map[string]interface{}, error) {
		var x struct {
			Heads []json.RawMessage `json:"heads"`
		}
		if err := json.Unmarshal(msg, &x); err != nil || len(x.Heads) == 0 {
			return nil, fmt.Errorf("captured message without head: %v", err)
		}
		d := json.NewDecoder(bytes.NewReader(x.Heads[0]))
		d.UseNumber()
		var o map[string]interface{}
		if err := d.Decode(&o); err != nil {
			return nil, err
		}
		return o, nil
	}
	other, err := headOf(w.known[len(w.known)-1])
	if err != nil {
		return nil, err
	}
	resolve := func(v interface{}) interface{} {
		var rec func(v interface{}) interface{}
		rec = func(v interface{}) interface{} {
			switch x := v.(type) {
			case string:
				switch x {
				case "@otherhash":
					return other["hash"]
				case "@rep1identity":
					var o interface{}
					_ = json.Unmarshal(w.rep1Iden, &o)
					return o
				}
			case []interface{}:
				for i := range x {
					x[i] = rec(x[i])
				}
			}
			return v
		}
		return rec(v)
	}
	var heads []interface{}
	for _, h := range m.Heads {
		var o map[string]interface{}
		switch h.Base {
		case "null":
			heads = append(heads, nil)
			continue
		case "empty":
			o = map[string]interface{}{}
		case "known":
			o, err = headOf(w.known[0])
		case "known2":
			o, err = headOf(w.known[1])
		case "new":
			o, err = headOf(newMsg)
		default:
			err = fmt.Errorf("unknown head base %q", h.Base)
		}
		if err != nil {
			return nil, err
		}
		for _, e := range h.Edits {
			cur := o
			for _, k := range e.P[:len(e.P)-1] {
				nx, ok := cur[k].(map[string]interface{})
				if !ok {
					nx = map[string]interface{}{}
					cur[k] = nx
				}
				cur = nx
			}
			last := e.P[len(e.P)-1]
			if e.Op == "del" {
				delete(cur, last)
			} else {
				d := json.NewDecoder(bytes.NewReader(e.V))
				d.UseNumber()
				var v interface{}
				if err := d.Decode(&v); err != nil {
					return nil, err
				}
				rv := resolve(v)
				if sv, ok := rv.(string); ok && sv == "@selfrawcodec" {
					// the head's own hash re-encoded with another codec: the same multihash digest,
					// another CID -- the head's content does not hash to it any more
					rv = c12SameDigestOtherCodec(cur[last])
				}
				cur[last] = rv
			}
		}
		heads = append(heads, o)
	}
	top := map[string]interface{}{}
	switch m.Address {
	case "real":
		top["address"] = w.s.Addr
	case "wrong":
		top["address"] = "/orbitdb/bafyreib4xq7yd5xkgcrfzk2fkkx2b4xnumv5h3c5y5rpa7wdlp7wkc6q5e/elsewhere"
	case "null":
		top["address"] = nil
	case "number":
		top["address"] = 5
	}
	switch m.HeadsAs {
	case "list":
		if heads == nil {
			heads = []interface{}{}
		}
		top["heads"] = heads
	case "null":
		top["heads"] = nil
	case "object":
		top["heads"] = map[string]interface{}{}
	case "string":
		top["heads"] = "x"
	}
	if m.Extra {
		top["extra"] = []interface{}{1, "two", nil}
		top["Address2"] = "x"
	}
	return json.Marshal(top)
}

// oracle evaluates, on heads where this is safe, the external predicates of the model
// with the receiver's real components: membership in the write list, decodability of the
// keys, identity verification, and whether the entry re-encodes to the hash it claims.
func (w *c12World) oracle(payload []byte) []c12Oracle {
	var msg iface.MessageExchangeHeads
	if err := (messagemarshaler.JSONMarshaler{}).Unmarshal(payload, &msg); err != nil {
		return nil
	}
	st := w.s.Stores[1]
	out := make([]c12Oracle, len(msg.Heads))
	for i, h := range msg.Heads {
		if h == nil || h.Identity == nil {
			continue
		}
		o := &out[i]
		for _, k := range w.writers {
			if k == h.Identity.ID || k == "*" {
				o.Writer = true
			}
		}
		// the store's provider is the "orbitdb" type handler: it accepts without dereferencing
		o.Verifies = c12Verify(st, h)
		if h.Identity.Signatures == nil || h.Clock == nil {
			continue
		}
		if h.Next == nil {
			h.Next = []cid.Cid{}
		}
		if h.Refs == nil {
			h.Refs = []cid.Cid{}
		}
		// re-encode through the writer's node (content-addressed: no effect on replica 1)
		c, err := w.s.Stores[0].IO().Write(context.Background(), w.s.Reps[0].API, h, nil)
		o.Valid = err == nil && h.Hash.Defined() && c.String() == h.Hash.String()
	}
	return out
}

func c12Verify(st iface.Store, h *entry.Entry) (ok bool) {
	defer func() {
		if recover() != nil {
			ok = false
		}
	}()
	if st.Identity().Provider.VerifyIdentity(h.Identity) != nil {
		return false
	}
	// since the C03 repair the access controllers also verify that the entry's key is the
	// identity's key and that the identity's signatures bind it to the claimed id
	return acutils.VerifyEntryIdentity(h) == nil
}

// c12Mutate applies one byte-level mutation to a real message.
func c12Mutate(rng *rand.Rand, kind string, base, other []byte) []byte {
	b := append([]byte(nil), base...)
	n := len(b)
	if n == 0 {
		return b
	}
	span := func() (int, int) {
		i := rng.Intn(n)
		l := 1 + rng.Intn(40)
		if rng.Intn(4) == 0 {
			l = 1 + rng.Intn(n)
		}
		if i+l > n {
			l = n - i
		}
		return i, i + l
	}
	tokens := []string{`"identity"`, `"signatures"`, `"clock"`, `"identity"`, `"signatures"`, `"clock"`, `"hash"`, `"next"`, `"refs"`, `"heads"`, `"address"`, `"payload"`, `"id"`, `"publicKey"`, `"time"`, `"key"`, `"sig"`, `"v"`, `"/"`}
	switch kind {
	case "bitflip":
		i := rng.Intn(n)
		b[i] ^= 1 << uint(rng.Intn(8))
	case "bitflips":
		for k := 2 + rng.Intn(6); k > 0; k-- {
			i := rng.Intn(n)
			b[i] ^= 1 << uint(rng.Intn(8))
		}
	case "truncate":
		b = b[:rng.Intn(n)]
	case "delete-span":
		i, j := span()
		b = append(b[:i], b[j:]...)
	case "dup-span":
		i, j := span()
		seg := append([]byte(nil), b[i:j]...)
		at := rng.Intn(n + 1)
		b = append(b[:at], append(seg, b[at:]...)...)
	case "cross-splice":
		i, j := span()
		if len(other) > 0 {
			oi := rng.Intn(len(other))
			oj := oi + (j - i)
			if oj > len(other) {
				oj = len(other)
			}
			b = append(append(append([]byte(nil), b[:i]...), other[oi:oj]...), b[j:]...)
		}
	case "byte-replace":
		for k := 1 + rng.Intn(3); k > 0; k-- {
			b[rng.Intn(n)] = byte(rng.Intn(256))
		}
	case "insert-random":
		at := rng.Intn(n + 1)
		ins := make([]byte, 1+rng.Intn(8))
		for i := range ins {
			ins[i] = byte(rng.Intn(256))
		}
		b = append(b[:at], append(ins, b[at:]...)...)
	case "random-bytes":
		b = make([]byte, rng.Intn(200))
		for i := range b {
			b[i] = byte(rng.Intn(256))
		}
	case "swap-token":
		// rename one field name into another: the value then lands in the wrong field or is ignored
		t1 := tokens[rng.Intn(len(tokens))]
		t2 := tokens[rng.Intn(len(tokens))]
		if rng.Intn(2) == 0 {
			t2 = `"x` + t2[1:]
		}
		b = bytes.Replace(b, []byte(t1), []byte(t2), 1)
	case "null-token":
		// replace the value following a field name by null / {} / [] / 0 (up to the matching end, roughly)
		t := tokens[rng.Intn(len(tokens))]
		if i := bytes.Index(b, []byte(t+":")); i >= 0 {
			st := i + len(t) + 1
			en := c12ValueEnd(b, st)
			repl := []string{"null", "null", "null", "{}", "[]", "0", `""`}[rng.Intn(7)]
			b = append(append(append([]byte(nil), b[:st]...), repl...), b[en:]...)
		}
	}
	return b
}

// c12ValueEnd returns the index just after the JSON value starting at st (best effort).
func c12ValueEnd(b []byte, st int) int {
	depth := 0
	inStr := false
	for i := st; i < len(b); i++ {
		ch := b[i]
		if inStr {
			if ch == '\\' {
				i++
			} else if ch == '"' {
				inStr = false
				if depth == 0 {
					return i + 1
				}
			}
			continue
		}
		switch ch {
		case '"':
			inStr = true
		case '{', '[':
			depth++
		case '}', ']':
			if depth == 0 {
				return i
			}
			depth--
			if depth == 0 {
				return i + 1
			}
		case ',':
			if depth == 0 {
				return i
			}
		}
	}
	return len(b)
}

// ---- child: raw frames through the real directchannel adapter ----

func c12ChildFrames(b c12Batch) error {
	ctx, cancel := context.WithCancel(context.Background())
	defer cancel()
	mn := mocknet.New()
	defer mn.Close()
	mk := func() (host.Host, iface.DirectChannel, event.Bus, error) {
		h, err := mn.GenPeer()
		if err != nil {
			return nil, nil, nil, err
		}
		bus := eventbus.NewBus()
		em, err := pubsub.NewPayloadEmitter(bus)
		if err != nil {
			return nil, nil, nil, err
		}
		dc, err := directchannel.InitDirectChannelFactory(zap.NewNop(), h)(ctx, em, nil)
		return h, dc, bus, err
	}
	hA, dcA, _, err := mk()
	if err != nil {
		return err
	}
	hB, _, busB, err := mk()
	if err != nil {
		return err
	}
	if err := mn.LinkAll(); err != nil {
		return err
	}
	if err := mn.ConnectAllButSelf(); err != nil {
		return err
	}
	sub, err := busB.Subscribe(new(iface.EventPubSubPayload), eventbus.BufSize(256))
	if err != nil {
		return err
	}
	defer sub.Close()
	recv := func(d time.Duration) ([]byte, bool) {
		select {
		case e := <-sub.Out():
			return e.(iface.EventPubSubPayload).Payload, true
		case <-time.After(d):
			return nil, false
		}
	}
	// warm-up: the path works at all
	if err := dcA.Send(ctx, hB.ID(), []byte("warm-up")); err != nil && err != io.EOF {
		return fmt.Errorf("warm-up send: %w", err)
	}
	if p, ok := recv(10 * time.Second); !ok || string(p) != "warm-up" {
		return fmt.Errorf("warm-up frame not delivered")
	}
	for i, c := range b.Cases {
		c12Emit("BEGIN", c12Begin{ID: c.ID})
		en := c12End{ID: c.ID, Settled: true}
		st, err := hA.NewStream(ctx, hB.ID(), directchannel.PROTOCOL)
		if err != nil {
			return fmt.Errorf("new stream: %w", err)
		}
		if len(c.Frame) > 0 {
			if _, err := st.Write(c.Frame); err != nil {
				en.Note = "write: " + err.Error()
			}
		}
		_ = st.CloseWrite()
		// the handler resets the stream when it returns: wait for that
		_ = st.SetReadDeadline(time.Now().Add(10 * time.Second))
		buf := make([]byte, 64)
		for {
			if _, err := st.Read(buf); err != nil {
				if !strings.Contains(err.Error(), "reset") && err != io.EOF {
					en.Note += " read: " + err.Error()
				}
				break
			}
		}
		_ = st.Reset()
		if p, ok := recv(30 * time.Millisecond); ok {
			en.Delivered = true
			en.Data = p
		}
		// a valid frame on a new stream is still delivered
		want := fmt.Sprintf("ok-%d", i)
		if err := dcA.Send(ctx, hB.ID(), []byte(want)); err != nil && err != io.EOF {
			en.Note += " send: " + err.Error()
		}
		deadline := time.Now().Add(10 * time.Second)
		for time.Now().Before(deadline) {
			p, ok := recv(time.Until(deadline))
			if !ok {
				break
			}
			if string(p) == want {
				en.NextOK = true
				break
			}
			// a late delivery of the case's own frame
			if !en.Delivered {
				en.Delivered = true
				en.Data = p
				en.Note += " late-delivery"
			}
		}
		c12Emit("END", en)
	}
	return nil
}

// c12SameDigestOtherCodec takes the JSON form of a CID ({"/": "<cid>"} or a string) and
// returns the same form for the CID with the same multihash and the raw codec.
func c12SameDigestOtherCodec(v interface{}) interface{} {
	str := ""
	switch x := v.(type) {
	case string:
		str = x
	case map[string]interface{}:
		str, _ = x["/"].(string)
	}
	c, err := cid.Decode(str)
	if err != nil {
		return v
	}
	codec := uint64(cid.Raw)
	if c.Prefix().Codec == codec {
		codec = cid.DagCBOR
	}
	alt := cid.NewCidV1(codec, c.Hash())
	if _, isMap := v.(map[string]interface{}); isMap {
		return map[string]interface{}{"/": alt.String()}
	}
	return alt.String()
}

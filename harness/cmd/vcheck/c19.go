package main

import (
	"context"
	"fmt"
	"strconv"
	"sync"

	orbitdb "berty.tech/go-orbit-db"
	"berty.tech/go-orbit-db/iface"
	"berty.tech/go-orbit-db/stores/basestore"
	"berty.tech/go-orbit-db/stores/replicator"
	"verifharness/sim"
)

func init() { drivers["C19"] = driver{"C19", runC19} }

type recalcRec struct {
	isMax              bool
	arg, ln, prog, max int
}

// statusRecorder collects the store.recalc hook reports per store pointer.
type statusRecorder struct {
	mu   sync.Mutex
	recs map[string][]recalcRec
}

func (sr *statusRecorder) take(ptr string) []recalcRec {
	sr.mu.Lock()
	defer sr.mu.Unlock()
	out := sr.recs[ptr]
	delete(sr.recs, ptr)
	return out
}

func maxTime(st iface.Store) int {
	m := 0
	for _, e := range st.OpLog().Values().Slice() {
		if t := e.GetClock().GetTime(); t > m {
			m = t
		}
	}
	return m
}

// C19: replication status.  Exact correspondence of every recalculation (argument, log
// length read, resulting status) with the model; monotonicity and at-rest conditions on
// samples taken after every step of histories of writes, replications, loads and snapshot loads.
func runC19(r *Run) error {
	defer closeEnv()
	hists := 10
	if r.Tier == "thorough" {
		hists = 100
	}
	rec := &statusRecorder{recs: map[string][]recalcRec{}}
	sim.TheHooks.Extra = func(name string, keys []string) {
		if name != "store.recalc" || len(keys) < 6 {
			return
		}
		a, _ := strconv.Atoi(keys[2])
		l, _ := strconv.Atoi(keys[3])
		p, _ := strconv.Atoi(keys[4])
		m, _ := strconv.Atoi(keys[5])
		rec.mu.Lock()
		rec.recs[keys[0]] = append(rec.recs[keys[0]], recalcRec{keys[1] == "max", a, l, p, m})
		rec.mu.Unlock()
	}
	defer func() { sim.TheHooks.Extra = nil }()
	ctx := context.Background()
	for hi := 0; hi < hists; hi++ {
		typ := []string{"eventlog", "keyvalue"}[hi%2]
		s, err := NewScen(2, typ, nil)
		if err != nil {
			return err
		}
		// per replica: the current open store's samples and recalculation log
		samples := [][]string{nil, nil}
		prims := [][]recalcRec{nil, nil}
		flush := func(i int, why string) {
			if len(prims[i]) > 0 {
				ops := make([]string, len(prims[i]))
				for k, x := range prims[i] {
					ops[k] = fmt.Sprintf("(%s, %s, %s, %s, %s)", sim.CoqBool(x.isMax), sim.CoqZ(x.arg), sim.CoqZ(x.ln), sim.CoqZ(x.prog), sim.CoqZ(x.max))
				}
				r.AddCase("(CPrims "+sim.CoqList(ops)+")", map[string]interface{}{"kind": "prims", "hist": hi, "replica": i, "ops": len(ops), "closed_by": why}, len(ops) >= 3)
				r.Count("prims")
			}
			if len(samples[i]) > 0 {
				r.AddCase("(CSamples "+sim.CoqList(samples[i])+")", map[string]interface{}{"kind": "samples", "sig": "samples:" + why, "hist": hi, "replica": i, "n": len(samples[i]), "closed_by": why}, len(samples[i]) >= 2)
				r.Count("samples")
			}
			prims[i], samples[i] = nil, nil
		}
		sample := func(i int) {
			st := s.Stores[i]
			fresh := rec.take(fmt.Sprintf("%p", st))
			prims[i] = append(prims[i], fresh...)
			for _, x := range fresh {
				// every recalculation is also a (not at rest) sample of the status
				samples[i] = append(samples[i], fmt.Sprintf("(mkSm %s %s 0%%Z 0%%Z false)", sim.CoqZ(x.prog), sim.CoqZ(x.max)))
			}
			rs := st.ReplicationStatus()
			samples[i] = append(samples[i], fmt.Sprintf("(mkSm %s %s %s %s true)", sim.CoqZ(rs.GetProgress()), sim.CoqZ(rs.GetMax()),
				sim.CoqZ(st.OpLog().Len()), sim.CoqZ(maxTime(st))))
		}
		reopen := func(i int, how string) error {
			flush(i, how)
			st := s.Stores[i]
			if how == "snapshot" {
				if _, err := basestore.SaveSnapshot(ctx, st); err != nil {
					r.Count("snapshot-save-error")
					return nil
				}
			}
			_ = rec.take(fmt.Sprintf("%p", st))
			if err := st.Close(); err != nil {
				return err
			}
			st2, err := s.Reps[i].Orbit.Open(ctx, s.Addr, &orbitdb.CreateDBOptions{})
			if err != nil {
				return fmt.Errorf("reopen: %w", err)
			}
			s.Stores[i] = st2
			if how == "snapshot" {
				if err := st2.LoadFromSnapshot(ctx); err != nil {
					return fmt.Errorf("load snapshot: %w", err)
				}
			} else {
				if err := st2.Load(ctx, -1); err != nil {
					return fmt.Errorf("load: %w", err)
				}
			}
			s.Settle()
			sample(i)
			r.Count("reopen:" + how)
			return nil
		}
		steps := 5 + r.Rng.Intn(10)
		snapshotBroken := false
		for st := 0; st < steps; st++ {
			i := r.Rng.Intn(2)
			switch c := r.Rng.Intn(10); {
			case c < 5:
				n := 1 + r.Rng.Intn(3)
				if r.Rng.Intn(5) == 0 {
					n = 6 + r.Rng.Intn(6) // a long private chain: its head announces a large clock
					r.Count("write-burst")
				}
				for k := 0; k < n; k++ {
					if err := writeOp(r, s, s.Stores[i], st*10+k); err != nil {
						return err
					}
					sample(i)
				}
				r.Count("write")
			case c < 8:
				if err := s.SyncFrom(i, 1-i); err != nil {
					return err
				}
				if !s.Settle() {
					r.AddDirect("hang:sync", "replication did not settle", map[string]interface{}{"hist": hi, "state": sim.LastSettleState})
				}
				sample(i)
				r.Count("sync")
			case c < 9:
				if err := reopen(i, "load"); err != nil {
					return err
				}
			default:
				if snapshotBroken {
					continue
				}
				// SaveSnapshot is known to panic after replication on trees without the GetQueue repair:
				// guard so that C19 does not depend on it (C13 reports it)
				ok := func() (ok bool) {
					defer func() {
						if recover() != nil {
							ok = false
						}
					}()
					_ = s.Stores[i].Replicator().GetQueue()
					return true
				}()
				if !ok {
					snapshotBroken = true
					r.Count("snapshot-skipped(getqueue panics)")
					continue
				}
				if err := reopen(i, "snapshot"); err != nil {
					return err
				}
			}
		}
		flush(0, "end")
		flush(1, "end")
		_ = replicator.Events
		s.Settle()
		s.Close()
	}
	return nil
}

package main

import (
	"context"
	"fmt"
	"sort"
	"strconv"
	"strings"
	"sync"
	"time"

	orbitdb "berty.tech/go-orbit-db"
	"berty.tech/go-orbit-db/iface"
	"berty.tech/go-orbit-db/stores/basestore"
	"berty.tech/go-orbit-db/stores/replicator"
	"verifharness/sim"
)

func init() { drivers["C19"] = driver{"C19", runC19} }

type recalcRec struct {
	isMax              bool
	arg, ln, prog, max int
}

// statusRecorder collects the store.recalc hook reports per store pointer.
type statusRecorder struct {
	mu   sync.Mutex
	recs map[string][]recalcRec
}

func (sr *statusRecorder) take(ptr string) []recalcRec {
	sr.mu.Lock()
	defer sr.mu.Unlock()
	out := sr.recs[ptr]
	delete(sr.recs, ptr)
	return out
}

func maxTime(st iface.Store) int {
	m := 0
	for _, e := range st.OpLog().Values().Slice() {
		if t := e.GetClock().GetTime(); t > m {
			m = t
		}
	}
	return m
}

// C19: replication status.  Exact correspondence of every recalculation (argument, log
// length read, resulting status) with the model; monotonicity and at-rest conditions on
// samples taken after every step of histories of writes, replications, loads and snapshot loads.
func runC19(r *Run) error {
	defer closeEnv()
	hists := 10
	if r.Tier == "thorough" {
		hists = 100
	}
	rec := &statusRecorder{recs: map[string][]recalcRec{}}
	sim.TheHooks.Extra = func(name string, keys []string) {
		if name != "store.recalc" || len(keys) < 6 {
			return
		}
		a, _ := strconv.Atoi(keys[2])
		l, _ := strconv.Atoi(keys[3])
		p, _ := strconv.Atoi(keys[4])
		m, _ := strconv.Atoi(keys[5])
		rec.mu.Lock()
		rec.recs[keys[0]] = append(rec.recs[keys[0]], recalcRec{keys[1] == "max", a, l, p, m})
		rec.mu.Unlock()
	}
	defer func() { sim.TheHooks.Extra = nil }()
	ctx := context.Background()
	for hi := 0; hi < hists; hi++ {
		typ := []string{"eventlog", "keyvalue"}[hi%2]
		s, err := NewScen(2, typ, nil)
		if err != nil {
			return err
		}
		// per replica: the current open store's samples and recalculation log
		samples := [][]string{nil, nil}
		prims := [][]recalcRec{nil, nil}
		flush := func(i int, why string) {
			if len(prims[i]) > 0 {
				ops := make([]string, len(prims[i]))
				for k, x := range prims[i] {
					ops[k] = fmt.Sprintf("(%s, %s, %s, %s, %s)", sim.CoqBool(x.isMax), sim.CoqZ(x.arg), sim.CoqZ(x.ln), sim.CoqZ(x.prog), sim.CoqZ(x.max))
				}
				r.AddCase("(CPrims "+sim.CoqList(ops)+")", map[string]interface{}{"kind": "prims", "hist": hi, "replica": i, "ops": len(ops), "closed_by": why}, len(ops) >= 3)
				r.Count("prims")
			}
			if len(samples[i]) > 0 {
				r.AddCase("(CSamples "+sim.CoqList(samples[i])+")", map[string]interface{}{"kind": "samples", "sig": "samples:" + why, "hist": hi, "replica": i, "n": len(samples[i]), "closed_by": why}, len(samples[i]) >= 2)
				r.Count("samples")
			}
			prims[i], samples[i] = nil, nil
		}
		complete := true // false: the sample about to be taken is of a log that a limited load has cut
		sample := func(i int) {
			st := s.Stores[i]
			fresh := rec.take(fmt.Sprintf("%p", st))
			prims[i] = append(prims[i], fresh...)
			for _, x := range fresh {
				// every recalculation is also a (not at rest) sample of the status
				samples[i] = append(samples[i], fmt.Sprintf("(mkSm %s %s 0%%Z 0%%Z false)", sim.CoqZ(x.prog), sim.CoqZ(x.max)))
			}
			rs := st.ReplicationStatus()
			samples[i] = append(samples[i], fmt.Sprintf("(mkSm %s %s %s %s %s)", sim.CoqZ(rs.GetProgress()), sim.CoqZ(rs.GetMax()),
				sim.CoqZ(st.OpLog().Len()), sim.CoqZ(maxTime(st)), sim.CoqBool(complete)))
		}
		reopen := func(i int, how string) error {
			flush(i, how)
			st := s.Stores[i]
			if how == "snapshot" {
				if _, err := basestore.SaveSnapshot(ctx, st); err != nil {
					r.Count("snapshot-save-error")
					return nil
				}
			}
			_ = rec.take(fmt.Sprintf("%p", st))
			if err := st.Close(); err != nil {
				return err
			}
			st2, err := s.Reps[i].Orbit.Open(ctx, s.Addr, &orbitdb.CreateDBOptions{})
			if err != nil {
				return fmt.Errorf("reopen: %w", err)
			}
			s.Stores[i] = st2
			if how == "snapshot" {
				if err := st2.LoadFromSnapshot(ctx); err != nil {
					return fmt.Errorf("load snapshot: %w", err)
				}
			} else {
				// unlimited, or a limit that is not smaller than the log (the log is then complete
				// and the status has to end at the entry count just the same)
				amount := -1
				if total := st.OpLog().Len(); how == "load" && total > 0 && r.Rng.Intn(2) == 0 {
					amount = total + []int{0, 1, 2, 7}[r.Rng.Intn(4)]
					r.Count("reopen:load-with-limit>=len")
				}
				if err := st2.Load(ctx, amount); err != nil {
					return fmt.Errorf("load: %w", err)
				}
			}
			s.Settle()
			sample(i)
			r.Count("reopen:" + how)
			return nil
		}
		steps := 5 + r.Rng.Intn(10)
		snapshotBroken := false
		for st := 0; st < steps; st++ {
			i := r.Rng.Intn(2)
			switch c := r.Rng.Intn(10); {
			case c < 5:
				n := 1 + r.Rng.Intn(3)
				if r.Rng.Intn(5) == 0 {
					n = 6 + r.Rng.Intn(6) // a long private chain: its head announces a large clock
					r.Count("write-burst")
				}
				for k := 0; k < n; k++ {
					if err := writeOp(r, s, s.Stores[i], st*10+k); err != nil {
						return err
					}
					sample(i)
				}
				r.Count("write")
			case c < 8:
				if err := s.SyncFrom(i, 1-i); err != nil {
					return err
				}
				if !s.Settle() {
					r.AddDirect("hang:sync", "replication did not settle", map[string]interface{}{"hist": hi, "state": sim.LastSettleState})
				}
				sample(i)
				r.Count("sync")
			case c < 9:
				if total := s.Stores[i].OpLog().Len(); total >= 2 && r.Rng.Intn(2) == 0 {
					// a limited load on the OPEN store, which holds more than the limit: the log is cut
					// to the limit (it is not complete then: only "never decreases" applies to that
					// sample); an unlimited load then brings everything back
					st0 := s.Stores[i]
					if err := st0.Load(ctx, 1+r.Rng.Intn(total-1)); err != nil {
						return fmt.Errorf("limited load in place: %w", err)
					}
					s.Settle()
					complete = st0.OpLog().Len() >= total
					sample(i)
					complete = true
					r.Count("limited-load-in-place")
					// (an unlimited load on the same handle does not bring everything back: the
					// fetch leaves out what the log holds and with it whatever lies behind; the
					// store is closed, reopened and loaded, which is a new open store)
					if err := reopen(i, "load-unlimited"); err != nil {
						return err
					}
					break
				}
				if err := reopen(i, "load"); err != nil {
					return err
				}
			default:
				if snapshotBroken {
					continue
				}
				// SaveSnapshot is known to panic after replication on trees without the GetQueue repair:
				// guard so that C19 does not depend on it (C13 reports it)
				ok := func() (ok bool) {
					defer func() {
						if recover() != nil {
							ok = false
						}
					}()
					_ = s.Stores[i].Replicator().GetQueue()
					return true
				}()
				if !ok {
					snapshotBroken = true
					r.Count("snapshot-skipped(getqueue panics)")
					continue
				}
				switch r.Rng.Intn(3) {
				case 0:
					if err := reopen(i, "snapshot"); err != nil {
						return err
					}
				case 1:
					// snapshot loaded into the store that saved it (it already holds every entry):
					// the store stays open, so the status must not move backwards or overshoot
					st0 := s.Stores[i]
					if _, err := basestore.SaveSnapshot(ctx, st0); err != nil {
						r.Count("snapshot-save-error")
						break
					}
					if err := st0.LoadFromSnapshot(ctx); err != nil {
						return fmt.Errorf("load snapshot in place: %w", err)
					}
					s.Settle()
					sample(i)
					r.Count("snapshot-in-place")
				default:
					// an older snapshot loaded after the directory was reloaded: Load(-1) brings the
					// whole log, LoadFromSnapshot then joins entries the store already holds
					st0 := s.Stores[i]
					if _, err := basestore.SaveSnapshot(ctx, st0); err != nil {
						r.Count("snapshot-save-error")
						break
					}
					if r.Rng.Intn(2) == 0 {
						if err := writeOp(r, s, st0, st*10+7); err != nil {
							return err
						}
						sample(i)
					}
					if err := reopen(i, "load"); err != nil {
						return err
					}
					if err := s.Stores[i].LoadFromSnapshot(ctx); err != nil {
						return fmt.Errorf("load snapshot after load: %w", err)
					}
					s.Settle()
					sample(i)
					r.Count("snapshot-after-load")
				}
			}
		}
		flush(0, "end")
		flush(1, "end")
		_ = replicator.Events
		s.Settle()
		s.Close()
	}
	sim.TheHooks.Extra = nil
	return runC19Conc(r)
}

// ---------------------------------------------------------------------------------------
// Interleaved recalculations (schedules).
//
// recalculateReplicationMax / recalculateReplicationProgress are read-modify-write
// sequences; the schedule points store.recalc_{max,progress}_enter (before the first read)
// and store.recalc_{max,progress}_read (after the last read, before the Set) together with
// the store.recalc report (after the Set) bracket the read and the write of every primitive
// recalculation.  The controller below logs these events in one global order, can park ONE
// goroutine at a *_read point, and afterwards derives from the log
//   - the model threads (one per recalculation call: RMax a / RStatus a / RProgress),
//   - the schedule (LRead i at the read point, LWrite i at the report, LGrow d where a
//     read or a sample observed a longer log),
//   - whether that schedule is EXACT: the read interval (enter, read) and the write interval
//     (read or release-from-park, report) of different recalculations must not overlap, and
//     the log length must be the same at enter and at read.  Everything the driver forces is
//     ordered by causality (a goroutine is parked, the other one is started afterwards and
//     observed to finish before the release), never by timing; whatever could not be
//     ordered that way makes the case inexact: then only the property is checked on the
//     samples, not the correspondence with the model.
// With a mutex held across a recalculation (the repaired code) the parked goroutine holds
// it: the second recalculation cannot even reach its enter point until the release, the
// events of different recalculations never interleave and every case is exact.
// ---------------------------------------------------------------------------------------

type c19Ev struct {
	goid  uint64
	kind  string // max_enter max_read progress_enter progress_read report release
	ln    int    // log length of the watched store, measured on the reporting goroutine
	ptr   string // report: store pointer
	isMax bool
	arg   int
}

type c19Park struct {
	point   string
	goid    uint64
	used    bool
	plain   bool // parked at a point that is not part of a recalculation
	arrived chan struct{}
	release chan struct{}
}

type c19Sample struct {
	pos                int // log position at which it was taken
	p, m, ln, maxt     int
	rest, stable, init bool
}

type c19Ctl struct {
	mu      sync.Mutex
	log     []c19Ev
	id      string // store id (address) the points carry
	store   iface.Store
	park    *c19Park
	samples []c19Sample
}

func (c *c19Ctl) watch(st iface.Store) {
	c.mu.Lock()
	c.store = st
	c.mu.Unlock()
}

func (c *c19Ctl) hook(name string, keys []string) {
	switch name {
	case "store.recalc_max_enter", "store.recalc_max_read", "store.recalc_progress_enter", "store.recalc_progress_read":
		if len(keys) < 1 || keys[0] != c.id {
			return
		}
		c.mu.Lock()
		st := c.store
		c.mu.Unlock()
		ln := -1
		if st != nil {
			ln = st.OpLog().Len()
		}
		ev := c19Ev{goid: c17Goid(), kind: strings.TrimPrefix(name, "store.recalc_"), ln: ln}
		c.mu.Lock()
		c.log = append(c.log, ev)
		var pk *c19Park
		if c.park != nil && !c.park.used && c.park.point == name {
			pk = c.park
			pk.used = true
			pk.goid = ev.goid
		}
		c.mu.Unlock()
		if pk != nil {
			close(pk.arrived)
			<-pk.release
		}
	case "store.before_persist":
		// a writer between its append (and whatever it has recalculated so far) and the write of
		// _localHeads: not inside a recalculation, nothing is logged
		if len(keys) < 1 || keys[0] != c.id {
			return
		}
		c.mu.Lock()
		var pk *c19Park
		if c.park != nil && !c.park.used && c.park.point == name {
			pk = c.park
			pk.used = true
			pk.plain = true
			pk.goid = c17Goid()
		}
		c.mu.Unlock()
		if pk != nil {
			close(pk.arrived)
			<-pk.release
		}
	case "store.recalc":
		if len(keys) < 6 {
			return
		}
		a, _ := strconv.Atoi(keys[2])
		ev := c19Ev{goid: c17Goid(), kind: "report", ptr: keys[0], isMax: keys[1] == "max", arg: a}
		c.mu.Lock()
		c.log = append(c.log, ev)
		c.mu.Unlock()
	}
}

// arm parks the first goroutine that reaches the point from now on.
func (c *c19Ctl) arm(point string) *c19Park {
	pk := &c19Park{point: point, arrived: make(chan struct{}), release: make(chan struct{})}
	c.mu.Lock()
	c.park = pk
	c.mu.Unlock()
	return pk
}

func (c *c19Ctl) releasePark(pk *c19Park) {
	c.mu.Lock()
	if pk.used && pk.plain {
		// (parked outside of any recalculation: the release is no event of the status log)
	} else if pk.used {
		c.log = append(c.log, c19Ev{goid: pk.goid, kind: "release"})
	} else {
		pk.used = true // disarm
	}
	c.mu.Unlock()
	select {
	case <-pk.release:
	default:
		close(pk.release)
	}
}

func (c *c19Ctl) pos() int {
	c.mu.Lock()
	defer c.mu.Unlock()
	return len(c.log)
}

// announcedSince counts completed maximum recalculations with argument arg by goroutines
// other than `not`, logged from pos on.
func (c *c19Ctl) announcedSince(pos int, not uint64, arg int) int {
	c.mu.Lock()
	defer c.mu.Unlock()
	n := 0
	for _, e := range c.log[pos:] {
		if e.kind == "report" && e.goid != not && e.isMax && e.arg == arg {
			n++
		}
	}
	return n
}

func (c *c19Ctl) sample(rest bool) {
	c.mu.Lock()
	st := c.store
	p1 := len(c.log)
	c.mu.Unlock()
	rs := st.ReplicationStatus()
	sm := c19Sample{pos: p1, p: rs.GetProgress(), m: rs.GetMax(), ln: st.OpLog().Len(), rest: rest}
	if rest {
		sm.maxt = maxTime(st)
	}
	c.mu.Lock()
	sm.stable = len(c.log) == p1
	sm.init = len(c.samples) == 0
	c.samples = append(c.samples, sm)
	c.mu.Unlock()
}

type c19Op struct {
	goid                 uint64
	isMax                bool
	arg                  int
	e, rd, rel, w        int // log positions (rel = -1: never parked)
	lnE, lnR             int
	ptr                  string
	thread               int
	complete, haveR, bad bool
}

// derive turns the event log into a CConc case.  ok=false: the log could not be interpreted
// at all (a recalculation that never finished): no case is produced.
func (c *c19Ctl) derive(ptr string) (term string, info map[string]interface{}, ok bool) {
	c.mu.Lock()
	log := append([]c19Ev(nil), c.log...)
	samples := append([]c19Sample(nil), c.samples...)
	c.mu.Unlock()
	exact := true
	why := ""
	inexact := func(s string) {
		if exact {
			why = s
		}
		exact = false
	}
	cur := map[uint64]*c19Op{}
	var ops []*c19Op
	foreign := 0
	for i, ev := range log {
		switch ev.kind {
		case "max_enter", "progress_enter":
			if o := cur[ev.goid]; o != nil {
				return "", nil, false
			}
			cur[ev.goid] = &c19Op{goid: ev.goid, isMax: ev.kind == "max_enter", e: i, lnE: ev.ln, rel: -1}
		case "max_read", "progress_read":
			o := cur[ev.goid]
			if o == nil || o.haveR || o.isMax != (ev.kind == "max_read") {
				return "", nil, false
			}
			o.rd, o.lnR, o.haveR = i, ev.ln, true
		case "release":
			if o := cur[ev.goid]; o != nil && o.haveR {
				o.rel = i
			}
		case "report":
			o := cur[ev.goid]
			if o == nil || !o.haveR || o.isMax != ev.isMax {
				return "", nil, false
			}
			o.w, o.arg, o.ptr, o.complete = i, ev.arg, ev.ptr, true
			delete(cur, ev.goid)
			if o.ptr == ptr {
				ops = append(ops, o)
			} else {
				foreign++
			}
		}
	}
	if len(cur) != 0 || len(samples) < 2 || !samples[0].init || samples[0].pos != 0 {
		return "", nil, false
	}
	sort.Slice(ops, func(a, b int) bool { return ops[a].e < ops[b].e })
	// threads: a max recalculation directly followed, on the same goroutine, by a progress
	// recalculation is one recalculateReplicationStatus call
	var progs []string
	lastOf := map[uint64]*c19Op{}
	for _, o := range ops {
		prev := lastOf[o.goid]
		if !o.isMax && prev != nil && prev.isMax && !prev.bad {
			o.thread = prev.thread
			progs[o.thread] = "(RStatus " + sim.CoqZ(prev.arg) + ")"
			prev.bad = true // consumed
		} else {
			o.thread = len(progs)
			if o.isMax {
				progs = append(progs, "(RMax "+sim.CoqZ(o.arg)+")")
			} else {
				progs = append(progs, "RProgress")
			}
		}
		lastOf[o.goid] = o
	}
	// exactness: conflicting intervals of different recalculations must be disjoint
	overlap := func(a1, a2, b1, b2 int) bool { return a1 < b2 && b1 < a2 }
	for i, x := range ops {
		if x.lnE != x.lnR {
			inexact("log grew during a read")
		}
		xs := x.rd
		if x.rel > xs {
			xs = x.rel
		}
		for j, y := range ops {
			if i == j {
				continue
			}
			ys := y.rd
			if y.rel > ys {
				ys = y.rel
			}
			if overlap(x.e, x.rd, ys, y.w) {
				inexact("a read overlaps a write of another recalculation")
			}
			if i < j && overlap(xs, x.w, ys, y.w) {
				inexact("two writes overlap")
			}
		}
	}
	// labels in log order
	type lab struct {
		pos  int
		term string
		ln   int // reads: length observed
	}
	var labs []lab
	for _, o := range ops {
		labs = append(labs, lab{o.rd, "LRead " + sim.CoqNat(o.thread), o.lnR}, lab{o.w, "LWrite " + sim.CoqNat(o.thread), -1})
	}
	sort.Slice(labs, func(a, b int) bool { return labs[a].pos < labs[b].pos })
	sampleExact := func(sm c19Sample) bool {
		if !sm.stable {
			return false
		}
		for _, o := range ops {
			done := o.w < sm.pos
			notYet := o.e >= sm.pos
			parked := o.rel != -1 && o.rd < sm.pos && o.rel >= sm.pos
			if !done && !notYet && !parked {
				return false
			}
		}
		return true
	}
	curLen := samples[0].ln
	li := 0
	var chunks []string
	var pending []string
	var all []string
	for k, sm := range samples {
		all = append(all, fmt.Sprintf("(mkSm %s %s %s %s %s)", sim.CoqZ(sm.p), sim.CoqZ(sm.m), sim.CoqZ(sm.ln), sim.CoqZ(sm.maxt), sim.CoqBool(sm.rest)))
		if k == 0 {
			continue
		}
		for li < len(labs) && labs[li].pos < sm.pos {
			if labs[li].ln >= 0 {
				if labs[li].ln > curLen {
					pending = append(pending, "LGrow "+sim.CoqZ(labs[li].ln-curLen))
					curLen = labs[li].ln
				} else if labs[li].ln < curLen {
					inexact("a read saw a shorter log than an earlier one")
				}
			}
			pending = append(pending, labs[li].term)
			li++
		}
		last := k == len(samples)-1
		if !sampleExact(sm) {
			if last {
				inexact("final sample taken while a recalculation was in flight")
			} else {
				continue // keep the labels for the next exact sample
			}
		}
		if sm.ln > curLen {
			pending = append(pending, "LGrow "+sim.CoqZ(sm.ln-curLen))
			curLen = sm.ln
		} else if sm.ln < curLen {
			inexact("a sample saw a shorter log than an earlier read")
		}
		chunks = append(chunks, fmt.Sprintf("(%s, (%s, %s, %s))", sim.CoqList(pending), sim.CoqZ(sm.p), sim.CoqZ(sm.m), sim.CoqZ(sm.ln)))
		pending = nil
	}
	if li < len(labs) {
		inexact("recalculations after the final sample")
	}
	s0 := samples[0]
	term = fmt.Sprintf("(CConc (%s, %s) %s %s %s %s %s)", sim.CoqZ(s0.p), sim.CoqZ(s0.m), sim.CoqZ(s0.ln),
		sim.CoqList(progs), sim.CoqList(chunks), sim.CoqBool(exact), sim.CoqList(all))
	// the observed parking structure, for the case description
	inter := false
	for i, x := range ops {
		for j, y := range ops {
			if i != j && x.rd < y.rd && y.w < x.w {
				inter = true
			}
		}
	}
	info = map[string]interface{}{"threads": len(progs), "ops": len(ops), "exact": exact, "inexact_why": why,
		"foreign_ops": foreign, "interleaved": inter, "samples": len(samples)}
	return term, info, true
}

// c19Plan is one forced / randomised interleaving scenario.
type c19Plan struct {
	name   string
	base   string // multi | single-writer | single-load
	typ    string
	park   string // store.recalc_max_read | store.recalc_progress_read | "" (free run)
	b      string // announce | replicate | announce+replicate (what runs while A is parked)
	n0, n1 int
}

const c19BWait = 300 * time.Millisecond

func c19WaitUntil(d time.Duration, f func() bool) bool {
	deadline := time.Now().Add(d)
	for {
		if f() {
			return true
		}
		if time.Now().After(deadline) {
			return false
		}
		time.Sleep(2 * time.Millisecond)
	}
}

func runC19Plan(r *Run, pl c19Plan, idx int) error {
	ctx := context.Background()
	var opts *ScenOpts
	switch pl.base {
	case "single-writer":
		opts = &ScenOpts{Writers: []int{0}}
	case "single-load":
		opts = &ScenOpts{Writers: []int{1}}
	}
	s, err := NewScen(2, pl.typ, opts)
	if err != nil {
		return err
	}
	defer func() {
		sim.TheHooks.Extra = nil
		sim.TheHooks.Reset()
		s.Settle()
		s.Close()
	}()
	reopen := func(load bool) error {
		if err := s.Stores[0].Close(); err != nil {
			return err
		}
		st2, err := s.Reps[0].Orbit.Open(ctx, s.Addr, &orbitdb.CreateDBOptions{})
		if err != nil {
			return fmt.Errorf("reopen: %w", err)
		}
		s.Stores[0] = st2
		if load {
			if err := st2.Load(ctx, -1); err != nil {
				return err
			}
		}
		return nil
	}
	// ---- preparation (no controller yet): replica 1 ends up holding a longer log
	switch pl.base {
	case "multi":
		for k := 0; k < pl.n1; k++ {
			if err := writeOp(r, s, s.Stores[1], k); err != nil {
				return err
			}
		}
		for k := 0; k < pl.n0; k++ {
			if err := writeOp(r, s, s.Stores[0], 100+k); err != nil {
				return err
			}
		}
	case "single-writer":
		// replica 0 is the only writer; replica 1 holds a copy; replica 0 is then reopened
		// without loading, so that its own log is announced to it as a longer remote log
		for k := 0; k < pl.n1; k++ {
			if err := writeOp(r, s, s.Stores[0], k); err != nil {
				return err
			}
		}
		if err := s.SyncFrom(1, 0); err != nil {
			return err
		}
		if !s.Settle() {
			return fmt.Errorf("c19 plan: preparation did not settle")
		}
		if err := reopen(false); err != nil {
			return err
		}
		for k := 0; k < pl.n0; k++ {
			if err := writeOp(r, s, s.Stores[0], 100+k); err != nil {
				return err
			}
		}
	case "single-load":
		// replica 1 is the only writer; replica 0 has replicated n0 entries, is closed and
		// reopened; its Load from disk runs against the announcement of n1 more entries
		for k := 0; k < pl.n0; k++ {
			if err := writeOp(r, s, s.Stores[1], k); err != nil {
				return err
			}
		}
		if err := s.SyncFrom(0, 1); err != nil {
			return err
		}
		if !s.Settle() {
			return fmt.Errorf("c19 plan: preparation did not settle")
		}
		for k := 0; k < pl.n1; k++ {
			if err := writeOp(r, s, s.Stores[1], 100+k); err != nil {
				return err
			}
		}
		if err := reopen(false); err != nil {
			return err
		}
	}
	if !s.Settle() {
		return fmt.Errorf("c19 plan: preparation did not settle")
	}
	// ---- the window
	st := s.Stores[0]
	ctl := &c19Ctl{id: st.Address().String()}
	ctl.watch(st)
	sim.TheHooks.Extra = ctl.hook
	ptr := fmt.Sprintf("%p", st)
	ctl.sample(false)
	var workers *sim.Gate
	if pl.b != "replicate" && pl.b != "load" {
		workers = sim.TheHooks.Park("replicator.before_slot", "", 0)
	}
	var pk *c19Park
	if pl.park != "" {
		pk = ctl.arm(pl.park)
	}
	aDone := make(chan error, 1)
	go func() {
		defer func() {
			if p := recover(); p != nil {
				aDone <- fmt.Errorf("panic: %v", p)
			}
		}()
		if pl.base == "single-load" {
			aDone <- st.Load(ctx, -1)
		} else {
			aDone <- writeOp(r, s, st, 200)
		}
	}()
	aFinished := false
	var aErr error
	if pk != nil {
		select {
		case <-pk.arrived:
		case aErr = <-aDone:
			aFinished = true // the point was never reached (e.g. nothing to load)
		case <-time.After(20 * time.Second):
			ctl.releasePark(pk)
			return fmt.Errorf("c19 plan %s: thread A never reached %s", pl.name, pl.park)
		}
		ctl.sample(false)
	}
	// thread B: the announcement of replica 1's heads (and, unless the fetch workers are
	// held, the whole replication), started only now
	before := ctl.pos()
	endsBefore := sim.TheHooks.Count("store.load_end_done")
	var aGoid uint64
	if pk != nil {
		aGoid = pk.goid
	}
	headTime := 0
	for _, h := range s.Stores[1].OpLog().Heads().Slice() {
		if t := h.GetClock().GetTime(); t > headTime {
			headTime = t
		}
	}
	var loadDone chan error
	if pl.b == "load" {
		// thread B is a Load of the store's own cached history (the store was reopened and not
		// loaded), run to completion while A is parked
		loadDone = make(chan error, 1)
		go func() { loadDone <- st.Load(ctx, -1) }()
	} else if err := s.SyncFrom(0, 1); err != nil {
		return err
	}
	loadReturned := false
	bSeen := func() bool {
		if pl.b == "load" {
			if !loadReturned {
				select {
				case <-loadDone:
					loadReturned = true
				default:
				}
			}
			return loadReturned
		}
		if pl.b == "replicate" {
			return sim.TheHooks.Count("store.load_end_done") > endsBefore
		}
		return ctl.announcedSince(before, aGoid, headTime) > 0
	}
	bRan := c19WaitUntil(c19BWait, bSeen)
	if bRan && pl.b == "announce+replicate" {
		// let the fetch and the merge run as well while A is still parked
		workers.Release()
		workers = nil
		c19WaitUntil(c19BWait, func() bool { return sim.TheHooks.Count("store.load_end_done") > endsBefore })
	}
	ctl.sample(false)
	if pk != nil {
		ctl.releasePark(pk)
	}
	if !aFinished {
		select {
		case aErr = <-aDone:
		case <-time.After(20 * time.Second):
			return fmt.Errorf("c19 plan %s: thread A did not finish", pl.name)
		}
	}
	if aErr != nil {
		return fmt.Errorf("c19 plan %s: thread A: %w", pl.name, aErr)
	}
	if loadDone != nil && !loadReturned {
		select {
		case <-loadDone:
		case <-time.After(20 * time.Second):
			return fmt.Errorf("c19 plan %s: the load did not return", pl.name)
		}
	}
	ctl.sample(false)
	if workers != nil {
		workers.Release()
	}
	if !s.Settle() {
		r.AddDirect("hang:sync", "replication did not settle", map[string]interface{}{"plan": pl.name, "state": sim.LastSettleState})
		return nil
	}
	ctl.sample(true)
	sim.TheHooks.Extra = nil
	term, info, ok := ctl.derive(ptr)
	if !ok {
		r.Count("conc:uninterpretable")
		return nil
	}
	info["kind"] = "conc"
	info["sig"] = "conc:" + pl.name
	info["plan"] = pl.name
	info["base"] = pl.base
	info["store"] = pl.typ
	info["park"] = pl.park
	info["b"] = pl.b
	info["n0"], info["n1"] = pl.n0, pl.n1
	info["b_ran_while_parked"] = bRan
	info["idx"] = idx
	r.AddCase(term, info, true)
	r.Count("conc")
	r.Count("conc:" + pl.base)
	if info["exact"].(bool) {
		r.Count("conc:exact")
	} else {
		r.Count("conc:inexact")
	}
	if info["interleaved"].(bool) {
		r.Count("conc:interleaved")
	} else {
		r.Count("conc:serialised")
	}
	return nil
}

// runC19Conc: forced interleavings (writer || announcement, writer || merge, progress || merge,
// load || announcement; single- and multi-writer logs) and randomised ones.
func runC19Conc(r *Run) error {
	const mx, pg = "store.recalc_max_read", "store.recalc_progress_read"
	plans := []c19Plan{
		{"writer-max||announcement", "multi", "eventlog", mx, "announce", 2, 6},
		{"writer-max||merge", "multi", "keyvalue", mx, "replicate", 1, 5},
		{"writer-progress||merge", "multi", "eventlog", pg, "replicate", 2, 7},
		{"writer-max||announcement+merge", "multi", "keyvalue", mx, "announce+replicate", 3, 5},
		{"writer-max||announcement(single-writer)", "single-writer", "eventlog", mx, "announce", 0, 6},
		{"writer-progress||merge(single-writer)", "single-writer", "keyvalue", pg, "replicate", 1, 5},
		// the writer parked between its append and the write of _localHeads (outside of any
		// recalculation) while a batch is announced, fetched and merged
		{"writer-before-persist||merge", "multi", "keyvalue", "store.before_persist", "replicate", 1, 5},
		{"writer-before-persist||announcement+merge", "multi", "eventlog", "store.before_persist", "announce+replicate", 2, 4},
		{"writer-before-persist||merge(single-writer)", "single-writer", "eventlog", "store.before_persist", "replicate", 1, 5},
		// ... and while the store's own cached history is loaded (the store was reopened, not
		// loaded, and written to: the writer's entry has a small clock)
		{"writer-before-persist||load(single-writer)", "single-writer", "eventlog", "store.before_persist", "load", 0, 4},
		{"writer-before-persist||load(single-writer,kv)", "single-writer", "keyvalue", "store.before_persist", "load", 1, 5},
		{"load-max||announcement(single-writer)", "single-load", "eventlog", mx, "announce", 3, 4},
		{"load-progress||merge(single-writer)", "single-load", "keyvalue", pg, "replicate", 2, 5},
	}
	nrand := 6
	if r.Tier == "thorough" {
		nrand = 60
	}
	for k := 0; k < nrand; k++ {
		pl := c19Plan{
			base: []string{"multi", "multi", "single-writer", "single-load"}[r.Rng.Intn(4)],
			typ:  []string{"eventlog", "keyvalue"}[r.Rng.Intn(2)],
			park: []string{mx, pg, mx, pg, ""}[r.Rng.Intn(5)],
			b:    []string{"announce", "replicate", "announce+replicate"}[r.Rng.Intn(3)],
			n0:   r.Rng.Intn(4),
			n1:   2 + r.Rng.Intn(7),
		}
		if pl.base == "single-load" && pl.n0 == 0 {
			pl.n0 = 1
		}
		pl.name = fmt.Sprintf("random(%s,%s,%s)", pl.base, strings.TrimPrefix(pl.park, "store.recalc_"), pl.b)
		plans = append(plans, pl)
	}
	for i, pl := range plans {
		if err := runC19Plan(r, pl, i); err != nil {
			return err
		}
	}
	return nil
}

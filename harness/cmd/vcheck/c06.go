package main

import (
	"context"
	"fmt"
	"sort"

	"berty.tech/go-orbit-db/iface"
	"verifharness/sim"
)

func init() { drivers["C06"] = driver{"C06", runC06} }

func coqKvMap(c *sim.Canon, m map[string][]byte) string {
	keys := make([]string, 0, len(m))
	for k := range m {
		keys = append(keys, k)
	}
	sort.Strings(keys)
	out := make([]string, len(keys))
	for i, k := range keys {
		out[i] = fmt.Sprintf("(%s, %s)", sim.CoqBytes([]byte(k)), sim.CoqN(c.Val.ID(string(m[k]))))
	}
	return sim.CoqList(out)
}

// C06: key-value store = last-writer-wins replay.  After every step on every replica
// that changed: (previous observed map, current listing, observed All, observed Gets).
func runC06(r *Run) error {
	defer closeEnv()
	hists := 12
	if r.Tier == "thorough" {
		hists = 600
	}
	pool := []string{"a", "b", "k1", "", "ключ", "K1", "x/y"}
	vals := [][]byte{[]byte("v1"), []byte("v2"), {}, {0, 255, 1}, []byte("долго"), []byte("v3")}
	ctx := context.Background()
	for hi := 0; hi < hists; hi++ {
		n := 1 + r.Rng.Intn(3)
		s, err := NewScen(n, "keyvalue", nil)
		if err != nil {
			return err
		}
		u := s.NewUniverse()
		nk := 1 + r.Rng.Intn(len(pool))
		keys := pool[:nk]
		steps := 6 + r.Rng.Intn(14)
		prev := make([]map[string][]byte, n)
		for i := range prev {
			prev[i] = map[string][]byte{}
		}
		observe := func(rep int, step int, what string) {
			st := s.Stores[rep].(iface.KeyValueStore)
			listing := u.Note(st.OpLog().Values().Slice())
			all := st.All()
			gets := make([]string, len(keys))
			for i, k := range keys {
				v, err := st.Get(ctx, k)
				g := "None"
				if err == nil && v != nil {
					g = "(Some " + sim.CoqN(s.Canon.Val.ID(string(v))) + ")"
				}
				gets[i] = fmt.Sprintf("(%s, %s)", sim.CoqBytes([]byte(k)), g)
			}
			r.AddCase(fmt.Sprintf("(CKv %s %s %s %s %s)", u.Name, coqKvMap(s.Canon, prev[rep]), sim.CoqListN(listing), coqKvMap(s.Canon, all), sim.CoqList(gets)),
				map[string]interface{}{"kind": "kv", "hist": hi, "step": step, "replica": rep, "after": what, "entries": len(listing)}, len(listing) >= 2)
			prev[rep] = all
		}
		for st := 0; st < steps; st++ {
			rep := r.Rng.Intn(n)
			kv := s.Stores[rep].(iface.KeyValueStore)
			switch c := r.Rng.Intn(10); {
			case c < 5:
				k := keys[r.Rng.Intn(len(keys))]
				v := vals[r.Rng.Intn(len(vals))]
				if _, err := kv.Put(ctx, k, v); err != nil {
					return err
				}
				r.Count("put")
				observe(rep, st, "put")
			case c < 7:
				k := keys[r.Rng.Intn(len(keys))]
				if _, err := kv.Delete(ctx, k); err != nil {
					return err
				}
				r.Count("del")
				observe(rep, st, "del")
			default:
				if n == 1 {
					continue
				}
				from := r.Rng.Intn(n)
				if from == rep {
					continue
				}
				if err := s.SyncFrom(rep, from); err != nil {
					return err
				}
				if !s.Settle() {
					r.AddDirect("hang:sync", "replication did not settle", map[string]interface{}{"hist": hi, "step": st, "state": sim.LastSettleState})
				}
				r.Count("sync")
				observe(rep, st, "sync")
			}
		}
		r.Count(fmt.Sprintf("replicas=%d", n))
		r.Pre = append(r.Pre, u.Def())
		s.Close()
	}
	return nil
}

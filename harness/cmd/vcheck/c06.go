package main

import (
	"bytes"
	"context"
	"fmt"
	"math/rand"
	"os"
	"os/exec"
	"path/filepath"
	"sort"
	"strconv"
	"strings"
	"time"

	"berty.tech/go-orbit-db/iface"
	"verifharness/sim"
)

func init() { drivers["C06"] = driver{"C06", runC06} }

func coqKvMap(c *sim.Canon, m map[string][]byte) string {
	keys := make([]string, 0, len(m))
	for k := range m {
		keys = append(keys, k)
	}
	sort.Strings(keys)
	out := make([]string, len(keys))
	for i, k := range keys {
		out[i] = fmt.Sprintf("(%s, %s)", sim.CoqBytes([]byte(k)), sim.CoqN(c.Val.ID(string(m[k]))))
	}
	return sim.CoqList(out)
}

// kvRoutes performs, for the index checks (C06 key-value, C07 documents), the steps by
// which entries reach a store OTHER than a local write or a sync: saving a snapshot,
// loading it into the live store (which may hold newer entries by then), reading the
// cached heads again on the live store (with or without a limit) and restarts (close,
// reopen on the same instance) followed by nothing, Load(-1), Load(n) with a limit,
// LoadFromSnapshot, or two of these in a row.  `observe` is called after every single
// call that can rebuild the index, so that one case never spans two rebuilds; its
// `fresh` argument tells that the call replaced the store object: the index is a new,
// empty one and the caller's "previous map" starts from empty again.
type kvRoutes struct {
	saved    []bool // a snapshot is in the replica's cache (it survives restarts)
	savedLen []int  // entries the log held when it was saved
	// bookkeeping for the classification of cases (known finding: a limited Load on a store
	// that holds more entries than the limit truncates the log, and the index map, which is
	// never reset, keeps the keys of the entries that left the log)
	held   []map[int]bool // listing at the previous observation of the replica's current handle
	shrunk []bool         // the log of the current handle lost entries at some point
	// guarded calls (see kvProbe): steps of this history whose Load is left out because a
	// child process that tried it first did not come back from it
	hist    int
	skipped []int
}

func newKvRoutes(n int, hist int) *kvRoutes {
	return &kvRoutes{saved: make([]bool, n), savedLen: make([]int, n), held: make([]map[int]bool, n), shrunk: make([]bool, n), hist: hist}
}

// A Load with a limit larger than the number of entries the store holds can make Join
// slice out of bounds (go-ipfs-log keeps "the last `size` entries" of a log that holds
// fewer).  That panic happens on a goroutine spawned by Load and kills the process, so
// such a call is tried first in a child process: this binary re-executed with the same
// seed and tier (every choice of a history comes from a generator seeded from r.Rng at the
// start of the history, so the child skips the other histories and repeats this one), told
// through the environment which call to stop at.  The child prints PROBE-RETURNED when the
// call came back, PROBE-DIVERGED when it did not reach the same call; anything else means
// it died.  The parent performs the call itself only when the child came back from it.
const (
	kvProbeEnv = "VCHECK_KV_PROBE" // <hist>:<step>:<call>
	kvSkipEnv  = "VCHECK_KV_SKIP"  // steps of that history whose guarded call is left out
)

type kvProbeTarget struct {
	hist, step int
	call       string
	skip       map[int]bool
}

// kvProbeMode tells whether this process is a probing child, and for which call.
func kvProbeMode() *kvProbeTarget {
	v := os.Getenv(kvProbeEnv)
	if v == "" {
		return nil
	}
	p := strings.SplitN(v, ":", 3)
	if len(p) != 3 {
		fmt.Println("PROBE-DIVERGED bad target")
		os.Exit(0)
	}
	t := &kvProbeTarget{call: p[2], skip: map[int]bool{}}
	t.hist, _ = strconv.Atoi(p[0])
	t.step, _ = strconv.Atoi(p[1])
	for _, x := range strings.Split(os.Getenv(kvSkipEnv), ",") {
		if n, err := strconv.Atoi(x); err == nil {
			t.skip[n] = true
		}
	}
	return t
}

// kvHistoryRng gives history hi its own generator (seeded from r.Rng) and tells whether
// the history is to be run (a probing child runs only the history of its target).
func kvHistoryRng(r *Run, master *rand.Rand, hi int) bool {
	r.Rng = rand.New(rand.NewSource(master.Int63()))
	t := kvProbeMode()
	return t == nil || t.hist == hi
}

// kvProbeEnd is reached by a probing child that finished its history without meeting the call.
func kvProbeEnd(hi int) {
	if t := kvProbeMode(); t != nil && t.hist == hi {
		fmt.Println("PROBE-DIVERGED call not reached")
		os.Exit(0)
	}
}

// guard decides what to do with the guarded call `call` of step `step`: perform it
// (true) or leave it out (false).  In a probing child it does not return for the target.
func (k *kvRoutes) guard(r *Run, step int, call string, do func() error) bool {
	if t := kvProbeMode(); t != nil {
		if t.step == step {
			if t.call != call {
				fmt.Printf("PROBE-DIVERGED %s instead of %s\n", call, t.call)
				os.Exit(0)
			}
			err := do()
			// a panic on one of Load's goroutines runs that goroutine's deferred calls first, which
			// let Load return here: leave the runtime the time to end the process
			time.Sleep(150 * time.Millisecond)
			fmt.Printf("PROBE-RETURNED %v\n", err)
			os.Exit(0)
		}
		return !t.skip[step]
	}
	// every probe costs a process start: a budget per run keeps the quick tier quick
	budget := 4
	if r.Tier == "thorough" {
		budget = 80
	}
	if r.Dist["probe:returned"]+r.Dist["probe:died"]+r.Dist["probe:diverged"]+r.Dist["probe:hang"]+r.Dist["probe:inconclusive"] >= budget {
		r.Count("probe budget used up: call left out")
		k.skipped = append(k.skipped, step)
		return false
	}
	skip := make([]string, len(k.skipped))
	for i, s := range k.skipped {
		skip[i] = strconv.Itoa(s)
	}
	// the child's working files go below the output directory and are removed with it
	tmp := filepath.Join(r.Out, "probe-tmp")
	_ = os.MkdirAll(tmp, 0o755)
	defer os.RemoveAll(tmp)
	cmd := exec.Command(os.Args[0], "-prop", r.Prop, "-seed", strconv.FormatInt(r.Seed, 10), "-tier", r.Tier, "-out", r.Out)
	cmd.Env = append(os.Environ(), fmt.Sprintf("%s=%d:%d:%s", kvProbeEnv, k.hist, step, call), kvSkipEnv+"="+strings.Join(skip, ","), "TMPDIR="+tmp)
	var stdout, stderr bytes.Buffer
	cmd.Stdout, cmd.Stderr = &stdout, &stderr
	done := make(chan error, 1)
	if err := cmd.Start(); err != nil {
		r.Count("probe:not-started")
		return false
	}
	go func() { done <- cmd.Wait() }()
	outcome := ""
	select {
	case <-done:
	case <-time.After(120 * time.Second):
		_ = cmd.Process.Kill()
		outcome = "hang"
	}
	switch {
	case outcome == "hang":
	case strings.Contains(stdout.String(), "PROBE-RETURNED"):
		r.Count("probe:returned")
		return true
	case strings.Contains(stdout.String(), "PROBE-DIVERGED"):
		// (a limited load of a log with several heads joins them in goroutine order: the
		// child may hold a log of another length by then)
		r.Count("probe:diverged")
		k.skipped = append(k.skipped, step)
		return false
	case !strings.Contains(stderr.String(), "panic:") && !strings.Contains(stderr.String(), "fatal error:"):
		// the child stopped for a reason of its own (harness error): nothing learnt
		r.Count("probe:inconclusive")
		k.skipped = append(k.skipped, step)
		return false
	default:
		outcome = "died"
	}
	r.Count("probe:" + outcome)
	k.skipped = append(k.skipped, step)
	what := fmt.Sprintf("%s: the process trying it first %s: %s", call, outcome, c15PanicLine(stderr.String()))
	r.AddDirect("load-limit-exceeds-joined-log", what, map[string]interface{}{"hist": k.hist, "step": step, "call": call, "seed": r.Seed, "tier": r.Tier})
	return false
}

// seen records the listing observed on replica rep (fresh: on a new handle) and returns
// the classification signature of the case.
func (k *kvRoutes) seen(rep int, listing []int, fresh bool) string {
	if fresh {
		k.held[rep], k.shrunk[rep] = nil, false
	}
	now := map[int]bool{}
	for _, h := range listing {
		now[h] = true
	}
	for h := range k.held[rep] {
		if !now[h] {
			k.shrunk[rep] = true
		}
	}
	k.held[rep] = now
	if k.shrunk[rep] {
		return "index-keeps-dropped-entries"
	}
	return "index-ok"
}

func (k *kvRoutes) step(r *Run, s *Scen, rep int, at map[string]interface{}, observe func(what string, fresh bool) error) error {
	ctx := context.Background()
	settle := func(where string) {
		if !s.Settle() {
			r.AddDirect("hang:"+where, "store did not settle", map[string]interface{}{"at": at, "state": sim.LastSettleState})
		}
	}
	save := func() error {
		st := s.Stores[rep]
		if out, msg, _ := c13Save(ctx, st); out != c13Ok {
			return fmt.Errorf("SaveSnapshot: %s %s", c13OutcomeName[out], msg)
		}
		k.saved[rep], k.savedLen[rep] = true, st.OpLog().Len()
		r.Count("route:save-snapshot")
		return observe("save", false)
	}
	loadSnap := func(pfx string) error {
		st := s.Stores[rep]
		held := st.OpLog().Len()
		if out, msg := c13Load(ctx, st); out != c13Ok {
			return fmt.Errorf("LoadFromSnapshot: %s %s", c13OutcomeName[out], msg)
		}
		settle("snapshot-load")
		switch {
		case held > k.savedLen[rep]:
			r.Count("route:snapshot-into-store-holding-more-entries")
		case held == 0 && k.savedLen[rep] > 0:
			r.Count("route:snapshot-into-empty-store")
		default:
			r.Count("route:snapshot-into-store-holding-the-same-or-fewer-entries")
		}
		return observe(pfx+"loadsnap", false)
	}
	restart := func() error {
		if err := c13Reopen(s, rep); err != nil {
			return err
		}
		r.Count("route:restart")
		return observe("restart", true)
	}
	load := func(pfx string, n int) error {
		held := s.Stores[rep].OpLog().Len()
		if os.Getenv("KV_TRACE") != "" {
			fmt.Fprintf(os.Stderr, "[%v] replica %d: %sload(%d) on a log of %d entries\n", at, rep, pfx, n, held)
		}
		do := func() error { return s.Stores[rep].Load(ctx, n) }
		if n > held && held > 0 {
			// asks for more entries than the store holds: tried in a child process first
			if !k.guard(r, at["step"].(int), fmt.Sprintf("replica %d %sload(%d) on %d entries", rep, pfx, n, held), do) {
				r.Count("route:load-limited-left-out")
				return observe(fmt.Sprintf("%sload(%d) left out", pfx, n), false)
			}
		}
		if err := do(); err != nil {
			return fmt.Errorf("Load(%d): %w", n, err)
		}
		settle("load")
		now := s.Stores[rep].OpLog().Len()
		switch {
		case n <= 0:
			r.Count("route:load-unlimited")
		case now < held:
			r.Count("route:load-limited-drops-held-entries")
		case now > 0:
			r.Count("route:load-limited-nonempty")
		default:
			r.Count("route:load-limited-empty")
		}
		return observe(fmt.Sprintf("%sload(%d)", pfx, n), false)
	}
	// a limit between 1 and a little beyond what the log holds now
	limit := 1 + r.Rng.Intn(s.Stores[rep].OpLog().Len()+2)
	c := r.Rng.Intn(13)
	if k.saved[rep] && s.Stores[rep].OpLog().Len() > k.savedLen[rep] && r.Rng.Intn(3) == 0 {
		// the case the snapshot route is most delicate in: the store holds newer entries
		c = 1
	}
	if !k.saved[rep] && (c == 1 || c == 2 || c == 6 || c == 9 || c == 10) {
		c = 0
	}
	chain := func(fs ...func() error) error {
		for _, f := range fs {
			if err := f(); err != nil {
				return err
			}
		}
		return nil
	}
	switch c {
	case 0:
		return save()
	case 1, 2:
		return loadSnap("")
	case 3:
		return chain(restart, func() error { return load("restart+", -1) })
	case 4, 5:
		return chain(restart, func() error { return load("restart+", limit) })
	case 6:
		return chain(restart, func() error { return loadSnap("restart+") })
	case 7:
		// the store comes back empty; whatever is written or synced next starts a new log
		return restart()
	case 8:
		// the live store reads its cached heads again: without a limit there is nothing to
		// add; with a limit below its length the log is cut down to the newest entries
		if r.Rng.Intn(2) == 0 {
			return load("live+", -1)
		}
		return load("live+", limit)
	case 9:
		return chain(restart, func() error { return load("restart+", -1) }, func() error { return loadSnap("restart+load+") })
	case 10:
		return chain(restart, func() error { return loadSnap("restart+") }, func() error { return load("restart+loadsnap+", limit) })
	case 11:
		return chain(restart, func() error { return load("restart+", limit) }, func() error { return load("restart+load+", -1) })
	default:
		// a limited load, then a wider one on the live store (whose log lacks ancestors)
		wider := limit + 1 + r.Rng.Intn(3)
		return chain(restart, func() error { return load("restart+", limit) }, func() error { return load("restart+load+", wider) })
	}
}

// C06: key-value store = last-writer-wins replay.  After every step on every replica
// that changed: (previous observed map, current listing, observed All, observed Gets).
// Steps: Put, Delete, sync from another replica, and the routes of kvRoutes (snapshots,
// restarts, limited loads).
func runC06(r *Run) error {
	defer closeEnv()
	hists := 12
	if r.Tier == "thorough" {
		hists = 600
	}
	pool := []string{"a", "b", "k1", "", "ключ", "K1", "x/y"}
	vals := [][]byte{[]byte("v1"), []byte("v2"), {}, {0, 255, 1}, []byte("долго"), []byte("v3")}
	ctx := context.Background()
	master := r.Rng
	defer func() { r.Rng = master }()
	// one more history at the end has a LONG log (more entries than the 64 references an entry
	// carries, than any batch or window size in the code): 70 keys put once, then deletes and
	// overwrites of keys that were put long before, then replication of all of it
	for hi := 0; hi < hists+1; hi++ {
		if !kvHistoryRng(r, master, hi) {
			continue
		}
		long := hi == hists
		n := 1 + r.Rng.Intn(3)
		if long {
			n = 2
		}
		s, err := NewScen(n, "keyvalue", nil)
		if err != nil {
			return err
		}
		u := s.NewUniverse()
		nk := 1 + r.Rng.Intn(len(pool))
		keys := pool[:nk]
		if long {
			keys = []string{"L000", "L001", "L035", "L063", "L064", "L069", "a"}
		}
		steps := 8 + r.Rng.Intn(18)
		if long {
			steps = 0
		}
		prev := make([]map[string][]byte, n)
		for i := range prev {
			prev[i] = map[string][]byte{}
		}
		routes := newKvRoutes(n, hi)
		observe := func(rep int, step int, what string, fresh bool) {
			if fresh {
				// the reopened store has a new, empty index
				prev[rep] = map[string][]byte{}
			}
			st := s.Stores[rep].(iface.KeyValueStore)
			listing := u.Note(st.OpLog().Values().Slice())
			sig := routes.seen(rep, listing, fresh)
			if os.Getenv("KV_TRACE") != "" {
				fmt.Fprintf(os.Stderr, "[hist %d step %d] replica %d after %s: listing %v heads %v\n", hi, step, rep, what, listing, s.Canon.HashIDs(st.OpLog().Heads().Slice()))
			}
			all := st.All()
			gets := make([]string, len(keys))
			for i, k := range keys {
				v, err := st.Get(ctx, k)
				g := "None"
				if err == nil && v != nil {
					g = "(Some " + sim.CoqN(s.Canon.Val.ID(string(v))) + ")"
				}
				gets[i] = fmt.Sprintf("(%s, %s)", sim.CoqBytes([]byte(k)), g)
			}
			r.AddCase(fmt.Sprintf("(CKv %s %s %s %s %s)", u.Name, coqKvMap(s.Canon, prev[rep]), sim.CoqListN(listing), coqKvMap(s.Canon, all), sim.CoqList(gets)),
				map[string]interface{}{"kind": "kv", "sig": sig, "hist": hi, "step": step, "replica": rep, "after": what, "entries": len(listing)}, len(listing) >= 2)
			prev[rep] = all
		}
		for st := 0; st < steps; st++ {
			rep := r.Rng.Intn(n)
			kv := s.Stores[rep].(iface.KeyValueStore)
			switch c := r.Rng.Intn(15); {
			case c >= 10:
				err := routes.step(r, s, rep, map[string]interface{}{"hist": hi, "step": st}, func(what string, fresh bool) error {
					observe(rep, st, what, fresh)
					return nil
				})
				if err != nil {
					return fmt.Errorf("hist %d step %d replica %d: %w", hi, st, rep, err)
				}
			case c < 5:
				k := keys[r.Rng.Intn(len(keys))]
				v := vals[r.Rng.Intn(len(vals))]
				if _, err := kv.Put(ctx, k, v); err != nil {
					return err
				}
				r.Count("put")
				observe(rep, st, "put", false)
			case c < 7:
				k := keys[r.Rng.Intn(len(keys))]
				if _, err := kv.Delete(ctx, k); err != nil {
					return err
				}
				r.Count("del")
				observe(rep, st, "del", false)
			default:
				if n == 1 {
					continue
				}
				from := r.Rng.Intn(n)
				if from == rep {
					continue
				}
				if err := s.SyncFrom(rep, from); err != nil {
					return err
				}
				if !s.Settle() {
					r.AddDirect("hang:sync", "replication did not settle", map[string]interface{}{"hist": hi, "step": st, "state": sim.LastSettleState})
				}
				r.Count("sync")
				observe(rep, st, "sync", false)
			}
		}
		if long {
			kv := s.Stores[0].(iface.KeyValueStore)
			for i := 0; i < 70; i++ {
				if _, err := kv.Put(ctx, fmt.Sprintf("L%03d", i), []byte(fmt.Sprintf("w%d", i%7))); err != nil {
					return err
				}
			}
			observe(0, 0, "put of 70 keys", false)
			for i, k := range []string{"L000", "L063", "L035"} {
				if _, err := kv.Delete(ctx, k); err != nil {
					return err
				}
				observe(0, 1+i, "del of a key put long before", false)
			}
			if _, err := kv.Put(ctx, "L001", []byte("v3")); err != nil {
				return err
			}
			if _, err := kv.Put(ctx, "L000", []byte("v1")); err != nil {
				return err
			}
			if _, err := kv.Delete(ctx, "L064"); err != nil {
				return err
			}
			observe(0, 4, "overwrite, re-put and del in a long log", false)
			if err := s.SyncFrom(1, 0); err != nil {
				return err
			}
			if !s.Settle() {
				r.AddDirect("hang:sync", "replication did not settle", map[string]interface{}{"hist": hi, "state": sim.LastSettleState})
			}
			observe(1, 5, "sync of a long log", false)
			r.Count("long-log-history")
		}
		kvProbeEnd(hi)
		r.Count(fmt.Sprintf("replicas=%d", n))
		r.Pre = append(r.Pre, u.Def())
		s.Close()
	}
	return nil
}

package main

import (
	"bytes"
	"context"
	"crypto/sha256"
	"encoding/binary"
	"fmt"
	"io"
	"os"
	"runtime"
	"sort"
	"strings"
	"sync"
	"sync/atomic"
	"time"

	"github.com/ipfs/boxo/path"
	coreiface "github.com/ipfs/kubo/core/coreiface"
	"github.com/ipfs/kubo/core/coreiface/options"
	p2ppubsub "github.com/libp2p/go-libp2p-pubsub"
	pubsubpb "github.com/libp2p/go-libp2p-pubsub/pb"
	"github.com/libp2p/go-libp2p/core/crypto"
	"github.com/libp2p/go-libp2p/core/host"
	"github.com/libp2p/go-libp2p/core/network"
	"github.com/libp2p/go-libp2p/core/peer"
	"github.com/libp2p/go-libp2p/core/protocol"
	"github.com/libp2p/go-libp2p/p2p/host/eventbus"
	mocknet "github.com/libp2p/go-libp2p/p2p/net/mock"
	"go.uber.org/zap"

	"berty.tech/go-orbit-db/iface"
	"berty.tech/go-orbit-db/pubsub"
	"berty.tech/go-orbit-db/pubsub/directchannel"
	"berty.tech/go-orbit-db/pubsub/oneonone"
	"berty.tech/go-orbit-db/pubsub/pubsubcoreapi"
	"berty.tech/go-orbit-db/pubsub/pubsubraw"
	"verifharness/sim"
)

func init() { drivers["C20"] = driver{"C20", runC20} }

const c20Watchdog = 20 * time.Second

// ---------------------------------------------------------------------------------------
// scripted kubo CoreAPI: only PubSub(), Key().Self() and Swarm().Connect() are served
// ---------------------------------------------------------------------------------------

type c20Key struct{ id peer.ID }

func (k c20Key) Name() string    { return "self" }
func (k c20Key) Path() path.Path { p, _ := path.NewPath("/ipns/" + k.id.String()); return p }
func (k c20Key) ID() peer.ID     { return k.id }

type c20KeyAPI struct {
	coreiface.KeyAPI
	id peer.ID
}

func (k c20KeyAPI) Self(context.Context) (coreiface.Key, error) { return c20Key{k.id}, nil }

type c20Swarm struct{ coreiface.SwarmAPI }

func (c20Swarm) Connect(context.Context, peer.AddrInfo) error { return nil }

type c20Pub struct {
	topic string
	data  []byte
}

// c20PubSub is the scripted coreiface.PubSubAPI.
type c20PubSub struct {
	mu        sync.Mutex
	published []c20Pub
	peersFn   func(ctx context.Context, topic string) ([]peer.ID, error)
	subFn     func(ctx context.Context, topic string) (coreiface.PubSubSubscription, error)
}

func (p *c20PubSub) Ls(context.Context) ([]string, error) { return nil, nil }

func (p *c20PubSub) Peers(ctx context.Context, opts ...options.PubSubPeersOption) ([]peer.ID, error) {
	s, err := options.PubSubPeersOptions(opts...)
	if err != nil {
		return nil, err
	}
	if p.peersFn == nil {
		return nil, nil
	}
	return p.peersFn(ctx, s.Topic)
}

func (p *c20PubSub) Publish(_ context.Context, topic string, data []byte) error {
	p.mu.Lock()
	p.published = append(p.published, c20Pub{topic, append([]byte(nil), data...)})
	p.mu.Unlock()
	return nil
}

func (p *c20PubSub) Subscribe(ctx context.Context, topic string, _ ...options.PubSubSubscribeOption) (coreiface.PubSubSubscription, error) {
	if p.subFn == nil {
		return nil, fmt.Errorf("no scripted subscription")
	}
	return p.subFn(ctx, topic)
}

func (p *c20PubSub) takePublished() []c20Pub {
	p.mu.Lock()
	defer p.mu.Unlock()
	out := p.published
	p.published = nil
	return out
}

type c20API struct {
	coreiface.CoreAPI // nil: every other method is outside the adapters' use
	self              peer.ID
	ps                *c20PubSub
}

func (a *c20API) PubSub() coreiface.PubSubAPI { return a.ps }
func (a *c20API) Key() coreiface.KeyAPI       { return c20KeyAPI{id: a.self} }
func (a *c20API) Swarm() coreiface.SwarmAPI   { return c20Swarm{} }

func newC20API(self peer.ID) *c20API { return &c20API{self: self, ps: &c20PubSub{}} }

type c20Msg struct {
	from peer.ID
	data []byte
}

func (m c20Msg) From() peer.ID    { return m.from }
func (m c20Msg) Data() []byte     { return m.data }
func (m c20Msg) Seq() []byte      { return nil }
func (m c20Msg) Topics() []string { return nil }

// c20Sub hands out the scripted messages one per Next call; the call after the last one
// closes done (everything before it has been processed by the adapter's loop, which is
// sequential) and blocks until the context ends.
type c20Sub struct {
	msgs []c20Msg
	k    int
	done chan struct{}
}

func (s *c20Sub) Close() error { return nil }

func (s *c20Sub) Next(ctx context.Context) (coreiface.PubSubMessage, error) {
	if s.k < len(s.msgs) {
		m := s.msgs[s.k]
		s.k++
		return m, nil
	}
	if s.k == len(s.msgs) {
		s.k++
		close(s.done)
	}
	<-ctx.Done()
	return nil, ctx.Err()
}

// ---------------------------------------------------------------------------------------
// peer-id pool
// ---------------------------------------------------------------------------------------

type c20Pool struct {
	ids []peer.ID
	num map[peer.ID]int
}

func (p *c20Pool) add(id peer.ID) {
	if _, ok := p.num[id]; ok {
		return
	}
	p.ids = append(p.ids, id)
	p.num[id] = len(p.ids) // numbers start at 1; 0 = unknown peer
}

func (p *c20Pool) id(n int) peer.ID { return p.ids[n-1] }
func (p *c20Pool) n(id peer.ID) int { return p.num[id] }

func newC20Pool(r *Run, n int) (*c20Pool, error) {
	p := &c20Pool{num: map[peer.ID]int{}}
	for len(p.ids) < n {
		_, pub, err := crypto.GenerateEd25519Key(r.Rng)
		if err != nil {
			return nil, err
		}
		id, err := peer.IDFromPublicKey(pub)
		if err != nil {
			return nil, err
		}
		p.add(id)
	}
	return p, nil
}

// ---------------------------------------------------------------------------------------
// (a) pubsubcoreapi: WatchPeers over scripted membership snapshots
// ---------------------------------------------------------------------------------------

type c20Ev struct {
	join bool
	peer int
}

func (e c20Ev) coq() string {
	if e.join {
		return "(PJoin " + sim.CoqN(e.peer) + ")"
	}
	return "(PLeave " + sim.CoqN(e.peer) + ")"
}

func c20Events(polls [][]c20Ev) string {
	out := make([]string, len(polls))
	for i, p := range polls {
		xs := make([]string, len(p))
		for j, e := range p {
			xs[j] = e.coq()
		}
		out[i] = sim.CoqList(xs)
	}
	return sim.CoqList(out)
}

func c20Snaps(snaps [][]int) string {
	out := make([]string, len(snaps))
	for i, s := range snaps {
		out[i] = sim.CoqListN(s)
	}
	return sim.CoqList(out)
}

// canonLeaves sorts the trailing run of leave events of one poll by peer number: the Go
// code ranges over a map there, so that order is not an observable.
func canonLeaves(p []c20Ev) {
	i := len(p)
	for i > 0 && !p[i-1].join {
		i--
	}
	tail := p[i:]
	sort.SliceStable(tail, func(a, b int) bool { return tail[a].peer < tail[b].peer })
}

// watchPeersRun drives the real psTopic.WatchPeers with the scripted snapshots and returns
// the events it emitted, poll by poll, and the final topic.Peers().
func watchPeersRun(pool *c20Pool, self peer.ID, topicName string, snaps [][]int, interval time.Duration) (polls [][]c20Ev, final []int, hung bool, err error) {
	return watchPeersRunOn(nil, pool, self, topicName, snaps, interval)
}

// c20Watched is an adapter instance that outlives one watcher (watchPeersRunOn).
type c20Watched struct {
	api *c20API
	ps  iface.PubSubInterface
}

// watchPeersRunOn: on an instance that may have served a watcher of the same topic before
// (that watcher's context has ended and its goroutine has returned); nil = a new instance.
func watchPeersRunOn(on *c20Watched, pool *c20Pool, self peer.ID, topicName string, snaps [][]int, interval time.Duration) (polls [][]c20Ev, final []int, hung bool, err error) {
	if on == nil {
		on = &c20Watched{}
	}
	if on.api == nil {
		on.api = newC20API(self)
		on.ps = pubsubcoreapi.NewPubSub(on.api, self, interval, nil, nil)
	}
	api := on.api
	ctx, cancel := context.WithCancel(context.Background())
	defer cancel()

	drainReq := make(chan chan struct{})
	done := make(chan struct{})
	calls := 0
	api.ps.peersFn = func(ctx context.Context, topic string) ([]peer.ID, error) {
		// Called by the watcher goroutine only, once per poll.  Every event of the previous
		// poll has been sent by now: have the consumer drain them and open the next bucket.
		k := calls
		calls++
		ack := make(chan struct{})
		select {
		case drainReq <- ack:
			<-ack
		case <-ctx.Done():
			return nil, ctx.Err()
		}
		if k >= len(snaps) {
			if k == len(snaps) {
				close(done)
			}
			<-ctx.Done()
			return nil, ctx.Err()
		}
		if topic != topicName {
			return nil, nil // asked about the wrong topic: nobody there
		}
		out := make([]peer.ID, len(snaps[k]))
		for i, n := range snaps[k] {
			out[i] = pool.id(n)
		}
		return out, nil
	}

	ps := on.ps
	topic, err := ps.TopicSubscribe(ctx, topicName)
	if err != nil {
		return nil, nil, false, err
	}
	if again, err := ps.TopicSubscribe(ctx, topicName); err != nil || again != topic {
		return nil, nil, false, fmt.Errorf("TopicSubscribe is not idempotent (%v)", err)
	}
	ch, err := topic.WatchPeers(ctx)
	if err != nil {
		return nil, nil, false, err
	}

	var buckets [][]c20Ev
	record := func(e interface{}) {
		var ev c20Ev
		switch x := e.(type) {
		case *iface.EventPubSubJoin:
			ev = c20Ev{true, pool.n(x.Peer)}
			if x.Topic != topicName {
				ev.peer = 0
			}
		case *iface.EventPubSubLeave:
			ev = c20Ev{false, pool.n(x.Peer)}
			if x.Topic != topicName {
				ev.peer = 0
			}
		default:
			ev = c20Ev{true, 0}
		}
		if len(buckets) == 0 {
			buckets = append(buckets, nil)
		}
		buckets[len(buckets)-1] = append(buckets[len(buckets)-1], ev)
	}
	consumerDone := make(chan struct{})
	go func() {
		defer close(consumerDone)
		for {
			select {
			case e, ok := <-ch:
				if !ok {
					return
				}
				record(e)
			case ack := <-drainReq:
			drain:
				for {
					select {
					case e, ok := <-ch:
						if !ok {
							break drain
						}
						record(e)
					default:
						break drain
					}
				}
				buckets = append(buckets, nil)
				close(ack)
			}
		}
	}()

	select {
	case <-done:
	case <-time.After(c20Watchdog):
		hung = true
	}
	if !hung {
		members, _ := topic.Peers(ctx)
		for _, m := range members {
			final = append(final, pool.n(m))
		}
	}
	cancel()
	select {
	case <-consumerDone:
	case <-time.After(c20Watchdog):
		return nil, nil, true, nil
	}
	// bucket k holds the events emitted after the k-th Peers call; the bucket opened by the
	// call that found the script exhausted must be empty
	for len(buckets) > len(snaps) && len(buckets[len(buckets)-1]) == 0 {
		buckets = buckets[:len(buckets)-1]
	}
	for _, b := range buckets {
		canonLeaves(b)
	}
	for len(buckets) < len(snaps) && !hung {
		buckets = append(buckets, nil)
	}
	return buckets, final, hung, nil
}

func c20Shuffle(r *Run, xs []int) []int {
	out := append([]int(nil), xs...)
	r.Rng.Shuffle(len(out), func(i, j int) { out[i], out[j] = out[j], out[i] })
	return out
}

// genSnaps: duplicate-free membership snapshots over peers 1..u: random subsets,
// repeats, reorderings, empties, single-peer flapping, everybody.
func genSnaps(r *Run, u, n int) ([][]int, map[string]int) {
	kinds := map[string]int{}
	var snaps [][]int
	cur := []int{}
	flapper := 1 + r.Rng.Intn(u)
	for len(snaps) < n {
		var next []int
		kind := ""
		switch c := r.Rng.Intn(12); {
		case c < 4:
			kind = "subset"
			p := r.Rng.Float64()
			for i := 1; i <= u; i++ {
				if r.Rng.Float64() < p {
					next = append(next, i)
				}
			}
			next = c20Shuffle(r, next)
		case c < 5:
			kind = "same"
			next = append([]int(nil), cur...)
		case c < 7:
			kind = "reordered"
			next = c20Shuffle(r, cur)
		case c < 8:
			kind = "empty"
		case c < 10:
			kind = "flap"
			found := false
			for _, x := range cur {
				if x == flapper {
					found = true
				} else {
					next = append(next, x)
				}
			}
			if !found {
				next = append(next, flapper)
			}
		case c < 11:
			kind = "all"
			for i := 1; i <= u; i++ {
				next = append(next, i)
			}
			next = c20Shuffle(r, next)
		default:
			kind = "swap-one"
			// one leaves, one joins in the same poll
			next = append([]int(nil), cur...)
			if len(next) > 0 {
				next = next[1:]
			}
			in := map[int]bool{}
			for _, x := range cur {
				in[x] = true
			}
			for i := 1; i <= u; i++ {
				if !in[i] {
					next = append([]int{i}, next...)
					break
				}
			}
		}
		if next == nil {
			next = []int{}
		}
		kinds[kind]++
		snaps = append(snaps, next)
		cur = next
	}
	return snaps, kinds
}

func c20WatchCases(r *Run, pool *c20Pool) error {
	scripts := 120
	maxU, maxN := 8, 10
	if r.Tier == "thorough" {
		scripts, maxU, maxN = 1200, 24, 30
	}
	for si := 0; si < scripts; si++ {
		u := 1 + r.Rng.Intn(maxU)
		n := 1 + r.Rng.Intn(maxN)
		snaps, kinds := genSnaps(r, u, n)
		if si == 0 {
			snaps = [][]int{{}} // nobody ever
		}
		if si == 1 && os.Getenv("C20_DUP_SNAPSHOT") != "" {
			// outside the property's quantifier (kubo lists the keys of a map): a snapshot
			// naming a present peer twice.  See NOTES.md.
			snaps = [][]int{{1}, {1, 1}, {1}}
		}
		self := pool.id(len(pool.ids)) // the local peer does not appear in the snapshots ...
		if si%3 == 2 {
			// ... or it does (a CoreAPI implementation that lists the local node among the
			// members of a topic): for the adapter it is a member like any other
			self = pool.id(1 + r.Rng.Intn(u))
			r.Count("watch:self-listed-in-snapshots")
		}
		topicName := fmt.Sprintf("/orbitdb/verif/topic-%d", si)
		// poll interval: none at all (the next poll follows at once), far below and around the
		// time one poll takes, and longer
		interval := []time.Duration{0, 0, 50 * time.Microsecond, 50 * time.Microsecond, time.Millisecond, time.Millisecond, time.Millisecond, 3 * time.Millisecond}[r.Rng.Intn(8)]
		r.Count("watch-interval:" + interval.String())
		polls, final, hung, err := watchPeersRun(pool, self, topicName, snaps, interval)
		if err != nil {
			return err
		}
		if hung {
			r.AddDirect("watch:hang", "WatchPeers did not reach the end of the membership script within the watchdog",
				map[string]interface{}{"kind": "watch", "snaps": snaps})
			continue
		}
		nev := 0
		for _, p := range polls {
			nev += len(p)
		}
		for k := range kinds {
			r.Count("watch-step:" + k)
		}
		r.Count("watch")
		r.AddCase(fmt.Sprintf("(CWatch %s %s %s)", c20Snaps(snaps), c20Events(polls), sim.CoqListN(final)),
			map[string]interface{}{"kind": "watch", "sig": "watch", "snaps": snaps, "events": nev, "adapter": "pubsubcoreapi", "interval": interval.String()}, nev >= 2)
	}
	return nil
}

// c20RewatchCases: the topic is watched, the watcher's context ends (a store is closed), and
// the same topic of the same adapter instance is watched again (the store is opened again on
// the same OrbitDB instance: TopicSubscribe hands out the topic it has).  The second watcher
// is a watcher like any other: what it is told, replayed from nothing, is the membership.
func c20RewatchCases(r *Run, pool *c20Pool) error {
	scripts := 16
	if r.Tier == "thorough" {
		scripts = 80
	}
	for si := 0; si < scripts; si++ {
		u := 1 + r.Rng.Intn(6)
		first, _ := genSnaps(r, u, 1+r.Rng.Intn(4))
		second, _ := genSnaps(r, u, 1+r.Rng.Intn(5))
		switch si {
		case 0:
			first, second = [][]int{{1, 2}}, [][]int{{1, 2}} // the members stay while the store is closed and reopened
		case 1:
			first, second = [][]int{{1, 2}}, [][]int{{2, 3}}
		case 2:
			first, second = [][]int{{1}, {}}, [][]int{{1}}
		}
		if si%2 == 1 {
			second[0] = append([]int(nil), first[len(first)-1]...) // nothing changed in between
		}
		self := pool.id(len(pool.ids))
		topicName := fmt.Sprintf("/orbitdb/verif/rewatch-%d", si)
		on := &c20Watched{}
		if _, _, hung, err := watchPeersRunOn(on, pool, self, topicName, first, time.Millisecond); err != nil || hung {
			if err == nil {
				err = fmt.Errorf("first watcher hung")
			}
			return fmt.Errorf("rewatch: %w", err)
		}
		polls, final, hung, err := watchPeersRunOn(on, pool, self, topicName, second, time.Millisecond)
		if err != nil {
			return err
		}
		descr := map[string]interface{}{"kind": "rewatch", "sig": "watch:rewatch", "adapter": "pubsubcoreapi", "before": first, "snaps": second}
		if hung {
			r.AddDirect("watch:hang", "the second WatchPeers of a topic did not reach the end of the membership script within the watchdog", descr)
			continue
		}
		nev := 0
		for _, p := range polls {
			nev += len(p)
		}
		descr["events"] = nev
		r.Count("rewatch")
		prev := first[len(first)-1]
		r.AddCase(fmt.Sprintf("(CRewatch %s %s %s %s)", sim.CoqListN(prev), c20Snaps(second), c20Events(polls), sim.CoqListN(final)), descr, len(prev) > 0)
	}
	return nil
}

// ---------------------------------------------------------------------------------------
// (a) pubsubcoreapi: WatchMessages self filter, Publish pass-through
// ---------------------------------------------------------------------------------------

func c20CoqMsgs(pool *c20Pool, msgs []c20Msg) string {
	out := make([]string, len(msgs))
	for i, m := range msgs {
		out[i] = fmt.Sprintf("(%s, %s)", sim.CoqN(pool.n(m.from)), sim.CoqBytes(m.data))
	}
	return sim.CoqList(out)
}

func c20CoqPayloads(ps [][]byte) string {
	out := make([]string, len(ps))
	for i, p := range ps {
		out[i] = sim.CoqBytes(p)
	}
	return sim.CoqList(out)
}

// genMsgs: messages from senders 1..u with small payloads; payloads repeat across
// senders so that a filter on content instead of sender would be noticed.
func genMsgs(r *Run, pool *c20Pool, senders []int, n int) []c20Msg {
	msgs := make([]c20Msg, n)
	var seen [][]byte
	for i := range msgs {
		var data []byte
		if len(seen) > 0 && r.Rng.Intn(3) == 0 {
			data = append([]byte(nil), seen[r.Rng.Intn(len(seen))]...)
		} else {
			data = make([]byte, r.Rng.Intn(7))
			r.Rng.Read(data)
		}
		seen = append(seen, data)
		msgs[i] = c20Msg{from: pool.id(senders[r.Rng.Intn(len(senders))]), data: data}
	}
	return msgs
}

func c20ForwardCases(r *Run, pool *c20Pool) error {
	scripts := 80
	if r.Tier == "thorough" {
		scripts = 800
	}
	for si := 0; si < scripts; si++ {
		u := 1 + r.Rng.Intn(4)
		selfN := 1 + r.Rng.Intn(u)
		senders := []int{selfN, selfN} // about half of the traffic is our own
		for i := 1; i <= u; i++ {
			if i != selfN {
				senders = append(senders, i)
			}
		}
		n := r.Rng.Intn(40)
		if si == 1 {
			n = 300 // more than the adapter's channel buffer
		}
		msgs := genMsgs(r, pool, senders, n)
		self := pool.id(selfN)
		api := newC20API(self)
		sub := &c20Sub{msgs: msgs, done: make(chan struct{})}
		topicName := fmt.Sprintf("/orbitdb/verif/msgs-%d", si)
		wrongTopic := false
		api.ps.subFn = func(_ context.Context, topic string) (coreiface.PubSubSubscription, error) {
			if topic != topicName {
				wrongTopic = true
			}
			return sub, nil
		}
		ctx, cancel := context.WithCancel(context.Background())
		ps := pubsubcoreapi.NewPubSub(api, self, time.Millisecond, nil, nil)
		topic, err := ps.TopicSubscribe(ctx, topicName)
		if err != nil {
			cancel()
			return err
		}
		ch, err := topic.WatchMessages(ctx)
		if err != nil {
			cancel()
			return err
		}
		var got [][]byte
		consumerDone := make(chan struct{})
		go func() {
			defer close(consumerDone)
			for m := range ch {
				got = append(got, append([]byte(nil), m.Content...))
			}
		}()
		hung := false
		select {
		case <-sub.done:
		case <-time.After(c20Watchdog):
			hung = true
		}
		// Publish goes straight to the API with the topic's name
		payload := []byte(fmt.Sprintf("publish-%d", si))
		_ = topic.Publish(ctx, payload)
		pubs := api.ps.takePublished()
		cancel()
		select {
		case <-consumerDone:
		case <-time.After(c20Watchdog):
			hung = true
		}
		descr := map[string]interface{}{"kind": "forward", "sig": "forward:coreapi", "adapter": "pubsubcoreapi", "self": selfN, "msgs": len(msgs)}
		if hung {
			r.AddDirect("forward:hang", "pubsubcoreapi WatchMessages did not consume the scripted messages within the watchdog", descr)
			continue
		}
		if (len(pubs) != 1 || pubs[0].topic != topicName || !bytes.Equal(pubs[0].data, payload) || wrongTopic) && r.Dist["publish:coreapi-wrong"] == 0 {
			r.Count("publish:coreapi-wrong")
			r.AddDirect("publish:coreapi", "pubsubcoreapi Publish/Subscribe did not address the topic's own name with the given payload", descr)
		}
		own := 0
		for _, m := range msgs {
			if m.from == self {
				own++
			}
		}
		r.Count("forward:coreapi")
		r.AddCase(fmt.Sprintf("(CForward true %s %s %s)", sim.CoqN(selfN), c20CoqMsgs(pool, msgs), c20CoqPayloads(got)),
			descr, own > 0 && own < len(msgs))
	}
	return nil
}

// ---------------------------------------------------------------------------------------
// (b) oneonone: channel ids through Send; monitorTopic through Connect
// ---------------------------------------------------------------------------------------

func c20NewEmitter() (*pubsub.PayloadEmitter, func() []iface.EventPubSubPayload, func(), error) {
	bus := eventbus.NewBus()
	sub, err := bus.Subscribe(new(iface.EventPubSubPayload), eventbus.BufSize(4096))
	if err != nil {
		return nil, nil, nil, err
	}
	em, err := pubsub.NewPayloadEmitter(bus)
	if err != nil {
		return nil, nil, nil, err
	}
	// Emit on the bus is synchronous into the subscription's channel, so once the adapter
	// is known to be past its Emit call the event is here.
	drain := func() []iface.EventPubSubPayload {
		var out []iface.EventPubSubPayload
		for {
			select {
			case e := <-sub.Out():
				if p, ok := e.(iface.EventPubSubPayload); ok {
					out = append(out, p)
				}
			default:
				return out
			}
		}
	}
	return em, drain, func() { _ = sub.Close() }, nil
}

// sendTopic returns the topic on which self's one-on-one channel publishes for other.
func sendTopic(self, other peer.ID, payload []byte) (string, error) {
	api := newC20API(self)
	em, _, closeSub, err := c20NewEmitter()
	if err != nil {
		return "", err
	}
	defer closeSub()
	ctx, cancel := context.WithCancel(context.Background())
	defer cancel()
	ch, err := oneonone.NewChannelFactory(api)(ctx, em, nil)
	if err != nil {
		return "", err
	}
	defer ch.Close()
	if err := ch.Send(ctx, other, payload); err != nil {
		return "", err
	}
	pubs := api.ps.takePublished()
	if len(pubs) != 1 || !bytes.Equal(pubs[0].data, payload) {
		return "", fmt.Errorf("oneonone Send published %d messages / altered the payload", len(pubs))
	}
	return pubs[0].topic, nil
}

func c20ChannelCases(r *Run) error {
	// id strings: ed25519 ids (common prefix "12D3KooW"), sha256-multihash ids ("Qm..."),
	// degenerate ids whose base58 forms are prefixes of one another, ids differing in the
	// last byte only
	var ids []peer.ID
	for i := 0; i < 8; i++ {
		_, pub, err := crypto.GenerateEd25519Key(r.Rng)
		if err != nil {
			return err
		}
		id, err := peer.IDFromPublicKey(pub)
		if err != nil {
			return err
		}
		ids = append(ids, id)
	}
	for i := 0; i < 4; i++ {
		b := make([]byte, 34)
		r.Rng.Read(b)
		b[0], b[1] = 0x12, 0x20
		ids = append(ids, peer.ID(b))
		if i == 0 {
			c := append([]byte(nil), b...)
			c[33] ^= 1
			ids = append(ids, peer.ID(c))
		}
	}
	ids = append(ids, peer.ID(""), peer.ID("\x00"), peer.ID("\x00\x00"), peer.ID("\x00\x01"), peer.ID("\x01"), peer.ID("a"), peer.ID("ab"))
	// families of ids of different lengths with equal prefixes; the members of a family, in
	// both orders, are pairs of every run (edge):
	//  - leading zero bytes: the string forms "1", "11", ... are prefixes of one another;
	//  - identity-multihash ids (what short keys get) over prefixes of one random key;
	//  - a key-derived id with bytes cut off / added at its end
	var edge [][2]peer.ID
	nBase := len(ids)
	family := func(fam []peer.ID) {
		for i := range fam {
			ids = append(ids, fam[i])
			for j := range fam {
				if i != j && (j == i+1 || i == j+1 || r.Rng.Intn(3) == 0) {
					edge = append(edge, [2]peer.ID{fam[i], fam[j]})
				}
			}
		}
	}
	family([]peer.ID{peer.ID("\x00\x00\x00"), peer.ID("\x00\x00\x00\x00"), peer.ID("\x00\x00\x00\x00\x00\x00\x00\x00")})
	seedKey := make([]byte, 36)
	r.Rng.Read(seedKey)
	var idfam []peer.ID
	for _, l := range []int{1, 2, 3, 8, 20, 36} {
		idfam = append(idfam, peer.ID(append([]byte{0x00, byte(l)}, seedKey[:l]...)))
	}
	family(idfam)
	full := []byte(ids[0])
	family([]peer.ID{peer.ID(full[:len(full)-10]), peer.ID(full[:len(full)-1]), ids[0], peer.ID(append(append([]byte(nil), full...), 0x00)), peer.ID(append(append([]byte(nil), full...), 0x00, 0x01))})
	str := func(id peer.ID) string { return sim.CoqBytes([]byte(id.String())) }
	pairs := 60 + len(edge)
	if r.Tier == "thorough" {
		pairs += nBase * nBase // and every pair of the ids outside the families
	}
	for pi := 0; pi < pairs; pi++ {
		var a, b peer.ID
		if pi < len(edge) {
			a, b = edge[pi][0], edge[pi][1]
			r.Count("channel:prefix-family-pair")
		} else if k := pi - len(edge) - 60; k >= 0 {
			a, b = ids[k/nBase], ids[k%nBase]
		} else {
			a, b = ids[r.Rng.Intn(len(ids))], ids[r.Rng.Intn(len(ids))]
		}
		if len(a.String()) != len(b.String()) {
			r.Count("channel:different-lengths")
		}
		if a != b && (strings.HasPrefix(a.String(), b.String()) || strings.HasPrefix(b.String(), a.String())) {
			r.Count("channel:string-prefix")
		}
		payload := make([]byte, r.Rng.Intn(20))
		r.Rng.Read(payload)
		tab, err := sendTopic(a, b, payload)
		if err != nil {
			return err
		}
		tba, err := sendTopic(b, a, payload)
		if err != nil {
			return err
		}
		r.Count("channel")
		r.AddCase(fmt.Sprintf("(CChannel %s %s %s %s)", str(a), str(b), sim.CoqBytes([]byte(tab)), sim.CoqBytes([]byte(tba))),
			map[string]interface{}{"kind": "channel", "sig": "channel", "adapter": "oneonone", "a": a.String(), "b": b.String(), "topic_ab": tab, "topic_ba": tba}, a != b)
		// a second pair sharing none, one or both members: names coincide iff same unordered pair
		var c, d peer.ID
		switch r.Rng.Intn(4) {
		case 0:
			c, d = b, a
		case 1:
			c, d = a, ids[r.Rng.Intn(len(ids))]
		case 2:
			c, d = ids[r.Rng.Intn(len(ids))], b
		default:
			c, d = ids[r.Rng.Intn(len(ids))], ids[r.Rng.Intn(len(ids))]
		}
		tcd, err := sendTopic(c, d, payload)
		if err != nil {
			return err
		}
		r.Count("channel-pair")
		r.AddCase(fmt.Sprintf("(CChanPair %s %s %s %s %s %s)", str(a), str(b), str(c), str(d), sim.CoqBytes([]byte(tab)), sim.CoqBytes([]byte(tcd))),
			map[string]interface{}{"kind": "channel-pair", "sig": "channel", "adapter": "oneonone", "a": a.String(), "b": b.String(), "c": c.String(), "d": d.String()}, true)
	}
	return nil
}

// c20MonitorCases: Connect subscribes to the pairwise topic and runs monitorTopic; the
// scripted subscription delivers messages of the local peer, of the channel's peer and
// (thirdParty) of other peers; Connect itself returns after its one-second peer wait.
func c20MonitorCases(r *Run, pools []*c20Pool, thirdParty bool) error {
	chans := 12
	if r.Tier == "thorough" {
		chans = 60
	}
	type mon struct {
		pool           *c20Pool
		poolN          int
		selfN, targetN int
		msgs           []c20Msg
		sub            *c20Sub
		drain          func() []iface.EventPubSubPayload
		closeAll       func()
		err            error
	}
	mons := make([]*mon, chans)
	var wg sync.WaitGroup
	for i := range mons {
		m := &mon{selfN: 1 + r.Rng.Intn(3)}
		m.poolN = i % len(pools) // pool 0: key-derived ids; the others: ids of different lengths with equal prefixes
		m.pool = pools[m.poolN]
		pool := m.pool
		m.targetN = 1 + (m.selfN+r.Rng.Intn(2))%3
		senders := []int{m.selfN, m.targetN}
		if thirdParty {
			senders = append(senders, 4, 5)
		}
		m.msgs = genMsgs(r, pool, senders, 1+r.Rng.Intn(30))
		if thirdParty {
			m.msgs = append(m.msgs, c20Msg{from: pool.id(4), data: []byte("third")})
		}
		m.sub = &c20Sub{msgs: m.msgs, done: make(chan struct{})}
		mons[i] = m
	}
	for _, m := range mons {
		m := m
		self, target := m.pool.id(m.selfN), m.pool.id(m.targetN)
		api := newC20API(self)
		api.ps.subFn = func(context.Context, string) (coreiface.PubSubSubscription, error) { return m.sub, nil }
		api.ps.peersFn = func(context.Context, string) ([]peer.ID, error) { return []peer.ID{target}, nil }
		em, drain, closeSub, err := c20NewEmitter()
		if err != nil {
			return err
		}
		ctx, cancel := context.WithCancel(context.Background())
		ch, err := oneonone.NewChannelFactory(api)(ctx, em, nil)
		if err != nil {
			cancel()
			return err
		}
		m.drain = drain
		m.closeAll = func() { _ = ch.Close(); cancel(); closeSub() }
		wg.Add(1)
		go func() {
			defer wg.Done()
			m.err = ch.Connect(ctx, target)
		}()
	}
	wg.Wait()
	for i, m := range mons {
		hung := false
		select {
		case <-m.sub.done:
		case <-time.After(c20Watchdog):
			hung = true
		}
		evs := m.drain()
		m.closeAll()
		pool := m.pool
		descr := map[string]interface{}{"kind": "monitor", "sig": "monitor", "adapter": "oneonone", "self": m.selfN, "target": m.targetN, "msgs": len(m.msgs), "chan": i,
			"ids": []string{pool.id(1).String(), pool.id(2).String(), pool.id(3).String(), pool.id(4).String(), pool.id(5).String()}}
		r.Count(fmt.Sprintf("monitor-ids:pool%d", m.poolN))
		if thirdParty {
			descr["sig"] = "monitor:third-party"
		}
		if m.err != nil {
			return fmt.Errorf("oneonone Connect: %w", m.err)
		}
		if hung {
			r.AddDirect("monitor:hang", "oneonone monitorTopic did not consume the scripted messages within the watchdog", descr)
			continue
		}
		obs := make([]string, len(evs))
		for k, e := range evs {
			obs[k] = fmt.Sprintf("(%s, %s)", sim.CoqN(pool.n(e.Peer)), sim.CoqBytes(e.Payload))
		}
		if thirdParty {
			r.Count("monitor:third-party")
		} else {
			r.Count("monitor")
		}
		r.AddCase(fmt.Sprintf("(CMonitor %s %s %s %s)", sim.CoqN(m.selfN), sim.CoqN(m.targetN), c20CoqMsgs(pool, m.msgs), sim.CoqList(obs)), descr, len(evs) > 0 && len(evs) < len(m.msgs))
	}
	return nil
}

// ---------------------------------------------------------------------------------------
// (c) directchannel over in-memory libp2p hosts
// ---------------------------------------------------------------------------------------

// c20Host wraps a host: it counts the streams opened through it per destination and the
// stream-handler invocations that have returned, so that "the receiver has finished with
// everything sent so far" is a state, not a sleep.  A panic of the handler is recorded
// instead of killing the driver.
type c20Host struct {
	host.Host
	mu       sync.Mutex
	opened   map[peer.ID]int
	finished int64
	panics   int64
}

func newC20Host(h host.Host) *c20Host { return &c20Host{Host: h, opened: map[peer.ID]int{}} }

func (h *c20Host) SetStreamHandler(pid protocol.ID, f network.StreamHandler) {
	h.Host.SetStreamHandler(pid, func(s network.Stream) {
		defer atomic.AddInt64(&h.finished, 1)
		defer func() {
			if x := recover(); x != nil {
				atomic.AddInt64(&h.panics, 1)
				_ = s.Reset()
			}
		}()
		f(s)
	})
}

func (h *c20Host) NewStream(ctx context.Context, p peer.ID, pids ...protocol.ID) (network.Stream, error) {
	s, err := h.Host.NewStream(ctx, p, pids...)
	if err == nil {
		h.mu.Lock()
		h.opened[p]++
		h.mu.Unlock()
	}
	return s, err
}

func (h *c20Host) openedTo(p peer.ID) int {
	h.mu.Lock()
	defer h.mu.Unlock()
	return h.opened[p]
}

type c20Node struct {
	h     *c20Host
	dc    iface.DirectChannel
	drain func() []iface.EventPubSubPayload
	close func()
}

type c20Net struct {
	mn      mocknet.Mocknet
	nodes   []*c20Node // 0,1: senders A,B; 2: receiver C
	capture host.Host  // D: raw handler capturing what Send writes
	wire    chan []byte
	num     map[peer.ID]int

	sendErrs int // Send calls that returned an error (informational)
}

func newC20Net(ctx context.Context) (*c20Net, error) {
	n := &c20Net{mn: mocknet.New(), wire: make(chan []byte, 4), num: map[peer.ID]int{}}
	for i := 0; i < 3; i++ {
		h, err := n.mn.GenPeer()
		if err != nil {
			return nil, err
		}
		wh := newC20Host(h)
		em, drain, closeSub, err := c20NewEmitter()
		if err != nil {
			return nil, err
		}
		dc, err := directchannel.InitDirectChannelFactory(zap.NewNop(), wh)(ctx, em, nil)
		if err != nil {
			return nil, err
		}
		n.nodes = append(n.nodes, &c20Node{h: wh, dc: dc, drain: drain, close: closeSub})
		n.num[h.ID()] = i + 1
	}
	d, err := n.mn.GenPeer()
	if err != nil {
		return nil, err
	}
	n.capture = d
	d.SetStreamHandler(directchannel.PROTOCOL, func(s network.Stream) {
		b, _ := io.ReadAll(s)
		n.wire <- b
		_ = s.Close()
	})
	if err := n.mn.LinkAll(); err != nil {
		return nil, err
	}
	if err := n.mn.ConnectAllButSelf(); err != nil {
		return nil, err
	}
	return n, nil
}

func (n *c20Net) Close() {
	for _, nd := range n.nodes {
		_ = nd.dc.Close()
		nd.close()
	}
	_ = n.mn.Close()
}

// quiet waits until the receiver's handler has returned for every stream opened to it.
func (n *c20Net) quiet(recv int) bool {
	deadline := time.Now().Add(c20Watchdog)
	rid := n.nodes[recv].h.ID()
	for {
		want := 0
		for _, nd := range n.nodes {
			want += nd.h.openedTo(rid)
		}
		if int(atomic.LoadInt64(&n.nodes[recv].h.finished)) >= want {
			return true
		}
		if time.Now().After(deadline) {
			return false
		}
		time.Sleep(200 * time.Microsecond)
	}
}

type c20Delivery struct {
	delivered, same, senderOK bool
	got                       []byte
	n                         int
}

// sendAndObserve: one Send from node `from` to node `to`, then what the receiver emitted.
func (n *c20Net) sendAndObserve(ctx context.Context, from, to int, payload []byte) (c20Delivery, bool) {
	// the error of Send is not an observable: for a refused frame it depends on how far the
	// writer got before the receiver reset the stream
	if err := n.nodes[from].dc.Send(ctx, n.nodes[to].h.ID(), payload); err != nil {
		n.sendErrs++
	}
	ok := n.quiet(to)
	return n.observe(from, to, payload), ok
}

func (n *c20Net) observe(from, to int, payload []byte) c20Delivery {
	evs := n.nodes[to].drain()
	d := c20Delivery{n: len(evs), delivered: len(evs) > 0}
	if len(evs) == 1 {
		d.got = evs[0].Payload
		d.same = bytes.Equal(evs[0].Payload, payload)
		d.senderOK = evs[0].Peer == n.nodes[from].h.ID()
	}
	return d
}

// probe: a small fresh payload from the same sender must still get through, once, intact.
func (n *c20Net) probe(ctx context.Context, from, to int, tag string) bool {
	p := []byte("probe-" + tag)
	d, ok := n.sendAndObserve(ctx, from, to, p)
	return ok && d.n == 1 && d.same && d.senderOK
}

func c20Payload(r *Run, size int) []byte {
	p := make([]byte, size)
	r.Rng.Read(p)
	return p
}

func c20FrameCases(r *Run, ctx context.Context, net *c20Net) error {
	const limit = directchannel.DelimitedReadMaxSize
	sizes := []int{0, 1, 127, 128, 129, 16383, 16384, 16385, limit, limit + 1, limit - 1}
	nSmall, nMid, nBig := 40, 12, 3
	if r.Tier == "thorough" {
		sizes = append(sizes, 2097151, 2097152, limit+2, 2*limit, limit+1, limit)
		nSmall, nMid, nBig = 400, 100, 20
	}
	fixed := len(sizes)
	sizes = append(sizes, sizes[:fixed]...)
	for i := 0; i < nSmall; i++ {
		sizes = append(sizes, r.Rng.Intn(300))
	}
	for i := 0; i < nMid; i++ {
		sizes = append(sizes, 300+r.Rng.Intn(200000))
	}
	for i := 0; i < nBig; i++ {
		sizes = append(sizes, limit-40000+r.Rng.Intn(80000)) // around the limit, either side
	}
	for i, size := range sizes {
		from := r.Rng.Intn(2)
		if i < 2*fixed {
			from = i / fixed // every boundary size once from each sender
		}
		payload := c20Payload(r, size)
		before := net.sendErrs
		d, ok := net.sendAndObserve(ctx, from, 2, payload)
		if net.sendErrs > before {
			if size > limit {
				r.Count("frame:send-error-over-limit")
			} else {
				r.Count("frame:send-error-within-limit")
			}
		}
		descr := map[string]interface{}{"kind": "frame", "sig": "frame", "adapter": "directchannel", "len": size, "from": from + 1, "delivered_events": d.n}
		if !ok {
			r.AddDirect("frame:hang", "directchannel receiver did not finish handling a stream within the watchdog", descr)
			continue
		}
		later := net.probe(ctx, from, 2, fmt.Sprintf("%d-a", i)) && net.probe(ctx, 1-from, 2, fmt.Sprintf("%d-b", i))
		switch {
		case size > limit:
			r.Count("frame:over-limit")
		case size == limit:
			r.Count("frame:at-limit")
		case size >= 300:
			r.Count("frame:mid")
		default:
			r.Count("frame:small")
		}
		r.AddCase(fmt.Sprintf("(CFrame %s %s %s %s %s)", sim.CoqN(size), sim.CoqBool(d.delivered), sim.CoqBool(d.same), sim.CoqBool(d.senderOK), sim.CoqBool(later)), descr, true)
		if size < 300 {
			got := "None"
			if d.n == 1 {
				got = "(Some " + sim.CoqBytes(d.got) + ")"
			}
			r.AddCase(fmt.Sprintf("(CFrameB %s %s %s)", sim.CoqBytes(payload), got, sim.CoqBool(d.senderOK)),
				map[string]interface{}{"kind": "frame-bytes", "sig": "frame", "adapter": "directchannel", "len": size}, true)
			r.Count("frame-bytes")
		}
	}
	if p := atomic.LoadInt64(&net.nodes[2].h.panics); p > 0 {
		r.AddDirect("frame:panic", fmt.Sprintf("directchannel stream handler panicked %d time(s)", p), map[string]interface{}{"kind": "frame"})
	}
	return nil
}

// c20WireCases: what Send writes on the stream, captured by a plain handler on host D.
func c20WireCases(r *Run, ctx context.Context, net *c20Net) error {
	const limit = directchannel.DelimitedReadMaxSize
	sizes := []int{0, 1, 127, 128, 300, 16383, 16384, 2097152, limit, limit + 1}
	for i := 0; i < 10; i++ {
		sizes = append(sizes, r.Rng.Intn(300))
	}
	for _, size := range sizes {
		payload := c20Payload(r, size)
		_ = net.nodes[0].dc.Send(ctx, net.capture.ID(), payload)
		var wire []byte
		select {
		case wire = <-net.wire:
		case <-time.After(c20Watchdog):
			r.AddDirect("wire:hang", "nothing arrived at the capturing host", map[string]interface{}{"kind": "wire", "len": size})
			continue
		}
		descr := map[string]interface{}{"kind": "wire", "sig": "wire", "adapter": "directchannel", "len": size, "wire_len": len(wire)}
		r.Count("wire")
		if size <= 300 {
			r.AddCase(fmt.Sprintf("(CWire %s %s)", sim.CoqBytes(payload), sim.CoqBytes(wire)), descr, true)
			continue
		}
		hl := len(wire) - size
		if hl < 0 || hl > binary.MaxVarintLen64 {
			hl = 0
			if len(wire) <= 20 {
				hl = len(wire)
			}
		}
		r.AddCase(fmt.Sprintf("(CWireBig %s %s %s %s)", sim.CoqN(size), sim.CoqBytes(wire[:hl]), sim.CoqN(len(wire)-hl), sim.CoqBool(bytes.Equal(wire[hl:], payload))), descr, true)
	}
	return nil
}

// c20RawCases: byte strings written directly on a stream to the receiver's handler, then
// half-closed: truncated bodies, truncated / non-canonical / overlong length prefixes,
// lengths just over the limit, trailing bytes.  Length prefixes of 2^63 and above are
// excluded (C12: they crash the receiving process).
func c20RawCases(r *Run, ctx context.Context, net *c20Net) error {
	const limit = directchannel.DelimitedReadMaxSize
	uv := func(x uint64) []byte {
		b := make([]byte, binary.MaxVarintLen64)
		return b[:binary.PutUvarint(b, x)]
	}
	cat := func(xs ...[]byte) []byte { return bytes.Join(xs, nil) }
	body := func(n int) []byte { return c20Payload(r, n) }
	frames := [][]byte{
		{},                                     // nothing at all
		{0x80},                                 // truncated length
		{0xff, 0xff},                           // truncated length
		{0x00},                                 // empty payload
		{0x80, 0x00},                           // non-canonical 0
		cat([]byte{0x83, 0x00}, body(3)),       // non-canonical 3
		cat([]byte{0x83, 0x80, 0x00}, body(5)), // non-canonical 3 + trailing bytes
		cat(uv(5), body(4)),                    // body one short
		cat(uv(5), body(5)),                    // exact
		cat(uv(5), body(9)),                    // trailing bytes ignored
		cat(uv(1), []byte{}),                   // body missing
		uv(limit + 1),                          // over the limit, no body
		cat(uv(limit+1), body(64)),             // over the limit, some body
		cat(uv(limit), body(64)),               // at the limit but truncated
		cat(uv(1<<32), body(8)),                // far over the limit
		cat(uv(1<<62), body(8)),                // largest class that stays positive as int
		uv(1<<63 - 1),                          // 2^63-1: 9 bytes, still positive
		{0xff, 0xff, 0xff, 0xff, 0xff, 0xff, 0xff, 0xff, 0xff, 0x02},                     // 10th byte > 1: overflow
		{0x80, 0x80, 0x80, 0x80, 0x80, 0x80, 0x80, 0x80, 0x80, 0x80, 0x00},               // 11 bytes: overflow
		cat([]byte{0x80, 0x80, 0x80, 0x80, 0x80, 0x80, 0x80, 0x80, 0x80, 0x00}, body(2)), // 10-byte non-canonical 0
	}
	extra := 25
	if r.Tier == "thorough" {
		extra = 400
	}
	for i := 0; i < extra; i++ {
		declared := uint64(r.Rng.Intn(40))
		switch r.Rng.Intn(8) {
		case 0:
			declared = uint64(limit) + uint64(r.Rng.Intn(3)) - 1
		case 1:
			declared = uint64(r.Rng.Int63()) // below 2^63 by construction
		}
		hdr := uv(declared)
		if r.Rng.Intn(5) == 0 && len(hdr) < 9 { // non-canonical: continuation bit + zero byte
			hdr[len(hdr)-1] |= 0x80
			hdr = append(hdr, 0x00)
		}
		if r.Rng.Intn(8) == 0 {
			hdr = hdr[:r.Rng.Intn(len(hdr))] // truncated prefix (its last byte may still terminate it)
		}
		frames = append(frames, cat(hdr, body(r.Rng.Intn(60))))
	}
	for i, bs := range frames {
		// never feed a length prefix >= 2^63 (C12's finding: make() panics in the handler)
		if v, n := binary.Uvarint(bs); n > 0 && v >= 1<<63 {
			r.Count("raw:skipped-2^63")
			continue
		}
		from := r.Rng.Intn(2)
		s, err := net.nodes[from].h.NewStream(ctx, net.nodes[2].h.ID(), directchannel.PROTOCOL)
		if err != nil {
			return fmt.Errorf("raw stream: %w", err)
		}
		if len(bs) > 0 {
			_, _ = s.Write(bs)
		}
		_ = s.CloseWrite()
		ok := net.quiet(2)
		evs := net.nodes[2].drain()
		_ = s.Reset()
		descr := map[string]interface{}{"kind": "raw", "sig": "raw", "adapter": "directchannel", "bytes": len(bs), "events": len(evs)}
		if !ok {
			r.AddDirect("raw:hang", "directchannel receiver did not finish handling a raw stream within the watchdog", descr)
			continue
		}
		got, senderOK := "None", true
		if len(evs) >= 1 {
			got = "(Some " + sim.CoqBytes(evs[0].Payload) + ")"
			senderOK = len(evs) == 1 && evs[0].Peer == net.nodes[from].h.ID()
		}
		later := net.probe(ctx, from, 2, fmt.Sprintf("raw-%d", i))
		r.Count("raw")
		if len(evs) > 0 {
			r.Count("raw:delivered")
		}
		r.AddCase(fmt.Sprintf("(CRaw %s %s %s %s)", sim.CoqBytes(bs), got, sim.CoqBool(senderOK), sim.CoqBool(later)), descr, true)
	}
	return nil
}

// c20InterleaveCases: A and B send concurrently to C; every frame within the limit must
// arrive exactly once, intact, attributed to its sender, whatever the interleaving.
func c20InterleaveCases(r *Run, ctx context.Context, net *c20Net) error {
	const limit = directchannel.DelimitedReadMaxSize
	rounds := 6
	if r.Tier == "thorough" {
		rounds = 40
	}
	for ri := 0; ri < rounds; ri++ {
		type item struct {
			sender, id int
			data       []byte
			yield      int
		}
		var plan [2][]item
		byHash := map[[32]byte]int{}
		id := 0
		for s := 0; s < 2; s++ {
			k := 3 + r.Rng.Intn(10)
			for j := 0; j < k; j++ {
				size := r.Rng.Intn(2000)
				switch r.Rng.Intn(12) {
				case 0:
					size = 50000 + r.Rng.Intn(400000)
				case 1:
					if ri%3 == 0 {
						size = limit + 1 + r.Rng.Intn(100)
					}
				case 2:
					size = 0
				}
				id++
				// content is unique per item: an 8-byte tag then random bytes
				data := c20Payload(r, size)
				if size >= 8 {
					binary.BigEndian.PutUint64(data, uint64(ri)<<32|uint64(id))
				}
				it := item{sender: s, id: id, data: data, yield: r.Rng.Intn(4)}
				if size >= 8 {
					byHash[sha256.Sum256(data)] = id
				} else {
					it.id = 0 // too short to be unique: identified by (sender, length) only
				}
				plan[s] = append(plan[s], it)
			}
		}
		var wg sync.WaitGroup
		for s := 0; s < 2; s++ {
			wg.Add(1)
			go func(s int) {
				defer wg.Done()
				for _, it := range plan[s] {
					for y := 0; y < it.yield; y++ {
						runtime.Gosched()
					}
					_ = net.nodes[s].dc.Send(ctx, net.nodes[2].h.ID(), it.data)
				}
			}(s)
		}
		wg.Wait()
		ok := net.quiet(2)
		evs := net.nodes[2].drain()
		descr := map[string]interface{}{"kind": "interleave", "sig": "interleave", "adapter": "directchannel", "sent": len(plan[0]) + len(plan[1]), "received": len(evs)}
		if !ok {
			r.AddDirect("interleave:hang", "directchannel receiver did not finish handling concurrent streams within the watchdog", descr)
			continue
		}
		type trip struct{ s, id, l int }
		var sent, recv []trip
		for s := 0; s < 2; s++ {
			for _, it := range plan[s] {
				sent = append(sent, trip{s + 1, it.id, len(it.data)})
			}
		}
		for _, e := range evs {
			t := trip{net.num[e.Peer], 0, len(e.Payload)}
			if len(e.Payload) >= 8 {
				if v, ok := byHash[sha256.Sum256(e.Payload)]; ok {
					t.id = v
				} else {
					t.id = 999999 // bytes that nobody sent
				}
			}
			recv = append(recv, t)
		}
		less := func(x []trip) func(i, j int) bool {
			return func(i, j int) bool {
				if x[i].s != x[j].s {
					return x[i].s < x[j].s
				}
				if x[i].id != x[j].id {
					return x[i].id < x[j].id
				}
				return x[i].l < x[j].l
			}
		}
		sort.Slice(recv, less(recv)) // arrival order across streams is not an observable
		coq := func(x []trip) string {
			out := make([]string, len(x))
			for i, t := range x {
				out[i] = fmt.Sprintf("(%s, %s, %s)", sim.CoqN(t.s), sim.CoqN(t.id), sim.CoqN(t.l))
			}
			return sim.CoqList(out)
		}
		r.Count("interleave")
		r.AddCase(fmt.Sprintf("(CInter %s %s)", coq(sent), coq(recv)), descr, true)
	}
	return nil
}

// ---------------------------------------------------------------------------------------
// (d) pubsubraw over go-libp2p-pubsub on in-memory hosts, over the configurations of the
// libp2p pubsub instance the adapter may be handed: router (floodsub, gossipsub), signing
// (default StrictSign; WithNoAuthor + content-derived message ids = StrictNoSign: messages
// carry neither author nor sequence number; WithMessageAuthor(another key of the host): the
// author differs from the id the adapter was given), two or three hosts, and with three
// either a full mesh or a line 1 - 2 - 3, where everything between 1 and 3 is relayed by 2
// (the hop a message arrives from is then not its author).
// ---------------------------------------------------------------------------------------

type c20RawCfg struct {
	router string // flood | gossip
	sign   string // signed | noauthor | otherauthor
	hosts  int
	line   bool
}

func (c c20RawCfg) String() string {
	topo := "full"
	if c.line {
		topo = "line"
	}
	return fmt.Sprintf("%s/%s/%d-%s", c.router, c.sign, c.hosts, topo)
}

func c20RawConfigs(r *Run) []c20RawCfg {
	var all []c20RawCfg
	for _, router := range []string{"flood", "gossip"} {
		for _, sign := range []string{"signed", "noauthor", "otherauthor"} {
			all = append(all, c20RawCfg{router, sign, 2, false}, c20RawCfg{router, sign, 3, false}, c20RawCfg{router, sign, 3, true})
		}
	}
	if r.Tier == "thorough" {
		out := append([]c20RawCfg(nil), all...)
		for i := 0; i < 12; i++ {
			out = append(out, all[r.Rng.Intn(len(all))])
		}
		return out
	}
	out := []c20RawCfg{
		{"flood", "signed", 3, false}, // the one configuration there was
		{"flood", "noauthor", 3, true},
		{"flood", "noauthor", 2, false},
		{"flood", "otherauthor", 3, true},
		{"gossip", "noauthor", 3, true},
		{"gossip", "signed", 3, false},
		{"gossip", "otherauthor", 2, false},
	}
	for i := 0; i < 3; i++ {
		out = append(out, all[r.Rng.Intn(len(all))])
	}
	return out
}

func c20RawPubSubCases(r *Run) error {
	start := time.Now()
	cfgs := c20RawConfigs(r)
	for ri, cfg := range cfgs {
		if err := c20RawPubSubRound(r, ri, cfg); err != nil {
			return fmt.Errorf("pubsubraw %s: %w", cfg, err)
		}
	}
	r.Notes = append(r.Notes, fmt.Sprintf("pubsubraw: %d rounds in %.1f s", len(cfgs), time.Since(start).Seconds()))
	return nil
}

func c20ContentMsgID(m *pubsubpb.Message) string {
	h := sha256.Sum256(m.Data)
	return string(h[:])
}

func c20RawPubSubRound(r *Run, ri int, cfg c20RawCfg) error {
	nodes := cfg.hosts
	ctx, cancel := context.WithCancel(context.Background())
	defer cancel()
	mn := mocknet.New()
	defer mn.Close()
	type node struct {
		h      host.Host
		topic  iface.PubSubTopic
		nbrs   []int // numbers of the directly connected nodes
		mu     sync.Mutex
		got    [][]byte
		peerEv []c20Ev
	}
	ns := make([]*node, nodes)
	num := map[peer.ID]int{}
	for i := range ns {
		h, err := mn.GenPeer()
		if err != nil {
			return err
		}
		ns[i] = &node{h: h}
		num[h.ID()] = i + 1
	}
	linked := func(i, j int) bool { return i != j && (!cfg.line || i-j == 1 || j-i == 1) }
	for i := range ns {
		for j := range ns {
			if linked(i, j) {
				ns[i].nbrs = append(ns[i].nbrs, j+1)
				if i < j {
					if _, err := mn.LinkPeers(ns[i].h.ID(), ns[j].h.ID()); err != nil {
						return err
					}
				}
			}
		}
	}
	topicName := fmt.Sprintf("/orbitdb/verif/raw-%d", ri)
	const heartbeat = 100 * time.Millisecond
	for _, n := range ns {
		n := n
		var opts []p2ppubsub.Option
		switch cfg.sign {
		case "noauthor":
			opts = append(opts, p2ppubsub.WithNoAuthor(), p2ppubsub.WithMessageIdFn(c20ContentMsgID))
		case "otherauthor":
			priv, pub, err := crypto.GenerateEd25519Key(r.Rng)
			if err != nil {
				return err
			}
			author, err := peer.IDFromPublicKey(pub)
			if err != nil {
				return err
			}
			if err := n.h.Peerstore().AddPrivKey(author, priv); err != nil {
				return err
			}
			if err := n.h.Peerstore().AddPubKey(author, pub); err != nil {
				return err
			}
			opts = append(opts, p2ppubsub.WithMessageAuthor(author))
		}
		var ps *p2ppubsub.PubSub
		var err error
		if cfg.router == "gossip" {
			gp := p2ppubsub.DefaultGossipSubParams()
			gp.HeartbeatInitialDelay = 10 * time.Millisecond
			gp.HeartbeatInterval = heartbeat
			ps, err = p2ppubsub.NewGossipSub(ctx, n.h, append(opts, p2ppubsub.WithGossipSubParams(gp))...)
		} else {
			ps, err = p2ppubsub.NewFloodSub(ctx, n.h, opts...)
		}
		if err != nil {
			return err
		}
		// the adapter is given the host's id, as baseorbitdb does (the id of the node's own key)
		t, err := pubsubraw.NewPubSub(ps, n.h.ID(), nil, nil).TopicSubscribe(ctx, topicName)
		if err != nil {
			return err
		}
		n.topic = t
		msgs, err := t.WatchMessages(ctx)
		if err != nil {
			return err
		}
		go func() {
			for m := range msgs {
				n.mu.Lock()
				n.got = append(n.got, append([]byte(nil), m.Content...))
				n.mu.Unlock()
			}
		}()
		pevs, err := t.WatchPeers(ctx)
		if err != nil {
			return err
		}
		go func() {
			for e := range pevs {
				n.mu.Lock()
				switch x := e.(type) {
				case *iface.EventPubSubJoin:
					n.peerEv = append(n.peerEv, c20Ev{true, num[x.Peer]})
				case *iface.EventPubSubLeave:
					n.peerEv = append(n.peerEv, c20Ev{false, num[x.Peer]})
				}
				n.mu.Unlock()
			}
		}()
	}
	for i := range ns {
		for j := i + 1; j < nodes; j++ {
			if linked(i, j) {
				if _, err := mn.ConnectPeers(ns[i].h.ID(), ns[j].h.ID()); err != nil {
					return err
				}
			}
		}
	}
	until := func(cond func() bool) bool {
		deadline := time.Now().Add(c20Watchdog)
		for !cond() {
			if time.Now().After(deadline) {
				return false
			}
			time.Sleep(time.Millisecond)
		}
		return true
	}
	// everybody sees its neighbours on the topic (positive expectation, polled)
	if !until(func() bool {
		for _, n := range ns {
			ps, _ := n.topic.Peers(ctx)
			if len(ps) != len(n.nbrs) {
				return false
			}
		}
		return true
	}) {
		return fmt.Errorf("in-memory pubsub topology did not form")
	}
	count := func(n *node, pred func([]byte) bool) int {
		n.mu.Lock()
		defer n.mu.Unlock()
		c := 0
		for _, g := range n.got {
			if pred(g) {
				c++
			}
		}
		return c
	}
	isWarm := func(b []byte) bool { return len(b) == 3 && b[0] == 0xFD }
	isEnd := func(b []byte) bool { return len(b) == 2 && b[0] == 0xEE }
	if cfg.router == "gossip" {
		// gossipsub relays over a mesh that is built by its heartbeat, and what it does with a
		// message published before that is libp2p's business, not the adapter's: warm-up messages
		// (not part of the observation) are published until one of every node has reached every
		// other node, and the heartbeat gets a few more rounds to complete the meshes
		round := 0
		if !until(func() bool {
			done := true
			for i, n := range ns {
				for j := range ns {
					if j != i && count(n, func(b []byte) bool { return isWarm(b) && int(b[1]) == j+1 }) == 0 {
						done = false
					}
				}
			}
			if done {
				return true
			}
			if round < 250 {
				for i, n := range ns {
					_ = n.topic.Publish(ctx, []byte{0xFD, byte(i + 1), byte(round)})
				}
				round++
			}
			time.Sleep(heartbeat / 2)
			return false
		}) {
			return fmt.Errorf("gossipsub did not carry a message between every pair of in-memory hosts")
		}
		time.Sleep(3 * heartbeat)
		r.Dist["raw:gossip-warmup-rounds"] += round
	}
	// phase 1: every node publishes its messages
	var all []c20Msg
	var allN []int
	for i, n := range ns {
		k := 1 + r.Rng.Intn(12)
		for j := 0; j < k; j++ {
			data := []byte{byte(i + 1), byte(j)} // unique: pubsub itself deduplicates by message id (content-derived without authors)
			data = append(data, c20Payload(r, r.Rng.Intn(5))...)
			if err := n.topic.Publish(ctx, data); err != nil {
				return err
			}
			all = append(all, c20Msg{from: n.h.ID(), data: data})
			allN = append(allN, i+1)
		}
	}
	arrived := until(func() bool {
		for i, n := range ns {
			want := 0
			for _, s := range allN {
				if s != i+1 {
					want++
				}
			}
			if count(n, func(b []byte) bool { return !isEnd(b) && !isWarm(b) && int(b[0]) != i+1 }) < want {
				return false
			}
		}
		return true
	})
	// phase 2: sentinels.  A node's own phase-1 messages entered its subscription queue
	// before any other node received them, hence before any sentinel published afterwards
	// reached it: once all sentinels are seen, every own message has been through the filter.
	for i, n := range ns {
		if err := n.topic.Publish(ctx, []byte{0xEE, byte(i + 1)}); err != nil {
			return err
		}
		all = append(all, c20Msg{from: n.h.ID(), data: []byte{0xEE, byte(i + 1)}})
	}
	ended := until(func() bool {
		for _, n := range ns {
			if count(n, isEnd) < nodes-1 {
				return false
			}
		}
		return true
	})
	for i, n := range ns {
		n.mu.Lock()
		var got [][]byte
		for _, g := range n.got {
			if !isWarm(g) {
				got = append(got, g)
			}
		}
		pev := append([]c20Ev(nil), n.peerEv...)
		n.mu.Unlock()
		sort.Slice(got, func(a, b int) bool { return bytes.Compare(got[a], got[b]) < 0 }) // cross-sender order is not an observable
		msgs := make([]string, len(all))
		for k, m := range all {
			msgs[k] = fmt.Sprintf("(%s, %s)", sim.CoqN(num[m.from]), sim.CoqBytes(m.data))
		}
		relayed := cfg.line && i != 1
		descr := map[string]interface{}{"kind": "forward-raw", "sig": "forward:raw", "adapter": "pubsubraw", "config": cfg.String(),
			"router": cfg.router, "signing": cfg.sign, "hosts": nodes, "line": cfg.line, "relayed": relayed,
			"self": i + 1, "published": len(all), "received": len(got), "arrived": arrived, "ended": ended}
		r.Count("forward:raw")
		r.Count("forward:raw:" + cfg.String())
		if relayed {
			r.Count("forward:raw:relayed-by-third-peer")
		}
		r.AddCase(fmt.Sprintf("(CForward false %s %s %s)", sim.CoqN(i+1), sim.CoqList(msgs), c20CoqPayloads(got)), descr, true)
		// membership events of libp2p pubsub passed through WatchPeers: every neighbour
		// joined exactly once (per-peer order kept, cross-peer order canonicalised)
		sort.SliceStable(pev, func(a, b int) bool { return pev[a].peer < pev[b].peer })
		r.Count("watch:raw")
		r.AddCase(fmt.Sprintf("(CWatch %s %s %s)", c20Snaps([][]int{n.nbrs}), c20Events([][]c20Ev{pev}), sim.CoqListN(n.nbrs)),
			map[string]interface{}{"kind": "watch-raw", "sig": "watch:raw", "adapter": "pubsubraw", "config": cfg.String(), "self": i + 1, "events": len(pev)}, true)
	}
	return nil
}

// ---------------------------------------------------------------------------------------

// C20: transport adapters.  (a) pubsubcoreapi over a scripted kubo PubSubAPI: membership
// polling/diffing and the self filter; (b) oneonone: pairwise channel names through Send,
// monitorTopic through Connect; (c) directchannel between in-memory libp2p hosts: frames
// from empty to beyond the limit, raw malformed frames, concurrent senders; (d) pubsubraw
// over floodsub on in-memory hosts.
func runC20(r *Run) error {
	pool, err := newC20Pool(r, 32)
	if err != nil {
		return err
	}
	if err := c20WatchCases(r, pool); err != nil {
		return err
	}
	if err := c20RewatchCases(r, pool); err != nil {
		return err
	}
	if err := c20ForwardCases(r, pool); err != nil {
		return err
	}
	if err := c20ChannelCases(r); err != nil {
		return err
	}
	// oneonone monitors: key-derived ids, and ids of different lengths whose string forms
	// ("1", "11", ...) resp. bytes are prefixes of one another
	pools := []*c20Pool{pool, {num: map[peer.ID]int{}}, {num: map[peer.ID]int{}}}
	for k := 1; k <= 5; k++ {
		pools[1].add(peer.ID(strings.Repeat("\x00", k)))
		pools[2].add(peer.ID(string(pool.id(7))[:30+k]))
	}
	if err := c20MonitorCases(r, pools, false); err != nil {
		return err
	}
	if err := c20MonitorCases(r, pools, true); err != nil {
		return err
	}
	ctx, cancel := context.WithCancel(context.Background())
	defer cancel()
	net, err := newC20Net(ctx)
	if err != nil {
		return err
	}
	defer net.Close()
	if err := c20FrameCases(r, ctx, net); err != nil {
		return err
	}
	if err := c20WireCases(r, ctx, net); err != nil {
		return err
	}
	if err := c20RawCases(r, ctx, net); err != nil {
		return err
	}
	if err := c20InterleaveCases(r, ctx, net); err != nil {
		return err
	}
	return c20RawPubSubCases(r)
}

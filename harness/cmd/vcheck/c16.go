package main

import (
	"bytes"
	"context"
	"fmt"
	"os"
	"runtime"
	"strings"
	"sync"
	"sync/atomic"
	"time"

	ipfslog "berty.tech/go-ipfs-log"
	"berty.tech/go-orbit-db/events"
	"berty.tech/go-orbit-db/iface"
	"berty.tech/go-orbit-db/stores"
	"berty.tech/go-orbit-db/stores/operation"
	"github.com/libp2p/go-libp2p/core/event"
	"github.com/libp2p/go-libp2p/p2p/host/eventbus"
	"verifharness/sim"
)

func init() { drivers["C16"] = driver{"C16", runC16} }

// C16: store events are ordered, lossless and never ahead of the state they announce.
//
// Part B (first, while the process has few goroutines): the legacy per-subscriber emitter
// events.EventEmitter on its own: forced interleavings through the schedule point
// "emitter.after_dequeue" (exact comparison with the labelled transition system
// Model/Emitter.v) and free runs with random pacing (comparison with the envelope of the model).
// Part A: real stores; a bus subscriber and two legacy channel subscribers per store query
// the store from inside the subscriber upon every write / replicated event.
// Part C (c16conc.go): local writes running concurrently with the merge of replicated batches
// on one key-value / document store, every thread released one step at a time.
func runC16(r *Run) error {
	defer closeEnv()
	if err := c16Emitter(r); err != nil {
		return err
	}
	if err := c16Stores(r); err != nil {
		return err
	}
	if err := c16FreeWriters(r); err != nil {
		return err
	}
	if err := c16AncestorBatches(r); err != nil {
		return err
	}
	if err := c16MaxHistory(r); err != nil {
		return err
	}
	return c16Conc(r)
}

// ---------------------------------------------------------------------------------------
// observation helpers

const (
	c16Watchdog = 5 * time.Second // generous bound on positive expectations
	c16Cap      = 16              // capacity of the emitter's channel (events.go: make(chan Event, 16))
)

// obsBus is the real libp2p event bus; it only remembers the subscriptions made through it
// so that the driver can see how many events are still waiting for goroutine G1.
type obsBus struct {
	event.Bus
	mu   sync.Mutex
	subs []event.Subscription
}

func (b *obsBus) Subscribe(t interface{}, opts ...event.SubscriptionOpt) (event.Subscription, error) {
	s, err := b.Bus.Subscribe(t, opts...)
	if err == nil {
		b.mu.Lock()
		b.subs = append(b.subs, s)
		b.mu.Unlock()
	}
	return s, err
}

func (b *obsBus) pending() int {
	b.mu.Lock()
	defer b.mu.Unlock()
	n := 0
	for _, s := range b.subs {
		n += len(s.Out())
	}
	return n
}

// emitterGoroutines returns the scheduler wait states of all goroutines G1
// (handleSubscriber.func1: bus -> channel/overflow list) and G2 (handleSubscriber.func2:
// overflow list -> channel) of the process, read from a goroutine dump.  A goroutine that is
// runnable or running has state "runnable"/"running"; one blocked in its select or in
// sync.Cond.Wait reports that.  This is the only way to observe, without touching the code
// under test, that G1 has finished routing the last event it took.
func emitterGoroutines() (g1, g2 []string) {
	buf := make([]byte, 1<<20)
	for {
		n := runtime.Stack(buf, true)
		if n < len(buf) {
			buf = buf[:n]
			break
		}
		buf = make([]byte, 2*len(buf))
	}
	for _, blk := range bytes.Split(buf, []byte("\n\n")) {
		s := string(blk)
		is1 := strings.Contains(s, ".handleSubscriber.func1(")
		is2 := strings.Contains(s, ".handleSubscriber.func2(")
		if !is1 && !is2 {
			continue
		}
		st := ""
		if i := strings.IndexByte(s, '['); i >= 0 {
			if j := strings.IndexByte(s[i:], ']'); j > 0 {
				st = strings.TrimSpace(strings.Split(s[i+1:i+j], ",")[0])
			}
		}
		if is1 {
			g1 = append(g1, st)
		} else {
			g2 = append(g2, st)
		}
	}
	return
}

// c16Expired counts watchdog expirations.  On code where the property holds no positive
// expectation ever expires; once several have (events are being lost: the violation is
// established and reported), the remaining waits are shortened so that a run on broken code
// still ends in reasonable time.
var c16Expired int64

func patience() time.Duration {
	if atomic.LoadInt64(&c16Expired) >= 4 {
		return 250 * time.Millisecond
	}
	return c16Watchdog
}

// expect polls a positive expectation with the watchdog.
func expect(f func() bool) bool {
	if pollUntil(patience(), f) {
		return true
	}
	atomic.AddInt64(&c16Expired, 1)
	return false
}

func allEq(xs []string, want string) bool {
	for _, x := range xs {
		if x != want {
			return false
		}
	}
	return true
}

func pollUntil(d time.Duration, f func() bool) bool {
	deadline := time.Now().Add(d)
	for {
		if f() {
			return true
		}
		if time.Now().After(deadline) {
			return false
		}
		time.Sleep(50 * time.Microsecond)
	}
}

// routedAll waits until G1 has taken every event from the bus subscription and is blocked in
// its select again, i.e. every emitted event has been routed to the channel or to the
// overflow list.  Nobody may emit concurrently.
func routedAll(b *obsBus) bool {
	return expect(func() bool {
		if b.pending() != 0 {
			return false
		}
		g1, _ := emitterGoroutines()
		return allEq(g1, "select") && b.pending() == 0
	})
}

// emittersIdle: every G1 waits in its select and every G2 waits on the condition variable
// (overflow lists empty, nothing held).  With no emission going on this is stable.
func emittersIdle(d time.Duration) bool {
	return pollUntil(d, func() bool {
		g1, g2 := emitterGoroutines()
		return allEq(g1, "select") && allEq(g2, "sync.Cond.Wait")
	})
}

func recvOne(ch <-chan events.Event, d time.Duration) (int, bool) {
	select {
	case v, ok := <-ch:
		if !ok {
			return 0, false
		}
		n, _ := v.(int)
		return n, true
	case <-time.After(d):
		atomic.AddInt64(&c16Expired, 1)
		return 0, false
	}
}

// drainTo reads until `total` events have been received (or the watchdog expires on one
// read), then waits for the emitter to be idle and collects anything that still shows up
// (duplicates would).
func drainTo(ch <-chan events.Event, got []int, total int) []int {
	for len(got) < total {
		v, ok := recvOne(ch, patience())
		if !ok {
			return got
		}
		got = append(got, v)
	}
	emittersIdle(patience())
	for len(ch) > 0 {
		v, ok := recvOne(ch, patience())
		if !ok {
			break
		}
		got = append(got, v)
	}
	return got
}

func fifoOK(drained bool, emitted, got []int) bool {
	if drained && len(got) != len(emitted) {
		return false
	}
	if len(got) > len(emitted) {
		return false
	}
	for i := range got {
		if got[i] != emitted[i] {
			return false
		}
	}
	return true
}

func isPerm(emitted, got []int) bool {
	if len(emitted) != len(got) {
		return false
	}
	m := map[int]int{}
	for _, x := range emitted {
		m[x]++
	}
	for _, x := range got {
		m[x]--
		if m[x] < 0 {
			return false
		}
	}
	return true
}

// distinctSubset: got consists of distinct elements of emitted.
func distinctSubset(emitted, got []int) bool {
	m := map[int]bool{}
	for _, x := range emitted {
		m[x] = true
	}
	for _, x := range got {
		if !m[x] {
			return false
		}
		m[x] = false
	}
	return true
}

// pacedSig classifies a free run by what was observed: a pure reordering (nothing foreign,
// nothing duplicated and, when the subscriber drained, nothing lost -- exactly what
// Corr/C16.v model_allows accepts for the pinned commit) is the known ordering defect of
// the pinned commit wherever it shows up; anything else keeps the signature of the case.
func pacedSig(drained bool, emitted, got []int) string {
	if !fifoOK(drained, emitted, got) && distinctSubset(emitted, got) && (!drained || isPerm(emitted, got)) {
		return "emitter-reorder"
	}
	return "emitter-random"
}

func addPaced(r *Run, drained bool, emitted, got []int, d map[string]interface{}) {
	sig := pacedSig(drained, emitted, got)
	if _, ok := d["sig"]; !ok || sig == "emitter-reorder" {
		d["sig"] = sig
	}
	d["emitted"] = len(emitted)
	d["received"] = len(got)
	d["drained"] = drained
	r.AddCase(fmt.Sprintf("(CPaced %s %s %s)", sim.CoqBool(drained), sim.CoqListN(emitted), sim.CoqListN(got)), d, len(emitted) > c16Cap)
}

// ---------------------------------------------------------------------------------------
// Part B: the legacy emitter

func c16Emitter(r *Run) error {
	forced, paced := 60, 300
	if r.Tier == "thorough" {
		forced, paced = 500, 4000
	}
	// the smallest refutation schedule (capacity+1 events, one read, one more event) and its
	// neighbours first, then random parameters
	fixed := [][3]int{{1, 1, 1}, {1, 1, 2}, {2, 1, 1}, {1, 16, 1}, {1, 3, 20}, {4, 2, 1}}
	for i := 0; i < forced; i++ {
		var k, j, m int
		if i < len(fixed) {
			k, j, m = fixed[i][0], fixed[i][1], fixed[i][2]
		} else {
			k = 1 + r.Rng.Intn(4)
			j = 1 + r.Rng.Intn(c16Cap)
			if r.Rng.Intn(3) == 0 {
				j = 1 + r.Rng.Intn(3)
			}
			m = 1 + r.Rng.Intn(40)
			if r.Rng.Intn(3) == 0 {
				m = 1 + r.Rng.Intn(3)
			}
		}
		c16Forced(r, k, j, m)
	}
	for i := 0; i < paced; i++ {
		c16Paced(r, i)
	}
	return nil
}

// c16Forced drives one completely determined interleaving (see Corr/C16.v CForced).
func c16Forced(r *Run, k, j, m int) {
	sim.TheHooks.Reset()
	defer sim.TheHooks.Reset()
	bus := &obsBus{Bus: eventbus.NewBus()}
	em := &events.EventEmitter{}
	_ = em.SetBus(bus)
	ctx, cancel := context.WithCancel(context.Background())
	defer cancel()
	gate := sim.TheHooks.Park("emitter.after_dequeue", "", 1)
	ch := em.Subscribe(ctx)
	var emitted, got []int
	emit := func() {
		v := len(emitted) + 1
		emitted = append(emitted, v)
		em.Emit(ctx, v)
	}
	descr := map[string]interface{}{"kind": "forced", "sig": "emitter-reorder", "k": k, "j": j, "m": m}
	// abort: the scenario could not be established (only expected on mutated code); fall back
	// to a free drain so that loss/duplication is still reported
	abort := func(why string) {
		sim.TheHooks.Reset()
		got = drainTo(ch, got, len(emitted))
		r.Count("forced-aborted:" + why)
		descr["kind"] = "forced-aborted"
		descr["aborted"] = why
		addPaced(r, true, emitted, got, descr)
	}
	// 1. capacity + k events, no read: 16 in the channel, k in the overflow list; G2 takes the
	// first of them and parks between the unlock and the send
	for i := 0; i < c16Cap+k; i++ {
		emit()
	}
	if !gate.WaitArrived(patience()) {
		abort("g2-never-dequeued")
		return
	}
	if !routedAll(bus) || len(ch) != c16Cap {
		abort("phase1")
		return
	}
	// 2. k-1 times: next gate armed, G2 released (it blocks on the full channel), one read
	// (G2's event enters the channel), G2 takes the next overflow event and parks again
	for i := 1; i < k; i++ {
		next := sim.TheHooks.Park("emitter.after_dequeue", "", 1)
		gate.Release()
		v, ok := recvOne(ch, patience())
		if !ok {
			abort("phase2-read")
			return
		}
		got = append(got, v)
		if !next.WaitArrived(patience()) {
			abort("phase2-gate")
			return
		}
		gate = next
	}
	// now G2 holds the last overflow event and the overflow list is empty.
	// 3. j reads free j slots
	for i := 0; i < j; i++ {
		v, ok := recvOne(ch, patience())
		if !ok {
			abort("phase3-read")
			return
		}
		got = append(got, v)
	}
	// 4. m newer events; wait until G1 has routed all of them (no sleep: G1 is observed idle)
	for i := 0; i < m; i++ {
		emit()
	}
	if !routedAll(bus) {
		abort("phase4")
		return
	}
	chanlen := len(ch)
	direct := chanlen - (c16Cap - j)
	// 5. release G2, drain
	gate.Release()
	got = drainTo(ch, got, len(emitted))
	descr["direct_while_held"] = direct
	descr["reordered"] = !fifoOK(true, emitted, got)
	r.Count(fmt.Sprintf("forced:direct=%v", direct > 0))
	r.Count(fmt.Sprintf("forced:reordered=%v", !fifoOK(true, emitted, got)))
	r.AddCase(fmt.Sprintf("(CForced %s %s %s %s %s %s)", sim.CoqNat(k), sim.CoqNat(j), sim.CoqNat(m),
		sim.CoqListN(emitted), sim.CoqNat(chanlen), sim.CoqListN(got)), descr, true)
}

type pacedPlan struct {
	mode    string
	global  bool
	stopAt  int // >0: stop after that many events (not drained)
	segs    [][2]int
	got     []int
	drained bool
}

// c16Paced: one emitter goroutine (bursts of 1..64 events), 1..3 subscribers with their own
// pacing.  Stalls wait for the emission counter, never for time; the final drain is a
// positive expectation with a watchdog.
func c16Paced(r *Run, idx int) {
	sim.TheHooks.Reset()
	bus := &obsBus{Bus: eventbus.NewBus()}
	em := &events.EventEmitter{}
	_ = em.SetBus(bus)
	ctx, cancel := context.WithCancel(context.Background())
	defer cancel()
	nb := 1 + r.Rng.Intn(6)
	bursts := make([]int, nb)
	pauses := make([]int, nb)
	total := 0
	for i := range bursts {
		bursts[i] = 1 + r.Rng.Intn(64)
		pauses[i] = r.Rng.Intn(4)
		total += bursts[i]
	}
	nsub := 1 + r.Rng.Intn(3)
	modes := []string{"fast", "lagging", "late", "slow", "segments"}
	plans := make([]*pacedPlan, nsub)
	chs := make([]<-chan events.Event, nsub)
	for i := range plans {
		p := &pacedPlan{mode: modes[r.Rng.Intn(len(modes))], drained: true}
		if i == 0 && r.Rng.Intn(4) == 0 {
			p.global = true
		}
		if r.Rng.Intn(6) == 0 && total > 1 {
			p.stopAt = 1 + r.Rng.Intn(total-1)
			p.drained = false
		}
		// segments: read a few, then stall until the emitter is more than a channel ahead
		for n := 0; n < total; {
			k := 1 + r.Rng.Intn(40)
			n += k
			ahead := c16Cap + 1 + r.Rng.Intn(48)
			p.segs = append(p.segs, [2]int{k, ahead})
		}
		plans[i] = p
		if p.global {
			chs[i] = em.GlobalChannel(ctx)
		} else {
			chs[i] = em.Subscribe(ctx)
		}
	}
	var count int64 // events emitted so far
	waitEmitted := func(n int) {
		if n > total {
			n = total
		}
		pollUntil(patience(), func() bool { return int(atomic.LoadInt64(&count)) >= n })
	}
	var wg sync.WaitGroup
	for i := range plans {
		wg.Add(1)
		go func(p *pacedPlan, ch <-chan events.Event) {
			defer wg.Done()
			want := total
			if p.stopAt > 0 {
				want = p.stopAt
			}
			read := func(n int) bool {
				for ; n > 0 && len(p.got) < want; n-- {
					v, ok := recvOne(ch, patience())
					if !ok {
						return false
					}
					p.got = append(p.got, v)
				}
				return true
			}
			switch p.mode {
			case "late":
				waitEmitted(total)
			case "lagging":
				for len(p.got) < want {
					waitEmitted(len(p.got) + c16Cap + 2)
					if !read(1) {
						return
					}
				}
			case "slow":
				for len(p.got) < want {
					runtime.Gosched()
					if !read(1) {
						return
					}
				}
			case "segments":
				for _, sg := range p.segs {
					if !read(sg[0]) {
						return
					}
					waitEmitted(len(p.got) + sg[1])
				}
			}
			read(want)
		}(plans[i], chs[i])
	}
	emitted := make([]int, 0, total)
	for i, b := range bursts {
		for x := 0; x < b; x++ {
			v := len(emitted) + 1
			emitted = append(emitted, v)
			em.Emit(ctx, v)
			atomic.AddInt64(&count, 1)
		}
		for x := 0; x < pauses[i]*pauses[i]; x++ {
			runtime.Gosched()
		}
	}
	wg.Wait()
	// everything that was going to be delivered to a draining subscriber has been; anything
	// still arriving is a duplicate
	emittersIdleOnce := false
	for i, p := range plans {
		if p.drained && len(p.got) == total {
			if !emittersIdleOnce {
				// subscribers that stopped early keep their G2 busy: only wait when all drain
				all := true
				for _, q := range plans {
					all = all && q.drained
				}
				if all {
					emittersIdle(patience())
				}
				emittersIdleOnce = true
			}
			for len(chs[i]) > 0 {
				v, ok := recvOne(chs[i], patience())
				if !ok {
					break
				}
				p.got = append(p.got, v)
			}
		}
	}
	for i, p := range plans {
		r.Count("paced:" + p.mode)
		if !p.drained {
			r.Count("paced:stopped-early")
		}
		if total > c16Cap {
			r.Count("paced:overflow-possible")
		}
		addPaced(r, p.drained, emitted, p.got, map[string]interface{}{"kind": "paced", "scenario": idx, "subscriber": i,
			"mode": p.mode, "global_channel": p.global, "bursts": bursts, "subscribers": nsub})
	}
}

// ---------------------------------------------------------------------------------------
// Part A: store events

// evRec is one write / replicated event as seen by one subscriber, with the answers of the
// store queried from inside the subscriber before anything else.
type evRec struct {
	write   bool
	hashes  []string
	visible []bool
}

func (e evRec) key() string {
	if e.write {
		return "W:" + strings.Join(e.hashes, ",")
	}
	return "R:" + strings.Join(e.hashes, ",")
}

type evObserver struct {
	mu   sync.Mutex
	recs []evRec
}

func (o *evObserver) add(x evRec) {
	o.mu.Lock()
	o.recs = append(o.recs, x)
	o.mu.Unlock()
}

func (o *evObserver) snapshot() []evRec {
	o.mu.Lock()
	defer o.mu.Unlock()
	return append([]evRec(nil), o.recs...)
}

func (o *evObserver) count(write bool) int {
	o.mu.Lock()
	defer o.mu.Unlock()
	n := 0
	for _, x := range o.recs {
		if x.write == write {
			n++
		}
	}
	return n
}

// entryVisible: does the store reflect the entry right now (log and view)?
// Keys of key-value histories are written once and deleted at most once by their writer, so
// the answer cannot be changed back by later operations.
func entryVisible(st iface.Store, e ipfslog.Entry) bool {
	ctx := context.Background()
	if e == nil {
		return false
	}
	if _, ok := st.OpLog().Get(e.GetHash()); !ok {
		return false
	}
	switch x := st.(type) {
	case iface.EventLogStore:
		op, err := x.Get(ctx, e.GetHash())
		return err == nil && op != nil && op.GetEntry() != nil && op.GetEntry().GetHash().Equals(e.GetHash())
	case iface.KeyValueStore:
		op, err := operation.ParseOperation(e)
		if err != nil || op.GetKey() == nil {
			return false
		}
		v, err := x.Get(ctx, *op.GetKey())
		if err != nil {
			return false
		}
		switch op.GetOperation() {
		case "PUT":
			if bytes.Equal(v, op.GetValue()) && v != nil {
				return true
			}
			if v != nil {
				return false
			}
			// absent: fine only if the deletion of this key is in the log as well
			for _, o := range st.OpLog().Values().Slice() {
				if p, err := operation.ParseOperation(o); err == nil && p.GetOperation() == "DEL" && p.GetKey() != nil && *p.GetKey() == *op.GetKey() {
					return true
				}
			}
			return false
		case "DEL":
			return v == nil
		}
	}
	return true
}

// observe turns a bus/legacy event into a record (nil when it is not a write/replicated
// event of this store), querying the store immediately.
func observeEvent(st iface.Store, e interface{}) *evRec {
	switch ev := e.(type) {
	case stores.EventWrite:
		if ev.Address == nil || ev.Address.String() != st.Address().String() {
			return nil
		}
		return &evRec{write: true, hashes: []string{ev.Entry.GetHash().String()}, visible: []bool{entryVisible(st, ev.Entry)}}
	case stores.EventReplicated:
		if ev.Address == nil || ev.Address.String() != st.Address().String() {
			return nil
		}
		x := &evRec{}
		for _, en := range ev.Entries {
			x.hashes = append(x.hashes, en.GetHash().String())
			x.visible = append(x.visible, entryVisible(st, en))
		}
		return x
	}
	return nil
}

func coqNB(c *sim.Canon, x evRec) string {
	out := make([]string, len(x.hashes))
	for i, h := range x.hashes {
		out[i] = fmt.Sprintf("(%s, %s)", sim.CoqN(c.Hash.ID(h)), sim.CoqBool(x.visible[i]))
	}
	return sim.CoqList(out)
}

// seqIDs numbers a subscriber's event sequence (occurrence-indexed so that ids are distinct).
func seqIDs(in *sim.Interner, recs []evRec) []int {
	occ := map[string]int{}
	out := make([]int, len(recs))
	for i, x := range recs {
		k := x.key()
		occ[k]++
		out[i] = in.ID(fmt.Sprintf("%s#%d", k, occ[k]))
	}
	return out
}

func c16Stores(r *Run) error {
	hists := 36
	if r.Tier == "thorough" {
		hists = 300
	}
	ctx := context.Background()
	for hi := 0; hi < hists; hi++ {
		n := 2
		if r.Rng.Intn(3) == 0 {
			n = 1
		}
		typ := "keyvalue"
		if hi%3 == 2 {
			typ = "eventlog"
		}
		opts := &ScenOpts{}
		if n == 1 && r.Rng.Intn(2) == 0 {
			off := false
			opts.Replicate = &off // a purely local store: same events
			r.Count("stores:replicate=false")
		}
		restricted := n == 2 && r.Rng.Intn(3) == 0
		if restricted {
			opts.Writers = []int{0} // replica 1 is not in the write list: its writes fail
		}
		s, err := NewScen(n, typ, opts)
		if err != nil {
			return err
		}
		lctx, lcancel := context.WithCancel(context.Background())
		stop := make(chan struct{})
		var step int64 // number of the history step in progress (pacing of the stalled subscriber)
		var wg sync.WaitGroup
		busObs := make([]*evObserver, n)
		fastObs := make([]*evObserver, n)
		pacedObs := make([]*evObserver, n)
		subs := make([]event.Subscription, n)
		legacyChans := []<-chan events.Event{}
		for i := 0; i < n; i++ {
			st := s.Stores[i]
			busObs[i], fastObs[i], pacedObs[i] = &evObserver{}, &evObserver{}, &evObserver{}
			// subscriptions are made BEFORE anything is done with the store
			sub, err := st.EventBus().Subscribe([]interface{}{new(stores.EventWrite), new(stores.EventReplicated)}, eventbus.BufSize(8192))
			if err != nil {
				lcancel()
				return err
			}
			subs[i] = sub
			chFast := st.Subscribe(lctx)  //nolint:staticcheck // the deprecated channel API is the subject
			chPaced := st.Subscribe(lctx) //nolint:staticcheck
			legacyChans = append(legacyChans, chFast, chPaced)
			wg.Add(3)
			go func(o *evObserver) { // event bus subscriber
				defer wg.Done()
				for {
					select {
					case e, ok := <-sub.Out():
						if !ok {
							return
						}
						if x := observeEvent(st, e); x != nil {
							o.add(*x)
						}
					case <-stop:
						return
					}
				}
			}(busObs[i])
			go func(o *evObserver) { // legacy channel, reads at once and queries like the bus subscriber
				defer wg.Done()
				for {
					select {
					case e, ok := <-chFast:
						if !ok {
							return
						}
						if x := observeEvent(st, e); x != nil {
							o.add(*x)
						}
					case <-stop:
						return
					}
				}
			}(fastObs[i])
			// legacy channel, stalls: reads a few events, then nothing until a later step, ...,
			// finally everything.  The wildcard subscription behind it also carries progress and
			// pubsub events, so the 16-slot channel overflows into the list quickly.
			var segs [][2]int
			for k := 0; k < 3; k++ {
				segs = append(segs, [2]int{r.Rng.Intn(12), 1 + r.Rng.Intn(12)})
			}
			go func(o *evObserver) {
				defer wg.Done()
				take := func(e interface{}) {
					if x := observeEvent(st, e); x != nil {
						o.add(*x)
					}
				}
				for _, sg := range segs {
					for k := 0; k < sg[0]; k++ {
						select {
						case e, ok := <-chPaced:
							if !ok {
								return
							}
							take(e)
						case <-stop:
							return
						}
					}
					for atomic.LoadInt64(&step) < int64(sg[1]) {
						select {
						case <-stop:
							return
						case <-time.After(200 * time.Microsecond):
						}
					}
				}
				for {
					select {
					case e, ok := <-chPaced:
						if !ok {
							return
						}
						take(e)
					case <-stop:
						return
					}
				}
			}(pacedObs[i])
		}
		attempts := make([][]string, n) // per replica: returned entry hash or "" for a failed write
		okWrites := make([]int, n)
		live := make([][]string, n) // keys put and not deleted, per writer
		behind := make([]bool, n)   // an immediate subscriber of the replica missed an event
		wseq := 0
		write := func(i int) {
			st := s.Stores[i]
			var op operation.Operation
			var err error
			wseq++
			switch x := st.(type) {
			case iface.EventLogStore:
				op, err = x.Add(ctx, []byte(fmt.Sprintf("v%d", wseq)))
			case iface.KeyValueStore:
				if len(live[i]) > 0 && r.Rng.Intn(5) == 0 {
					j := r.Rng.Intn(len(live[i]))
					k := live[i][j]
					live[i] = append(live[i][:j], live[i][j+1:]...)
					op, err = x.Delete(ctx, k)
					r.Count("write:del")
				} else {
					k := fmt.Sprintf("r%dk%d", i, wseq)
					op, err = x.Put(ctx, k, []byte(fmt.Sprintf("v%d", wseq)))
					if err == nil {
						live[i] = append(live[i], k)
					}
				}
			}
			if err != nil || op == nil || op.GetEntry() == nil {
				attempts[i] = append(attempts[i], "")
				r.Count("write:failed")
				return
			}
			attempts[i] = append(attempts[i], op.GetEntry().GetHash().String())
			okWrites[i]++
			r.Count("write:ok")
			// the immediate subscribers must have handled the event before the history goes
			// on (their queries are about the state at reception); positive expectation
			if !behind[i] && !expect(func() bool {
				return busObs[i].count(true) >= okWrites[i] && fastObs[i].count(true) >= okWrites[i]
			}) {
				behind[i] = true // an event is missing: reported by the cases below; do not wait again
			}
		}
		steps := 6 + r.Rng.Intn(9)
		for sti := 1; sti <= steps; sti++ {
			atomic.StoreInt64(&step, int64(sti))
			i := r.Rng.Intn(n)
			switch c := r.Rng.Intn(10); {
			case c < 5 || n == 1 && c < 8:
				write(i)
			case c < 6 || n == 1:
				for k, nw := 0, 3+r.Rng.Intn(22); k < nw; k++ {
					write(i)
				}
				r.Count("write-burst")
			default:
				from := 1 - i
				before := map[string]bool{}
				for _, e := range s.Stores[i].OpLog().Values().Slice() {
					before[e.GetHash().String()] = true
				}
				ends0 := sim.TheHooks.Count("replicator.load_end")
				rep0 := busObs[i].count(false)
				if err := s.SyncFrom(i, from); err != nil {
					lcancel()
					return err
				}
				if !s.Settle() {
					r.AddDirect("hang:sync", "replication did not settle", map[string]interface{}{"hist": hi, "state": sim.LastSettleState})
				}
				ends := sim.TheHooks.Count("replicator.load_end") - ends0
				// Settle returns after the store has handled every batch (the replicated event is
				// emitted synchronously before that); the subscriber goroutines may still be
				// querying: wait for them
				if !behind[i] && !expect(func() bool {
					return busObs[i].count(false) >= rep0+ends && fastObs[i].count(false) >= rep0+ends
				}) {
					behind[i] = true
				}
				var fresh []int
				for _, e := range s.Stores[i].OpLog().Values().Slice() {
					if !before[e.GetHash().String()] {
						fresh = append(fresh, s.Canon.Hash.ID(e.GetHash().String()))
					}
				}
				var ann []string
				k := 0
				for _, x := range busObs[i].snapshot() {
					if !x.write {
						if k >= rep0 {
							ann = append(ann, coqNB(s.Canon, x))
						}
						k++
					}
				}
				r.AddCase(fmt.Sprintf("(CSync %s %s %s)", sim.CoqListN(fresh), sim.CoqList(ann), sim.CoqNat(ends)),
					map[string]interface{}{"kind": "sync", "sig": "store-replicated", "hist": hi, "type": typ, "replica": i, "fresh": len(fresh), "batches": ends, "events": len(ann)}, len(fresh) > 0)
				r.Count(fmt.Sprintf("sync:fresh=%v", len(fresh) > 0))
			}
		}
		// end of history: let the legacy subscribers catch up (positive expectation), wait for
		// the emitters to be idle so that late duplicates would be seen, then stop everybody
		atomic.StoreInt64(&step, 1<<30)
		s.Settle()
		caughtUp := func(o *evObserver, i int) bool {
			return o.count(true) >= busObs[i].count(true) && o.count(false) >= busObs[i].count(false)
		}
		expect(func() bool {
			for i := 0; i < n; i++ {
				if !caughtUp(fastObs[i], i) || !caughtUp(pacedObs[i], i) {
					return false
				}
			}
			return true
		})
		pollUntil(patience(), func() bool {
			g1, g2 := emitterGoroutines()
			if !allEq(g1, "select") || !allEq(g2, "sync.Cond.Wait") {
				return false
			}
			for _, ch := range legacyChans {
				if len(ch) > 0 {
					return false
				}
			}
			return true
		})
		close(stop)
		wg.Wait()
		lcancel()
		for _, sub := range subs {
			_ = sub.Close()
		}
		ids := sim.NewInterner()
		for i := 0; i < n; i++ {
			att := make([]string, len(attempts[i]))
			for k, h := range attempts[i] {
				if h == "" {
					att[k] = "None"
				} else {
					att[k] = "(Some " + sim.CoqN(s.Canon.Hash.ID(h)) + ")"
				}
			}
			bus := busObs[i].snapshot()
			writesOf := func(recs []evRec) []string {
				var out []string
				for _, x := range recs {
					if x.write {
						out = append(out, fmt.Sprintf("(%s, %s)", sim.CoqN(s.Canon.Hash.ID(x.hashes[0])), sim.CoqBool(x.visible[0])))
					}
				}
				return out
			}
			replOf := func(recs []evRec) []string {
				var out []string
				for _, x := range recs {
					if !x.write {
						out = append(out, coqNB(s.Canon, x))
					}
				}
				return out
			}
			d := func(kind, who string) map[string]interface{} {
				return map[string]interface{}{"kind": kind, "subscriber": who, "hist": hi, "type": typ, "replica": i,
					"attempts": len(attempts[i]), "ok": okWrites[i], "restricted": restricted}
			}
			dw := d("writes", "bus")
			dw["sig"] = "store-write"
			r.AddCase(fmt.Sprintf("(CWrites %s %s)", sim.CoqList(att), sim.CoqList(writesOf(bus))), dw, okWrites[i] >= 2)
			r.Count("writes:bus")
			busIDs := seqIDs(ids, bus)
			for _, lg := range []struct {
				who string
				o   *evObserver
			}{{"legacy-fast", fastObs[i]}, {"legacy-stalled", pacedObs[i]}} {
				recs := lg.o.snapshot()
				// same events in the same order as the bus subscriber, through the legacy emitter
				dl := d("legacy-store", lg.who)
				dl["sig"] = "store-legacy"
				addPaced(r, true, busIDs, seqIDs(ids, recs), dl)
				r.Count("legacy:" + lg.who)
				// and the same visibility at reception (only meaningful when the sequences match;
				// otherwise the case above already reports the difference)
				if fifoOK(true, busIDs, seqIDs(ids, recs)) {
					dv := d("writes", lg.who)
					dv["sig"] = "store-write"
					r.AddCase(fmt.Sprintf("(CWrites %s %s)", sim.CoqList(att), sim.CoqList(writesOf(recs))), dv, okWrites[i] >= 2)
					if rp := replOf(recs); len(rp) > 0 {
						dr := d("replicated-visible", lg.who)
						dr["sig"] = "store-replicated"
						r.AddCase(fmt.Sprintf("(CSync [] %s %s)", sim.CoqList(rp), sim.CoqNat(len(rp))), dr, true)
					}
				} else {
					r.Count("legacy:visibility-skipped")
				}
			}
		}
		r.Count("type=" + typ)
		r.Count(fmt.Sprintf("replicas=%d", n))
		if restricted {
			r.Count("restricted-writers")
		}
		s.Close()
	}
	return nil
}

// ---------------------------------------------------------------------------------------
// Part D: free-running concurrent writers on one store (no schedule is forced, so writers
// really queue up on the store's write lock).  A bus subscriber that keeps up queries the
// store upon every write event.  Whatever the interleaving, the property demands exactly one
// write event per returned entry, each visible when received (C16_store_events_never_ahead /
// _exactly_once quantify over every schedule), so no outcome of the race can be a false alarm.
// ---------------------------------------------------------------------------------------
func c16FreeWriters(r *Run) error {
	runs := 4
	if r.Tier == "thorough" {
		runs = 24
	}
	ctx := context.Background()
	for ri := 0; ri < runs; ri++ {
		typ := []string{"keyvalue", "eventlog"}[ri%2]
		// every other run on a store opened with Replicate = false (no topic, no announcer):
		// write events are part of the store's API all the same
		var sopts *ScenOpts
		if ri%4 >= 2 {
			off := false
			sopts = &ScenOpts{Replicate: &off}
			r.Count("free-writers:replicate=false")
		}
		s, err := NewScen(1, typ, sopts)
		if err != nil {
			return err
		}
		st := s.Stores[0]
		sub, err := st.EventBus().Subscribe([]interface{}{new(stores.EventWrite)}, eventbus.BufSize(8192))
		if err != nil {
			return err
		}
		obs := &evObserver{}
		stop := make(chan struct{})
		var swg sync.WaitGroup
		swg.Add(1)
		go func() {
			defer swg.Done()
			for {
				select {
				case e, ok := <-sub.Out():
					if !ok {
						return
					}
					if x := observeEvent(st, e); x != nil {
						obs.add(*x)
					}
				case <-stop:
					return
				}
			}
		}()
		nw := 2 + r.Rng.Intn(5)
		per := 3 + r.Rng.Intn(6)
		var mu sync.Mutex
		var returned []string
		var wg sync.WaitGroup
		for w := 0; w < nw; w++ {
			wg.Add(1)
			go func(w int) {
				defer wg.Done()
				for k := 0; k < per; k++ {
					var e ipfslog.Entry
					var err error
					switch x := st.(type) {
					case iface.KeyValueStore:
						var op operation.Operation
						op, err = x.Put(ctx, fmt.Sprintf("w%d-k%d", w, k), []byte(fmt.Sprintf("value-%d-%d-%d", ri, w, k)))
						if err == nil {
							e = op.GetEntry()
						}
					case iface.EventLogStore:
						var op operation.Operation
						op, err = x.Add(ctx, []byte(fmt.Sprintf("value-%d-%d-%d", ri, w, k)))
						if err == nil {
							e = op.GetEntry()
						}
					}
					if err == nil && e != nil {
						mu.Lock()
						returned = append(returned, e.GetHash().String())
						mu.Unlock()
					}
				}
			}(w)
		}
		wg.Wait()
		deadline := time.Now().Add(15 * time.Second)
		for obs.count(true) < len(returned) && time.Now().Before(deadline) {
			time.Sleep(2 * time.Millisecond)
		}
		s.Settle()
		close(stop)
		swg.Wait()
		_ = sub.Close()
		var evs []string
		for _, x := range obs.snapshot() {
			if x.write {
				evs = append(evs, fmt.Sprintf("(%s, %s)", sim.CoqN(s.Canon.Hash.ID(x.hashes[0])), sim.CoqBool(x.visible[0])))
			}
		}
		r.AddCase(fmt.Sprintf("(CWritesFree %s %s)", sim.CoqListN(idsOf(s.Canon, returned)), sim.CoqList(evs)),
			map[string]interface{}{"kind": "free-writers", "sig": "free-writers", "type": typ, "writers": nw, "writes": len(returned), "events": len(evs)}, len(returned) >= 4)
		r.Count("free-writers:" + typ)
		s.Close()
	}
	return nil
}

// ---------------------------------------------------------------------------------------
// Part E: merged batches that bring only ANCESTORS of the current heads (the heads do not
// change): a store reopened with a limited Load, then LoadMoreFrom of the newest entry left
// out.  The batch changes what queries return, so it must be announced by a replicated event
// whose entries are visible on receipt, like any other merged batch.
// ---------------------------------------------------------------------------------------
func c16AncestorBatches(r *Run) error {
	runs := 3
	if r.Tier == "thorough" {
		runs = 18
	}
	ctx := context.Background()
	for ri := 0; ri < runs; ri++ {
		typ := []string{"eventlog", "keyvalue"}[ri%2]
		s, err := NewScen(1, typ, nil)
		if err != nil {
			return err
		}
		total := 5 + r.Rng.Intn(8)
		for k := 0; k < total; k++ {
			// distinct keys: an older entry stays visible in the view after newer ones
			var err error
			switch x := s.Stores[0].(type) {
			case iface.KeyValueStore:
				_, err = x.Put(ctx, fmt.Sprintf("e%d", k), []byte(fmt.Sprintf("v%d-%d", ri, k)))
			case iface.EventLogStore:
				_, err = x.Add(ctx, []byte(fmt.Sprintf("v%d-%d", ri, k)))
			}
			if err != nil {
				return err
			}
		}
		all := s.Stores[0].OpLog().Values().Slice()
		// in two runs of three the request also names the head of ANOTHER database of the
		// instance: the merge refuses that log (it is not this database's), and what it refuses
		// must not be announced as replicated
		var foreign ipfslog.Entry
		if ri%3 != 0 {
			other, err := s.Reps[0].Orbit.Create(ctx, "other-"+s.Label, typ, nil)
			if err != nil {
				return fmt.Errorf("other database: %w", err)
			}
			switch x := other.(type) {
			case iface.KeyValueStore:
				_, err = x.Put(ctx, "e0", []byte(fmt.Sprintf("foreign-%d", ri)))
			case iface.EventLogStore:
				_, err = x.Add(ctx, []byte(fmt.Sprintf("foreign-%d", ri)))
			}
			if err != nil {
				return err
			}
			foreign = other.OpLog().Heads().Slice()[0]
			if err := other.Close(); err != nil {
				return err
			}
			r.Count("ancestor-batch:with-foreign-head")
		}
		keep := 1 + r.Rng.Intn(total-2)
		if err := c13Reopen(s, 0); err != nil {
			return err
		}
		st := s.Stores[0]
		if err := st.Load(ctx, keep); err != nil {
			return fmt.Errorf("limited load: %w", err)
		}
		s.Settle()
		sub, err := st.EventBus().Subscribe([]interface{}{new(stores.EventReplicated)}, eventbus.BufSize(1024))
		if err != nil {
			return err
		}
		obs := &evObserver{}
		stop := make(chan struct{})
		var swg sync.WaitGroup
		swg.Add(1)
		go func() {
			defer swg.Done()
			for {
				select {
				case e, ok := <-sub.Out():
					if !ok {
						return
					}
					if os.Getenv("VERIF_TRACE") != "" {
						fmt.Fprintf(os.Stderr, "C16E event %T\n", e)
					}
					if x := observeEvent(st, e); x != nil {
						obs.add(*x)
					}
				case <-stop:
					return
				}
			}
		}()
		before := map[string]bool{}
		for _, e := range st.OpLog().Values().Slice() {
			before[e.GetHash().String()] = true
		}
		// the newest entry that the limited load left out
		var from ipfslog.Entry
		for k := len(all) - 1; k >= 0; k-- {
			if !before[all[k].GetHash().String()] {
				from = all[k]
				break
			}
		}
		ends0 := sim.TheHooks.Count("replicator.load_end")
		if from != nil {
			sim.TheHooks.DirectLoads++ // a replicator request that does not go through Sync
			req := []ipfslog.Entry{from}
			if foreign != nil {
				req = append(req, foreign)
			}
			st.LoadMoreFrom(ctx, uint(total), req)
		}
		if !s.Settle() {
			r.AddDirect("hang:load-more", "store did not settle after LoadMoreFrom", map[string]interface{}{"run": ri, "state": sim.LastSettleState})
		}
		ends := sim.TheHooks.Count("replicator.load_end") - ends0
		deadline := time.Now().Add(10 * time.Second)
		for obs.count(false) < ends && time.Now().Before(deadline) {
			time.Sleep(2 * time.Millisecond)
		}
		close(stop)
		swg.Wait()
		_ = sub.Close()
		var fresh []int
		for _, e := range st.OpLog().Values().Slice() {
			if !before[e.GetHash().String()] {
				fresh = append(fresh, s.Canon.Hash.ID(e.GetHash().String()))
			}
		}
		var ann []string
		for _, x := range obs.snapshot() {
			if !x.write {
				ann = append(ann, coqNB(s.Canon, x))
			}
		}
		r.AddCase(fmt.Sprintf("(CSync %s %s %s)", sim.CoqListN(fresh), sim.CoqList(ann), sim.CoqNat(ends)),
			map[string]interface{}{"kind": "sync", "sig": "store-replicated", "route": "load-more-from", "foreign_head_in_request": foreign != nil, "type": typ, "total": total, "kept": keep, "fresh": len(fresh), "batches": ends, "events": len(ann)}, len(fresh) > 0)
		r.Count(fmt.Sprintf("ancestor-batch:fresh=%v", len(fresh) > 0))
		s.Close()
	}
	return nil
}

// ---------------------------------------------------------------------------------------
// Part F: replication into a store built with NewStoreOptions.MaxHistory (a limit on what Load
// brings in): merged batches that make the log longer than that limit; at every replicated
// event the announced entries are queried from inside the subscriber, as everywhere.
// ---------------------------------------------------------------------------------------
func c16MaxHistory(r *Run) error {
	runs := 2
	if r.Tier == "thorough" {
		runs = 12
	}
	ctx := context.Background()
	for ri := 0; ri < runs; ri++ {
		typ := []string{"eventlog", "keyvalue"}[ri%2]
		s, err := NewScen(2, typ, nil)
		if err != nil {
			return err
		}
		limit := 2 + r.Rng.Intn(4)
		if err := s.Stores[1].Close(); err != nil {
			return err
		}
		st, err := withMaxHistory(s.Reps[1].Orbit, limit, func() (iface.Store, error) {
			return s.Reps[1].Orbit.Open(ctx, s.Addr, s.OpenOptions())
		})
		if err != nil {
			return fmt.Errorf("open with MaxHistory: %w", err)
		}
		s.Stores[1] = st
		sub, err := st.EventBus().Subscribe([]interface{}{new(stores.EventReplicated)}, eventbus.BufSize(1024))
		if err != nil {
			return err
		}
		obs := &evObserver{}
		stop := make(chan struct{})
		var swg sync.WaitGroup
		swg.Add(1)
		go func() {
			defer swg.Done()
			for {
				select {
				case e, ok := <-sub.Out():
					if !ok {
						return
					}
					if x := observeEvent(st, e); x != nil {
						obs.add(*x)
					}
				case <-stop:
					return
				}
			}
		}()
		batches := 1 + r.Rng.Intn(2)
		k := 0
		for b := 0; b < batches; b++ {
			before := map[string]bool{}
			for _, e := range st.OpLog().Values().Slice() {
				before[e.GetHash().String()] = true
			}
			seen := len(obs.snapshot())
			n := limit + 1 + r.Rng.Intn(5)
			for i := 0; i < n; i++ {
				var err error
				switch x := s.Stores[0].(type) {
				case iface.KeyValueStore:
					_, err = x.Put(ctx, fmt.Sprintf("m%d", k), []byte(fmt.Sprintf("v%d-%d", ri, k)))
				case iface.EventLogStore:
					_, err = x.Add(ctx, []byte(fmt.Sprintf("v%d-%d", ri, k)))
				}
				if err != nil {
					return err
				}
				k++
			}
			ends0 := sim.TheHooks.Count("replicator.load_end")
			if err := s.SyncFrom(1, 0); err != nil {
				return err
			}
			if !s.Settle() {
				r.AddDirect("hang:sync", "replication into a store with MaxHistory did not settle", map[string]interface{}{"run": ri, "state": sim.LastSettleState})
			}
			ends := sim.TheHooks.Count("replicator.load_end") - ends0
			deadline := time.Now().Add(10 * time.Second)
			for len(obs.snapshot())-seen < ends && time.Now().Before(deadline) {
				time.Sleep(2 * time.Millisecond)
			}
			var fresh []int
			for _, e := range st.OpLog().Values().Slice() {
				if !before[e.GetHash().String()] {
					fresh = append(fresh, s.Canon.Hash.ID(e.GetHash().String()))
				}
			}
			var ann []string
			for _, x := range obs.snapshot()[seen:] {
				if !x.write {
					ann = append(ann, coqNB(s.Canon, x))
				}
			}
			r.AddCase(fmt.Sprintf("(CSync %s %s %s)", sim.CoqListN(fresh), sim.CoqList(ann), sim.CoqNat(ends)),
				map[string]interface{}{"kind": "sync", "sig": "store-replicated", "route": "sync-into-maxhistory-store", "type": typ, "max_history": limit, "batch": b, "written": n, "fresh": len(fresh), "batches": ends, "events": len(ann)}, len(fresh) > 0)
			r.Count("maxhistory-replication-batch")
		}
		close(stop)
		swg.Wait()
		_ = sub.Close()
		s.Close()
	}
	return nil
}

package main

import (
	"context"
	"crypto/sha256"
	"encoding/json"
	"fmt"
	"path/filepath"
	"strings"
	"time"

	"berty.tech/go-ipfs-log/io"
	orbitdb "berty.tech/go-orbit-db"
	"berty.tech/go-orbit-db/accesscontroller"
	"berty.tech/go-orbit-db/address"
	"berty.tech/go-orbit-db/iface"
	orbitutils "berty.tech/go-orbit-db/utils"
	cid "github.com/ipfs/go-cid"
	cbornode "github.com/ipfs/go-ipld-cbor"
	mbase "github.com/multiformats/go-multibase"
	mh "github.com/multiformats/go-multihash"
	"github.com/polydawn/refmt/obj/atlas"
	"verifharness/sim"
)

func init() {
	drivers["C14"] = driver{"C14", runC14}
	// same wire form as accesscontroller/ipfs cborWriteAccess: {"write": "<json list>"}
	cbornode.RegisterCborType(atlas.BuildEntry(c14WriteAccess{}).StructMap().
		AddField("Write", atlas.StructMapEntry{SerialName: "write"}).Complete())
}

type c14WriteAccess struct{ Write string }

// c14Tok interns segment texts and CID texts in one number space ("orbitdb" = 0).
type c14Tok struct {
	m    map[string]int
	keys []string
}

func (t *c14Tok) id(s string) int {
	if v, ok := t.m[s]; ok {
		return v
	}
	v := len(t.keys)
	t.m[s] = v
	t.keys = append(t.keys, s)
	return v
}

func (t *c14Tok) seg(s string) string {
	switch s {
	case "":
		return "SEmpty"
	case ".":
		return "SDot"
	case "..":
		return "SDotDot"
	}
	return "(SName " + sim.CoqN(t.id(s)) + ")"
}

// split renders a string in split form (strings.Split(s, "/")).
func (t *c14Tok) split(s string) string {
	parts := strings.Split(s, "/")
	out := make([]string, len(parts))
	for i, p := range parts {
		out[i] = t.seg(p)
	}
	return sim.CoqList(out)
}

// pathSegs renders an address path ("" = no segment).
func (t *c14Tok) pathSegs(p string) string {
	if p == "" {
		return "[]"
	}
	return t.split(p)
}

func hasDotDot(name string) bool {
	for _, p := range strings.Split(name, "/") {
		if p == ".." {
			return true
		}
	}
	return false
}

// c14DotDotAfterCid: the first part (after an optional "/orbitdb/") decodes as a CID and a
// later part is ".." — the strings that the ".." test of address.IsValid is about.
func c14DotDotAfterCid(s string) bool {
	parts := strings.Split(strings.TrimPrefix(s, "/orbitdb/"), "/")
	if _, err := cid.Decode(parts[0]); err != nil {
		return false
	}
	return hasDotDot(strings.Join(parts[1:], "/"))
}

var c14Types = map[string]int{"eventlog": 1, "keyvalue": 2, "docstore": 3, "nosuchtype": 4}

// c14Det is the observation of one DetermineAddress call.
type c14Det struct {
	class  string // "ok" | error class | "panic"
	errMsg string
	addr   address.Address
	str    string
	reOK   bool // Parse(String()) succeeded
	reRoot string
	rePath string
}

func c14ErrClass(err error) string {
	m := err.Error()
	switch {
	case strings.Contains(m, "invalid database type"):
		return "ENotFound"
	case strings.Contains(m, "given database name is an address"):
		return "EDenied"
	case strings.Contains(m, "not a valid OrbitDB address"):
		return "EBadInput"
	case strings.Contains(m, "invalid database name"):
		return "EOther"
	}
	return "EClosed" // no model counterpart: shows up as a disagreement
}

func c14ACParams(w []string, variant int) accesscontroller.ManifestParams {
	if len(w) == 0 {
		switch variant % 3 {
		case 0:
			return nil
		case 1:
			return &accesscontroller.CreateAccessControllerOptions{}
		default:
			return &accesscontroller.CreateAccessControllerOptions{Access: map[string][]string{"write": {}}}
		}
	}
	return &accesscontroller.CreateAccessControllerOptions{Access: map[string][]string{"write": append([]string(nil), w...)}}
}

func c14Determine(ctx context.Context, o orbitdb.OrbitDB, name, typ string, w []string, variant int) (d c14Det) {
	defer func() {
		if p := recover(); p != nil {
			d = c14Det{class: "panic", errMsg: fmt.Sprint(p)}
		}
	}()
	a, err := o.DetermineAddress(ctx, name, typ, &orbitdb.DetermineAddressOptions{AccessController: c14ACParams(w, variant)})
	if err != nil {
		return c14Det{class: c14ErrClass(err), errMsg: err.Error()}
	}
	d = c14Det{class: "ok", addr: a, str: a.String()}
	if b, err := address.Parse(d.str); err == nil {
		d.reOK, d.reRoot, d.rePath = true, b.GetRoot().String(), b.GetPath()
	}
	return d
}

// c14Parse is the observation of one address.Parse call (class "ok" | "EBadInput" | "panic").
func c14Parse(str string) (d c14Det, valid bool) {
	defer func() {
		if p := recover(); p != nil {
			d = c14Det{class: "panic", errMsg: fmt.Sprint(p)}
		}
	}()
	valid = address.IsValid(str) == nil
	a, err := address.Parse(str)
	if err != nil {
		return c14Det{class: "EBadInput", errMsg: err.Error()}, valid
	}
	d = c14Det{class: "ok", addr: a, str: a.String()}
	if b, err := address.Parse(d.str); err == nil {
		d.reOK, d.reRoot, d.rePath = true, b.GetRoot().String(), b.GetPath()
	}
	return d, valid
}

func (d c14Det) key() string {
	if d.class != "ok" {
		return d.class
	}
	return "ok|" + d.addr.GetRoot().String() + "|" + d.addr.GetPath() + "|" + d.str
}

// c14Manifest computes, without any of the code under test except the CBOR writer and the
// exported manifest types, the CID of the database manifest for (name, type, write list).
func c14Manifest(ctx context.Context, s *Scen, name, typ string, w []string) (cid.Cid, error) {
	js, _ := json.Marshal(w)
	wc, err := io.WriteCBOR(ctx, s.Env.API, &c14WriteAccess{Write: string(js)}, nil)
	if err != nil {
		return cid.Undef, err
	}
	acm, err := io.WriteCBOR(ctx, s.Env.API, &accesscontroller.Manifest{Type: "ipfs",
		Params: &accesscontroller.CreateAccessControllerOptions{Address: wc, SkipManifest: false}}, nil)
	if err != nil {
		return cid.Undef, err
	}
	return io.WriteCBOR(ctx, s.Env.API, &orbitutils.Manifest{Name: name, Type: typ, AccessController: "/ipfs/" + acm.String()}, nil)
}

func boolp(b bool) *bool { return &b }

// c14MemDir: the directory name that makes an instance keep its data in memory
const c14MemDir = ":memory:"

// c14Outcome classifies the error of a Create/Open: 0 proceeded, 1 refused by the
// local-presence rule, 2 anything else.
func c14Outcome(err error) int {
	if err == nil {
		return 0
	}
	m := err.Error()
	if strings.Contains(m, "already exists") || strings.Contains(m, "database doesn't exist") {
		return 1
	}
	return 2
}

type c14Input struct {
	name string
	typ  string
	wl   int // 0 none, 1.. explicit list index, -1 wildcard
}

func runC14(r *Run) error {
	defer closeEnv()
	ctx := context.Background()
	const nPeers = 4 // 0 creator, 1 opener, 2 third identity, 3 never sees any database
	s, err := NewScen(nPeers, "eventlog", &ScenOpts{NoOpen: true})
	if err != nil {
		return err
	}
	defer s.Close()
	tok := &c14Tok{m: map[string]int{}}
	tok.id("orbitdb")
	ids := make([]string, nPeers)
	identNo := map[string]int{"*": 100}
	for i, rep := range s.Reps {
		ids[i] = rep.Orbit.Identity().ID
		identNo[ids[i]] = i + 1
	}
	// instances that keep their data in memory: 4 = Directory ":memory:", 5 = Directory nil
	// (NewOrbitDBOptions' default).  They are used by the Create/Open chains only.
	const memA, memB = 4, 5
	for i, nilDir := range []bool{false, true} {
		idx := scenCounter*100 + memA + i
		nd := nilDir
		rep, err := s.Env.NewReplicaOpts(idx, s.Label, c14MemDir, sim.PeerIDFor(s.Label, idx), func(o *orbitdb.NewOrbitDBOptions) {
			if nd {
				o.Directory = nil
			}
		})
		if err != nil {
			return fmt.Errorf("instance in memory: %w", err)
		}
		s.Reps = append(s.Reps, rep)
	}
	// CreateDBOptions.Directory: 0 = unset, 1 = the instance's own directory, 2.. = another
	// directory (one set per instance: the cache a lookup opens there stays open, and locked,
	// until the instance is closed)
	dirOpt := func(peer, dir int) *string {
		switch dir {
		case 0:
			return nil
		case 1:
			p := s.Reps[peer].Dir
			return &p
		}
		p := filepath.Join(s.Env.Work, fmt.Sprintf("c14-alt-%s-%d-%d", s.Label, peer, dir-2))
		return &p
	}
	dirCoq := func(dir int) string {
		switch dir {
		case 0:
			return "DUnset"
		case 1:
			return "DInst"
		}
		return "(DOther " + sim.CoqN(dir-2) + ")"
	}
	dirName := func(dir int) string { return []string{"unset", "instance", "other-0", "other-1"}[dir] }
	// the Directory options of the n operations of one chain
	drawDirs := func(n int) []int {
		out := make([]int, n)
		fill := func(first, rest int) {
			for i := range out {
				out[i] = rest
			}
			out[0] = first
		}
		switch c := r.Rng.Intn(20); {
		case c < 5:
			fill(0, 0)
		case c < 9:
			fill(2, 2) // the same other directory on every call
		case c < 11:
			fill(2, 0) // on the first call only
		case c < 13:
			fill(0, 2) // on the later calls only
		case c < 14:
			fill(1, 1)
		case c < 15:
			fill(1, 2)
		case c < 17:
			fill(2, 3) // one directory on the first call, another one afterwards
		default:
			for i := range out {
				out[i] = r.Rng.Intn(4)
			}
		}
		return out
	}
	fakeA, fakeB := "02"+strings.Repeat("ab", 32), "03"+strings.Repeat("cd", 32)
	identNo[fakeA], identNo[fakeB] = 101, 102
	identList := func(w []string) string {
		out := make([]int, len(w))
		for i, x := range w {
			n, ok := identNo[x]
			if !ok {
				n = 200 + len(identNo)
				identNo[x] = n
			}
			out[i] = n
		}
		return sim.CoqListN(out)
	}
	writeLists := [][]string{
		nil, // none: creator default
		{ids[0]},
		{ids[1]},
		{ids[0], ids[1]},
		{ids[1], ids[0]},
		{ids[0], ids[0]},
		{fakeA},
		{ids[2], fakeA, fakeB},
		{"*"},
		{"*", ids[0]},
	}
	typeNames := []string{"eventlog", "keyvalue", "docstore", "nosuchtype"}

	// ---- CID material -------------------------------------------------------------------
	seed, err := s.Reps[0].Orbit.DetermineAddress(ctx, "seed-db", "keyvalue", &orbitdb.DetermineAddressOptions{
		AccessController: c14ACParams([]string{ids[1]}, 0)})
	if err != nil {
		return fmt.Errorf("seed address: %w", err)
	}
	realManifests := []string{seed.GetRoot().String()} // grows with every manifest produced in the run
	rawSum := sha256.Sum256([]byte(fmt.Sprintf("c14-no-such-block-%d", r.Seed)))
	rawMh, _ := mh.Encode(rawSum[:], mh.SHA2_256)
	ghost := cid.NewCidV1(cid.Raw, rawMh) // a CID nobody holds
	v0 := cid.NewCidV0(rawMh)
	cidTexts := func() []string {
		m := realManifests[r.Rng.Intn(len(realManifests))]
		mc, _ := cid.Decode(m)
		b58, _ := mc.StringOfBase(mbase.Base58BTC)
		b16, _ := mc.StringOfBase(mbase.Base16)
		b32u, _ := mc.StringOfBase(mbase.Base32Upper)
		return []string{m, m, m, realManifests[0], ghost.String(), v0.String(), b58, b16, b32u}
	}

	plain := []string{"a", "b", "db", "x1", "orbitdb", "ipfs", "_manifest", "A", "name.with.dots", "...", "..a", ".h", "a..", "-"}
	uni := []string{"данные", "数据", "é", "é", "🚀db", " ", "naïve"}
	spaced := []string{"my db", " ", "a b c", "tab\there", " lead", "trail ", "new\nline"}
	long1 := strings.Repeat("L", 300)
	randSeg := func() string {
		switch c := r.Rng.Intn(100); {
		case c < 30:
			return plain[r.Rng.Intn(len(plain))]
		case c < 40:
			return uni[r.Rng.Intn(len(uni))]
		case c < 48:
			return spaced[r.Rng.Intn(len(spaced))]
		case c < 58:
			return ""
		case c < 68:
			return "."
		case c < 84:
			return ".."
		case c < 98:
			ct := cidTexts()
			return ct[r.Rng.Intn(len(ct))]
		default:
			return long1
		}
	}
	randName := func() string {
		n := 1 + r.Rng.Intn(6)
		parts := make([]string, n)
		for i := range parts {
			parts[i] = randSeg()
		}
		return strings.Join(parts, "/")
	}
	templated := func() string {
		ct := cidTexts()
		c := ct[r.Rng.Intn(len(ct))]
		c2 := ct[r.Rng.Intn(len(ct))]
		x := plain[r.Rng.Intn(len(plain))]
		y := plain[r.Rng.Intn(len(plain))]
		z := uni[r.Rng.Intn(len(uni))]
		ts := []string{
			"", ".", "..", "/", "//", "../..", x + "/../..", x, x + "/" + y, x + "//" + y, x + "/./" + y, "/" + x + "/" + y,
			x + "/" + y + "/", "./" + x + "/" + y, x + "/" + z + "/../" + y, x + "/" + y + "/.", x + "/" + y + "/" + z + "/..",
			x + "/../" + y, y, "./" + y, y + "/", "/" + y,
			x + "/../../" + c + "/" + y, z + "/../../" + c + "/" + y, "../" + c + "/" + y, "./../" + c + "/" + y, "../" + c, "../" + c + "/",
			"../../orbitdb/" + c + "/" + y, "../../" + x + "/" + c, "../../../" + c, x + "/../../../orbitdb/" + c + "/" + y + "/" + z,
			"/orbitdb/" + c + "/" + x, "/orbitdb/" + c, c, c + "/" + x, "/orbitdb//orbitdb/" + c, "orbitdb/" + c + "/" + x, "/orbitdb/" + x,
			"/orbitdb/", "/orbitdb", "orbitdb", x + "/" + c, x + "/" + c + "/..", "/" + c, "./" + c, "//" + c + "/" + x,
			"../" + x + "/../" + c + "/" + y, x + "/" + long1, strings.Repeat("p/", 40) + "q", strings.Repeat("W", 5000),
			"../" + strings.Repeat("../", 1+r.Rng.Intn(3)) + "orbitdb/" + c,
			// address-looking names (first part a CID) with ".." after the root: trailing, middle,
			// directly after the root, behind "." and empty parts, with the "/orbitdb/" prefix;
			// and look-alikes of ".." that are ordinary parts
			c + "/..", c + "/../", c + "/" + x + "/..", c + "/" + x + "/" + y + "/..", c + "/../" + x, c + "/" + x + "/../" + y,
			c + "/./..", c + "//..", c + "/" + x + "/./../" + y, c + "/../" + c2 + "/" + y, c + "/../../" + c2 + "/" + y,
			c + "/" + x + "/../../" + c2, c + "/" + z + "/..", c + "/..a", c + "/a..", c + "/...", c + "/.. ", c + "/" + x + "/.../" + y,
			"/orbitdb/" + c + "/..", "/orbitdb/" + c + "/" + x + "/..", "/orbitdb/" + c + "/../" + x, "/orbitdb/" + c + "/" + x + "/../" + y,
			"/orbitdb/" + c + "/../" + c2 + "/" + y, "/orbitdb/" + c + "/..a", "/orbitdb/../" + c, "/orbitdb/../" + c + "/" + x,
			"/orbitdb//orbitdb/" + c + "/..", "../" + c + "/..", "../" + c + "/" + x + "/..", x + "/../" + c + "/..", "./" + c + "/..",
			"../" + c + "/" + x + "/../" + y, "../" + c + "/../" + c2 + "/" + y,
		}
		return ts[r.Rng.Intn(len(ts))]
	}
	// strings given to address.Parse: addresses and near-addresses, ".." leading, in the middle,
	// trailing, directly after the root, with and without the "/orbitdb/" prefix
	parseInput := func() string {
		ct := cidTexts()
		c := ct[r.Rng.Intn(len(ct))]
		c2 := ct[r.Rng.Intn(len(ct))]
		x := plain[r.Rng.Intn(len(plain))]
		y := plain[r.Rng.Intn(len(plain))]
		switch k := r.Rng.Intn(100); {
		case k < 22:
			return c + "/" + randName()
		case k < 34:
			return "/orbitdb/" + c + "/" + randName()
		case k < 40:
			return randName()
		}
		ts := []string{
			c, c + "/", c + "//", c + "/" + x, c + "/" + x + "/" + y, c + "//" + x, c + "/./" + x, c + "/" + x + "/", c + "/" + x + "/.", c + "/.",
			c + "/..", c + "/../", c + "/" + x + "/..", c + "/" + x + "/" + y + "/..", c + "/../" + x, c + "/" + x + "/../" + y,
			c + "/./..", c + "//..", c + "/../" + c2 + "/" + y, c + "/../../" + c2, c + "/" + x + "/../../" + c2 + "/" + y,
			c + "/..a", c + "/a..", c + "/...", c + "/.. ", c + "/ ..", c + "/" + x + "/.../" + y, c + "/" + c2, c + "/" + c2 + "/..",
			"/orbitdb/" + c, "/orbitdb/" + c + "/", "/orbitdb/" + c + "/" + x, "/orbitdb/" + c + "/" + x + "/" + y,
			"/orbitdb/" + c + "/..", "/orbitdb/" + c + "/" + x + "/..", "/orbitdb/" + c + "/../" + x, "/orbitdb/" + c + "/" + x + "/../" + y,
			"/orbitdb/" + c + "/../" + c2 + "/" + y, "/orbitdb/" + c + "/" + x + "/../../" + c2, "/orbitdb/" + c + "/..a",
			"/orbitdb/../" + c, "/orbitdb/../" + c + "/" + x, "/orbitdb//" + c, "/orbitdb//orbitdb/" + c + "/..", "/orbitdb/orbitdb/" + c,
			"../" + c, "../" + c + "/" + x, "../" + c + "/..", x + "/../" + c, x + "/" + c, "./" + c, "/" + c, "//" + c + "/" + x, "orbitdb/" + c, "orbitdb/" + c + "/..",
			"/orbitdb/", "/orbitdb", "orbitdb", "", ".", "..", "/", x, x + "/..", "/orbitdb/" + x, "/orbitdb/" + x + "/..",
			c + "/" + long1, c + "/" + strings.Repeat("../", 1+r.Rng.Intn(4)) + c2,
		}
		return ts[r.Rng.Intn(len(ts))]
	}

	nNames, nFull, nChain, nParse := 470, 4, 120, 300
	if r.Tier == "thorough" {
		nNames, nFull, nChain, nParse = 4000, 30, 600, 3000
	}
	var inputs []c14Input
	seenIn := map[string]bool{}
	push := func(in c14Input) {
		k := fmt.Sprintf("%q|%s|%d", in.name, in.typ, in.wl)
		if !seenIn[k] {
			seenIn[k] = true
			inputs = append(inputs, in)
		}
	}

	// ---- bookkeeping ----------------------------------------------------------------------
	type firstInput struct {
		name, typ string
		w         []string
	}
	byAddr := map[string]firstInput{}
	chained := map[string]bool{}
	chains := 0
	cidEntries := func(texts []string) string {
		var out []string
		seen := map[string]bool{}
		var add func(t string)
		add = func(t string) {
			if seen[t] || t == "" || t == "." || t == ".." {
				return
			}
			seen[t] = true
			c, err := cid.Decode(t)
			if err != nil {
				return
			}
			canon := c.String()
			out = append(out, fmt.Sprintf("(%s, %s)", sim.CoqN(tok.id(t)), sim.CoqN(tok.id(canon))))
			if c2, err := cid.Decode(canon); err != nil || c2.String() != canon {
				r.Notes = append(r.Notes, "canonical CID text does not decode to itself: "+canon)
			}
			add(canon)
		}
		for _, t := range texts {
			add(t)
		}
		return sim.CoqList(out)
	}
	coqObs := func(d c14Det) (obs, str, re string) {
		if d.class != "ok" {
			return "(Err " + d.class + ")", "[]", "(Err EBadInput)"
		}
		obs = fmt.Sprintf("(Ok (%s, %s))", sim.CoqN(tok.id(d.addr.GetRoot().String())), tok.pathSegs(d.addr.GetPath()))
		str = tok.split(d.str)
		if d.reOK {
			re = fmt.Sprintf("(Ok (%s, %s))", sim.CoqN(tok.id(d.reRoot)), tok.pathSegs(d.rePath))
		} else {
			re = "(Err EBadInput)"
		}
		return
	}

	// one input on all peers
	process := func(idx int, in c14Input) error {
		var given []string
		switch {
		case in.wl < 0:
			given = []string{"*"}
		default:
			given = writeLists[in.wl]
		}
		dd := hasDotDot(in.name)
		descr := func(kind string, extra map[string]interface{}) map[string]interface{} {
			m := map[string]interface{}{"kind": kind, "input": idx, "name": in.name, "type": in.typ, "write": given}
			for k, v := range extra {
				m[k] = v
			}
			return m
		}
		sigFor := func(other string) string {
			if dd {
				return "address-collision-dotdot"
			}
			return other
		}
		dets := make([]c14Det, 3)
		for p := 0; p < 3; p++ {
			dets[p] = c14Determine(ctx, s.Reps[p].Orbit, in.name, in.typ, given, idx+p)
			if dets[p].class == "panic" {
				r.AddDirect("panic:determine-address", dets[p].errMsg, descr("determine", map[string]interface{}{"peer": p}))
				return nil
			}
		}
		r.Count("determine:" + dets[0].class)
		// same inputs, same result on every peer; with no list given the creator is an input:
		// peer p with no list = any peer with the explicit list [id_p]
		if len(given) > 0 {
			for p := 1; p < 3; p++ {
				if dets[p].key() != dets[0].key() {
					r.AddDirect("address-nondeterministic", fmt.Sprintf("peer 0: %s, peer %d: %s", dets[0].key(), p, dets[p].key()), descr("determine", nil))
				}
			}
		} else {
			for p := 0; p < 3; p++ {
				q := (p + 1) % 3
				e := c14Determine(ctx, s.Reps[q].Orbit, in.name, in.typ, []string{ids[p]}, 0)
				if e.key() != dets[p].key() {
					r.AddDirect("address-default-writer", fmt.Sprintf("no list on peer %d: %s, explicit creator id on peer %d: %s", p, dets[p].key(), q, e.key()), descr("determine", nil))
				}
			}
		}
		emitPeers := 1
		if len(given) == 0 {
			emitPeers = 2
		}
		var eff0 []string
		var man0 cid.Cid
		for p := 0; p < emitPeers; p++ {
			eff := given
			if len(eff) == 0 {
				eff = []string{ids[p]}
			}
			man, err := c14Manifest(ctx, s, in.name, in.typ, eff)
			if err != nil {
				return fmt.Errorf("manifest: %w", err)
			}
			if p == 0 {
				eff0, man0 = eff, man
			}
			d := dets[p]
			obs, str, re := coqObs(d)
			texts := append(strings.Split(in.name, "/"), man.String())
			if d.class == "ok" {
				texts = append(texts, d.addr.GetRoot().String())
				texts = append(texts, strings.Split(d.str, "/")...)
			}
			term := fmt.Sprintf("(CDetermine %s %s %s %s %s %s %s %s %s)", tok.split(in.name), sim.CoqN(c14Types[in.typ]),
				sim.CoqN(p+1), identList(given), sim.CoqN(tok.id(man.String())), cidEntries(texts), obs, str, re)
			de := descr("determine", map[string]interface{}{"peer": p, "outcome": d.class, "address": d.str, "manifest": man.String(), "error": d.errMsg})
			if d.class == "ok" && d.addr.GetRoot().String() != man.String() {
				de["sig"] = sigFor("address-root-not-manifest")
				r.Count("determine:foreign-root")
			}
			r.AddCase(term, de, true)
			if d.class == "ok" {
				// collisions over the whole run
				fi := firstInput{in.name, in.typ, eff}
				if prev, ok := byAddr[d.str]; ok {
					if prev.name != fi.name || prev.typ != fi.typ || strings.Join(prev.w, ",") != strings.Join(fi.w, ",") {
						sig := "address-collision-other"
						if dd || hasDotDot(prev.name) {
							sig = "address-collision-dotdot"
						}
						r.AddDirect(sig, fmt.Sprintf("address %s produced for (%q, %s, %v) and for (%q, %s, %v)", d.str, prev.name, prev.typ, prev.w, fi.name, fi.typ, fi.w),
							descr("collision", map[string]interface{}{"address": d.str, "first_name": prev.name, "first_type": prev.typ, "first_write": prev.w}))
						r.Count("collision")
					}
				} else {
					byAddr[d.str] = fi
				}
				if d.addr.GetRoot().String() == man.String() {
					realManifests = append(realManifests, man.String())
				}
			}
		}

		// ---- Create / Open chain ----------------------------------------------------------
		d := dets[0]
		if d.class != "ok" || chains >= nChain || chained[d.str] {
			return nil
		}
		hostile := len(in.name) > 600
		for _, p := range strings.Split(in.name, "/") {
			if len(p) > 200 {
				hostile = true
			}
		}
		if hostile {
			r.Count("chain-skipped:name-too-long-for-the-filesystem")
			return nil
		}
		foreign := d.addr.GetRoot().String() != man0.String()
		if foreign {
			known := false
			for _, m := range realManifests {
				if m == d.addr.GetRoot().String() {
					known = true
				}
			}
			if !known {
				r.Count("chain-skipped:foreign-root-without-manifest")
				return nil
			}
		}
		chained[d.str] = true
		chains++
		r.Count("chain")
		mkOpts := func(ow, lo *bool, ac accesscontroller.ManifestParams, dir *string) *orbitdb.CreateDBOptions {
			return &orbitdb.CreateDBOptions{Overwrite: ow, LocalOnly: lo, Replicate: boolp(false), Timeout: 3 * time.Second, AccessController: ac, Directory: dir}
		}
		recorded := func(st iface.Store, how string, peer int) {
			w, _ := st.AccessController().GetAuthorizedByRole("write")
			ot, ok := c14Types[st.Type()]
			if !ok {
				ot = 99
			}
			same := st.Address().String() == d.str
			de := descr("recorded", map[string]interface{}{"via": how, "peer": peer, "address": d.str, "observed_type": st.Type(), "observed_write": w})
			if foreign {
				de["sig"] = sigFor("address-root-not-manifest")
			}
			r.AddCase(fmt.Sprintf("(CRecorded %s %s %s %s %s %s %s)", sim.CoqN(tok.id(d.addr.GetRoot().String())), sim.CoqN(tok.id(man0.String())),
				sim.CoqN(c14Types[in.typ]), sim.CoqN(ot), identList(eff0), identList(w), sim.CoqBool(same)), de, true)
		}
		// one operation of a chain: Create (flag = overwrite), Open (flag = local-only), or
		// closing every handle obtained so far; dir = the Directory option
		type step struct {
			kind int // 0 create, 1 open, 2 close all, 3 an overwriting create that fails (outside the modelled chain)
			flag bool
			dir  int
		}
		// runLocal runs the steps on one instance for the address d.str.  hold: the handles stay
		// open until a close-all step (otherwise every handle is closed as soon as it is obtained,
		// which the case records as a close-all step after the operation).
		runLocal := func(peer int, steps []step, hold bool) {
			mem := s.Reps[peer].Dir == c14MemDir
			// the creator is an input of the address when no write list is given: on an instance
			// other than peer 0 the list peer 0's default stands for is given explicitly
			acw := given
			if peer != 0 && len(acw) == 0 {
				acw = eff0
			}
			var ops []string
			var obs []int
			var names []string
			var held []iface.Store
			closeAll := func() int {
				res := 0
				for _, h := range held {
					if c, m := callClass(10*time.Second, h.Close); c != clsOK {
						res = 2
						r.Notes = append(r.Notes, fmt.Sprintf("input %d peer %d: Close: %s %s", idx, peer, clsName[c], m))
					}
				}
				held = nil
				return res
			}
			// the property, as Address.dlocal_ok states it (for the signature only)
			have, seen := false, false
			sig := ""
			for i, stp := range steps {
				if stp.kind == 2 {
					ops, obs, names = append(ops, "DCloseAll"), append(obs, closeAll()), append(names, "close-all")
					have, seen = have && !mem, seen && !mem
					continue
				}
				if stp.kind == 3 {
					// a Create with overwrite of the database that exists here, which fails after the
					// address was determined (a document store with incomplete store options): it is
					// no step of the modelled chain - the database was there before and is there
					// afterwards, so what follows is decided as if it had not happened
					if in.typ != "docstore" || !have || mem {
						continue
					}
					fo := mkOpts(boolp(true), nil, c14ACParams(acw, idx), dirOpt(peer, stp.dir))
					fo.StoreSpecificOpts = &iface.CreateDocumentDBOptions{}
					fst, ferr := s.Reps[peer].Orbit.Create(ctx, in.name, in.typ, fo)
					if ferr == nil {
						r.Count("chain:overwrite-create-meant-to-fail-succeeded")
						if fst != nil {
							held = append(held, fst)
							closeAll()
						}
					} else {
						r.Count("chain:failed-overwrite-create-of-existing-database")
					}
					continue
				}
				var st iface.Store
				var err error
				func() {
					defer func() {
						if p := recover(); p != nil {
							err = fmt.Errorf("panic: %v", p)
							r.AddDirect("panic:create-open", fmt.Sprint(p), descr("local", map[string]interface{}{"peer": peer, "step": i}))
						}
					}()
					if stp.kind == 0 {
						ops = append(ops, fmt.Sprintf("DCreate %s %s", sim.CoqBool(stp.flag), dirCoq(stp.dir)))
						names = append(names, fmt.Sprintf("create(overwrite=%v,directory=%s)", stp.flag, dirName(stp.dir)))
						st, err = s.Reps[peer].Orbit.Create(ctx, in.name, in.typ, mkOpts(boolp(stp.flag), nil, c14ACParams(acw, idx), dirOpt(peer, stp.dir)))
					} else {
						ops = append(ops, fmt.Sprintf("DOpen %s %s", sim.CoqBool(stp.flag), dirCoq(stp.dir)))
						names = append(names, fmt.Sprintf("open(local-only=%v,directory=%s)", stp.flag, dirName(stp.dir)))
						st, err = s.Reps[peer].Orbit.Open(ctx, d.str, mkOpts(nil, boolp(stp.flag), nil, dirOpt(peer, stp.dir)))
					}
				}()
				o := c14Outcome(err)
				obs = append(obs, o)
				if o == 2 {
					r.Count("chain-other-error")
					r.Notes = append(r.Notes, fmt.Sprintf("input %d peer %d step %d: %v", idx, peer, i, err))
				}
				if stp.kind == 0 {
					if (have && !stp.flag) != (o == 1) && sig == "" {
						sig = "local:create-of-existing-database-not-refused"
						if o == 1 {
							sig = "local:create-refused-without-existing-database"
						}
					}
					have, seen = have || o == 0, seen || o == 0
				} else {
					if stp.flag && have && o == 1 && sig == "" {
						sig = "local:open-local-only-misses-database-created-here"
						if stp.dir >= 2 {
							// the known one: looked up in the option's directory, recorded in the instance's
							sig = "local:open-local-only-other-directory-misses-database-created-here"
						}
					} else if sig == "" && ((stp.flag && !seen && o != 1) || (!stp.flag && o == 1)) {
						sig = "local:open-rule"
					}
					seen = seen || o == 0
				}
				if stp.dir >= 2 {
					r.Count("chain-op:other-directory")
				}
				if err == nil && st != nil {
					how := "open"
					if stp.kind == 0 {
						how = "create"
					}
					recorded(st, how, peer)
					held = append(held, st)
					if !hold {
						ops, obs, names = append(ops, "DCloseAll"), append(obs, closeAll()), append(names, "close-all")
						have, seen = have && !mem, seen && !mem
					}
				}
			}
			closeAll()
			de := descr("local", map[string]interface{}{"peer": peer, "address": d.str, "ops": names, "observed": obs, "memory": mem, "hold": hold})
			if foreign {
				de["sig"] = sigFor("address-root-not-manifest")
			} else if sig != "" {
				de["sig"] = sig
			}
			r.AddCase(fmt.Sprintf("(CLocalDir %s %s %s)", sim.CoqBool(mem), sim.CoqList(ops), sim.CoqListN(obs)), de, true)
			r.Count(fmt.Sprintf("chain:memory=%v,hold=%v", mem, hold))
		}
		first := r.Rng.Intn(2) == 0 // first create with or without overwrite
		// the creator, on disk
		{
			ds := drawDirs(7)
			steps := []step{{0, first, ds[0]}, {3, true, 0}, {0, false, ds[1]}, {0, true, ds[2]}, {1, true, ds[3]}}
			hold := r.Rng.Intn(3) == 0
			if hold {
				// once the handles are closed everything is as before on disk
				steps = append(steps, step{2, false, 0}, step{1, true, ds[4]}, step{0, false, ds[5]}, step{1, false, ds[6]}, step{2, false, 0})
			}
			runLocal(0, steps, hold)
		}
		// instances that never create it
		{
			ds := drawDirs(3)
			runLocal(1, []step{{1, false, ds[0]}, {1, true, ds[1]}}, false)
			runLocal(3, []step{{1, true, ds[2]}}, false)
		}
		// an instance in memory creates the same database (same name, type and write list)
		if !foreign && r.Rng.Intn(2) == 0 {
			peer := memA + r.Rng.Intn(2)
			if e := c14Determine(ctx, s.Reps[peer].Orbit, in.name, in.typ, eff0, 0); e.class != "ok" || e.str != d.str {
				r.Count("chain-skipped:other-address-on-the-instance-in-memory")
				return nil
			}
			ds := drawDirs(7)
			ow := r.Rng.Intn(2) == 0
			if r.Rng.Intn(3) > 0 {
				// handles held: the rules are those of a disk instance until they are closed; then
				// nothing of the database is left: it can be created again (and then opened)
				runLocal(peer, []step{{0, ow, ds[0]}, {0, false, ds[1]}, {0, true, ds[2]}, {1, true, ds[3]}, {2, false, 0},
					{1, true, ds[4]}, {0, false, ds[5]}, {1, false, ds[6]}, {2, false, 0}}, true)
			} else {
				runLocal(peer, []step{{0, ow, ds[0]}, {0, false, ds[1]}, {1, true, ds[2]}}, false)
			}
		}
		return nil
	}

	// ---- inputs ---------------------------------------------------------------------------
	// every write list and type at least once on plain names, then the name space
	for i, tn := range typeNames {
		for w := range writeLists {
			push(c14Input{fmt.Sprintf("base-%d", (i+w)%3), tn, w})
		}
	}
	start := 0
	flush := func() error {
		for ; start < len(inputs); start++ {
			if err := process(start, inputs[start]); err != nil {
				return err
			}
		}
		return nil
	}
	if err := flush(); err != nil {
		return err
	}
	for n := 0; n < nNames; n++ {
		var name string
		if r.Rng.Intn(100) < 55 {
			name = templated()
			r.Count("name:template")
		} else {
			name = randName()
			r.Count("name:random")
		}
		if hasDotDot(name) {
			r.Count("name:with-dotdot")
			if c14DotDotAfterCid(name) {
				r.Count("name:cid-then-dotdot")
			}
		}
		typ := typeNames[r.Rng.Intn(3)]
		if r.Rng.Intn(12) == 0 {
			typ = "nosuchtype"
		}
		wl := r.Rng.Intn(len(writeLists))
		if r.Rng.Intn(3) == 0 {
			wl = 0
		}
		push(c14Input{name, typ, wl})
		if n < nFull {
			for _, tn := range typeNames {
				for _, w := range []int{0, 3, 8} {
					push(c14Input{name, tn, w})
				}
			}
		}
		// processed as generated: later names use the manifests of earlier ones
		if err := flush(); err != nil {
			return err
		}
	}
	// ---- address.Parse on its own -----------------------------------------------------------
	seenParse := map[string]bool{}
	for n := 0; n < nParse; n++ {
		str := parseInput()
		if seenParse[str] {
			continue
		}
		seenParse[str] = true
		d, valid := c14Parse(str)
		de := map[string]interface{}{"kind": "parse", "string": str, "outcome": d.class, "valid": valid, "address": d.str, "error": d.errMsg}
		if d.class == "panic" {
			r.AddDirect("panic:address-parse", d.errMsg, de)
			continue
		}
		r.Count("parse:" + d.class)
		if hasDotDot(str) {
			r.Count("parse:with-dotdot")
			if c14DotDotAfterCid(str) {
				r.Count("parse:cid-then-dotdot")
			}
		}
		if d.class == "ok" && (!d.reOK || d.reRoot != d.addr.GetRoot().String()) {
			de["sig"] = "address-parse-prints-other-root"
			if hasDotDot(str) {
				de["sig"] = "address-parse-prints-other-root-dotdot"
			}
		}
		obs, ostr, re := coqObs(d)
		texts := strings.Split(str, "/")
		if d.class == "ok" {
			texts = append(texts, d.addr.GetRoot().String())
			texts = append(texts, strings.Split(d.str, "/")...)
		}
		r.AddCase(fmt.Sprintf("(CParse %s %s %s %s %s %s)", tok.split(str), cidEntries(texts), sim.CoqBool(valid), obs, ostr, re), de, true)
	}
	r.Dist["distinct-addresses"] = len(byAddr)
	r.Dist["inputs"] = len(inputs)
	return nil
}

package main

import (
	"bytes"
	"context"
	"fmt"
	"runtime"
	"sort"
	"strconv"
	"strings"
	"sync"
	"sync/atomic"
	"time"

	orbitdb "berty.tech/go-orbit-db"
	"berty.tech/go-orbit-db/iface"
	"berty.tech/go-orbit-db/stores/operation"
	"verifharness/sim"
)

func init() { drivers["C17"] = driver{"C17", runC17} }

// ---------------------------------------------------------------------------------------
// Step-wise control of writer goroutines.
//
// Every writer goroutine registers its goroutine id before calling Put/Add.  The write
// path runs synchronously on that goroutine (Put -> AddOperation -> Append -> Cache().Put
// -> updateIndex -> UpdateIndex), so the schedule-point callback (sim.TheHooks.Extra, which
// is invoked on the goroutine that reached the point, before any gate) knows exactly which
// writer reached which point and parks it there on the writer's own channel.  The driver
// then releases one specific writer by one step.  Goroutine ids are used for
// identification only and never end up in an observable.
//
// Points (model program counters of coq/Model/Writers.v):
//   store.after_append / store.before_persist
//                       : WAppended   (entry appended, _localHeads not yet written)
//   store.after_persist : WPersisted  (_localHeads written, view not yet rebuilt)
//   index.after_read    : WIndexRead  (UpdateIndex has read Values(), has not applied them;
//                                      kv/doc stores, point added by hooks_c17.diff)
//   return of the call  : WDone
// ---------------------------------------------------------------------------------------

const (
	c17Start = iota
	c17Appended
	c17Persisted
	c17IndexRead
	c17Done
)

// c17Points maps the schedule points at which writers are parked to program counters.  It
// is set by c17Probe from the points the tree under test actually has:
//   - store.before_persist (hooks_c17.diff), when present, is an alternative WAppended
//     parking place (directly before Cache().Put instead of directly after the append: a
//     critical section that begins or ends between the two is exposed by one of them); each
//     writer parks at one of the two, chosen per plan/writer (c17Writer.late);
//   - index.after_read (hooks_c17.diff): without it the view rebuild is one combined step.
var c17Points = map[string]int{
	"store.after_append":  c17Appended,
	"store.after_persist": c17Persisted,
	"index.after_read":    c17IndexRead,
}

var c17HasLate bool

// c17Probe performs one write on a scratch store and records which points it crosses.
func c17Probe(r *Run) error {
	s, err := NewScen(1, "keyvalue", nil)
	if err != nil {
		return err
	}
	defer s.Close()
	var mu sync.Mutex
	seen := map[string]bool{}
	sim.TheHooks.Extra = func(name string, _ []string) {
		mu.Lock()
		seen[name] = true
		mu.Unlock()
	}
	_, err = s.Stores[0].(iface.KeyValueStore).Put(context.Background(), "probe", []byte("x"))
	sim.TheHooks.Extra = nil
	if err != nil {
		return fmt.Errorf("probe write: %w", err)
	}
	mu.Lock()
	defer mu.Unlock()
	if !seen["store.after_append"] || !seen["store.after_persist"] {
		return fmt.Errorf("schedule points store.after_append/store.after_persist not reached: harness not built with -tags verif?")
	}
	c17Points = map[string]int{"store.after_append": c17Appended, "store.after_persist": c17Persisted}
	c17HasLate = seen["store.before_persist"]
	if c17HasLate {
		c17Points["store.before_persist"] = c17Appended
		r.Count("point:store.before_persist")
	} else {
		r.Notes = append(r.Notes, "store.before_persist absent: writers are parked at store.after_append only")
	}
	if seen["index.after_read"] {
		c17Points["index.after_read"] = c17IndexRead
		r.Count("point:index.after_read")
	} else {
		r.Notes = append(r.Notes, "index.after_read absent: view rebuilds are single steps, stale-view schedules cannot be forced")
	}
	return nil
}

type c17Writer struct {
	idx      int
	key      string
	val      []byte
	doc      map[string]interface{}
	late     bool     // park at store.before_persist rather than store.after_append
	pc       int      // last point the driver has seen this writer at
	flying   bool     // released (or started) but not yet seen at its next point
	arrived  chan int // points reached, in order (sent by the hook on the writer's goroutine)
	resume   chan struct{}
	done     chan struct{}
	hookHash string // entry hash reported at store.after_append
	readLen  int    // log length read by UpdateIndex (index.after_read)
	retHash  string
	err      error
}

type c17Ctl struct {
	mu     sync.Mutex
	byGoid map[uint64]*c17Writer
	free   atomic.Bool
	freeCh chan struct{}
}

func c17Goid() uint64 {
	var buf [64]byte
	n := runtime.Stack(buf[:], false)
	s := strings.TrimPrefix(string(buf[:n]), "goroutine ")
	if i := strings.IndexByte(s, ' '); i > 0 {
		id, _ := strconv.ParseUint(s[:i], 10, 64)
		return id
	}
	return 0
}

func (c *c17Ctl) hook(name string, keys []string) {
	pc, ok := c17Points[name]
	if !ok {
		return
	}
	c.mu.Lock()
	w := c.byGoid[c17Goid()]
	c.mu.Unlock()
	if w == nil {
		return
	}
	if name == "store.after_append" && len(keys) > 1 {
		w.hookHash = keys[1]
	}
	if pc == c17Appended && (name == "store.before_persist") != w.late {
		return // this writer parks at the other WAppended place
	}
	if pc == c17IndexRead && len(keys) > 0 {
		w.readLen, _ = strconv.Atoi(keys[0])
	}
	if c.free.Load() {
		return
	}
	select {
	case w.arrived <- pc:
	default:
	}
	select {
	case <-w.resume:
	case <-c.freeCh:
	}
}

// releaseAll lets every parked writer (and every future arrival) run freely.
func (c *c17Ctl) releaseAll() {
	if c.free.CompareAndSwap(false, true) {
		close(c.freeCh)
	}
}

func (c *c17Ctl) launch(st iface.Store, w *c17Writer, startGate <-chan struct{}) {
	go func() {
		defer close(w.done)
		c.mu.Lock()
		c.byGoid[c17Goid()] = w
		c.mu.Unlock()
		if startGate != nil {
			<-startGate
		}
		defer func() {
			if p := recover(); p != nil {
				w.err = fmt.Errorf("panic: %v", p)
			}
		}()
		ctx := context.Background()
		var op operation.Operation
		var err error
		switch x := st.(type) {
		case iface.KeyValueStore:
			op, err = x.Put(ctx, w.key, w.val)
		case iface.DocumentStore:
			op, err = x.Put(ctx, w.doc)
		case iface.EventLogStore:
			op, err = x.Add(ctx, w.val)
		default:
			err = fmt.Errorf("unknown store type")
		}
		if err != nil {
			w.err = err
			return
		}
		if op == nil || op.GetEntry() == nil {
			w.err = fmt.Errorf("no entry returned")
			return
		}
		w.retHash = op.GetEntry().GetHash().String()
	}()
}

// c17StepWait bounds the wait for a released writer to reach its next point.  Reaching it
// takes well under 10 ms (one signature + one block put at most); when the wait expires the
// writer is treated as blocked behind a lock held by a parked writer and the run is marked
// inexact (the checker then only requires an outcome the model allows).
const c17StepWait = 200 * time.Millisecond
const c17StepWaitAgain = 40 * time.Millisecond

// ---------------------------------------------------------------------------------------
// schedules
// ---------------------------------------------------------------------------------------

func c17Permutations(n int) [][]int {
	var out [][]int
	var rec func(cur []int, used []bool)
	rec = func(cur []int, used []bool) {
		if len(cur) == n {
			out = append(out, append([]int(nil), cur...))
			return
		}
		for i := 0; i < n; i++ {
			if !used[i] {
				used[i] = true
				rec(append(cur, i), used)
				used[i] = false
			}
		}
	}
	rec(nil, make([]bool, n))
	return out
}

// phased: all appends in thread order, persists in order pp, index reads in order pr,
// applies in order pa.
func c17Phased(n int, pp, pr, pa []int) []int {
	s := seq(n)
	s = append(s, pp...)
	s = append(s, pr...)
	s = append(s, pa...)
	return s
}

type c17Plan struct {
	kind   string
	typ    string
	n      int
	shared bool
	sched  []int // nil: free run
	late   int   // WAppended parking place: 0 = after_append, 1 = before_persist, 2 = per writer at random
}

func c17Plans(r *Run) []c17Plan {
	var plans []c17Plan
	thorough := r.Tier == "thorough"
	rep := 1
	if thorough {
		rep = 4
	}
	// the two refutation schedules of Proofs/WritersProofs.v
	refRec := []int{0, 1, 1, 0, 0, 0, 1, 1}
	refView := []int{0, 0, 0, 1, 1, 1, 1, 0}
	for k := 0; k < rep; k++ {
		plans = append(plans,
			c17Plan{"refute-recovery", "keyvalue", 2, false, refRec, 0},
			c17Plan{"refute-recovery", "keyvalue", 2, true, refRec, 1},
			c17Plan{"refute-recovery", "eventlog", 2, false, refRec, 1},
			c17Plan{"refute-recovery", "eventlog", 2, false, refRec, 0},
			c17Plan{"refute-recovery", "docstore", 2, true, refRec, 0},
			c17Plan{"refute-recovery", "docstore", 2, false, refRec, 1},
			c17Plan{"refute-view", "keyvalue", 2, true, refView, 0},
			c17Plan{"refute-view", "keyvalue", 2, true, refView, 1},
			c17Plan{"refute-view", "docstore", 2, true, refView, k % 2},
			c17Plan{"refute-view", "keyvalue", 2, false, refView, 2}, // own keys: the stale rebuild cannot hide a key
		)
	}
	// all persist orders for 2 and 3 writers (appends in thread order, then persists in the
	// given order, then every writer rebuilds the view on its own)
	for n := 2; n <= 3; n++ {
		for _, p := range c17Permutations(n) {
			s := append(seq(n), p...)
			for i := 0; i < n; i++ {
				s = append(s, i, i)
			}
			typ := "keyvalue"
			if n == 3 && p[0] == 1 {
				typ = "eventlog"
			}
			plans = append(plans, c17Plan{"persist-perm", typ, n, r.Rng.Intn(2) == 0, s, r.Rng.Intn(3)})
		}
		// all apply orders after staggered append+persist+read (writer i reads i+1 entries)
		for _, p := range c17Permutations(n) {
			if n == 3 && !thorough && r.Rng.Intn(2) == 0 {
				continue
			}
			var s []int
			for i := 0; i < n; i++ {
				s = append(s, i, i, i)
			}
			plans = append(plans, c17Plan{"apply-perm", "keyvalue", n, true, append(s, p...), r.Rng.Intn(3)})
		}
	}
	types := []string{"keyvalue", "keyvalue", "docstore", "keyvalue", "eventlog"}
	nRandom, nPhased, nStag, nSerial, nFree := 24, 6, 8, 4, 30
	if thorough {
		nRandom, nPhased, nStag, nSerial, nFree = 200, 60, 60, 12, 200
	}
	// staggered: writer i appends, persists and reads the log (seeing i+1 entries) before
	// writer i+1 starts; the rebuilds are applied in a random order afterwards: heads are
	// persisted in order, the view is that of whoever applies last
	for k := 0; k < nStag; k++ {
		n := 2 + r.Rng.Intn(7)
		var s []int
		for i := 0; i < n; i++ {
			s = append(s, i, i, i)
		}
		s = append(s, r.Rng.Perm(n)...)
		plans = append(plans, c17Plan{"staggered", []string{"keyvalue", "docstore"}[r.Rng.Intn(2)], n, r.Rng.Intn(4) > 0, s, r.Rng.Intn(3)})
	}
	for k := 0; k < nPhased; k++ {
		n := 2 + r.Rng.Intn(7)
		plans = append(plans, c17Plan{"phased", types[r.Rng.Intn(len(types))], n, r.Rng.Intn(3) > 0,
			c17Phased(n, r.Rng.Perm(n), r.Rng.Perm(n), r.Rng.Perm(n)), r.Rng.Intn(3)})
	}
	for k := 0; k < nRandom; k++ {
		n := 2 + r.Rng.Intn(7)
		// uniform interleaving of n chains of four steps
		var s []int
		for i := 0; i < n; i++ {
			s = append(s, i, i, i, i)
		}
		r.Rng.Shuffle(len(s), func(a, b int) { s[a], s[b] = s[b], s[a] })
		plans = append(plans, c17Plan{"random", types[r.Rng.Intn(len(types))], n, r.Rng.Intn(3) > 0, s, r.Rng.Intn(3)})
	}
	for k := 0; k < nSerial; k++ {
		n := 2 + r.Rng.Intn(7)
		var s []int
		for _, i := range r.Rng.Perm(n) {
			s = append(s, i, i, i, i)
		}
		plans = append(plans, c17Plan{"serial", types[r.Rng.Intn(len(types))], n, r.Rng.Intn(2) == 0, s, r.Rng.Intn(3)})
	}
	for k := 0; k < nFree; k++ {
		n := 2 + r.Rng.Intn(7)
		plans = append(plans, c17Plan{"free", types[r.Rng.Intn(len(types))], n, r.Rng.Intn(2) == 0, nil, 0})
	}
	return plans
}

// ---------------------------------------------------------------------------------------
// driver
// ---------------------------------------------------------------------------------------

// C17: concurrent local writers.  (A) forced schedules: writers are parked after the
// append, after persisting _localHeads and between reading the log and applying it to the
// view, and released one step at a time in the order of a model schedule; (B) free runs.
// Then: acknowledged entries, listing, view; close, reopen, Load(-1), listing again.
func runC17(r *Run) error {
	defer closeEnv()
	defer func() { sim.TheHooks.Extra = nil }()
	if err := c17Probe(r); err != nil {
		return err
	}
	plans := c17Plans(r)
	for pi, p := range plans {
		if err := c17RunOne(r, pi, p); err != nil {
			return err
		}
	}
	return nil
}

func c17RunOne(r *Run, pi int, p c17Plan) error {
	s, err := NewScen(1, p.typ, nil)
	if err != nil {
		return err
	}
	defer s.Close()
	st := s.Stores[0]
	ctl := &c17Ctl{byGoid: map[uint64]*c17Writer{}, freeCh: make(chan struct{})}
	forced := p.sched != nil
	if !forced {
		ctl.free.Store(true)
		close(ctl.freeCh)
	}
	sim.TheHooks.Extra = ctl.hook
	defer func() { sim.TheHooks.Extra = nil }()

	shared := p.shared && p.typ != "eventlog"
	ws := make([]*c17Writer, p.n)
	for i := range ws {
		key := fmt.Sprintf("k%d", i)
		if shared {
			key = "shared"
		}
		val := fmt.Sprintf("v#%d#", i)
		late := p.late == 1 || (p.late == 2 && r.Rng.Intn(2) == 0)
		ws[i] = &c17Writer{idx: i, late: late && c17HasLate, key: key, val: []byte(val), doc: map[string]interface{}{"_id": key, "v": val},
			arrived: make(chan int, 8), resume: make(chan struct{}), done: make(chan struct{})}
	}

	blocked := false
	var executed []int
	skipped, timeouts := 0, 0
	if forced {
		// poll: has the flying writer reached its next point (or returned)?
		settle := func(w *c17Writer, d time.Duration) bool {
			var t <-chan time.Time
			if d > 0 {
				tm := time.NewTimer(d)
				defer tm.Stop()
				t = tm.C
			} else {
				ch := make(chan time.Time)
				close(ch)
				t = ch
			}
			// prefer arrivals over the timeout
			select {
			case pc := <-w.arrived:
				w.pc, w.flying = pc, false
				return true
			case <-w.done:
				w.pc, w.flying = c17Done, false
				return true
			default:
			}
			select {
			case pc := <-w.arrived:
				w.pc, w.flying = pc, false
				return true
			case <-w.done:
				w.pc, w.flying = c17Done, false
				return true
			case <-t:
				return false
			}
		}
		for _, i := range p.sched {
			w := ws[i]
			if w.flying && !settle(w, 0) {
				skipped++
				continue
			}
			if w.pc == c17Done {
				continue // e.g. second half of a combined step (no index.after_read point on this store type)
			}
			before := w.pc
			if w.pc == c17Start {
				ctl.launch(st, w, nil)
			} else {
				w.resume <- struct{}{}
			}
			w.flying = true
			wait := c17StepWait
			if timeouts > 0 {
				// the run is already inexact: do not spend the full wait on every further writer
				// that queues up behind the same lock
				wait = c17StepWaitAgain
			}
			if !settle(w, wait) {
				blocked = true
				timeouts++
				r.Count("forced:step-timeout")
				continue
			}
			// model steps performed by this release
			steps := w.pc - before
			if steps < 1 {
				steps = 1
			}
			for k := 0; k < steps; k++ {
				executed = append(executed, i)
			}
		}
		if skipped > 0 {
			blocked = true
		}
	} else {
		start := make(chan struct{})
		for _, w := range ws {
			ctl.launch(st, w, start)
		}
		close(start)
	}
	ctl.releaseAll()
	// never-started writers of a forced schedule (only when steps were skipped): run them now
	for _, w := range ws {
		if forced && w.pc == c17Start && !w.flying {
			ctl.launch(st, w, nil)
			w.flying = true
			blocked = true
		}
	}
	hang := false
	deadline := time.After(20 * time.Second)
	for _, w := range ws {
		select {
		case <-w.done:
		case <-deadline:
			hang = true
		}
		if hang {
			break
		}
	}
	descr := map[string]interface{}{"kind": p.kind, "plan": pi, "type": p.typ, "n": p.n, "shared": shared, "sched": p.sched, "forced": forced, "late": p.late}
	if hang {
		r.AddDirect("hang:writers", "writers did not return within 20 s", descr)
		r.Count("hang")
		return nil
	}
	sim.TheHooks.Extra = nil

	// ---- observations ----
	ids := map[string]int{}
	idOf := func(h string) int {
		if v, ok := ids[h]; ok {
			return v
		}
		ids[h] = len(ids) + 1
		return ids[h]
	}
	logAfterEntries := st.OpLog().Values().Slice()
	logAfter := make([]int, len(logAfterEntries))
	for i, e := range logAfterEntries {
		logAfter[i] = idOf(e.GetHash().String())
	}
	var returned []int
	byHash := map[string]*c17Writer{}
	errs := 0
	for _, w := range ws {
		if w.err != nil {
			errs++
			r.Count("write-error")
			r.Notes = append(r.Notes, fmt.Sprintf("plan %d writer %d: %v", pi, w.idx, w.err))
			continue
		}
		returned = append(returned, idOf(w.retHash))
		byHash[w.retHash] = w
		if forced && w.hookHash != "" && w.hookHash != w.retHash {
			blocked = true // attribution of schedule points to writers failed: do not claim exactness
			r.Count("forced:attribution-mismatch")
		}
	}
	// expected view = replay of the listing
	expect := map[string]string{}
	for _, e := range logAfterEntries {
		if w := byHash[e.GetHash().String()]; w != nil {
			expect[w.key] = string(w.val)
		}
	}
	viewComplete := true
	viewN := 0
	got := map[string]string{} // key -> marker value
	switch x := st.(type) {
	case iface.KeyValueStore:
		for k, v := range x.All() {
			got[k] = string(v)
		}
	case iface.DocumentStore:
		docs, err := x.Query(context.Background(), func(interface{}) (bool, error) { return true, nil })
		if err != nil {
			return fmt.Errorf("query: %w", err)
		}
		for _, d := range docs {
			if m, ok := d.(map[string]interface{}); ok {
				id, _ := m["_id"].(string)
				v, _ := m["v"].(string)
				got[id] = v
			}
		}
	case iface.EventLogStore:
		ops, err := x.List(context.Background(), &iface.StreamOptions{Amount: intPtr(-1)})
		if err != nil {
			return fmt.Errorf("list: %w", err)
		}
		// the event log has no keys: every writer's value must be listed
		for _, w := range ws {
			if w.err != nil {
				continue
			}
			for _, op := range ops {
				if bytes.Equal(op.GetValue(), w.val) {
					got[w.key] = string(w.val)
				}
			}
		}
	}
	if len(got) != len(expect) {
		viewComplete = false
	}
	for k, v := range expect {
		if got[k] != v {
			viewComplete = false
		}
	}
	if shared {
		// which entry's value does the view show?
		if v, ok := got["shared"]; ok {
			for _, w := range ws {
				if w.err == nil && string(w.val) == v {
					viewN = idOf(w.retHash)
				}
			}
		}
	}

	// ---- close, reopen, load ----
	s.Settle()
	ctx := context.Background()
	if err := st.Close(); err != nil {
		return fmt.Errorf("close: %w", err)
	}
	st2, err := s.Reps[0].Orbit.Open(ctx, s.Addr, &orbitdb.CreateDBOptions{})
	if err != nil {
		return fmt.Errorf("reopen: %w", err)
	}
	s.Stores[0] = st2
	if err := st2.Load(ctx, -1); err != nil {
		return fmt.Errorf("load: %w", err)
	}
	if !s.Settle() {
		r.AddDirect("hang:load", "load after reopen did not settle", descr)
	}
	var recovered []int
	for _, e := range st2.OpLog().Values().Slice() {
		recovered = append(recovered, idOf(e.GetHash().String()))
	}
	sort.Ints(recovered)

	// ---- classification signature (computed from the observation) ----
	inList := func(x int, l []int) bool {
		for _, y := range l {
			if x == y {
				return true
			}
		}
		return false
	}
	lost, missing, dup := 0, 0, false
	seen := map[int]bool{}
	for _, e := range returned {
		if seen[e] {
			dup = true
		}
		seen[e] = true
		if !inList(e, logAfter) {
			missing++
		} else if !inList(e, recovered) {
			lost++
		}
	}
	sig := ""
	switch {
	case dup || missing > 0:
		sig = "writers-other"
	case lost > 0:
		sig = "localheads-order"
	case !viewComplete:
		sig = "stale-view"
	}
	if sig != "" {
		descr["sig"] = sig
		r.Count("outcome:" + sig)
		r.Count("outcome:" + sig + ":" + p.kind)
		if lost > 0 && !viewComplete {
			descr["also"] = "stale-view"
			r.Count("outcome:both")
		}
	} else {
		descr["sig"] = "writers-other" // only reported if the checker fails the case for another reason
		r.Count("outcome:ok")
	}
	descr["blocked"] = blocked
	descr["executed"] = executed
	descr["lost"] = lost
	descr["view_complete"] = viewComplete
	descr["recovered"] = len(recovered)
	schedOut := executed
	if !forced {
		schedOut = nil
	}
	schedTerms := make([]string, len(schedOut))
	for i, x := range schedOut {
		schedTerms[i] = strconv.Itoa(x)
	}
	coq := fmt.Sprintf("(CWriters %s (%s)%%nat %s %s %s %s %s %s %s %s)",
		sim.CoqNat(p.n), "["+strings.Join(schedTerms, "; ")+"]", sim.CoqBool(forced), sim.CoqBool(blocked), sim.CoqBool(shared),
		sim.CoqListN(returned), sim.CoqListN(logAfter), sim.CoqBool(viewComplete), sim.CoqN(viewN), sim.CoqListN(recovered))
	r.AddCase(coq, descr, true)
	r.Count("kind:" + p.kind)
	r.Count("type:" + p.typ)
	r.Count(fmt.Sprintf("writers=%d", p.n))
	if shared {
		r.Count("keys:shared")
	} else {
		r.Count("keys:own")
	}
	if forced {
		if blocked {
			r.Count("forced:blocked")
		} else {
			r.Count("forced:exact")
		}
	}
	return nil
}

func intPtr(i int) *int { return &i }

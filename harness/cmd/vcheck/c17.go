package main

import (
	"context"
	"encoding/json"
	"fmt"
	"path/filepath"
	"runtime"
	"sort"
	"strconv"
	"strings"
	"sync"
	"sync/atomic"
	"time"

	ipfslog "berty.tech/go-ipfs-log"
	orbitdb "berty.tech/go-orbit-db"
	"berty.tech/go-orbit-db/accesscontroller"
	"berty.tech/go-orbit-db/address"
	"berty.tech/go-orbit-db/cache"
	"berty.tech/go-orbit-db/cache/cacheleveldown"
	"berty.tech/go-orbit-db/iface"
	"berty.tech/go-orbit-db/stores/operation"
	datastore "github.com/ipfs/go-datastore"
	"verifharness/sim"
)

func init() { drivers["C17"] = driver{"C17", runC17} }

// ---------------------------------------------------------------------------------------
// Step-wise control of writer goroutines.
//
// Every writer goroutine registers its goroutine id before its first call.  The write
// path runs synchronously on that goroutine (Put -> AddOperation -> Append -> Cache().Put
// -> updateIndex -> UpdateIndex), so the schedule-point callback (sim.TheHooks.Extra, which
// is invoked on the goroutine that reached the point, before any gate) knows exactly which
// writer reached which point and parks it there on the writer's own channel.  The driver
// then releases one specific writer by one step.  Goroutine ids are used for
// identification only and never end up in an observable.
//
// A writer goroutine is a model thread (coq/Model/Writers.v): it performs its calls one
// after the other, a call writes one entry (Put, Delete, PutAll, Add) or several (PutBatch,
// which loops over Put on the unchanged tree), and the thread's count is the number of
// single-entry writes it makes.  The points park it inside any of them, so also in the
// middle of a batch.
//
// Points (model program counters of coq/Model/Writers.v), mode "steps":
//   store.after_append / store.before_persist
//                       : WAppended   (entry appended, _localHeads not yet written)
//   store.after_persist : WPersisted  (_localHeads written, view not yet rebuilt)
//   index.after_read    : WIndexRead  (UpdateIndex has read Values(), has not applied them;
//                                      kv/doc stores, point added by hooks_c17.diff)
//   return of the write : WIdle again
// mode "writes": writers are parked at store.before_write_event only, i.e. after a complete
// write and outside of whatever the write path locks: whole writes of different threads are
// interleaved in a chosen order (batches are cut between their entries).
//
// A position is the number of model steps (4 per write) a thread has made.
// ---------------------------------------------------------------------------------------

const (
	c17Start = iota
	c17Appended
	c17Persisted
	c17IndexRead
	c17Done
)

// c17Points maps the schedule points at which writers are parked to program counters.  It
// is set by c17Probe from the points the tree under test actually has:
//   - store.before_persist (hooks_c17.diff), when present, is an alternative WAppended
//     parking place (directly before Cache().Put instead of directly after the append: a
//     critical section that begins or ends between the two is exposed by one of them); each
//     writer parks at one of the two, chosen per plan/writer (c17Writer.late);
//   - index.after_read (hooks_c17.diff): without it the view rebuild is one combined step.
var c17Points = map[string]int{
	"store.after_append":  c17Appended,
	"store.after_persist": c17Persisted,
	"index.after_read":    c17IndexRead,
}

var c17HasLate, c17HasWriteEvent bool

// c17Probe performs one write on a scratch store and records which points it crosses.
func c17Probe(r *Run) error {
	s, err := NewScen(1, "keyvalue", nil)
	if err != nil {
		return err
	}
	defer s.Close()
	var mu sync.Mutex
	seen := map[string]bool{}
	sim.TheHooks.Extra = func(name string, _ []string) {
		mu.Lock()
		seen[name] = true
		mu.Unlock()
	}
	_, err = s.Stores[0].(iface.KeyValueStore).Put(context.Background(), "probe", []byte("x"))
	sim.TheHooks.Extra = nil
	if err != nil {
		return fmt.Errorf("probe write: %w", err)
	}
	mu.Lock()
	defer mu.Unlock()
	if !seen["store.after_append"] || !seen["store.after_persist"] {
		return fmt.Errorf("schedule points store.after_append/store.after_persist not reached: harness not built with -tags verif?")
	}
	c17Points = map[string]int{"store.after_append": c17Appended, "store.after_persist": c17Persisted}
	c17HasLate = seen["store.before_persist"]
	if c17HasLate {
		c17Points["store.before_persist"] = c17Appended
		r.Count("point:store.before_persist")
	} else {
		r.Notes = append(r.Notes, "store.before_persist absent: writers are parked at store.after_append only")
	}
	if seen["index.after_read"] {
		c17Points["index.after_read"] = c17IndexRead
		r.Count("point:index.after_read")
	} else {
		r.Notes = append(r.Notes, "index.after_read absent: view rebuilds are single steps, stale-view schedules cannot be forced")
	}
	c17HasWriteEvent = seen["store.before_write_event"]
	if c17HasWriteEvent {
		r.Count("point:store.before_write_event")
	} else {
		r.Notes = append(r.Notes, "store.before_write_event absent: schedules of whole writes run free")
	}
	return nil
}

// c17Doc is one key/value pair written by a call.  Values are unique over a scenario.
type c17Doc struct{ key, val string }

// c17Call is one call of the store's API made by a writer goroutine.
type c17Call struct {
	op   string   // put | del | batch | putall | add
	docs []c17Doc // put, add: one; del: one (key only); batch, putall: several

	// the call is made with a context that is already cancelled (a caller that gave up): it
	// may fail, and then it acknowledges nothing and is no write of the model thread
	deadCtx bool

	ran     bool
	err     error
	retHash string // entry of the operation the call returned
}

// entries = log entries the call writes on the unchanged tree.
func (c *c17Call) entries() int {
	if c.op == "batch" {
		return len(c.docs)
	}
	return 1
}

func (c *c17Call) String() string {
	ks := make([]string, len(c.docs))
	for i, d := range c.docs {
		ks[i] = d.key
	}
	return c.op + "(" + strings.Join(ks, ",") + ")"
}

type c17Writer struct {
	idx   int
	calls []*c17Call
	count int  // single-entry writes of all calls together
	late  bool // park at store.before_persist rather than store.after_append
	delay bool // free runs: the first _localHeads write of each call is held back (c17Delay)

	// written on the writer's own goroutine (hook, cache wrapper), read by the driver after done
	nApp       int      // store.after_append points passed
	hookHashes []string // entry hashes reported there
	callWrites int      // _localHeads writes of the current call

	// driver side
	pos      int      // model steps made, as far as the driver has seen
	schedN   int      // model steps the schedule has asked of this thread so far
	started  bool     // goroutine launched
	flying   bool     // released (or started) but not yet seen at its next point
	arrived  chan int // positions reached, in order (sent by the hook on the writer's goroutine)
	resume   chan struct{}
	done     chan struct{}
	panicked error
}

type c17Ctl struct {
	mu     sync.Mutex
	byGoid map[uint64]*c17Writer
	writes bool         // mode "writes": park at store.before_write_event only
	active atomic.Int32 // writer goroutines launched and not yet returned
	free   atomic.Bool
	freeCh chan struct{}
	// entries acknowledged so far (appended on the writer's goroutine right after its call
	// returned, under mu): what a crash at this instant must not lose
	ackNow []string
}

func c17Goid() uint64 {
	var buf [64]byte
	n := runtime.Stack(buf[:], false)
	s := strings.TrimPrefix(string(buf[:n]), "goroutine ")
	if i := strings.IndexByte(s, ' '); i > 0 {
		id, _ := strconv.ParseUint(s[:i], 10, 64)
		return id
	}
	return 0
}

func (c *c17Ctl) writer() *c17Writer {
	c.mu.Lock()
	w := c.byGoid[c17Goid()]
	c.mu.Unlock()
	return w
}

func (c *c17Ctl) hook(name string, keys []string) {
	pc, ok := c17Points[name]
	if !ok && name != "store.before_write_event" {
		return
	}
	w := c.writer()
	if w == nil {
		return
	}
	if name == "store.after_append" {
		w.nApp++
		if len(keys) > 1 {
			w.hookHashes = append(w.hookHashes, keys[1])
		}
	}
	pos := 0
	if c.writes {
		if name != "store.before_write_event" {
			return
		}
		pos = 4 * w.nApp
	} else {
		if !ok {
			return
		}
		if pc == c17Appended && (name == "store.before_persist") != w.late {
			return // this writer parks at the other WAppended place
		}
		n := w.nApp
		if n < 1 {
			n = 1 // a tree whose write path has no store.after_append on this route
		}
		pos = 4*(n-1) + pc
	}
	if c.free.Load() {
		return
	}
	select {
	case w.arrived <- pos:
	default:
	}
	select {
	case <-w.resume:
	case <-c.freeCh:
	}
}

// releaseAll lets every parked writer (and every future arrival) run freely.
func (c *c17Ctl) releaseAll() {
	if c.free.CompareAndSwap(false, true) {
		close(c.freeCh)
	}
}

func c17DocValue(d c17Doc) map[string]interface{} {
	return map[string]interface{}{"_id": d.key, "v": d.val}
}

func (c *c17Ctl) launch(st iface.Store, w *c17Writer, startGate <-chan struct{}) {
	w.started = true
	c.active.Add(1)
	go func() {
		defer close(w.done)
		defer c.active.Add(-1)
		c.mu.Lock()
		c.byGoid[c17Goid()] = w
		c.mu.Unlock()
		if startGate != nil {
			<-startGate
		}
		defer func() {
			if p := recover(); p != nil {
				w.panicked = fmt.Errorf("panic: %v", p)
			}
		}()
		bg := context.Background()
		for _, call := range w.calls {
			w.callWrites = 0
			call.ran = true
			ctx := bg
			if call.deadCtx {
				dead, cancel := context.WithCancel(bg)
				cancel()
				ctx = dead
			}
			var op operation.Operation
			var err error
			switch x := st.(type) {
			case iface.KeyValueStore:
				switch call.op {
				case "put":
					op, err = x.Put(ctx, call.docs[0].key, []byte(call.docs[0].val))
				case "del":
					op, err = x.Delete(ctx, call.docs[0].key)
				default:
					err = fmt.Errorf("no %s on a key-value store", call.op)
				}
			case iface.DocumentStore:
				switch call.op {
				case "put":
					op, err = x.Put(ctx, c17DocValue(call.docs[0]))
				case "del":
					op, err = x.Delete(ctx, call.docs[0].key)
				case "batch", "putall":
					vals := make([]interface{}, len(call.docs))
					for i, d := range call.docs {
						vals[i] = c17DocValue(d)
					}
					if call.op == "batch" {
						op, err = x.PutBatch(ctx, vals)
					} else {
						op, err = x.PutAll(ctx, vals)
					}
				default:
					err = fmt.Errorf("no %s on a document store", call.op)
				}
			case iface.EventLogStore:
				op, err = x.Add(ctx, []byte(call.docs[0].val))
			default:
				err = fmt.Errorf("unknown store type")
			}
			if err == nil && (op == nil || op.GetEntry() == nil) {
				err = fmt.Errorf("no entry returned")
			}
			if err != nil {
				call.err = err
				continue
			}
			call.retHash = op.GetEntry().GetHash().String()
			c.mu.Lock()
			c.ackNow = append(c.ackNow, call.retHash)
			c.mu.Unlock()
		}
	}()
}

// crashPoint: the process stops at this instant.  What a restart has to go by are the heads
// persisted in the store's cache; every write acknowledged so far must be one of them or one
// of their ancestors (the blocks themselves are written by the append, before anything is
// acknowledged).  Returns the acknowledged entries a restart would not find.  Writers parked
// at a schedule point hold no lock of the log, and a writer acknowledges only after its whole
// call: on a tree that persists the head before it acknowledges this never reports anything,
// whatever the other writers are doing.
func (c *c17Ctl) crashPoint(st iface.Store) []string {
	c.mu.Lock()
	acked := append([]string{}, c.ackNow...)
	c.mu.Unlock()
	if len(acked) == 0 {
		return nil
	}
	ctx := context.Background()
	covered := map[string]bool{}
	var todo []string
	for _, k := range []string{"_localHeads", "_remoteHeads"} {
		raw, _ := st.Cache().Get(ctx, datastoreKey(k))
		todo = append(todo, headHashes(raw)...)
	}
	byHash := map[string]ipfslog.Entry{}
	for _, e := range st.OpLog().Values().Slice() {
		byHash[e.GetHash().String()] = e
	}
	for len(todo) > 0 {
		h := todo[len(todo)-1]
		todo = todo[:len(todo)-1]
		if covered[h] {
			continue
		}
		covered[h] = true
		if e, ok := byHash[h]; ok {
			for _, x := range e.GetNext() {
				todo = append(todo, x.String())
			}
			for _, x := range e.GetRefs() {
				todo = append(todo, x.String())
			}
		}
	}
	var lost []string
	for _, h := range acked {
		if !covered[h] {
			lost = append(lost, h)
		}
	}
	return lost
}

// c17StepWait bounds the wait for a released writer to reach its next point.  Reaching it
// takes well under 10 ms (one signature + one block put at most); when the wait expires the
// writer is treated as blocked behind a lock held by a parked writer and the run is marked
// inexact (the checker then only requires an outcome the model allows).
const c17StepWait = 200 * time.Millisecond
const c17StepWaitAgain = 40 * time.Millisecond

// ---------------------------------------------------------------------------------------
// A cache that holds back _localHeads writes (free runs).
//
// The first _localHeads write of a call of a selected writer waits until every other writer
// goroutine has returned, or c17DelayWait has elapsed.  If the write path persists the head
// inside its critical section the others are queueing behind it and the wait just elapses
// (or they have all returned already and there is nothing to wait for); a head persisted
// outside of the critical section is overtaken by the other writers' heads and is then
// written over them, as the last write of all: what the next load restores is this older
// head's ancestry.  Only one write is held back at a time: a second selected writer that
// arrives meanwhile passes (it is one of those the first is waiting for).  (Waiting for the
// others to return rather than for one overtaking write: a later write of somebody else would
// persist a newer head again and hide the damage.)
// ---------------------------------------------------------------------------------------

const c17DelayWait = 60 * time.Millisecond

type c17Delay struct {
	ctl       *c17Ctl
	mu        sync.Mutex
	waiting   bool
	completed int
	held      int // writes held back
	overtaken int // ... during which another write completed
}

func (d *c17Delay) before() {
	if d.ctl == nil {
		return
	}
	w := d.ctl.writer()
	if w == nil {
		return
	}
	w.callWrites++
	if !w.delay || w.callWrites > 1 {
		return
	}
	d.mu.Lock()
	if d.waiting {
		d.mu.Unlock()
		return
	}
	d.waiting = true
	d.held++
	target := d.completed
	d.mu.Unlock()
	deadline := time.Now().Add(c17DelayWait)
	for {
		alone := d.ctl.active.Load() <= 1
		d.mu.Lock()
		if alone || time.Now().After(deadline) {
			d.waiting = false
			if d.completed > target {
				d.overtaken++
			}
			d.mu.Unlock()
			return
		}
		d.mu.Unlock()
		time.Sleep(200 * time.Microsecond)
	}
}

func (d *c17Delay) after() {
	d.mu.Lock()
	d.completed++
	d.mu.Unlock()
}

type c17DelayCache struct {
	inner cache.Interface
	d     *c17Delay
}

func (c *c17DelayCache) Load(directory string, dbAddress address.Address) (datastore.Datastore, error) {
	ds, err := c.inner.Load(directory, dbAddress)
	if err != nil {
		return nil, err
	}
	return &c17DelayDS{Datastore: ds, d: c.d}, nil
}
func (c *c17DelayCache) Close() error { return c.inner.Close() }
func (c *c17DelayCache) Destroy(directory string, dbAddress address.Address) error {
	return c.inner.Destroy(directory, dbAddress)
}

type c17DelayDS struct {
	datastore.Datastore
	d *c17Delay
}

var c17LocalHeads = datastore.NewKey("_localHeads")

func (d *c17DelayDS) Put(ctx context.Context, key datastore.Key, value []byte) error {
	if key != c17LocalHeads {
		return d.Datastore.Put(ctx, key, value)
	}
	d.d.before()
	err := d.Datastore.Put(ctx, key, value)
	d.d.after()
	return err
}

// c17NewScen is NewScen(1, typ, nil) with the instance's cache wrapped by c17DelayCache.
func c17NewScen(typ string, d *c17Delay) (*Scen, error) {
	s, err := NewScen(0, typ, &ScenOpts{NoOpen: true})
	if err != nil {
		return nil, err
	}
	env := s.Env
	idx := scenCounter * 100
	dir := filepath.Join(env.Work, fmt.Sprintf("%s-%d", s.Label, idx))
	rep, err := env.NewReplicaOpts(idx, s.Label, dir, sim.PeerIDFor(s.Label, idx), func(o *orbitdb.NewOrbitDBOptions) {
		o.Cache = &c17DelayCache{inner: cacheleveldown.New(nil), d: d}
	})
	if err != nil {
		return nil, err
	}
	s.Reps = append(s.Reps, rep)
	s.Canon.Cid.Add(rep.Orbit.Identity().PublicKey)
	s.Canon.Ident.ID(rep.Orbit.Identity().ID)
	ac := &accesscontroller.CreateAccessControllerOptions{Access: map[string][]string{"write": {rep.Orbit.Identity().ID}}}
	st, err := rep.Orbit.Create(env.Ctx, "db-"+s.Label, typ, &orbitdb.CreateDBOptions{AccessController: ac})
	if err != nil {
		return nil, fmt.Errorf("create: %w", err)
	}
	s.Stores = append(s.Stores, st)
	s.Addr = st.Address().String()
	s.Canon.LogID.ID(s.Addr)
	return s, nil
}

// ---------------------------------------------------------------------------------------
// schedules
// ---------------------------------------------------------------------------------------

func c17Permutations(n int) [][]int {
	var out [][]int
	var rec func(cur []int, used []bool)
	rec = func(cur []int, used []bool) {
		if len(cur) == n {
			out = append(out, append([]int(nil), cur...))
			return
		}
		for i := 0; i < n; i++ {
			if !used[i] {
				used[i] = true
				rec(append(cur, i), used)
				used[i] = false
			}
		}
	}
	rec(nil, make([]bool, n))
	return out
}

// phased: all appends in thread order, persists in order pp, index reads in order pr,
// applies in order pa.
func c17Phased(n int, pp, pr, pa []int) []int {
	s := seq(n)
	s = append(s, pp...)
	s = append(s, pr...)
	s = append(s, pa...)
	return s
}

type c17Plan struct {
	kind   string
	typ    string
	n      int
	shared bool
	sched  []int // nil: free run
	late   int   // WAppended parking place: 0 = after_append, 1 = before_persist, 2 = per writer at random

	// plans whose threads make several writes (CMulti cases)
	multi  bool
	progs  [][]*c17Call // per thread
	lateW  []bool       // per thread (instead of late)
	writes bool         // sched is a schedule of whole writes (mode "writes")
	delay  []bool       // free runs: threads whose _localHeads writes are held back; nil = plain cache
	same   bool         // single-write threads: every thread writes the same value
}

func c17Plans(r *Run) []c17Plan {
	var plans []c17Plan
	thorough := r.Tier == "thorough"
	rep := 1
	if thorough {
		rep = 4
	}
	// the two refutation schedules of Proofs/WritersProofs.v
	refRec := []int{0, 1, 1, 0, 0, 0, 1, 1}
	refView := []int{0, 0, 0, 1, 1, 1, 1, 0}
	for k := 0; k < rep; k++ {
		plans = append(plans,
			c17Plan{kind: "refute-recovery", typ: "keyvalue", n: 2, sched: refRec},
			c17Plan{kind: "refute-recovery", typ: "keyvalue", n: 2, shared: true, sched: refRec, late: 1},
			c17Plan{kind: "refute-recovery", typ: "eventlog", n: 2, sched: refRec, late: 1},
			c17Plan{kind: "refute-recovery", typ: "eventlog", n: 2, sched: refRec},
			c17Plan{kind: "refute-recovery", typ: "docstore", n: 2, shared: true, sched: refRec},
			c17Plan{kind: "refute-recovery", typ: "docstore", n: 2, sched: refRec, late: 1},
			c17Plan{kind: "refute-view", typ: "keyvalue", n: 2, shared: true, sched: refView},
			c17Plan{kind: "refute-view", typ: "keyvalue", n: 2, shared: true, sched: refView, late: 1},
			c17Plan{kind: "refute-view", typ: "docstore", n: 2, shared: true, sched: refView, late: k % 2},
			c17Plan{kind: "refute-view", typ: "keyvalue", n: 2, sched: refView, late: 2}, // own keys: the stale rebuild cannot hide a key
		)
	}
	// free runs of 3..6 goroutines that all write the SAME payload at the same moment (an event
	// log used as a counter): every successful call still appends an entry of its own
	nSame := 6
	if thorough {
		nSame = 24
	}
	for k := 0; k < nSame; k++ {
		plans = append(plans, c17Plan{kind: "identical-payload", typ: "eventlog", n: 3 + r.Rng.Intn(4), same: true})
	}
	// all persist orders for 2 and 3 writers (appends in thread order, then persists in the
	// given order, then every writer rebuilds the view on its own)
	for n := 2; n <= 3; n++ {
		for _, p := range c17Permutations(n) {
			s := append(seq(n), p...)
			for i := 0; i < n; i++ {
				s = append(s, i, i)
			}
			typ := "keyvalue"
			if n == 3 && p[0] == 1 {
				typ = "eventlog"
			}
			plans = append(plans, c17Plan{kind: "persist-perm", typ: typ, n: n, shared: r.Rng.Intn(2) == 0, sched: s, late: r.Rng.Intn(3)})
		}
		// all apply orders after staggered append+persist+read (writer i reads i+1 entries)
		for _, p := range c17Permutations(n) {
			if n == 3 && !thorough && r.Rng.Intn(2) == 0 {
				continue
			}
			var s []int
			for i := 0; i < n; i++ {
				s = append(s, i, i, i)
			}
			plans = append(plans, c17Plan{kind: "apply-perm", typ: "keyvalue", n: n, shared: true, sched: append(s, p...), late: r.Rng.Intn(3)})
		}
	}
	types := []string{"keyvalue", "keyvalue", "docstore", "keyvalue", "eventlog"}
	nRandom, nPhased, nStag, nSerial, nFree := 24, 6, 8, 4, 30
	if thorough {
		nRandom, nPhased, nStag, nSerial, nFree = 200, 60, 60, 12, 200
	}
	// staggered: writer i appends, persists and reads the log (seeing i+1 entries) before
	// writer i+1 starts; the rebuilds are applied in a random order afterwards: heads are
	// persisted in order, the view is that of whoever applies last
	for k := 0; k < nStag; k++ {
		n := 2 + r.Rng.Intn(7)
		var s []int
		for i := 0; i < n; i++ {
			s = append(s, i, i, i)
		}
		s = append(s, r.Rng.Perm(n)...)
		plans = append(plans, c17Plan{kind: "staggered", typ: []string{"keyvalue", "docstore"}[r.Rng.Intn(2)], n: n, shared: r.Rng.Intn(4) > 0, sched: s, late: r.Rng.Intn(3)})
	}
	for k := 0; k < nPhased; k++ {
		n := 2 + r.Rng.Intn(7)
		plans = append(plans, c17Plan{kind: "phased", typ: types[r.Rng.Intn(len(types))], n: n, shared: r.Rng.Intn(3) > 0,
			sched: c17Phased(n, r.Rng.Perm(n), r.Rng.Perm(n), r.Rng.Perm(n)), late: r.Rng.Intn(3)})
	}
	for k := 0; k < nRandom; k++ {
		n := 2 + r.Rng.Intn(7)
		// uniform interleaving of n chains of four steps
		var s []int
		for i := 0; i < n; i++ {
			s = append(s, i, i, i, i)
		}
		r.Rng.Shuffle(len(s), func(a, b int) { s[a], s[b] = s[b], s[a] })
		plans = append(plans, c17Plan{kind: "random", typ: types[r.Rng.Intn(len(types))], n: n, shared: r.Rng.Intn(3) > 0, sched: s, late: r.Rng.Intn(3)})
	}
	for k := 0; k < nSerial; k++ {
		n := 2 + r.Rng.Intn(7)
		var s []int
		for _, i := range r.Rng.Perm(n) {
			s = append(s, i, i, i, i)
		}
		plans = append(plans, c17Plan{kind: "serial", typ: types[r.Rng.Intn(len(types))], n: n, shared: r.Rng.Intn(2) == 0, sched: s, late: r.Rng.Intn(3)})
	}
	for k := 0; k < nFree; k++ {
		n := 2 + r.Rng.Intn(7)
		plans = append(plans, c17Plan{kind: "free", typ: types[r.Rng.Intn(len(types))], n: n, shared: r.Rng.Intn(2) == 0})
	}
	return append(plans, c17MultiPlans(r)...)
}

// ---------------------------------------------------------------------------------------
// threads of several writes: programs and schedules
// ---------------------------------------------------------------------------------------

// c17Gen builds the programs of one scenario.  Keys are the thread's own ("t<i>k<j>") or the
// key "shared" that every thread may write; a document-store Delete (which refuses a key that
// is not in the index) only names a key that the same thread has put before and not deleted
// since, and nobody else touches: on a tree where a write is in the view when its call
// returns, it cannot fail.
type c17Gen struct {
	r    *Run
	typ  string
	nval int
}

func (g *c17Gen) doc(key string) c17Doc {
	g.nval++
	return c17Doc{key: key, val: fmt.Sprintf("v#%d#", g.nval)}
}

// c17Thread generates one thread's calls.
type c17Thread struct {
	g    *c17Gen
	ti   int
	nkey int
	live []string // own keys currently put (document store deletes)
}

func (t *c17Thread) own() string {
	t.nkey++
	k := fmt.Sprintf("t%dk%d", t.ti, t.nkey)
	t.live = append(t.live, k)
	return k
}

func (t *c17Thread) someKey() string {
	rng := t.g.r.Rng
	if rng.Intn(3) == 0 {
		return "shared"
	}
	if len(t.live) > 0 && rng.Intn(3) == 0 {
		return t.live[rng.Intn(len(t.live))] // overwrite
	}
	return t.own()
}

func (t *c17Thread) put(key string) *c17Call {
	return &c17Call{op: "put", docs: []c17Doc{t.g.doc(key)}}
}

func (t *c17Thread) several(op string, lo, hi int) *c17Call {
	c := &c17Call{op: op}
	k := lo + t.g.r.Rng.Intn(hi-lo+1)
	used := map[string]bool{}
	for j := 0; j < k; j++ {
		key := t.someKey()
		if used[key] {
			key = t.own()
		}
		used[key] = true
		c.docs = append(c.docs, t.g.doc(key))
	}
	return c
}

// calls: between 1 and maxCalls further calls of the thread.  shape of the first one: "" =
// random; "batch" = a multi-entry call where the store has one (document store: PutBatch);
// "puts".
func (t *c17Thread) calls(shape string, maxCalls int) []*c17Call {
	rng := t.g.r.Rng
	var calls []*c17Call
	n := 1 + rng.Intn(maxCalls)
	for k := 0; k < n; k++ {
		sh := ""
		if k == 0 {
			sh = shape
		}
		switch t.g.typ {
		case "eventlog":
			calls = append(calls, &c17Call{op: "add", docs: []c17Doc{t.g.doc("")}})
		case "keyvalue":
			if sh == "" && rng.Intn(3) == 0 {
				key := "shared"
				if len(t.live) > 0 && rng.Intn(2) == 0 {
					key = t.live[rng.Intn(len(t.live))]
				}
				calls = append(calls, &c17Call{op: "del", docs: []c17Doc{{key: key}}})
			} else {
				calls = append(calls, t.put(t.someKey()))
			}
		default: // document store
			if sh == "" {
				sh = []string{"puts", "puts", "batch", "putall", "putdel"}[rng.Intn(5)]
			}
			switch sh {
			case "batch":
				calls = append(calls, t.several("batch", 2, 4))
			case "putall":
				calls = append(calls, t.several("putall", 2, 3))
			case "putdel":
				if len(t.live) == 0 {
					calls = append(calls, t.put(t.own()))
				}
				i := rng.Intn(len(t.live))
				key := t.live[i]
				t.live = append(t.live[:i:i], t.live[i+1:]...)
				calls = append(calls, &c17Call{op: "del", docs: []c17Doc{{key: key}}})
			default:
				calls = append(calls, t.put(t.someKey()))
			}
		}
	}
	return calls
}

// prog: a thread's whole program; at least minCalls calls; a thread whose shape is "batch"
// makes at least two writes whatever the store type.
func (g *c17Gen) prog(ti int, shape string, minCalls, maxCalls int) []*c17Call {
	t := &c17Thread{g: g, ti: ti}
	calls := t.calls(shape, maxCalls)
	for len(calls) < minCalls || (shape == "batch" && len(calls) < 2 && calls[0].entries() < 2) {
		calls = append(calls, t.calls("puts", 1)...)
	}
	return calls
}

func c17Counts(progs [][]*c17Call) []int {
	out := make([]int, len(progs))
	for i, p := range progs {
		for _, c := range p {
			out[i] += c.entries()
		}
	}
	return out
}

func c17MultiPlans(r *Run) []c17Plan {
	var plans []c17Plan
	nWindow, nWrites, nSteps, nDelay, nFree := 8, 6, 3, 8, 4
	if r.Tier == "thorough" {
		nWindow, nWrites, nSteps, nDelay, nFree = 60, 40, 24, 60, 30
	}
	types := []string{"docstore", "docstore", "keyvalue", "eventlog"}
	chain := func(sched []int, i, steps int) []int {
		for k := 0; k < steps; k++ {
			sched = append(sched, i)
		}
		return sched
	}
	// (1) window: thread 0 makes a multi-entry call (document store: PutBatch) and is parked
	// directly before the _localHeads write of its j-th entry; the other threads are then
	// released for all of their writes, one thread after the other; then thread 0 goes on.
	// (Where the persist is inside the critical section the others cannot get past their
	// appends and the run is recorded as blocked.)
	for k := 0; k < nWindow; k++ {
		typ := "docstore"
		if k%4 == 3 {
			typ = types[r.Rng.Intn(len(types))]
		}
		g := &c17Gen{r: r, typ: typ}
		n := 2 + r.Rng.Intn(3)
		progs := make([][]*c17Call, n)
		// thread 0: one multi-entry call and nothing after it (a later write of its own would
		// persist a newer head again); key-value and event log: two single-entry calls
		progs[0] = g.prog(0, "batch", 1, 1)
		for i := 1; i < n; i++ {
			progs[i] = g.prog(i, "", 1, 2)
		}
		counts := c17Counts(progs)
		// j = 1: a call that persists once for all of its entries is caught before that;
		// j = last: a call that persists entry by entry is caught at the head it persists last
		// (after an earlier one it would persist a newer head itself and hide the damage)
		j := 1
		switch k % 4 {
		case 1:
			j = counts[0]
		case 3:
			j = 1 + r.Rng.Intn(counts[0])
		}
		lateW := make([]bool, n)
		lateW[0] = true
		for i := 1; i < n; i++ {
			lateW[i] = r.Rng.Intn(2) == 0
		}
		sched := chain(nil, 0, 4*(j-1)+1)
		for _, i := range r.Rng.Perm(n - 1) {
			sched = chain(sched, i+1, 4*counts[i+1])
		}
		sched = chain(sched, 0, 4*counts[0]-(4*(j-1)+1))
		plans = append(plans, c17Plan{kind: "m-window", typ: typ, n: n, multi: true, progs: progs, lateW: lateW, sched: sched})
	}
	// (2) whole writes of the threads in a random order (a batch is cut between its entries)
	for k := 0; k < nWrites; k++ {
		typ := types[r.Rng.Intn(len(types))]
		g := &c17Gen{r: r, typ: typ}
		n := 2 + r.Rng.Intn(4)
		progs := make([][]*c17Call, n)
		for i := range progs {
			shape := ""
			if i == 0 {
				shape = "batch"
			}
			progs[i] = g.prog(i, shape, 1, 3)
		}
		var sched []int
		for i, c := range c17Counts(progs) {
			sched = chain(sched, i, c)
		}
		r.Rng.Shuffle(len(sched), func(a, b int) { sched[a], sched[b] = sched[b], sched[a] })
		plans = append(plans, c17Plan{kind: "m-writes", typ: typ, n: n, multi: true, progs: progs, sched: sched, writes: true})
	}
	// (3) uniform interleaving of the threads' step chains
	for k := 0; k < nSteps; k++ {
		typ := types[r.Rng.Intn(len(types))]
		g := &c17Gen{r: r, typ: typ}
		n := 2 + r.Rng.Intn(2)
		progs := make([][]*c17Call, n)
		lateW := make([]bool, n)
		for i := range progs {
			progs[i] = g.prog(i, "", 1, 2)
			lateW[i] = r.Rng.Intn(2) == 0
		}
		var sched []int
		for i, c := range c17Counts(progs) {
			sched = chain(sched, i, 4*c)
		}
		r.Rng.Shuffle(len(sched), func(a, b int) { sched[a], sched[b] = sched[b], sched[a] })
		plans = append(plans, c17Plan{kind: "m-steps", typ: typ, n: n, multi: true, progs: progs, lateW: lateW, sched: sched})
	}
	// (3b) a writer that gave up: thread 0 is parked inside its write (directly before the
	// _localHeads write); thread 1 then makes its only call with a context that has ended (it
	// queues behind thread 0, or gives up - either is fine, but it must not let anybody else in);
	// thread 2 is asked to do all of its writes; then thread 0 goes on
	nDead := 4
	if r.Tier == "thorough" {
		nDead = 16
	}
	for k := 0; k < nDead; k++ {
		typ := types[r.Rng.Intn(len(types))]
		g := &c17Gen{r: r, typ: typ}
		progs := make([][]*c17Call, 3)
		progs[0] = g.prog(0, "puts", 1, 1)
		progs[1] = g.prog(1, "", 1, 1)
		for _, c := range progs[1] {
			c.deadCtx = true
		}
		progs[2] = g.prog(2, "", 1, 2)
		counts := c17Counts(progs)
		sched := chain(nil, 0, 1)
		sched = chain(sched, 1, 1)
		sched = chain(sched, 2, 4*counts[2])
		sched = chain(sched, 0, 4*counts[0]-1)
		sched = chain(sched, 1, 4*counts[1])
		plans = append(plans, c17Plan{kind: "m-gave-up", typ: typ, n: 3, multi: true, progs: progs, lateW: []bool{true, false, k%2 == 0}, sched: sched})
	}
	// (4) free runs; with delay: the first _localHeads write of every call of one or two of
	// the threads (thread 0, which makes one multi-entry call, among them) is held back
	for k := 0; k < nDelay+nFree; k++ {
		typ := "docstore"
		if k%3 == 2 {
			typ = types[r.Rng.Intn(len(types))]
		}
		g := &c17Gen{r: r, typ: typ}
		n := 3 + r.Rng.Intn(3)
		progs := make([][]*c17Call, n)
		if k < nDelay {
			n = 3 + r.Rng.Intn(2)
			progs = make([][]*c17Call, n)
			progs[0] = g.prog(0, "batch", 1, 1)
			for i := 1; i < n; i++ {
				progs[i] = g.prog(i, "", 1, 2)
			}
		} else {
			progs[0] = g.prog(0, "batch", 1, 2)
			for i := 1; i < n; i++ {
				progs[i] = g.prog(i, "", 3, 4)
			}
		}
		if k < nDelay && k%2 == 1 {
			// one more goroutine whose only call is made with a cancelled context, between the others
			dead := g.prog(n, "", 1, 1)
			for _, c := range dead {
				c.deadCtx = true
			}
			at := 1 + r.Rng.Intn(n-1)
			progs = append(progs[:at], append([][]*c17Call{dead}, progs[at:]...)...)
			n++
		}
		p := c17Plan{kind: "m-free", typ: typ, n: n, multi: true, progs: progs}
		if k < nDelay {
			p.kind = "m-free-delay"
			p.delay = make([]bool, n)
			p.delay[0] = true
			if r.Rng.Intn(2) == 0 {
				p.delay[1+r.Rng.Intn(n-1)] = true
			}
		}
		plans = append(plans, p)
	}
	return plans
}

// ---------------------------------------------------------------------------------------
// driver
// ---------------------------------------------------------------------------------------

// C17: concurrent local writers.  (A) forced schedules: writers are parked after the
// append, after persisting _localHeads and between reading the log and applying it to the
// view, and released one step at a time in the order of a model schedule; (B) free runs.
// Then: acknowledged entries, listing, view; close, reopen, Load(-1), listing again.
// Threads make one write each (CWriters) or several calls of one or several entries (CMulti).
func runC17(r *Run) error {
	defer closeEnv()
	defer func() { sim.TheHooks.Extra = nil }()
	if err := c17Probe(r); err != nil {
		return err
	}
	plans := c17Plans(r)
	for pi, p := range plans {
		if err := c17RunOne(r, pi, p); err != nil {
			return err
		}
	}
	return nil
}

// c17OpView is what one log entry does to the view.
type c17OpView struct {
	op   string
	docs []c17Doc // put: key/value; del: key; putall: each document; add: value
}

func c17DocMarker(raw []byte) string {
	var m map[string]interface{}
	if json.Unmarshal(raw, &m) == nil {
		if v, ok := m["v"].(string); ok {
			return v
		}
	}
	return "?" + string(raw)
}

func c17ParseEntry(typ string, e ipfslog.Entry) (c17OpView, error) {
	op, err := operation.ParseOperation(e)
	if err != nil {
		return c17OpView{}, err
	}
	val := func(raw []byte) string {
		if typ == "docstore" {
			return c17DocMarker(raw)
		}
		return string(raw)
	}
	key := ""
	if k := op.GetKey(); k != nil {
		key = *k
	}
	switch op.GetOperation() {
	case "PUT":
		return c17OpView{op: "put", docs: []c17Doc{{key, val(op.GetValue())}}}, nil
	case "DEL":
		return c17OpView{op: "del", docs: []c17Doc{{key: key}}}, nil
	case "PUTALL":
		v := c17OpView{op: "putall"}
		for _, d := range op.GetDocs() {
			v.docs = append(v.docs, c17Doc{d.GetKey(), val(d.GetValue())})
		}
		return v, nil
	case "ADD":
		return c17OpView{op: "add", docs: []c17Doc{{"", string(op.GetValue())}}}, nil
	}
	return c17OpView{op: "?" + op.GetOperation()}, nil
}

func c17RunOne(r *Run, pi int, p c17Plan) error {
	var s *Scen
	var err error
	var delay *c17Delay
	if p.delay != nil {
		delay = &c17Delay{}
		s, err = c17NewScen(p.typ, delay)
	} else {
		s, err = NewScen(1, p.typ, nil)
	}
	if err != nil {
		return err
	}
	defer s.Close()
	st := s.Stores[0]
	forced := p.sched != nil
	ctl := &c17Ctl{byGoid: map[uint64]*c17Writer{}, freeCh: make(chan struct{}), writes: p.writes}
	if delay != nil {
		delay.ctl = ctl
	}
	if !forced || (p.writes && !c17HasWriteEvent) {
		ctl.free.Store(true)
		close(ctl.freeCh)
	}
	sim.TheHooks.Extra = ctl.hook
	defer func() { sim.TheHooks.Extra = nil }()

	shared := p.shared && p.typ != "eventlog"
	ws := make([]*c17Writer, p.n)
	for i := range ws {
		w := &c17Writer{idx: i, arrived: make(chan int, 8), resume: make(chan struct{}), done: make(chan struct{})}
		if p.multi {
			w.calls = p.progs[i]
			if p.lateW != nil {
				w.late = p.lateW[i] && c17HasLate
			}
			if p.delay != nil {
				w.delay = p.delay[i]
			}
		} else {
			key := fmt.Sprintf("k%d", i)
			if shared {
				key = "shared"
			}
			op := "put"
			if p.typ == "eventlog" {
				op = "add"
			}
			val := fmt.Sprintf("v#%d#", i)
			if p.same {
				val = "tick"
			}
			w.calls = []*c17Call{{op: op, docs: []c17Doc{{key, val}}}}
			w.late = (p.late == 1 || (p.late == 2 && r.Rng.Intn(2) == 0)) && c17HasLate
		}
		for _, c := range w.calls {
			w.count += c.entries()
		}
		ws[i] = w
	}

	blocked := false
	var executed []int
	skipped, timeouts := 0, 0
	var crashLost []string // acknowledged entries that the persisted heads did not cover at some step
	crashAt := 0
	if forced {
		// poll: has the flying writer reached its next point (or returned)?
		settle := func(w *c17Writer, d time.Duration) bool {
			var t <-chan time.Time
			if d > 0 {
				tm := time.NewTimer(d)
				defer tm.Stop()
				t = tm.C
			} else {
				ch := make(chan time.Time)
				close(ch)
				t = ch
			}
			// prefer arrivals over the timeout
			select {
			case pos := <-w.arrived:
				w.pos, w.flying = pos, false
				return true
			case <-w.done:
				w.pos, w.flying = 4*w.count, false
				return true
			default:
			}
			select {
			case pos := <-w.arrived:
				w.pos, w.flying = pos, false
				return true
			case <-w.done:
				w.pos, w.flying = 4*w.count, false
				return true
			case <-t:
				return false
			}
		}
		unit := 1
		if p.writes {
			unit = 4
		}
		for _, i := range p.sched {
			w := ws[i]
			w.schedN += unit
			if w.flying && !settle(w, 0) {
				skipped++
				continue
			}
			if w.pos >= w.schedN || w.pos >= 4*w.count {
				// this step was made together with an earlier one: no point between the two (no
				// index.after_read on this store type; the return of a write and the append of the
				// thread's next one)
				continue
			}
			before := w.pos
			if !w.started {
				ctl.launch(st, w, nil)
			} else {
				w.resume <- struct{}{}
			}
			w.flying = true
			wait := c17StepWait
			if timeouts > 0 {
				// the run is already inexact: do not spend the full wait on every further writer
				// that queues up behind the same lock
				wait = c17StepWaitAgain
			}
			arrivedNow := settle(w, wait)
			// a crash at this instant (whoever is parked, queued behind a lock or has returned)
			r.Count("crash-point-inspected")
			if lostNow := ctl.crashPoint(st); len(lostNow) > 0 && crashLost == nil {
				crashLost = lostNow
				crashAt = len(executed)
			}
			if !arrivedNow {
				blocked = true
				timeouts++
				r.Count("forced:step-timeout")
				continue
			}
			// model steps performed by this release
			steps := w.pos - before
			if steps < unit {
				steps = unit
			}
			for k := 0; k < steps; k++ {
				executed = append(executed, i)
			}
		}
		if skipped > 0 {
			blocked = true
		}
	} else {
		start := make(chan struct{})
		for _, w := range ws {
			ctl.launch(st, w, start)
		}
		close(start)
	}
	ctl.releaseAll()
	// never-started writers of a forced schedule (only when steps were skipped): run them now
	for _, w := range ws {
		if forced && !w.started {
			ctl.launch(st, w, nil)
			w.flying = true
			blocked = true
		}
	}
	hang := false
	deadline := time.After(20 * time.Second)
	for _, w := range ws {
		select {
		case <-w.done:
		case <-deadline:
			hang = true
		}
		if hang {
			break
		}
	}
	descr := map[string]interface{}{"kind": p.kind, "plan": pi, "type": p.typ, "n": p.n, "shared": shared, "sched": p.sched, "forced": forced, "late": p.late}
	if p.multi {
		progs := make([][]string, len(ws))
		for i, w := range ws {
			for _, c := range w.calls {
				progs[i] = append(progs[i], c.String())
			}
		}
		descr["progs"] = progs
		descr["late"] = p.lateW
		descr["whole_writes"] = p.writes
		if p.delay != nil {
			descr["delay"] = p.delay
		}
	}
	if hang {
		r.AddDirect("hang:writers", "writers did not return within 20 s", descr)
		r.Count("hang")
		return nil
	}
	if crashLost != nil {
		descr["sig"] = "acknowledged-before-persisted"
		descr["lost_at_crash"] = len(crashLost)
		descr["crash_after_steps"] = crashAt
		r.AddDirect("crash:acknowledged-write-not-persisted", fmt.Sprintf("after %d scheduled steps %d acknowledged write(s) were neither a persisted head (_localHeads/_remoteHeads) nor an ancestor of one: a crash at that instant loses them", crashAt, len(crashLost)), descr)
		r.Count("crash-point-loses-acknowledged-write")
	}
	sim.TheHooks.Extra = nil

	// ---- observations ----
	ids := map[string]int{}
	idOf := func(h string) int {
		if v, ok := ids[h]; ok {
			return v
		}
		ids[h] = len(ids) + 1
		return ids[h]
	}
	logAfterEntries := st.OpLog().Values().Slice()
	logAfter := make([]int, len(logAfterEntries))
	views := make([]c17OpView, len(logAfterEntries))
	byMarker := map[string]string{} // value written by a put -> entry hash
	for i, e := range logAfterEntries {
		h := e.GetHash().String()
		logAfter[i] = idOf(h)
		v, err := c17ParseEntry(p.typ, e)
		if err != nil {
			return fmt.Errorf("entry %s: %w", h, err)
		}
		views[i] = v
		if v.op == "put" {
			byMarker[v.docs[0].val] = h
		}
	}
	// entries acknowledged to each thread, in call order
	acked := make([][]int, len(ws))
	valOwner := map[string]*c17Call{}
	for i, w := range ws {
		acked[i] = []int{}
		if w.panicked != nil {
			r.Count("write-panic")
			r.Notes = append(r.Notes, fmt.Sprintf("plan %d writer %d: %v", pi, w.idx, w.panicked))
		}
		var hashes []string
		for _, c := range w.calls {
			for _, d := range c.docs {
				if d.val != "" {
					valOwner[d.val] = c
				}
			}
			if !c.ran {
				continue
			}
			if c.err != nil {
				r.Count("write-error")
				r.Count("write-error:" + c.op)
				r.Notes = append(r.Notes, fmt.Sprintf("plan %d writer %d %s: %v", pi, w.idx, c, c.err))
				continue
			}
			if c.op != "batch" {
				hashes = append(hashes, c.retHash)
				continue
			}
			// a batch acknowledges every document: the entries that carry them (an entry that is
			// not in the log gets a name of its own), the last one being the returned operation's
			for j, d := range c.docs {
				h, ok := byMarker[d.val]
				if !ok {
					h = "missing:" + d.val
				}
				if j == len(c.docs)-1 {
					h = c.retHash
				}
				hashes = append(hashes, h)
			}
		}
		for _, h := range hashes {
			acked[i] = append(acked[i], idOf(h))
		}
		if forced && !p.writes && len(w.hookHashes) > 0 && strings.Join(w.hookHashes, ",") != strings.Join(hashes, ",") {
			blocked = true // attribution of schedule points to writers failed: do not claim exactness
			r.Count("forced:attribution-mismatch")
		}
	}
	var returned []int
	for _, a := range acked {
		returned = append(returned, a...)
	}
	// expected view = replay of the listing
	expect := map[string]string{}
	var expectAdds []string
	for _, v := range views {
		switch v.op {
		case "put", "putall":
			for _, d := range v.docs {
				expect[d.key] = d.val
			}
		case "del":
			delete(expect, v.docs[0].key)
		case "add":
			expectAdds = append(expectAdds, v.docs[0].val)
		}
	}
	viewComplete := true
	viewN := 0
	got := map[string]string{} // key -> marker value
	switch x := st.(type) {
	case iface.KeyValueStore:
		for k, v := range x.All() {
			got[k] = string(v)
		}
	case iface.DocumentStore:
		docs, err := x.Query(context.Background(), func(interface{}) (bool, error) { return true, nil })
		if err != nil {
			return fmt.Errorf("query: %w", err)
		}
		for _, d := range docs {
			if m, ok := d.(map[string]interface{}); ok {
				id, _ := m["_id"].(string)
				v, _ := m["v"].(string)
				got[id] = v
			}
		}
	case iface.EventLogStore:
		ops, err := x.List(context.Background(), &iface.StreamOptions{Amount: intPtr(-1)})
		if err != nil {
			return fmt.Errorf("list: %w", err)
		}
		// the event log has no keys: the listed values must be those of the log's entries
		var gotAdds []string
		for _, op := range ops {
			gotAdds = append(gotAdds, string(op.GetValue()))
		}
		sort.Strings(gotAdds)
		sort.Strings(expectAdds)
		if strings.Join(gotAdds, "\x00") != strings.Join(expectAdds, "\x00") {
			viewComplete = false
		}
	}
	if len(got) != len(expect) {
		viewComplete = false
	}
	for k, v := range expect {
		if got[k] != v {
			viewComplete = false
		}
	}
	if shared && !p.multi {
		// which entry's value does the view show?
		if v, ok := got["shared"]; ok {
			if c := valOwner[v]; c != nil && c.err == nil && c.ran {
				viewN = idOf(c.retHash)
			}
		}
	}

	// ---- close, reopen, load ----
	s.Settle()
	ctx := context.Background()
	if err := st.Close(); err != nil {
		return fmt.Errorf("close: %w", err)
	}
	st2, err := s.Reps[0].Orbit.Open(ctx, s.Addr, &orbitdb.CreateDBOptions{})
	if err != nil {
		return fmt.Errorf("reopen: %w", err)
	}
	s.Stores[0] = st2
	if err := st2.Load(ctx, -1); err != nil {
		return fmt.Errorf("load: %w", err)
	}
	if !s.Settle() {
		r.AddDirect("hang:load", "load after reopen did not settle", descr)
	}
	var recovered []int
	for _, e := range st2.OpLog().Values().Slice() {
		recovered = append(recovered, idOf(e.GetHash().String()))
	}
	sort.Ints(recovered)

	// ---- classification signature (computed from the observation) ----
	inList := func(x int, l []int) bool {
		for _, y := range l {
			if x == y {
				return true
			}
		}
		return false
	}
	lost, missing, dup := 0, 0, false
	seen := map[int]bool{}
	for _, e := range returned {
		if seen[e] {
			dup = true
		}
		seen[e] = true
		if !inList(e, logAfter) {
			missing++
		} else if !inList(e, recovered) {
			lost++
		}
	}
	sig := ""
	switch {
	case dup || missing > 0:
		sig = "writers-other"
	case lost > 0:
		sig = "localheads-order"
	case !viewComplete:
		sig = "stale-view"
	}
	if sig != "" {
		descr["sig"] = sig
		r.Count("outcome:" + sig)
		r.Count("outcome:" + sig + ":" + p.kind)
		if lost > 0 && !viewComplete {
			descr["also"] = "stale-view"
			r.Count("outcome:both")
		}
	} else {
		descr["sig"] = "writers-other" // only reported if the checker fails the case for another reason
		r.Count("outcome:ok")
	}
	descr["blocked"] = blocked
	descr["executed"] = executed
	descr["lost"] = lost
	descr["view_complete"] = viewComplete
	descr["recovered"] = len(recovered)
	if delay != nil {
		descr["held"] = delay.held
		descr["overtaken"] = delay.overtaken
		r.Dist["delay:held"] += delay.held
		r.Dist["delay:overtaken"] += delay.overtaken
	}
	schedOut := executed
	if !forced {
		schedOut = nil
	}
	schedTerms := make([]string, len(schedOut))
	for i, x := range schedOut {
		schedTerms[i] = strconv.Itoa(x)
	}
	schedCoq := "([" + strings.Join(schedTerms, "; ") + "])%nat"
	if p.multi {
		counts := make([]string, len(ws))
		ackTerms := make([]string, len(ws))
		total := 0
		for i, w := range ws {
			cnt := w.count
			for _, c := range w.calls {
				if c.deadCtx && c.err != nil {
					cnt -= c.entries() // refused: no write of this thread
					r.Count("dead-context-call-refused")
				} else if c.deadCtx {
					r.Count("dead-context-call-accepted")
				}
			}
			counts[i] = strconv.Itoa(cnt)
			ackTerms[i] = sim.CoqListN(acked[i])
			total += cnt
			for _, c := range w.calls {
				r.Count("call:" + p.typ + ":" + c.op)
			}
		}
		coq := fmt.Sprintf("(CMulti ([%s])%%nat %s %s %s %s %s %s %s)",
			strings.Join(counts, "; "), schedCoq, sim.CoqBool(forced), sim.CoqBool(blocked),
			sim.CoqList(ackTerms), sim.CoqListN(logAfter), sim.CoqBool(viewComplete), sim.CoqListN(recovered))
		r.AddCase(coq, descr, true)
		r.Count(fmt.Sprintf("multi:threads=%d", p.n))
		r.Count(fmt.Sprintf("multi:writes=%d", total))
	} else {
		coq := fmt.Sprintf("(CWriters %s %s %s %s %s %s %s %s %s %s)",
			sim.CoqNat(p.n), schedCoq, sim.CoqBool(forced), sim.CoqBool(blocked), sim.CoqBool(shared),
			sim.CoqListN(returned), sim.CoqListN(logAfter), sim.CoqBool(viewComplete), sim.CoqN(viewN), sim.CoqListN(recovered))
		r.AddCase(coq, descr, true)
		r.Count(fmt.Sprintf("writers=%d", p.n))
		if shared {
			r.Count("keys:shared")
		} else {
			r.Count("keys:own")
		}
	}
	r.Count("kind:" + p.kind)
	r.Count("type:" + p.typ)
	if forced {
		if blocked {
			r.Count("forced:blocked")
		} else {
			r.Count("forced:exact")
		}
	}
	return nil
}

func intPtr(i int) *int { return &i }

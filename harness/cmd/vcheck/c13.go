package main

import (
	ipfslog "berty.tech/go-ipfs-log"
	"context"
	"encoding/json"
	"fmt"
	"github.com/ipfs/kubo/core/coreiface/options"
	"io"
	"math/rand"
	"strings"
	"sync"
	"time"

	"berty.tech/go-ipfs-log/entry"
	orbitdb "berty.tech/go-orbit-db"
	"berty.tech/go-orbit-db/iface"
	"berty.tech/go-orbit-db/stores/basestore"
	files "github.com/ipfs/boxo/files"
	"github.com/ipfs/boxo/path"
	cid "github.com/ipfs/go-cid"
	datastore "github.com/ipfs/go-datastore"
	coreiface "github.com/ipfs/kubo/core/coreiface"
	"verifharness/sim"
)

func init() { drivers["C13"] = driver{"C13", runC13} }

// c13Header mirrors basestore.storeSnapshot (unexported): the first frame of a snapshot.
type c13Header struct {
	ID    string         `json:"id,omitempty"`
	Heads []*entry.Entry `json:"heads,omitempty"`
	Size  int            `json:"size,omitempty"`
	Type  string         `json:"type,omitempty"`
}

// c13FrameSizes computes, exactly as SaveSnapshot does, the encoded length of the header
// frame followed by one frame per entry (insertion order).
func c13FrameSizes(st iface.Store) ([]int, error) {
	oplog := st.OpLog()
	var heads []*entry.Entry
	for _, h := range oplog.Heads().Slice() {
		e, ok := h.(*entry.Entry)
		if !ok {
			return nil, fmt.Errorf("head is not *entry.Entry")
		}
		heads = append(heads, e)
	}
	hdr, err := json.Marshal(&c13Header{ID: oplog.GetID(), Heads: heads, Size: oplog.Len(), Type: st.Type()})
	if err != nil {
		return nil, err
	}
	out := []int{len(hdr)}
	for _, e := range oplog.GetEntries().Slice() {
		b, err := json.Marshal(e)
		if err != nil {
			return nil, err
		}
		out = append(out, len(b))
	}
	return out, nil
}

// c13Obs is the externally visible state of a store: listing, heads, view.
type c13Obs struct {
	Vals, Heads []int
	View        map[string][]byte
}

func c13Observe(s *Scen, st iface.Store) c13Obs {
	return c13Obs{
		Vals:  s.Canon.HashIDs(st.OpLog().Values().Slice()),
		Heads: s.Canon.HashIDs(st.OpLog().Heads().Slice()),
		View:  viewOf(s, st),
	}
}

func (o c13Obs) Coq(c *sim.Canon) string {
	return fmt.Sprintf("(mkObs %s %s %s)", sim.CoqListN(o.Vals), sim.CoqListN(o.Heads), coqKvMap(c, o.View))
}

const (
	c13Ok = iota
	c13Error
	c13Panic
	c13NotRun
)

var c13OutcomeName = []string{"ok", "error", "panic", "not-run"}

func c13Save(ctx context.Context, st iface.Store) (out int, msg string, c cid.Cid) {
	defer func() {
		if p := recover(); p != nil {
			out, msg = c13Panic, fmt.Sprint(p)
		}
	}()
	c, err := basestore.SaveSnapshot(ctx, st)
	if err != nil {
		return c13Error, err.Error(), c
	}
	return c13Ok, "", c
}

func c13Load(ctx context.Context, st iface.Store) (out int, msg string) {
	defer func() {
		if p := recover(); p != nil {
			out, msg = c13Panic, fmt.Sprint(p)
		}
	}()
	if err := st.LoadFromSnapshot(ctx); err != nil {
		return c13Error, err.Error()
	}
	return c13Ok, ""
}

// c13Write writes one operation whose value has exactly n bytes (random content) on st.
func c13Write(r *Run, st iface.Store, key string, n int) error {
	ctx := context.Background()
	buf := make([]byte, n)
	r.Rng.Read(buf)
	switch x := st.(type) {
	case iface.EventLogStore:
		_, err := x.Add(ctx, buf)
		return err
	case iface.KeyValueStore:
		_, err := x.Put(ctx, key, buf)
		return err
	case iface.DocumentStore:
		for i := range buf {
			buf[i] = 'a' + buf[i]%26
		}
		_, err := x.Put(ctx, map[string]interface{}{"_id": key, "v": string(buf)})
		return err
	}
	return fmt.Errorf("unknown store type")
}

// A CoreAPI whose UnixFS files hand out at most max bytes per Read, as a file backed by a
// network stream (e.g. the HTTP client implementation of the same interface) may do; the
// io.Reader contract allows it.  The embedded kubo node never returns short reads.
type c13ShortAPI struct {
	coreiface.CoreAPI
	max int
}

func (a c13ShortAPI) Unixfs() coreiface.UnixfsAPI { return c13ShortUnixfs{a.CoreAPI.Unixfs(), a.max} }

type c13ShortUnixfs struct {
	coreiface.UnixfsAPI
	max int
}

func (u c13ShortUnixfs) Get(ctx context.Context, p path.Path) (files.Node, error) {
	n, err := u.UnixfsAPI.Get(ctx, p)
	if f, ok := n.(files.File); ok && err == nil {
		return c13ShortFile{f, u.max}, nil
	}
	return n, err
}

type c13ShortFile struct {
	files.File
	max int
}

func (f c13ShortFile) Read(b []byte) (int, error) {
	if len(b) > f.max {
		b = b[:f.max]
	}
	return f.File.Read(b)
}

// c13Spec is one generated case.
type c13Spec struct {
	Typ    string `json:"type"`
	Shape  string `json:"shape"`
	Class  string `json:"class"`
	Size   int    `json:"value_size"` // size of the big value
	Count  int    `json:"big_count"`  // how many entries carry the big value
	BigPos int    `json:"big_pos"`    // position of the (first) big write among the local writes
	Len    int    `json:"writes"`     // local writes per writer
	Reload bool   `json:"reloaded"`   // close + reopen + Load from disk before saving (clears the replicator's task table)
	Park   string `json:"park,omitempty"`
	NHeads int    `json:"park_heads,omitempty"`
	Chunk  int    `json:"read_chunk"` // >0: the snapshot file hands out at most this many bytes per Read while loading
}

// c13ValueFor estimates the value size that gives an entry of the wanted ENCODED size: the value is
// base64-encoded inside the operation, the operation again inside the entry (factor 16/9), plus
// 980..1260 bytes of identity, signature, links (measured; depends on the position in the log).
// The exact encoded sizes are computed by c13FrameSizes and recorded with every case.
func c13ValueFor(encoded int, typ string) int {
	over := 1090
	switch typ {
	case "keyvalue":
		over = 1110
	case "docstore":
		over = 1140
	}
	v := (encoded - over) * 9 / 16
	if v < 0 {
		v = 0
	}
	return v
}

func c13Specs(r *Run) []c13Spec {
	types := []string{"eventlog", "keyvalue", "docstore"}
	shapes := []string{"chain", "fork", "multiwriter", "replicated", "parked"}
	classes := []string{"s0", "s1", "s100", "cross", "cross", "raw64k", "k200", "k400", "multichunk", "bighead"}
	n := 60
	if r.Tier == "thorough" {
		n = 800
	}
	var combos [][2]string
	for _, sh := range shapes {
		for _, cl := range classes {
			combos = append(combos, [2]string{sh, cl})
		}
	}
	var specs []c13Spec
	k400 := 0
	for len(specs) < n {
		perm := r.Rng.Perm(len(combos))
		for _, pi := range perm {
			if len(specs) >= n {
				break
			}
			sh, cl := combos[pi][0], combos[pi][1]
			if cl == "k400" {
				// 400 KiB values are slow: keep them few
				k400++
				if (r.Tier != "thorough" && k400 > 2) || (r.Tier == "thorough" && k400%3 != 0) {
					cl = "cross"
				}
			}
			sp := c13Spec{Typ: types[r.Rng.Intn(3)], Shape: sh, Class: cl, Count: 1, Len: 1 + r.Rng.Intn(3)}
			switch cl {
			case "s0":
				sp.Size = 0
			case "s1":
				sp.Size = 1
			case "s100":
				sp.Size = 100
			case "cross":
				// sweep of the ENCODED entry size around 65 536 (steps of ~97 bytes of value)
				sp.Size = c13ValueFor(65536, sp.Typ) - 485 + 97*r.Rng.Intn(11) + r.Rng.Intn(3)
			case "raw64k":
				sp.Size = 65000 + 97*r.Rng.Intn(11)
			case "k200":
				sp.Size = 200 * 1024
			case "k400":
				sp.Size = 400 * 1024
			case "multichunk":
				// several entries just below the limit: snapshot larger than one 256 KiB UnixFS chunk
				sp.Size = c13ValueFor(40000+r.Rng.Intn(25000), sp.Typ)
				sp.Count = 5 + r.Rng.Intn(5)
				sp.Len = sp.Count
			case "bighead":
				// entries below the limit whose header (which embeds the heads) is not
				sp.Size = c13ValueFor(33500+r.Rng.Intn(30000), sp.Typ)
			}
			if r.Rng.Intn(6) == 0 {
				sp.Chunk = []int{512, 4096, 32768}[r.Rng.Intn(3)]
			}
			sp.BigPos = r.Rng.Intn(sp.Len)
			if cl == "multichunk" {
				sp.BigPos = 0
			}
			switch sh {
			case "fork", "multiwriter":
				sp.Reload = r.Rng.Intn(2) == 0
			case "parked":
				sp.Park = []string{"replicator.after_dequeue", "replicator.before_slot"}[r.Rng.Intn(2)]
				sp.NHeads = 1 + r.Rng.Intn(3)
			}
			specs = append(specs, sp)
		}
	}
	// a fetch that failed before the save (the block of one ancestor could not be had): the
	// saved queue has to carry the failed hash, so that the reloaded store resumes it
	nf := 2
	if r.Tier == "thorough" {
		nf = 9
	}
	for k := 0; k < nf; k++ {
		specs = append(specs, c13Spec{Typ: types[k%3], Shape: "failed", Class: "s100", Size: 100, Count: 1, Len: 1 + r.Rng.Intn(2), NHeads: 1})
	}
	// the empty log, once per type
	for _, t := range types {
		specs = append(specs, c13Spec{Typ: t, Shape: "empty", Class: "s0"})
	}
	return specs
}

// C13: a saved snapshot reloads to exactly the saved database, or saving fails.
func runC13(r *Run) error {
	defer closeEnv()
	specs := c13Specs(r)
	for ci, sp := range specs {
		if err := c13Case(r, ci, sp); err != nil {
			return fmt.Errorf("case %d %+v: %w", ci, sp, err)
		}
	}
	rounds := 2
	if r.Tier == "thorough" {
		rounds = 8
	}
	for k := 0; k < rounds; k++ {
		if err := c13WhileWriting(r, k); err != nil {
			return fmt.Errorf("snapshot while writing %d: %w", k, err)
		}
	}
	for k := 0; k < rounds; k++ {
		if err := c13WhileReplicating(r, k); err != nil {
			return fmt.Errorf("snapshot while replicating %d: %w", k, err)
		}
	}
	return nil
}

// c13GateAddAPI holds SaveSnapshot back at the moment it adds the snapshot file to IPFS.
type c13GateAddAPI struct {
	coreiface.CoreAPI
	reached chan struct{}
	release chan struct{}
	once    *sync.Once
}

func (a c13GateAddAPI) Unixfs() coreiface.UnixfsAPI { return c13GateAddUnixfs{a.CoreAPI.Unixfs(), a} }

type c13GateAddUnixfs struct {
	coreiface.UnixfsAPI
	g c13GateAddAPI
}

func (u c13GateAddUnixfs) Add(ctx context.Context, n files.Node, opts ...options.UnixfsAddOption) (path.ImmutablePath, error) {
	u.g.once.Do(func() { close(u.g.reached) })
	<-u.g.release
	return u.UnixfsAPI.Add(ctx, n, opts...)
}

// c13WhileReplicating: a snapshot saved while a replication is in progress that COMPLETES during
// the save.  Replica 1 is announced replica 0's head and its fetch workers are parked; SaveSnapshot
// is started and held back at the point where it adds the file; the workers are released and the
// entries merged; then the save goes on.  Whatever was pending when the save began is, when it
// returns, either in the saved log or in the saved queue: the reloaded store (queue resumed)
// holds everything the store held when SaveSnapshot returned.
func c13WhileReplicating(r *Run, k int) error {
	ctx := context.Background()
	typ := []string{"eventlog", "keyvalue"}[k%2]
	s, err := NewScen(2, typ, nil)
	if err != nil {
		return err
	}
	defer func() {
		sim.TheHooks.Reset()
		s.Settle()
		s.Close()
	}()
	for i := 0; i < 1+r.Rng.Intn(2); i++ {
		if err := c13Write(r, s.Stores[1], fmt.Sprintf("l%d", i), 8); err != nil {
			return err
		}
	}
	n := 3 + r.Rng.Intn(4)
	for i := 0; i < n; i++ {
		if err := c13Write(r, s.Stores[0], fmt.Sprintf("a%d", i), 8); err != nil {
			return err
		}
	}
	st := s.Stores[1]
	point := []string{"replicator.after_dequeue", "replicator.before_slot"}[k%2]
	max := 1
	if point == "replicator.before_slot" {
		max = 0
	}
	gate := sim.TheHooks.Park(point, "", max)
	if err := s.SyncFrom(1, 0); err != nil {
		gate.Release()
		return err
	}
	if !gate.WaitArrived(10 * time.Second) {
		gate.Release()
		return fmt.Errorf("no replicator worker arrived at %s", point)
	}
	c13Calm(st)
	api := s.Reps[1].API
	orig := api.CoreAPI
	g := c13GateAddAPI{orig, make(chan struct{}), make(chan struct{}), &sync.Once{}}
	api.CoreAPI = g
	type saveRes struct {
		out int
		msg string
	}
	saved := make(chan saveRes, 1)
	go func() {
		out, msg, _ := c13Save(ctx, st)
		saved <- saveRes{out, msg}
	}()
	var res saveRes
	finished := false
	select {
	case <-g.reached:
	case res = <-saved:
		finished = true // (failed before it got to add anything)
	case <-time.After(20 * time.Second):
		close(g.release)
		gate.Release()
		api.CoreAPI = orig
		return fmt.Errorf("SaveSnapshot neither returned nor reached the file addition")
	}
	// the replication completes while the save is held back
	gate.Release()
	want := s.Stores[0].OpLog().Len()
	deadline := time.Now().Add(20 * time.Second)
	for time.Now().Before(deadline) {
		have := 0
		for _, e := range s.Stores[0].OpLog().Values().Slice() {
			if _, ok := st.OpLog().Get(e.GetHash()); ok {
				have++
			}
		}
		if have >= want {
			break
		}
		time.Sleep(3 * time.Millisecond)
	}
	close(g.release)
	if !finished {
		select {
		case res = <-saved:
		case <-time.After(30 * time.Second):
			api.CoreAPI = orig
			r.AddDirect("hang:snapshot-save", "SaveSnapshot did not return", map[string]interface{}{"round": k})
			return nil
		}
	}
	api.CoreAPI = orig
	if !s.Settle() {
		r.AddDirect("hang:sync", "replication did not settle", map[string]interface{}{"round": k, "state": sim.LastSettleState})
	}
	r.Count(fmt.Sprintf("while-replicating:save=%s", c13OutcomeName[res.out]))
	if res.out == c13Panic {
		r.AddDirect("snapshot:while-replicating:panic", "SaveSnapshot panicked while a replication completed: "+res.msg, map[string]interface{}{"round": k, "type": typ})
		return nil
	}
	if res.out != c13Ok {
		return nil // saving failed: allowed
	}
	held := map[string]bool{}
	for _, e := range st.OpLog().Values().Slice() {
		held[e.GetHash().String()] = true
	}
	if err := c13Reopen(s, 1); err != nil {
		return err
	}
	lo, lmsg := c13Load(ctx, s.Stores[1])
	if !s.Settle() {
		r.AddDirect("hang:snapshot-load", "store did not settle after LoadFromSnapshot", map[string]interface{}{"round": k, "state": sim.LastSettleState})
	}
	got := s.Stores[1].OpLog().Values().Slice()
	have := map[string]bool{}
	foreign := 0
	for _, e := range got {
		have[e.GetHash().String()] = true
		if !held[e.GetHash().String()] {
			foreign++
		}
	}
	missing := 0
	for h := range held {
		if !have[h] {
			missing++
		}
	}
	descr := map[string]interface{}{"round": k, "type": typ, "parked_at": point, "held_when_saved": len(held), "load": c13OutcomeName[lo], "load_error": lmsg, "loaded": len(got), "missing": missing, "foreign": foreign}
	if lo != c13Ok || missing > 0 || foreign > 0 {
		r.AddDirect("snapshot:while-replicating:lost", "SaveSnapshot reported success while a replication completed, but the store reloaded from the snapshot (queue resumed) does not hold what the store held when the save returned", descr)
	}
	r.Count("while-replicating:checked")
	return nil
}

// c13WhileWriting: a snapshot saved while the store is being written (the log grows during
// SaveSnapshot).  Either saving fails, or the snapshot loads, on a reopened store, to a log that
// holds at least what the store held when the save began and nothing it did not hold when it
// ended - whatever the interleaving, so no outcome of the race can be a false alarm.
func c13WhileWriting(r *Run, k int) error {
	ctx := context.Background()
	typ := []string{"eventlog", "keyvalue"}[k%2]
	s, err := NewScen(1, typ, nil)
	if err != nil {
		return err
	}
	defer s.Close()
	st := s.Stores[0]
	pre := 120 + r.Rng.Intn(80)
	for i := 0; i < pre; i++ {
		if err := c13Write(r, st, fmt.Sprintf("p%d", i%5), 8); err != nil {
			return err
		}
	}
	before := map[string]bool{}
	for _, e := range st.OpLog().Values().Slice() {
		before[e.GetHash().String()] = true
	}
	var out int
	var msg string
	written := 0
	if k%2 == 1 {
		// every second round the interleaving is fixed instead of left to the scheduler: exactly
		// one write lands while SaveSnapshot is between two of its reads of the store (it asks the
		// store for its type after it has read the length of the log and before it lists the
		// entries; whatever the order of its reads, the write lands inside the save)
		w := &c13WritesOnType{Store: st, write: func() {
			if c13Write(r2(r, k), st, "w0", 8) == nil {
				written++
			}
		}}
		out, msg, _ = c13Save(ctx, w)
		r.Count("while-writing:one-write-inside-the-save")
	} else {
		stop := make(chan struct{})
		done := make(chan int)
		go func() {
			n := 0
			for {
				select {
				case <-stop:
					done <- n
					return
				default:
				}
				if c13Write(r2(r, k), st, fmt.Sprintf("w%d", n%5), 8) != nil {
					done <- n
					return
				}
				n++
			}
		}()
		time.Sleep(2 * time.Millisecond)
		out, msg, _ = c13Save(ctx, st)
		close(stop)
		written = <-done
	}
	s.Settle()
	after := map[string]bool{}
	for _, e := range st.OpLog().Values().Slice() {
		after[e.GetHash().String()] = true
	}
	r.Count(fmt.Sprintf("while-writing:save=%s", c13OutcomeName[out]))
	if out == c13Panic {
		r.AddDirect("snapshot:while-writing:panic", "SaveSnapshot panicked while the store was being written: "+msg, map[string]interface{}{"round": k, "type": typ})
		return nil
	}
	if out != c13Ok {
		return nil // saving failed: allowed
	}
	if err := c13Reopen(s, 0); err != nil {
		return err
	}
	lo, lmsg := c13Load(ctx, s.Stores[0])
	s.Settle()
	got := s.Stores[0].OpLog().Values().Slice()
	missing, foreign := 0, 0
	have := map[string]bool{}
	for _, e := range got {
		have[e.GetHash().String()] = true
		if !after[e.GetHash().String()] {
			foreign++
		}
	}
	for h := range before {
		if !have[h] {
			missing++
		}
	}
	descr := map[string]interface{}{"round": k, "type": typ, "entries_before": len(before), "written_meanwhile": written, "load": c13OutcomeName[lo], "load_error": lmsg, "loaded": len(got), "missing": missing, "foreign": foreign}
	if lo != c13Ok || missing > 0 || foreign > 0 {
		r.AddDirect("snapshot:while-writing:unloadable", "SaveSnapshot reported success while the store was being written, but the snapshot does not load to the saved log", descr)
	}
	r.Count("while-writing:checked")
	return nil
}

// c13WritesOnType is the store handed to SaveSnapshot in the fixed-interleaving rounds: the first
// time it is asked for its type it performs one write on the store.
type c13WritesOnType struct {
	iface.Store
	write func()
	once  sync.Once
}

func (w *c13WritesOnType) Type() string {
	w.once.Do(w.write)
	return w.Store.Type()
}

// r2 gives the writer goroutine a Run with a PRNG of its own (rand.Rand is not goroutine safe)
func r2(r *Run, k int) *Run {
	c := *r
	c.Rng = rand.New(rand.NewSource(int64(7919*k + 13)))
	return &c
}

// writeChain performs sp.Len writes on store i; the big value goes to positions
// [BigPos, BigPos+Count) when big is set, all other values are small.
func c13WriteChain(r *Run, s *Scen, i int, sp c13Spec, big bool, tag string) error {
	for k := 0; k < sp.Len; k++ {
		n := 3 + r.Rng.Intn(20)
		if big && k >= sp.BigPos && k < sp.BigPos+sp.Count {
			n = sp.Size
		}
		if err := c13Write(r, s.Stores[i], fmt.Sprintf("%s%d", tag, k%3), n); err != nil {
			return fmt.Errorf("write: %w", err)
		}
	}
	return nil
}

func c13SyncSettle(r *Run, s *Scen, to, from int, ci int) error {
	if err := s.SyncFrom(to, from); err != nil {
		return err
	}
	if !s.Settle() {
		r.AddDirect("hang:sync", "replication did not settle", map[string]interface{}{"case": ci, "state": sim.LastSettleState})
	}
	return nil
}

// c13Reopen closes store i and opens the same address again on the same instance.
func c13Reopen(s *Scen, i int) error {
	if err := s.Stores[i].Close(); err != nil {
		return fmt.Errorf("close: %w", err)
	}
	st2, err := s.Reps[i].Orbit.Open(context.Background(), s.Addr, &orbitdb.CreateDBOptions{})
	if err != nil {
		return fmt.Errorf("reopen: %w", err)
	}
	s.Stores[i] = st2
	return nil
}

func c13Case(r *Run, ci int, sp c13Spec) error {
	ctx := context.Background()
	nrep := map[string]int{"empty": 1, "chain": 1, "fork": 2, "multiwriter": 3, "replicated": 2, "parked": 3, "failed": 3}[sp.Shape]
	s, err := NewScen(nrep, sp.Typ, nil)
	if err != nil {
		return err
	}
	defer func() {
		sim.TheHooks.Reset()
		s.Settle()
		s.Close()
	}()
	saver := 0
	var gate *sim.Gate
	switch sp.Shape {
	case "empty":
	case "chain":
		if err := c13WriteChain(r, s, 0, sp, true, "a"); err != nil {
			return err
		}
	case "fork":
		// two writers write concurrently; replica 0 merges replica 1's branch and writes on top
		if err := c13WriteChain(r, s, 0, sp, true, "a"); err != nil {
			return err
		}
		sp1 := sp
		sp1.Len = 1 + r.Rng.Intn(2)
		if err := c13WriteChain(r, s, 1, sp1, sp.Class == "bighead", "b"); err != nil {
			return err
		}
		if err := c13SyncSettle(r, s, 0, 1, ci); err != nil {
			return err
		}
		if sp.Class != "bighead" || r.Rng.Intn(2) == 0 {
			// the merge entry (otherwise the log is saved with two heads)
			if err := c13Write(r, s.Stores[0], "m", 5); err != nil {
				return err
			}
		}
	case "multiwriter":
		for round := 0; round < 2; round++ {
			for w := 0; w < 3; w++ {
				spw := sp
				if w != 0 || round != 0 {
					spw.Len = 1 + r.Rng.Intn(2)
				}
				if err := c13WriteChain(r, s, w, spw, w == 0 && round == 0, fmt.Sprintf("w%d", w)); err != nil {
					return err
				}
			}
			for _, p := range [][2]int{{1, 2}, {0, 1}, {2, 0}} {
				if r.Rng.Intn(3) > 0 {
					if err := c13SyncSettle(r, s, p[0], p[1], ci); err != nil {
						return err
					}
				}
			}
		}
		if err := c13SyncSettle(r, s, 0, 1, ci); err != nil {
			return err
		}
		if err := c13SyncSettle(r, s, 0, 2, ci); err != nil {
			return err
		}
	case "replicated":
		if err := c13WriteChain(r, s, 0, sp, true, "a"); err != nil {
			return err
		}
		if err := c13SyncSettle(r, s, 1, 0, ci); err != nil {
			return err
		}
		saver = 1
		if r.Rng.Intn(2) == 0 {
			if err := c13Write(r, s.Stores[1], "l", 4); err != nil {
				return err
			}
		}
	case "parked":
		// replica 1 holds local entries and is in the middle of fetching replica 0's chain
		// (replica 2 stays empty: it serves as the reference for what the saved state stands for)
		saver = 1
		if err := c13WriteChain(r, s, 1, sp, true, "l"); err != nil {
			return err
		}
		sp0 := sp
		sp0.Len = sp.NHeads + r.Rng.Intn(2)
		if err := c13WriteChain(r, s, 0, sp0, false, "a"); err != nil {
			return err
		}
		max := 1
		if sp.Park == "replicator.before_slot" {
			max = 0
		}
		gate = sim.TheHooks.Park(sp.Park, "", max)
		// announce the last NHeads entries of replica 0's chain as heads
		vals := s.Stores[0].OpLog().Values().Slice()
		heads := vals[len(vals)-sp.NHeads:]
		if err := s.SyncHeads(1, heads); err != nil {
			return err
		}
		if !gate.WaitArrived(10 * time.Second) {
			return fmt.Errorf("no replicator worker arrived at %s", sp.Park)
		}
		// let the other workers reach their resting points
		c13Calm(s.Stores[1])
	}
	var failedEntry ipfslog.Entry
	if sp.Shape == "failed" {
		// replica 1 holds local entries; it is announced the head of replica 0's chain while the
		// block of that head's parent cannot be had: the parent's fetch fails, the rest arrives
		// (through the references of the head).  The block is available again afterwards.
		saver = 1
		if err := c13WriteChain(r, s, 1, sp, true, "l"); err != nil {
			return err
		}
		sp0 := sp
		sp0.Len = 3 + r.Rng.Intn(3)
		if err := c13WriteChain(r, s, 0, sp0, false, "a"); err != nil {
			return err
		}
		vals := s.Stores[0].OpLog().Values().Slice()
		victim := vals[len(vals)-2]
		s.Reps[1].API.FailGet(victim.GetHash().String(), true)
		if err := s.SyncHeads(1, vals[len(vals)-1:]); err != nil {
			return err
		}
		if !s.Settle() {
			r.AddDirect("hang:sync", "replication with a failing fetch did not settle", map[string]interface{}{"case": ci, "state": sim.LastSettleState})
		}
		if _, ok := s.Stores[1].OpLog().Get(victim.GetHash()); ok {
			return fmt.Errorf("failed shape: the entry whose fetch was to fail is in the log")
		}
		failedEntry = victim
	}
	if sp.Reload {
		if err := c13Reopen(s, saver); err != nil {
			return err
		}
		if err := s.Stores[saver].Load(ctx, -1); err != nil {
			return fmt.Errorf("load from disk: %w", err)
		}
		s.Settle()
	}
	st := s.Stores[saver]
	sizes, err := c13FrameSizes(st)
	if err != nil {
		return err
	}
	rs := sim.ReplState(st)
	saved := c13Observe(s, st)
	saveOut, saveMsg, _ := c13Save(ctx, st)
	if rs2 := sim.ReplState(st); rs2 != rs {
		// the replicator moved while the snapshot was taken: the recorded task table is not
		// the one SaveSnapshot saw; not a usable observation
		r.Count("discarded: replicator state moved during save")
		if gate != nil {
			gate.Release()
		}
		return nil
	}
	queued, total := -1, -1
	var queue []cid.Cid
	if saveOut == c13Ok {
		queue, total, err = c13Stored(ctx, st)
		if err != nil {
			return err
		}
		queued = len(queue)
	}
	// The saved state stands for: the saved log, plus everything reachable from the saved
	// queue (replication resumes from it after loading).  With a non-empty queue a reference
	// replica that never saw anything is given exactly the saved heads and the queued
	// entries; its state at rest is what the reloaded store has to show.
	expect := saved
	if failedEntry != nil && saveOut == c13Ok {
		// (whatever the saved queue says: the saved state stands for the saved log plus the entry
		// whose fetch had failed and everything behind it)
		ref := len(s.Stores) - 1
		heads := append(st.OpLog().Heads().Slice(), failedEntry)
		if err := s.SyncHeads(ref, heads); err != nil {
			return err
		}
	} else if queued > 0 {
		ref := len(s.Stores) - 1
		if sp.Shape != "parked" {
			return fmt.Errorf("non-empty queue saved outside the parked scenario")
		}
		heads := st.OpLog().Heads().Slice()
		for _, c := range queue {
			e, ok := s.Stores[0].OpLog().Get(c)
			if !ok {
				return fmt.Errorf("queued cid %s is not an entry of the source replica", c)
			}
			heads = append(heads, e)
		}
		if err := s.SyncHeads(ref, heads); err != nil {
			return err
		}
	}
	// let the replication that was in flight finish before the store is closed
	if gate != nil {
		gate.Release()
	}
	if !s.Settle() {
		r.AddDirect("hang:sync", "replication did not settle", map[string]interface{}{"case": ci, "state": sim.LastSettleState})
	}
	if queued > 0 || (failedEntry != nil && saveOut == c13Ok) {
		expect = c13Observe(s, s.Stores[len(s.Stores)-1])
	}
	loadOut, loadMsg := c13NotRun, ""
	got := c13Obs{}
	if saveOut == c13Ok {
		if err := c13Reopen(s, saver); err != nil {
			return err
		}
		st = s.Stores[saver]
		if sp.Chunk > 0 {
			api := s.Reps[saver].API
			orig := api.CoreAPI
			api.CoreAPI = c13ShortAPI{orig, sp.Chunk}
			loadOut, loadMsg = c13Load(ctx, st)
			api.CoreAPI = orig
		} else {
			loadOut, loadMsg = c13Load(ctx, st)
		}
		if !s.Settle() {
			r.AddDirect("hang:snapshot-load", "store did not settle after LoadFromSnapshot", map[string]interface{}{"case": ci, "state": sim.LastSettleState})
		}
		if failedEntry != nil {
			// the block is available again only now, and the same head is announced once more:
			// the reloaded store knows from the saved queue what it still has to fetch
			s.Reps[saver].API.FailGet(failedEntry.GetHash().String(), false)
			vals := s.Stores[0].OpLog().Values().Slice()
			if err := s.SyncHeads(saver, vals[len(vals)-1:]); err != nil {
				return err
			}
			if !s.Settle() {
				r.AddDirect("hang:sync", "replication after the reload did not settle", map[string]interface{}{"case": ci, "state": sim.LastSettleState})
			}
		}
		got = c13Observe(s, st)
	}
	// classification
	maxFrame, sum := 0, 1
	for _, n := range sizes {
		if n > maxFrame {
			maxFrame = n
		}
		sum += 2 + n
	}
	same := saveOut == c13Ok && loadOut == c13Ok && c13Same(expect, got)
	sig := "c13-other"
	switch {
	case saveOut == c13Panic && strings.Contains(saveMsg, "index out of range"):
		sig = "getqueue-panic"
	case saveOut == c13Ok && loadOut == c13Panic && queued > 0 && strings.Contains(loadMsg, "nil pointer"):
		sig = "queue-resync"
	case saveOut == c13Ok && !same && maxFrame >= 65536:
		sig = "oversize-frame"
	case saveOut == c13Ok && !same && sp.Chunk > 0 && maxFrame > sp.Chunk && loadOut != c13Panic:
		sig = "short-read"
	}
	tasks := make([]string, 0, rs.Added+rs.Fetching+rs.Fetched)
	for _, g := range []struct{ n, st int }{{rs.Added, 0}, {rs.Fetching, 1}, {rs.Fetched, 2}} {
		for k := 0; k < g.n; k++ {
			tasks = append(tasks, fmt.Sprintf("(%s, %s)", sim.CoqN(len(tasks)+1), sim.CoqN(g.st)))
		}
	}
	if failedEntry != nil {
		// the task whose fetch failed (state 3: neither waiting, nor being fetched, nor fetched)
		tasks = append(tasks, fmt.Sprintf("(%s, 3%%N)", sim.CoqN(len(tasks)+1)))
		r.Count("failed fetch in the task table at save")
	}
	qn, tn := queued, total
	if qn < 0 {
		qn, tn = 0, 0
	}
	term := fmt.Sprintf("(CSave %s %s %s %s %s %s %s %s %s %s)", sim.CoqListN(sizes), sim.CoqNat(rs.Queue), sim.CoqList(tasks),
		sim.CoqN(saveOut), sim.CoqNat(qn), sim.CoqN(tn), sim.CoqN(sp.Chunk), sim.CoqN(loadOut), expect.Coq(s.Canon), got.Coq(s.Canon))
	side := "below"
	if maxFrame >= 65536 {
		side = "at-or-above"
	}
	r.AddCase(term, map[string]interface{}{"kind": "save", "sig": sig, "case": ci, "spec": sp,
		"frame_sizes": sizes, "max_frame": maxFrame, "side_of_65536": side, "snapshot_bytes": sum,
		"repl": fmt.Sprintf("%+v", rs), "save": c13OutcomeName[saveOut], "save_msg": c13Trunc(saveMsg),
		"load": c13OutcomeName[loadOut], "load_msg": c13Trunc(loadMsg), "queued": queued, "same": same,
		"entries": len(saved.Vals), "heads": len(saved.Heads)}, len(sizes) > 1)
	r.Count("type=" + sp.Typ)
	r.Count("shape=" + sp.Shape)
	r.Count("class=" + sp.Class)
	r.Count("maxframe:" + side)
	if sum > 262144 {
		r.Count("snapshot>256KiB")
	}
	if sp.Chunk > 0 && saveOut == c13Ok {
		r.Count("loaded through a short-reading file")
	}
	if maxFrame >= 65536-700 && maxFrame < 65536+700 {
		r.Count("maxframe within 700 of 65536")
	}
	r.Count("save=" + c13OutcomeName[saveOut] + " load=" + c13OutcomeName[loadOut])
	if rs.Fetched > 0 {
		r.Count("saver holds replicated entries")
	}
	if rs.Added+rs.Fetching > 0 {
		r.Count("replication in flight at save")
	}
	if queued > 0 {
		r.Count("non-empty queue saved")
	}
	return nil
}

func c13Trunc(s string) string {
	if len(s) > 200 {
		return s[:200]
	}
	return s
}

func c13Same(a, b c13Obs) bool {
	if len(a.Vals) != len(b.Vals) || len(a.Heads) != len(b.Heads) || len(a.View) != len(b.View) {
		return false
	}
	for i := range a.Vals {
		if a.Vals[i] != b.Vals[i] {
			return false
		}
	}
	for i := range a.Heads {
		if a.Heads[i] != b.Heads[i] {
			return false
		}
	}
	for k, v := range a.View {
		if w, ok := b.View[k]; !ok || string(v) != string(w) {
			return false
		}
	}
	return true
}

// c13Calm waits until the replicator bookkeeping of st stops moving (parked scenario:
// Settle cannot be used, the replicator is deliberately not idle).
func c13Calm(st iface.Store) {
	last, stable := "", 0
	for i := 0; i < 2000 && stable < 15; i++ {
		cur := fmt.Sprintf("%+v/%d", sim.ReplState(st), st.OpLog().Len())
		if cur == last {
			stable++
		} else {
			stable, last = 0, cur
		}
		time.Sleep(4 * time.Millisecond)
	}
}

// c13Stored reads back what SaveSnapshot left in the cache: the number of queued CIDs and
// the byte length of the stored snapshot file.
func c13Stored(ctx context.Context, st iface.Store) (queue []cid.Cid, total int, err error) {
	qj, err := st.Cache().Get(ctx, datastore.NewKey("queue"))
	if err != nil {
		return nil, 0, fmt.Errorf("queue key: %w", err)
	}
	var q []cid.Cid
	if err := json.Unmarshal(qj, &q); err != nil {
		// how the queue is written down is the implementation's business (what counts is what a
		// reload makes of it): also read a list of CIDs in their string form
		var qs []string
		if err2 := json.Unmarshal(qj, &qs); err2 != nil {
			return nil, 0, fmt.Errorf("queue json: %w", err)
		}
		q = nil
		for _, x := range qs {
			c, err2 := cid.Decode(x)
			if err2 != nil {
				return nil, 0, fmt.Errorf("queue json: %w", err)
			}
			q = append(q, c)
		}
	}
	sp, err := st.Cache().Get(ctx, datastore.NewKey("snapshot"))
	if err != nil {
		return nil, 0, fmt.Errorf("snapshot key: %w", err)
	}
	p, err := path.NewPath(string(sp))
	if err != nil {
		return nil, 0, err
	}
	nd, err := st.IPFS().Unixfs().Get(ctx, p)
	if err != nil {
		return nil, 0, err
	}
	f, ok := nd.(files.File)
	if !ok {
		return nil, 0, fmt.Errorf("snapshot is not a file")
	}
	defer f.Close()
	b, err := io.ReadAll(f)
	if err != nil {
		return nil, 0, err
	}
	return q, len(b), nil
}

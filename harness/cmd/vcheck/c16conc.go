package main

import (
	"context"
	"fmt"
	"sort"
	"strconv"
	"strings"
	"sync"
	"sync/atomic"
	"time"

	ipfslog "berty.tech/go-ipfs-log"
	orbitdb "berty.tech/go-orbit-db"
	"berty.tech/go-orbit-db/accesscontroller"
	"berty.tech/go-orbit-db/iface"
	"berty.tech/go-orbit-db/stores"
	"github.com/libp2p/go-libp2p/p2p/host/eventbus"
	"verifharness/sim"
)

// ---------------------------------------------------------------------------------------
// C16, part C: local writes running concurrently with the replication merge on ONE store
// (coq/Model/StoreConc.v, Corr/C16.v CConc).
//
// Replica 1 writes "remote" entries (an initial batch that puts every key in use, then
// 1..2 further batches); replica 0 runs n writer goroutines (one Put/Delete each) and its
// main loop merges the batches handed over by Sync.  Every thread is parked at each of its
// schedule points and released one model step at a time, in the order of a schedule:
//
//   writer i  (goroutine identified by its id, as in c17.go)
//     start --launch--> store.after_append | store.before_persist   (SWAppended, holds muWrite)
//           --> store.after_persist                                  (SWPersisted)
//           --> index.after_read                                     (SWRead: log read, not applied)
//           --> store.after_index                                    (SWApplied, still holds muWrite)
//           --> store.before_write_event                             (SWUnlocked)
//           --> Put returned                                         (SWDone: write event emitted)
//   merger    (the main loop goroutine of store 0, identified at store.merge_joined)
//     idle  --Sync(heads of the next batch)--> store.merge_joined    (SMJoined, holds muJoining)
//           --> index.after_read                                     (SMRead)
//           --> store.merge_indexed                                  (SMApplied)
//           --> store.merge_persisted                                (SMPersisted)
//           --> store.load_end_done                                  (SMIdle: replicated event emitted)
//
// A step whose thread would block on a lock held by a parked thread is not enabled and is
// skipped, exactly as the model's run function skips it.  Which steps block is known from the
// program counters, plus one fact about the tree under test that is PROBED at the start:
// whether a rebuild of the index (read + apply) excludes the rebuilds of other threads.
//
// After every step the driver records the log listing and the content of the view; a bus
// subscriber records both again from inside the subscriber when it receives a write /
// replicated event (the driver waits for the subscriber after every emitting step, so the
// state at reception is the state after that step).
// ---------------------------------------------------------------------------------------

const (
	concStepWatchdog = 5 * time.Second
	concProbeWait    = 400 * time.Millisecond
)

type concOp struct {
	keys []int // one key (PUT / DEL) or several (PUTALL, document store only)
	del  bool
}

type concPlan struct {
	kind    string
	typ     string
	nw, nk  int
	wops    []concOp
	late    []bool     // writer parks at store.before_persist instead of store.after_append
	batches [][]concOp // remote batches, batches[0] puts every key
	sched   []int      // labels: i < nw writer i, nw the merger
	flip    bool       // which of the two shared instances is the local one (decides clock ties)
}

type concObs struct {
	log     []int
	content [][2]int // (key, id of the entry whose value is shown), ascending keys
}

type concEv struct {
	write bool
	ids   []int
	obs   concObs
}

type concStep struct {
	label int
	obs   concObs
	evs   []concEv
}

type concWriter struct {
	idx      int
	pc       int
	late     bool
	arrived  chan int
	resume   chan struct{}
	done     chan struct{}
	hookHash atomic.Value // string
	retHash  string
	err      error
}

// writer program counters
const (
	cwStart = iota
	cwAppended
	cwPersisted
	cwRead
	cwApplied
	cwUnlocked
	cwDone
)

// merger program counters
const (
	cmIdle = iota
	cmJoined
	cmRead
	cmApplied
	cmPersisted
)

var concWriterPoints = map[string]int{
	"store.after_append":       cwAppended,
	"store.before_persist":     cwAppended,
	"store.after_persist":      cwPersisted,
	"index.after_read":         cwRead,
	"store.after_index":        cwApplied,
	"store.before_write_event": cwUnlocked,
}

var concMergerPoints = map[string]int{
	"store.merge_joined":    cmJoined,
	"store.merge_indexed":   cmApplied,
	"store.merge_persisted": cmPersisted,
	"store.load_end_done":   cmIdle,
}

type concRun struct {
	r    *Run
	s    *Scen
	st   iface.Store
	plan concPlan
	ser  bool // rebuilds exclude each other on the tree under test (probed)

	mu         sync.Mutex
	byGoid     map[uint64]*concWriter
	mergerGoid uint64
	free       atomic.Bool
	freeCh     chan struct{}
	mArrived   chan int
	mResume    chan struct{}

	ws      []*concWriter
	mpc     int
	nextB   int // next batch to hand over
	wlock   bool
	ilock   bool
	heads   [][]ipfslog.Entry // heads of replica 1 after each batch
	remote  map[string]int    // hash -> id of the remote entries
	bids    [][]int           // ids of the batches
	ents    []string          // Coq terms (id, (keys, del))
	emitW   int
	emitR   int
	inexact bool
	why     string

	evMu  sync.Mutex
	evs   []concEv
	taken int
}

func (c *concRun) hook(name string, keys []string) {
	if name == "store.after_append" && len(keys) > 1 {
		c.mu.Lock()
		w := c.byGoid[c17Goid()]
		c.mu.Unlock()
		if w != nil {
			w.hookHash.Store(keys[1])
		}
	}
	if c.free.Load() {
		return
	}
	if pc, ok := concMergerPoints[name]; ok {
		if len(keys) == 0 || keys[0] != c.s.Addr {
			return
		}
		if name == "store.merge_joined" {
			c.mu.Lock()
			c.mergerGoid = c17Goid()
			c.mu.Unlock()
		}
		c.mArrived <- pc
		if name == "store.load_end_done" {
			return
		}
		select {
		case <-c.mResume:
		case <-c.freeCh:
		}
		return
	}
	pc, ok := concWriterPoints[name]
	if !ok {
		return
	}
	g := c17Goid()
	c.mu.Lock()
	w := c.byGoid[g]
	isMerger := g == c.mergerGoid && g != 0
	c.mu.Unlock()
	if w == nil {
		if name == "index.after_read" && isMerger {
			c.mArrived <- cmRead
			select {
			case <-c.mResume:
			case <-c.freeCh:
			}
		}
		return
	}
	if pc == cwAppended && (name == "store.before_persist") != w.late {
		return
	}
	w.arrived <- pc
	select {
	case <-w.resume:
	case <-c.freeCh:
	}
}

func (c *concRun) releaseAll() {
	if c.free.CompareAndSwap(false, true) {
		close(c.freeCh)
	}
}

// idOf maps an entry hash to its model id (writer i -> i, remote entries -> n, n+1, ...).
func (c *concRun) idOf(h string) int {
	if id, ok := c.remote[h]; ok {
		return id
	}
	for _, w := range c.ws {
		if v, _ := w.hookHash.Load().(string); v == h {
			return w.idx
		}
	}
	return 999
}

func concKey(k int) string { return fmt.Sprintf("k%d", k) }

func concKeyID(s string) int {
	if !strings.HasPrefix(s, "k") {
		return 98
	}
	n, err := strconv.Atoi(s[1:])
	if err != nil {
		return 98
	}
	return n
}

func concTagID(s string) int {
	if !strings.HasPrefix(s, "e") {
		return 998
	}
	n, err := strconv.Atoi(s[1:])
	if err != nil {
		return 998
	}
	return n
}

// observe: listing and content of store 0 right now.
func (c *concRun) observe() concObs {
	var o concObs
	for _, e := range c.st.OpLog().Values().Slice() {
		o.log = append(o.log, c.idOf(e.GetHash().String()))
	}
	switch x := c.st.(type) {
	case iface.KeyValueStore:
		for k, v := range x.All() {
			o.content = append(o.content, [2]int{concKeyID(k), concTagID(string(v))})
		}
	case iface.DocumentStore:
		docs, err := x.Query(context.Background(), func(interface{}) (bool, error) { return true, nil })
		if err != nil {
			o.content = append(o.content, [2]int{99, 997})
		}
		for _, d := range docs {
			if m, ok := d.(map[string]interface{}); ok {
				id, _ := m["_id"].(string)
				v, _ := m["v"].(string)
				o.content = append(o.content, [2]int{concKeyID(id), concTagID(v)})
			}
		}
	}
	sort.Slice(o.content, func(a, b int) bool { return o.content[a][0] < o.content[b][0] })
	return o
}

func (c *concRun) doOp(st iface.Store, op concOp, id int) (string, error) {
	ctx := context.Background()
	tag := fmt.Sprintf("e%d", id)
	switch x := st.(type) {
	case iface.KeyValueStore:
		if op.del {
			o, err := x.Delete(ctx, concKey(op.keys[0]))
			if err != nil {
				return "", err
			}
			return o.GetEntry().GetHash().String(), nil
		}
		o, err := x.Put(ctx, concKey(op.keys[0]), []byte(tag))
		if err != nil {
			return "", err
		}
		return o.GetEntry().GetHash().String(), nil
	case iface.DocumentStore:
		if len(op.keys) > 1 {
			var docs []interface{}
			for _, k := range op.keys {
				docs = append(docs, map[string]interface{}{"_id": concKey(k), "v": tag})
			}
			o, err := x.PutAll(ctx, docs)
			if err != nil {
				return "", err
			}
			return o.GetEntry().GetHash().String(), nil
		}
		o, err := x.Put(ctx, map[string]interface{}{"_id": concKey(op.keys[0]), "v": tag})
		if err != nil {
			return "", err
		}
		return o.GetEntry().GetHash().String(), nil
	}
	return "", fmt.Errorf("store type")
}

func (c *concRun) launch(w *concWriter) {
	go func() {
		defer close(w.done)
		c.mu.Lock()
		c.byGoid[c17Goid()] = w
		c.mu.Unlock()
		defer func() {
			if p := recover(); p != nil {
				w.err = fmt.Errorf("panic: %v", p)
			}
		}()
		h, err := c.doOp(c.st, c.plan.wops[w.idx], w.idx)
		w.retHash, w.err = h, err
	}()
}

func (c *concRun) allDone() bool {
	for _, w := range c.ws {
		if w.pc != cwDone {
			return false
		}
	}
	return c.mpc == cmIdle && c.nextB >= len(c.heads)
}

func (c *concRun) enabled(l int) bool {
	if l < len(c.ws) {
		switch c.ws[l].pc {
		case cwStart:
			return !c.wlock
		case cwPersisted:
			return !(c.ser && c.ilock)
		case cwDone:
			return false
		}
		return true
	}
	if l != len(c.ws) {
		return false
	}
	switch c.mpc {
	case cmIdle:
		return c.nextB < len(c.heads)
	case cmJoined:
		return !(c.ser && c.ilock)
	}
	return true
}

// waitW waits for writer w to reach its next point (or to return).
func (c *concRun) waitW(w *concWriter, d time.Duration) (int, bool) {
	t := time.NewTimer(d)
	defer t.Stop()
	select {
	case pc := <-w.arrived:
		return pc, true
	case <-w.done:
		return cwDone, true
	case <-t.C:
		return 0, false
	}
}

func (c *concRun) waitM(d time.Duration) (int, bool) {
	t := time.NewTimer(d)
	defer t.Stop()
	select {
	case pc := <-c.mArrived:
		return pc, true
	case <-t.C:
		return 0, false
	}
}

// step performs one model step of thread l (which must be enabled); false = the thread did
// not reach its next point within the wait.
func (c *concRun) step(l int, wait time.Duration) bool {
	if l < len(c.ws) {
		w := c.ws[l]
		before := w.pc
		if w.pc == cwStart {
			c.launch(w)
		} else {
			w.resume <- struct{}{}
		}
		pc, ok := c.waitW(w, wait)
		if !ok {
			return false
		}
		if pc != before+1 {
			c.inexact, c.why = true, fmt.Sprintf("writer %d went from %d to %d", l, before, pc)
		}
		w.pc = pc
		c.afterW(before, pc)
		return true
	}
	before := c.mpc
	if c.mpc == cmIdle {
		if err := c.s.SyncHeads(0, c.heads[c.nextB]); err != nil {
			c.inexact, c.why = true, "sync: "+err.Error()
			return false
		}
		c.nextB++
	} else {
		c.mResume <- struct{}{}
	}
	pc, ok := c.waitM(wait)
	if !ok {
		return false
	}
	if pc != (before+1)%5 {
		c.inexact, c.why = true, fmt.Sprintf("merger went from %d to %d", before, pc)
	}
	c.mpc = pc
	c.afterM(before, pc)
	return true
}

func (c *concRun) afterW(before, pc int) {
	switch pc {
	case cwAppended:
		c.wlock = true
	case cwRead:
		c.ilock = c.ser
	case cwApplied:
		c.ilock = false
	case cwUnlocked:
		c.wlock = false
	case cwDone:
		c.emitW++
		n := c.emitW
		expect(func() bool { return c.evCount(true) >= n })
	}
}

func (c *concRun) afterM(before, pc int) {
	switch pc {
	case cmRead:
		c.ilock = c.ser
	case cmApplied:
		c.ilock = false
	case cmIdle:
		c.emitR++
		n := c.emitR
		expect(func() bool { return c.evCount(false) >= n })
	}
}

func (c *concRun) evCount(write bool) int {
	c.evMu.Lock()
	defer c.evMu.Unlock()
	n := 0
	for _, e := range c.evs {
		if e.write == write {
			n++
		}
	}
	return n
}

func (c *concRun) takeEvents() []concEv {
	c.evMu.Lock()
	defer c.evMu.Unlock()
	out := append([]concEv(nil), c.evs[c.taken:]...)
	c.taken = len(c.evs)
	return out
}

func concDedup(xs []int) []int {
	seen := map[int]bool{}
	var out []int
	for _, x := range xs {
		if !seen[x] {
			seen[x] = true
			out = append(out, x)
		}
	}
	return out
}

// ---------------------------------------------------------------------------------------

// concBase holds the two OrbitDB instances shared by all the plans of part C (creating
// instances dominates the cost of a scenario); every plan gets a database of its own.
var concBase *Scen

func concCloseBase() {
	if concBase != nil {
		concBase.Close()
		concBase = nil
	}
}

// concNewScen is NewScen(2, typ, nil) on the shared instances (flip: in the other order).
func concNewScen(typ string, flip bool) (*Scen, error) {
	if concBase == nil {
		b, err := NewScen(2, typ, &ScenOpts{NoOpen: true})
		if err != nil {
			return nil, err
		}
		concBase = b
	}
	scenCounter++
	sim.TheHooks.Reset()
	concBase.Env.Net.ResetTraffic(false)
	s := &Scen{Env: concBase.Env, Reps: concBase.Reps, Canon: concBase.Canon, Type: typ, Label: fmt.Sprintf("s%d", scenCounter)}
	if flip {
		s.Reps = []*sim.Replica{concBase.Reps[1], concBase.Reps[0]}
	}
	var writers []string
	for _, rp := range s.Reps {
		writers = append(writers, rp.Orbit.Identity().ID)
	}
	ac := &accesscontroller.CreateAccessControllerOptions{Access: map[string][]string{"write": writers}}
	ctx := s.Env.Ctx
	st, err := s.Reps[0].Orbit.Create(ctx, "db-"+s.Label, typ, &orbitdb.CreateDBOptions{AccessController: ac})
	if err != nil {
		return nil, fmt.Errorf("create: %w", err)
	}
	s.Stores = append(s.Stores, st)
	s.Addr = st.Address().String()
	st2, err := s.Reps[1].Orbit.Open(ctx, s.Addr, &orbitdb.CreateDBOptions{})
	if err != nil {
		_ = st.Close()
		return nil, fmt.Errorf("open on replica 1: %w", err)
	}
	s.Stores = append(s.Stores, st2)
	return s, nil
}

// concCloseStores closes the databases of one plan (the instances stay).
func concCloseStores(s *Scen) {
	for _, st := range s.Stores {
		_ = st.Close()
	}
}

// concSetup creates the scenario, writes the remote batches on replica 1, subscribes.
func concSetup(r *Run, p concPlan, ser bool) (*concRun, func(), error) {
	s, err := concNewScen(p.typ, p.flip)
	if err != nil {
		return nil, nil, err
	}
	c := &concRun{r: r, s: s, st: s.Stores[0], plan: p, ser: ser, byGoid: map[uint64]*concWriter{}, freeCh: make(chan struct{}),
		mArrived: make(chan int, 16), mResume: make(chan struct{}), remote: map[string]int{}}
	for i := 0; i < p.nw; i++ {
		c.ws = append(c.ws, &concWriter{idx: i, late: p.late[i], arrived: make(chan int, 8), resume: make(chan struct{}), done: make(chan struct{})})
		c.ents = append(c.ents, concEntTerm(i, p.wops[i]))
	}
	id := p.nw
	for _, b := range p.batches {
		var ids []int
		for _, op := range b {
			h, err := c.doOp(s.Stores[1], op, id)
			if err != nil {
				concCloseStores(s)
				return nil, nil, fmt.Errorf("remote write: %w", err)
			}
			c.remote[h] = id
			c.ents = append(c.ents, concEntTerm(id, op))
			ids = append(ids, id)
			id++
		}
		c.bids = append(c.bids, ids)
		hs := s.Stores[1].OpLog().Heads().Slice()
		cp := make([]ipfslog.Entry, len(hs))
		for i, h := range hs {
			cp[i] = h.Copy()
		}
		c.heads = append(c.heads, cp)
	}
	sub, err := c.st.EventBus().Subscribe([]interface{}{new(stores.EventWrite), new(stores.EventReplicated)}, eventbus.BufSize(1024))
	if err != nil {
		concCloseStores(s)
		return nil, nil, err
	}
	stop := make(chan struct{})
	var wg sync.WaitGroup
	wg.Add(1)
	go func() {
		defer wg.Done()
		for {
			select {
			case e, ok := <-sub.Out():
				if !ok {
					return
				}
				var ev concEv
				switch x := e.(type) {
				case stores.EventWrite:
					if x.Address == nil || x.Address.String() != s.Addr {
						continue
					}
					ev.write = true
					ev.ids = []int{c.idOf(x.Entry.GetHash().String())}
				case stores.EventReplicated:
					if x.Address == nil || x.Address.String() != s.Addr {
						continue
					}
					for _, en := range x.Entries {
						ev.ids = append(ev.ids, c.idOf(en.GetHash().String()))
					}
					ev.ids = concDedup(ev.ids)
				default:
					continue
				}
				ev.obs = c.observe() // the subscriber's own queries, before anything else
				c.evMu.Lock()
				c.evs = append(c.evs, ev)
				c.evMu.Unlock()
			case <-stop:
				return
			}
		}
	}()
	sim.TheHooks.Extra = c.hook
	cleanup := func() {
		c.releaseAll()
		sim.TheHooks.Extra = nil
		close(stop)
		wg.Wait()
		_ = sub.Close()
		concCloseStores(s)
	}
	return c, cleanup, nil
}

func concEntTerm(id int, op concOp) string {
	ks := make([]string, len(op.keys))
	for i, k := range op.keys {
		ks[i] = strconv.Itoa(k)
	}
	return fmt.Sprintf("(%d, ([%s], %s))", id, strings.Join(ks, "; "), sim.CoqBool(op.del))
}

// c16ProbeSerialised: does a rebuild (read + apply) of one thread exclude the rebuild of
// another?  The merger is parked between its read and its apply, then a writer is released
// towards its own read; if it gets there the rebuilds are not serialised.
func c16ProbeSerialised(r *Run) (bool, error) {
	p := concPlan{kind: "probe", typ: "keyvalue", nw: 1, nk: 1, wops: []concOp{{keys: []int{0}}}, late: []bool{false},
		batches: [][]concOp{{{keys: []int{0}}}}}
	c, cleanup, err := concSetup(r, p, false)
	if err != nil {
		return false, err
	}
	defer cleanup()
	for _, l := range []int{1, 1, 0, 0} { // merger: join, read; writer: append, persist
		if !c.step(l, concStepWatchdog) {
			return false, fmt.Errorf("probe: thread %d did not reach its next point (%s)", l, c.why)
		}
	}
	w := c.ws[0]
	w.resume <- struct{}{}
	_, arrived := c.waitW(w, concProbeWait)
	c.releaseAll()
	select {
	case <-w.done:
	case <-time.After(20 * time.Second):
		return false, fmt.Errorf("probe: writer did not return")
	}
	if !c.s.Settle() {
		return false, fmt.Errorf("probe: no settle")
	}
	return !arrived, nil
}

func concObsTerm(o concObs) string {
	ls := make([]string, len(o.log))
	for i, x := range o.log {
		ls[i] = strconv.Itoa(x)
	}
	cs := make([]string, len(o.content))
	for i, x := range o.content {
		cs[i] = fmt.Sprintf("(%d, %d)", x[0], x[1])
	}
	return fmt.Sprintf("([%s], [%s])", strings.Join(ls, "; "), strings.Join(cs, "; "))
}

func concIntsTerm(xs []int) string {
	ls := make([]string, len(xs))
	for i, x := range xs {
		ls[i] = strconv.Itoa(x)
	}
	return "[" + strings.Join(ls, "; ") + "]"
}

// replay of a listing on the Go side (independent of the store's index): key -> id shown.
func concReplay(p concPlan, opOf map[int]concOp, listing []int) map[int]int {
	out := map[int]int{}
	for _, id := range listing { // ascending: later entries win
		op, ok := opOf[id]
		if !ok {
			continue
		}
		for _, k := range op.keys {
			if op.del {
				delete(out, k)
			} else {
				out[k] = id
			}
		}
	}
	return out
}

func concRunOne(r *Run, pi int, p concPlan, ser bool) error {
	c, cleanup, err := concSetup(r, p, ser)
	if err != nil {
		return err
	}
	defer cleanup()
	var steps []concStep
	var executed []int
	do := func(l int) {
		if !c.enabled(l) {
			return
		}
		if !c.step(l, concStepWatchdog) {
			// only on broken code or a stalled machine: give up exactness, let everybody run
			if !c.inexact {
				c.inexact, c.why = true, fmt.Sprintf("thread %d did not reach its next point", l)
			}
			return
		}
		executed = append(executed, l)
		steps = append(steps, concStep{label: l, obs: c.observe(), evs: c.takeEvents()})
	}
	for _, l := range p.sched {
		if c.inexact {
			break
		}
		do(l)
	}
	// completion (safety net; the schedules of the plans are complete)
	for round := 0; !c.inexact && !c.allDone() && round < 64; round++ {
		for l := 0; l <= p.nw && !c.inexact; l++ {
			do(l)
		}
	}
	descr := map[string]interface{}{"kind": "conc:" + p.kind, "plan": pi, "type": p.typ, "writers": p.nw, "keys": p.nk,
		"batches": c.bids, "sched": p.sched, "executed": executed, "serialised_probed": ser, "flip": p.flip}
	if c.inexact {
		c.releaseAll()
		// hand over what was not handed over yet
		for ; c.nextB < len(c.heads); c.nextB++ {
			_ = c.s.SyncHeads(0, c.heads[c.nextB])
		}
		for _, w := range c.ws {
			if w.pc == cwStart {
				c.launch(w)
				w.pc = cwAppended
			}
		}
	}
	c.releaseAll() // nothing is parked any more when the schedule was completed
	hang := false
	deadline := time.After(20 * time.Second)
	for _, w := range c.ws {
		select {
		case <-w.done:
		case <-deadline:
			hang = true
		}
	}
	if hang {
		r.AddDirect("hang:write-merge", "writers did not return within 20 s", descr)
		return nil
	}
	if !c.s.Settle() {
		r.AddDirect("hang:write-merge", "store did not settle", descr)
		return nil
	}
	// let late events (there should be none) arrive
	expect(func() bool { return c.evCount(true) >= p.nw && c.evCount(false) >= len(p.batches) })
	rest := c.observe()
	late := c.takeEvents()
	if len(late) > 0 {
		if !c.inexact {
			c.inexact, c.why = true, "events after the last step"
		}
		steps = append(steps, concStep{label: p.nw + 1, obs: rest, evs: late})
	}
	var returned []int
	for _, w := range c.ws {
		if w.err != nil {
			r.Notes = append(r.Notes, fmt.Sprintf("conc plan %d writer %d: %v", pi, w.idx, w.err))
			r.Count("conc:write-error")
			continue
		}
		if h, _ := w.hookHash.Load().(string); h != w.retHash {
			c.inexact, c.why = true, "attribution of schedule points to writers failed"
		}
		returned = append(returned, w.idx)
	}
	// Go-side verdicts (classification only; the checker recomputes everything)
	opOf := map[int]concOp{}
	for i, op := range p.wops {
		opOf[i] = op
	}
	id := p.nw
	for _, b := range p.batches {
		for _, op := range b {
			opOf[id] = op
			id++
		}
	}
	want := concReplay(p, opOf, rest.log)
	restOK := len(want) == len(rest.content)
	for _, kv := range rest.content {
		if want[kv[0]] != kv[1] {
			restOK = false
		}
	}
	descr["rest_view_is_replay"] = restOK
	descr["rest_log"] = rest.log
	descr["rest_content"] = rest.content
	descr["inexact"] = c.inexact
	if c.inexact {
		descr["why"] = c.why
		r.Count("conc:inexact")
	} else {
		r.Count("conc:exact")
	}
	if restOK {
		descr["sig"] = "store-conc"
		r.Count("conc:rest-ok")
	} else {
		descr["sig"] = "stale-index-merge"
		r.Count("conc:rest-stale")
		r.Count("conc:rest-stale:" + p.kind)
	}
	stepTerms := make([]string, len(steps))
	for i, st := range steps {
		evs := make([]string, len(st.evs))
		for j, e := range st.evs {
			evs[j] = fmt.Sprintf("CEv %s %s %s", sim.CoqBool(e.write), concIntsTerm(e.ids), concObsTerm(e.obs))
		}
		stepTerms[i] = fmt.Sprintf("CStep %d %s [%s]", st.label, concObsTerm(st.obs), strings.Join(evs, "; "))
	}
	bt := make([]string, len(c.bids))
	for i, b := range c.bids {
		bt[i] = concIntsTerm(b)
	}
	coq := fmt.Sprintf("(CConc %d [%s] [%s] %d %s %s [%s] %s %s %s)%%nat", p.nw, strings.Join(bt, "; "), strings.Join(c.ents, "; "), p.nk,
		concIntsTerm(rest.log), concIntsTerm(returned), strings.Join(stepTerms, ";\n     "), concObsTerm(rest), sim.CoqBool(ser), sim.CoqBool(!c.inexact))
	r.AddCase(coq, descr, true)
	r.Count("conc:kind:" + p.kind)
	r.Count("conc:type:" + p.typ)
	r.Count(fmt.Sprintf("conc:writers=%d", p.nw))
	return nil
}

// ---------------------------------------------------------------------------------------
// plans

func concRep(l, n int) []int {
	out := make([]int, n)
	for i := range out {
		out[i] = l
	}
	return out
}

func concInitBatch(nk int) []concOp {
	var b []concOp
	for k := 0; k < nk; k++ {
		b = append(b, concOp{keys: []int{k}})
	}
	return b
}

func concPlans(r *Run) []concPlan {
	var plans []concPlan
	thorough := r.Tier == "thorough"
	types := []string{"keyvalue", "docstore"}
	// forced: one writer parked after `pos` of its steps (pos 1 twice: at store.after_append and
	// at store.before_persist), the merger run to completion (mode 0) or up to its own read
	// (mode 1), then the writer to completion, then the merger
	for _, typ := range types {
		for pos := 0; pos <= 5; pos++ {
			for lateI := 0; lateI < 2; lateI++ {
				if lateI == 1 && pos != 1 {
					continue
				}
				for mode := 0; mode < 2; mode++ {
					// the writer puts another key than the batch, or (an older or a newer value
					// of) the key the batch puts
					for wkey := 0; wkey < 2; wkey++ {
						batch := []concOp{{keys: []int{0}}}
						if typ == "docstore" && pos%2 == 0 {
							batch = []concOp{{keys: []int{0, 1}}} // PUTALL
						}
						m := 5
						if mode == 1 {
							m = 2
						}
						var sched []int
						sched = append(sched, concRep(1, 5)...) // initial batch
						sched = append(sched, concRep(0, pos)...)
						sched = append(sched, concRep(1, m)...)
						sched = append(sched, concRep(0, 6)...)
						sched = append(sched, concRep(1, 5)...)
						plans = append(plans, concPlan{kind: fmt.Sprintf("forced:w%d:m%d", pos, mode), typ: typ, nw: 1, nk: 2,
							wops: []concOp{{keys: []int{wkey}}}, late: []bool{lateI == 1},
							batches: [][]concOp{concInitBatch(2), batch}, sched: sched, flip: r.Rng.Intn(2) == 0})
					}
				}
			}
		}
	}
	nRandom := 22
	if thorough {
		nRandom = 300
	}
	for i := 0; i < nRandom; i++ {
		typ := types[r.Rng.Intn(2)]
		nw := 2 + r.Rng.Intn(2)
		nk := 2 + r.Rng.Intn(2)
		nb := 1 + r.Rng.Intn(2)
		p := concPlan{kind: "random", typ: typ, nw: nw, nk: nk, flip: r.Rng.Intn(2) == 0}
		rop := func(remote bool) concOp {
			op := concOp{keys: []int{r.Rng.Intn(nk)}}
			if typ == "keyvalue" && r.Rng.Intn(5) == 0 {
				op.del = true
			}
			if typ == "docstore" && remote && r.Rng.Intn(4) == 0 {
				op.keys = []int{0, 1 + r.Rng.Intn(nk-1)}
			}
			return op
		}
		for w := 0; w < nw; w++ {
			p.wops = append(p.wops, rop(false))
			p.late = append(p.late, r.Rng.Intn(2) == 0)
		}
		p.batches = append(p.batches, concInitBatch(nk))
		for b := 0; b < nb; b++ {
			var ops []concOp
			for k, n := 0, 1+r.Rng.Intn(2); k < n; k++ {
				ops = append(ops, rop(true))
			}
			p.batches = append(p.batches, ops)
		}
		p.sched = append(p.sched, concRep(nw, 5)...)
		if r.Rng.Intn(2) == 0 {
			// uniform interleaving of the threads' steps
			var s []int
			for w := 0; w < nw; w++ {
				s = append(s, concRep(w, 6)...)
			}
			s = append(s, concRep(nw, 5*nb)...)
			r.Rng.Shuffle(len(s), func(a, b int) { s[a], s[b] = s[b], s[a] })
			p.sched = append(p.sched, s...)
			p.kind = "random:uniform"
		} else {
			// blocks: a thread runs 1..5 steps in a row
			for k := 0; k < 6*(nw+nb); k++ {
				p.sched = append(p.sched, concRep(r.Rng.Intn(nw+1), 1+r.Rng.Intn(5))...)
			}
			p.kind = "random:blocks"
		}
		plans = append(plans, p)
	}
	return plans
}

// "C16C" runs part C alone (same checker, Corr/C16.v); used to time and debug it.
func init() {
	drivers["C16C"] = driver{"C16", func(r *Run) error {
		defer closeEnv()
		return c16Conc(r)
	}}
}

// c16ConcPoints performs one local write and one merge on a scratch database and reports the
// schedule points of part C that the tree under test does not have.
func c16ConcPoints() ([]string, error) {
	s, err := NewScen(2, "keyvalue", nil)
	if err != nil {
		return nil, err
	}
	defer s.Close()
	var mu sync.Mutex
	seen := map[string]bool{}
	sim.TheHooks.Extra = func(name string, _ []string) {
		mu.Lock()
		seen[name] = true
		mu.Unlock()
	}
	defer func() { sim.TheHooks.Extra = nil }()
	ctx := context.Background()
	if _, err := s.Stores[1].(iface.KeyValueStore).Put(ctx, "probe", []byte("r")); err != nil {
		return nil, err
	}
	if _, err := s.Stores[0].(iface.KeyValueStore).Put(ctx, "probe", []byte("l")); err != nil {
		return nil, err
	}
	if err := s.SyncFrom(0, 1); err != nil {
		return nil, err
	}
	if !s.Settle() {
		return nil, fmt.Errorf("points probe: no settle")
	}
	mu.Lock()
	defer mu.Unlock()
	var missing []string
	for _, n := range []string{"store.after_append", "store.before_persist", "store.after_persist", "index.after_read", "store.after_index",
		"store.before_write_event", "store.merge_joined", "store.merge_indexed", "store.merge_persisted", "store.load_end_done"} {
		if !seen[n] {
			missing = append(missing, n)
		}
	}
	return missing, nil
}

// c16Conc is part C of the C16 driver.
func c16Conc(r *Run) error {
	defer func() { sim.TheHooks.Extra = nil }()
	defer concCloseBase()
	missing, err := c16ConcPoints()
	if err != nil {
		return err
	}
	if len(missing) > 0 {
		// without the points of hooks.diff the threads cannot be stepped: say so, do not guess
		r.Notes = append(r.Notes, fmt.Sprintf("conc: part C (write || merge) NOT RUN, schedule points absent from the tree: %v", missing))
		r.Count("conc:skipped-points-absent")
		return nil
	}
	ser, err := c16ProbeSerialised(r)
	if err != nil {
		return err
	}
	r.Notes = append(r.Notes, fmt.Sprintf("conc: index rebuilds exclude each other on this tree: %v", ser))
	r.Count(fmt.Sprintf("conc:probe:serialised=%v", ser))
	plans := concPlans(r)
	inexact0 := r.Dist["conc:inexact"]
	for pi, p := range plans {
		if err := concRunOne(r, pi, p, ser); err != nil {
			return err
		}
	}
	if n := r.Dist["conc:inexact"] - inexact0; n*5 > len(plans) {
		return fmt.Errorf("conc: %d of %d forced runs could not be controlled step by step", n, len(plans))
	}
	return nil
}

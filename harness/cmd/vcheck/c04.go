package main

import (
	"bytes"
	"encoding/json"
	"fmt"
	"strings"

	ipfslog "berty.tech/go-ipfs-log"
	"berty.tech/go-ipfs-log/entry"
	cid "github.com/ipfs/go-cid"
)

func init() { drivers["C04"] = driver{"C04", runC04} }

// A single-field mutation of the wire form of a valid entry.
//
// What is classified in Go, and how: go-ipfs-log signs exactly {log id, payload, next,
// refs, v, clock id, clock time} (entry.toBuffer); key, sig, identity.* and the claimed
// hash are outside the signed bytes.  So
//   - changing a signed field and keeping the signature leaves a signature nobody
//     produced for this content (symbolic signer "nobody");
//   - changing the key leaves a signature produced by the ORIGINAL key (signer = it);
//   - damaging the signature: signer "nobody";
//   - changing identity.* or only the claimed hash leaves the signature valid;
//   - the "resigned" variants are created afresh by the original writer's identity with
//     the changed field: simply ANOTHER VALID entry (unless the changed field is the log id).
//
// The symbolic signer is cross-checked against the real signature check (entry.Verify)
// for every mutant; the driver stops with a harness error if they ever disagree.
// Coq then derives "must be rejected" from the rendered entry: signature does not
// verify, or log id differs, or the announcement is mis-addressed.
type mutation struct {
	name     string
	resigned bool
}

var c04Mutations = []mutation{
	{"payload", false}, {"clock.time", false}, {"clock.id", false}, {"next", false}, {"refs", false},
	{"key", false}, {"sig", false},
	{"identity.id", false}, {"identity.publicKey", false}, {"identity.signatures.id", false}, {"identity.signatures.publicKey", false},
	{"log id", false},
	{"payload", true}, {"clock.time", true}, {"clock.id", true}, {"next", true}, {"refs", true}, {"log id", true},
}

func c04Sig(m string) string {
	switch m {
	case "log id":
		return "foreign-log-entry-becomes-head"
	case "identity.id", "identity.publicKey", "identity.signatures.id", "identity.signatures.publicKey":
		return "forged-identity-accepted"
	}
	return "c04-other"
}

func flipLast(b []byte) []byte {
	o := append([]byte{}, b...)
	if len(o) > 0 {
		o[len(o)-1] ^= 0x01
	}
	return o
}

func hasCid(cs []cid.Cid, c cid.Cid) bool {
	for _, x := range cs {
		if x.Equals(c) {
			return true
		}
	}
	return false
}

// mutate applies mutation m to a copy of e.  pool = other genuine entries of the history
// (fetchable link targets), other = a replica different from e's writer, w = e's writer.
// Returns nil when the mutation would not change anything.
func (h *hostile) mutate(m mutation, e *entry.Entry, pool []*entry.Entry, w, other int) (*entry.Entry, string, string, string, bool, error) {
	r := h.r
	f := clone(e)
	oid := h.s.Reps[other].Orbit.Identity()
	signer := nobody
	key, val, unique := "", "", false
	pick := func() (cid.Cid, bool) {
		var cands []cid.Cid
		for _, p := range pool {
			// links stay causally plausible (towards strictly older entries): the fetcher keeps
			// the LATEST entries it meets, so the single-entry log built for an entry that
			// links to a newer one does not contain that entry at all (see NOTES)
			if !p.Hash.Equals(e.Hash) && !hasCid(f.Next, p.Hash) && !hasCid(f.Refs, p.Hash) && p.Clock.Time < e.Clock.Time {
				cands = append(cands, p.Hash)
			}
		}
		if len(cands) == 0 {
			return cid.Undef, false
		}
		return cands[r.Rng.Intn(len(cands))], true
	}
	links := func(cur []cid.Cid) ([]cid.Cid, bool) {
		out := append([]cid.Cid{}, cur...)
		if len(out) > 0 && r.Rng.Intn(2) == 0 {
			i := r.Rng.Intn(len(out))
			return append(out[:i], out[i+1:]...), true
		}
		c, ok := pick()
		if !ok {
			if len(out) == 0 {
				return nil, false
			}
			return out[1:], true
		}
		return append(out, c), true
	}
	switch m.name {
	case "payload":
		f.Payload, key, val = h.payload("mutant")
		unique = true
	case "clock.time":
		f.Clock = entry.NewLamportClock(e.Clock.ID, e.Clock.Time+1+r.Rng.Intn(3))
	case "clock.id":
		f.Clock = entry.NewLamportClock(append([]byte{}, oid.PublicKey...), e.Clock.Time)
	case "next":
		n, ok := links(f.Next)
		if !ok {
			return nil, "", "", "", false, nil
		}
		f.Next = n
	case "refs":
		n, ok := links(f.Refs)
		if !ok {
			return nil, "", "", "", false, nil
		}
		f.Refs = n
	case "key":
		f.Key = append([]byte{}, oid.PublicKey...)
		signer = string(e.Key)
	case "sig":
		if r.Rng.Intn(2) == 0 || len(pool) == 0 {
			f.Sig = flipLast(e.Sig)
		} else {
			f.Sig = append([]byte{}, pool[r.Rng.Intn(len(pool))].Sig...)
			if bytes.Equal(f.Sig, e.Sig) {
				f.Sig = flipLast(e.Sig)
			}
		}
	case "identity.id":
		f.Identity.ID = oid.ID
		signer = ""
	case "identity.publicKey":
		f.Identity.PublicKey = append([]byte{}, oid.PublicKey...)
		signer = ""
	case "identity.signatures.id":
		if r.Rng.Intn(2) == 0 {
			f.Identity.Signatures.ID = flipLast(e.Identity.Signatures.ID)
		} else {
			f.Identity.Signatures.ID = append([]byte{}, oid.Signatures.ID...)
		}
		signer = ""
	case "identity.signatures.publicKey":
		if r.Rng.Intn(2) == 0 {
			f.Identity.Signatures.PublicKey = flipLast(e.Identity.Signatures.PublicKey)
		} else {
			f.Identity.Signatures.PublicKey = append([]byte{}, oid.Signatures.PublicKey...)
		}
		signer = ""
	case "log id":
		f.LogID = e.LogID + "-other"
	default:
		return nil, "", "", "", false, fmt.Errorf("unknown mutation %s", m.name)
	}
	if m.resigned {
		wid := h.s.Reps[w].Orbit.Identity()
		g, err := entry.CreateEntryWithIO(h.ctx, h.s.Reps[w].API, wid, &entry.Entry{
			LogID: f.LogID, Payload: f.Payload, Next: f.Next, Refs: f.Refs, Clock: f.Clock,
		}, nil, h.s.Stores[w].IO())
		if err != nil {
			return nil, "", "", "", false, err
		}
		f = g.(*entry.Entry)
		signer = ""
	}
	if key == "" && val == "" {
		// unchanged payload: how the original's value shows in queries
		key, val = payloadKeyVal(e)
	}
	return f, signer, key, val, unique, nil
}

// payloadKeyVal extracts key/value of an operation payload (for query observation).
func payloadKeyVal(e *entry.Entry) (string, string) {
	var o struct {
		Key   *string `json:"key,omitempty"`
		Value []byte  `json:"value,omitempty"`
	}
	_ = json.Unmarshal(e.Payload, &o)
	k := ""
	if o.Key != nil {
		k = *o.Key
	}
	return k, string(o.Value)
}

// C04: every single-field mutation of the wire form of valid entries of a generated
// history, re-addressed or announced under the original's address, delivered as an
// announced head, reachable as the ancestor of a genuine head, found in the heads cache
// or in the snapshot file after a restart.
// Replicas: 0, 1 writers; 2 hostile (only serves blocks); 3 victim holding the whole
// history; 4 victim holding a prefix; 5 holds the whole history and is the usual victim of
// the snapshot route: it never receives a colluder's entry (route ancestor), after which a
// log cannot be reloaded from a snapshot at all (see c03.go).
func runC04(r *Run) error {
	defer closeEnv()
	hists := 3
	perHist := 2
	if r.Tier == "thorough" {
		hists, perHist = 16, 4
	}
	types := []string{"eventlog", "keyvalue"}
	for hi := 0; hi < hists; hi++ {
		typ := types[hi%2]
		// every third history on a database with the simple access controller (every opener passes
		// the write list; see c03.go), the others with the default ipfs controller
		acType := "ipfs"
		if hi%3 == 2 {
			acType = "simple"
		}
		// every fourth history on an open database (write list "*"): everybody may write, but an
		// entry still has to be what its author signed
		wild := hi%4 == 1
		if wild {
			r.Count("write-list:wildcard")
		}
		s, err := NewScen(6, typ, &ScenOpts{Writers: []int{0, 1}, Wildcard: wild, ACType: acType})
		if err != nil {
			return err
		}
		u := s.NewUniverse()
		h := newHostile(r, s, u, []int{0, 1}, wild)
		// genuine history: a prefix replicated to victim 4, then a suffix
		npre := 1 + r.Rng.Intn(3)
		nsuf := 2 + r.Rng.Intn(3)
		write := func(i int) error {
			w := r.Rng.Intn(2)
			if err := writeOp(r, s, s.Stores[w], i); err != nil {
				return err
			}
			if r.Rng.Intn(2) == 0 {
				if err := s.SyncFrom(1-w, w); err != nil {
					return err
				}
				s.Settle()
			}
			return nil
		}
		for i := 0; i < npre; i++ {
			if err := write(i); err != nil {
				return err
			}
		}
		for _, w := range []int{0, 1} {
			if err := s.SyncFrom(4, w); err != nil {
				return err
			}
			s.Settle()
		}
		for i := 0; i < nsuf; i++ {
			if err := write(npre + i); err != nil {
				return err
			}
		}
		for _, pr := range [][2]int{{0, 1}, {1, 0}, {3, 0}, {3, 1}, {5, 0}, {5, 1}} {
			if err := s.SyncFrom(pr[0], pr[1]); err != nil {
				return err
			}
			s.Settle()
		}
		var pool []*entry.Entry
		var suffix []*entry.Entry
		for _, e := range s.Stores[0].OpLog().Values().Slice() {
			pool = append(pool, e.(*entry.Entry))
			if _, held := s.Stores[4].OpLog().Get(e.GetHash()); !held {
				suffix = append(suffix, e.(*entry.Entry))
			}
		}
		for _, st := range s.Stores {
			u.Note(st.OpLog().Values().Slice())
		}
		if len(suffix) == 0 {
			return fmt.Errorf("history %d: victim 4 holds everything", hi)
		}
		writerOf := func(e *entry.Entry) int {
			for i, rep := range s.Reps {
				if rep.Orbit.Identity().ID == e.Identity.ID {
					return i
				}
			}
			return 0
		}
		for k := 0; k < perHist && len(suffix) > 0; k++ {
			ei := r.Rng.Intn(len(suffix))
			e := suffix[ei]
			suffix = append(suffix[:ei:ei], suffix[ei+1:]...)
			w := writerOf(e)
			// route snapshot: the mutant sits in the snapshot file a victim loads after a restart: as an
			// extra entry frame, as an additional head of the header, or (mis-addressed only) in place
			// of the genuine entry whose address it claims
			deliver := func(name string, m *entry.Entry, signer, key, val string, unique, mis, resigned bool, claimed cid.Cid, route string) error {
				// true address of the content; the presented entry carries the claimed one
				tc, err := h.trueAddress(2, m)
				if err != nil {
					return err
				}
				tm := clone(m)
				tm.Hash = tc
				if h.verifies(tm) != (signer == "") {
					return fmt.Errorf("mutation %s: signature check %v does not match the symbolic signer", name, h.verifies(tm))
				}
				tn := h.note(tm, signer)
				pres := clone(m)
				if mis {
					pres.Hash = claimed
				} else {
					pres.Hash = tc
				}
				// a mutation without random choice yields the same bytes every time, and a replica
				// fetches an address only once: re-addressed as head -> victim 3, re-addressed as
				// ancestor -> victim 4, mis-addressed (never fetched by its true address) -> victim 4,
				// which does not hold the original
				victim := 3
				if mis || route == "ancestor" {
					victim = 4
				}
				if resigned || route == "snapshot" {
					// (a snapshot load fetches what it needs by itself, every time)
					victim = 3 + r.Rng.Intn(2)
				}
				if route == "snapshot" && r.Rng.Intn(3) > 0 {
					victim = 5
				}
				d := &hdelivery{route: route, victim: victim, from: 2, target: tn, tcid: tc, key: key, val: val, uniqueVal: unique}
				if route == "snapshot" {
					vs := []string{"extra", "head"}
					if mis {
						vs = []string{"extra", "head", "replace", "replace"}
					}
					d.snapVariant = vs[r.Rng.Intn(len(vs))]
					d.snapPreload = r.Rng.Intn(4) == 0
				}
				if route == "ancestor" {
					// the writer's entry names the mutant as a parent (next) or only in its skip
					// list (refs); in every third case the victim is restarted afterwards
					mk := h.colluder
					if r.Rng.Intn(2) == 0 {
						mk = h.colluderRefs
						r.Count("ancestor:via-refs")
					}
					d.reloadAfter = r.Rng.Intn(3) == 0
					c, err := mk(0, pres)
					if err != nil {
						return err
					}
					cn := h.note(c, "")
					d.heads, d.headTrue = []*entry.Entry{c}, []int{cn}
				} else {
					d.heads, d.headTrue = []*entry.Entry{pres}, []int{tn}
				}
				// a key-value pair equal to the original's is not attributable to the mutant:
				// then visibility is judged by the listing the index is rebuilt from
				d.visByListing = typ == "keyvalue" && !unique
				term, extra, err := h.perform(d)
				if err != nil {
					return err
				}
				valid := signer == "" && m.LogID == s.Addr && !mis
				extra["kind"] = "mutation"
				extra["mutation"] = name
				extra["resigned"] = resigned
				extra["misaddressed"] = mis
				extra["valid_by_construction"] = valid
				extra["type"] = typ
				extra["controller"] = s.ACType
				extra["sig"] = c04Sig(strings.TrimSuffix(name, "+resigned"))
				if route == "snapshot" {
					// not the known message-route findings: what a snapshot file states is trusted
					extra["sig"] = "snapshot/" + c04Sig(strings.TrimSuffix(name, "+resigned"))
				}
				ctor := "CMut"
				if d.reloadAfter {
					ctor = "CMutReloaded"
					r.Count("ancestor:reloaded")
				}
				switch route {
				case "cache":
					ctor = "CMutCached"
				case "snapshot":
					ctor = "CMutSnapshot"
				}
				r.AddCase(fmt.Sprintf("(%s %s %v)", ctor, term, mis), extra, true)
				r.Count("mutation:" + name)
				r.Count("route:" + route)
				r.Count(fmt.Sprintf("misaddressed=%v", mis))
				r.Count(fmt.Sprintf("valid_by_construction=%v", valid))
				r.Count(fmt.Sprintf("merged=%v", extra["in_entries"].(bool) || extra["in_heads"].(bool)))
				return nil
			}
			for _, m := range c04Mutations {
				other := (w + 1 + r.Rng.Intn(2)) % 3 // another writer or the hostile replica
				if other == w {
					other = 2
				}
				f, signer, key, val, unique, err := h.mutate(m, e, pool, w, other)
				if err != nil {
					return err
				}
				if f == nil {
					r.Count("skipped:" + m.name)
					continue
				}
				name := m.name
				if m.resigned {
					name += "+resigned"
				}
				route := "sync"
				if m.resigned && r.Rng.Intn(2) == 0 {
					route = "ancestor"
				} else if r.Rng.Intn(4) == 0 {
					route = "cache" // found in the heads cache by Load after a restart
				} else if r.Rng.Intn(6) == 0 {
					route = "snapshot" // found in the snapshot file by LoadFromSnapshot after a restart
				}
				if err := deliver(name, f, signer, key, val, unique, false, m.resigned, cid.Undef, route); err != nil {
					return err
				}
				if !m.resigned {
					// the same mutation reachable as the ancestor of a genuine head
					a, signerA, keyA, valA, uniqueA, err := h.mutate(m, e, pool, w, other)
					if err != nil {
						return err
					}
					if a != nil {
						if err := deliver(name, a, signerA, keyA, valA, uniqueA, false, false, cid.Undef, "ancestor"); err != nil {
							return err
						}
					}
					// the same content announced under the original's address
					g, signer2, key2, val2, unique2, err := h.mutate(m, e, pool, w, other)
					if err != nil {
						return err
					}
					if g != nil {
						misRoute := "sync"
						if r.Rng.Intn(4) == 0 {
							misRoute = "snapshot"
						}
						if err := deliver(name, g, signer2, key2, val2, unique2, true, false, e.Hash, misRoute); err != nil {
							return err
						}
					}
				}
			}
			// equivocation inside a snapshot: ANOTHER VALID entry of the same writer (a re-signed
			// mutation of e) stated under e's address
			{
				var rs []mutation
				for _, m := range c04Mutations {
					if m.resigned && m.name != "log id" {
						rs = append(rs, m)
					}
				}
				m := rs[r.Rng.Intn(len(rs))]
				other := (w + 1 + r.Rng.Intn(2)) % 3
				if other == w {
					other = 2
				}
				f, signer, key, val, unique, err := h.mutate(m, e, pool, w, other)
				if err != nil {
					return err
				}
				if f != nil {
					if err := deliver(m.name+"+resigned", f, signer, key, val, unique, true, true, e.Hash, "snapshot"); err != nil {
						return err
					}
				} else {
					r.Count("skipped:" + m.name + "+resigned@snapshot")
				}
			}
			// claimed hash: the untouched content announced under another entry's address
			var others []ipfslog.Entry
			for _, p := range pool {
				if !p.Hash.Equals(e.Hash) {
					others = append(others, p)
				}
			}
			if len(others) > 0 {
				k2, v2 := payloadKeyVal(e)
				if err := deliver("claimed hash", clone(e), "", k2, v2, false, true, false, others[r.Rng.Intn(len(others))].GetHash(), "sync"); err != nil {
					return err
				}
				// ... and stated under another entry's address in a snapshot file
				if err := deliver("claimed hash", clone(e), "", k2, v2, false, true, false, others[r.Rng.Intn(len(others))].GetHash(), "snapshot"); err != nil {
					return err
				}
			}
		}
		r.Count("type=" + typ)
		r.Count("controller=" + s.ACType)
		r.Pre = append(r.Pre, u.Def())
		s.Settle()
		s.Close()
	}
	return nil
}

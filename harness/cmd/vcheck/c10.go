package main

import (
	"context"
	"encoding/json"
	"fmt"
	"time"

	ipfslog "berty.tech/go-ipfs-log"
	logac "berty.tech/go-ipfs-log/accesscontroller"
	"berty.tech/go-ipfs-log/entry"
	"berty.tech/go-orbit-db/baseorbitdb"
	"berty.tech/go-orbit-db/iface"
	cid "github.com/ipfs/go-cid"
	"github.com/libp2p/go-libp2p/p2p/host/eventbus"
	"verifharness/sim"
)

func init() { drivers["C10"] = driver{"C10", runC10} }

// forgeEntry builds an entry the receiving store must reject, signed with the key of
// replica `rogue` (which is not in the write list):
//
//	"nonwriter": honest entry of the rogue identity (denied by the access controller);
//	"forged":    claims the identity and key of writer 0 but carries the rogue's signature
//	             (passes the access controller, fails signature verification).
//
// The block is stored through the rogue's API, so the receiver can fetch it.
func forgeEntry(ctx context.Context, s *Scen, rogue int, kind string, next []cid.Cid, t int, n int) (ipfslog.Entry, error) {
	rid := s.Reps[rogue].Orbit.Identity()
	wid := s.Reps[0].Orbit.Identity()
	io := s.Stores[0].IO()
	api := s.Reps[rogue].API
	payload, _ := json.Marshal(map[string]interface{}{"op": "ADD", "value": []byte(fmt.Sprintf("rogue-%s-%d", s.Label, n))})
	clockID := rid.PublicKey
	if kind == "forged" {
		clockID = wid.PublicKey
	}
	data := &entry.Entry{LogID: s.Stores[0].OpLog().GetID(), Payload: payload, Next: next, Refs: []cid.Cid{},
		Clock: entry.NewLamportClock(clockID, t)}
	e, err := entry.CreateEntryWithIO(ctx, api, rid, data, nil, io)
	if err != nil {
		return nil, fmt.Errorf("forge: %w", err)
	}
	if kind == "forged" {
		fe := e.Copy()
		fe.SetKey(wid.PublicKey)
		fe.SetIdentity(wid.Filtered())
		h, err := entry.ToMultihashWithIO(ctx, fe, api, nil, io)
		if err != nil {
			return nil, fmt.Errorf("forge: %w", err)
		}
		fe.SetHash(h)
		e = fe
	}
	return e, nil
}

// C10: rejected entries never block replication of valid entries.
// Scenario: writers produce a small DAG; a replica outside the write list produces
// unauthorised and forged entries (children of valid entries, siblings of valid heads,
// parents of nothing, chains of rejected entries).  The receiver gets 1-3 announcements
// mixing valid heads, rejected entries and (sometimes) a valid head whose content was
// tampered with, at random positions; every fetch completion is serialised in a random
// order (gates at replicator.after_dequeue per hash); finally the valid heads are
// announced again honestly.
//
// An announcement reaches the replicator by one of two routes:
//
//	"sync":     Store.Sync(heads) - per-head check (access controller, claimed hash against
//	            the content), then Replicator.Load of the heads that passed;
//	"loadmore": Store.LoadMoreFrom(amount, heads) - the entries are handed to
//	            Replicator.Load as they are.  Nothing checks them on the way: the replicator
//	            has to fetch every one of them by the hash it claims, so a copy of a valid
//	            entry V with another payload or another author is a request for V.
func runC10(r *Run) error {
	defer closeEnv()
	scens := 90
	if r.Tier == "thorough" {
		scens = 600
	}
	for _, si := range []int{-1, -2, -3} {
		if err := c10Scenario(r, si); err != nil {
			return err
		}
	}
	for si := 0; si < scens; si++ {
		if err := c10Scenario(r, si); err != nil {
			return err
		}
	}
	return nil
}

// c10Tamper returns a copy of the valid entry e that keeps the hash e claims but not its
// content: "tampered" has one payload bit flipped, "tampered-author" carries the identity
// and key of the rogue replica (which is not a writer).
func c10Tamper(s *Scen, e ipfslog.Entry, rogue int, kind string) ipfslog.Entry {
	t := e.Copy()
	if kind == "tampered-author" {
		rid := s.Reps[rogue].Orbit.Identity()
		t.SetKey(rid.PublicKey)
		t.SetIdentity(rid.Filtered())
		return t
	}
	p := append([]byte(nil), e.GetPayload()...)
	p[len(p)/2] ^= 1
	t.SetPayload(p)
	return t
}

func c10Scenario(r *Run, si int) error {
	ctx := context.Background()
	// si < 0: the minimal schedule separating the repaired merge from the pinned one, with
	// every choice fixed: one valid entry v, one unauthorised entry x, announcement [x, v],
	// x fetched before v, v announced again.
	// si == -2: the same for the LoadMoreFrom route: LoadMoreFrom([copy of v with another
	// payload]), the fetch completes, v announced again
	// si == -3: the head-exchange route: an exchange message [v, tampered copy of another valid
	// entry] is refused as a whole; the honest peer exchanges [v] again
	forced := si < 0
	forcedLM := si == -2
	forcedEx := si == -3
	nw := 1
	if !forced {
		nw = 1 + r.Rng.Intn(2)
	}
	rogue, R := nw, nw+1
	s, err := NewScen(nw+2, "eventlog", &ScenOpts{Writers: seq(nw)})
	if err != nil {
		return err
	}
	defer s.Close()
	g := newReplRig(r, s, R)
	steps := 1
	if !forced {
		steps = 1 + r.Rng.Intn(5)
	}
	if forcedEx {
		steps = 2
	}
	if nw > 1 {
		steps += 2
	}
	snaps, err := buildDag(r, s, g, seq(nw), steps)
	if err != nil {
		return err
	}
	if len(snaps) == 0 {
		return nil
	}
	var validEntries []ipfslog.Entry
	for _, k := range g.keys {
		validEntries = append(validEntries, g.ents[k])
	}
	// rejected entries
	nrej := 1
	if !forced {
		nrej = 1 + r.Rng.Intn(3)
	}
	var rejected []ipfslog.Entry
	for j := 0; j < nrej; j++ {
		kind, c := "nonwriter", 0
		if !forced {
			kind = []string{"nonwriter", "forged"}[r.Rng.Intn(2)]
			c = r.Rng.Intn(5)
		}
		var parents []ipfslog.Entry
		shape := "orphan"
		switch {
		case c == 0:
			// parent of nothing, child of nothing
		case c == 1 && len(rejected) > 0:
			parents = []ipfslog.Entry{rejected[r.Rng.Intn(len(rejected))]}
			shape = "child-of-rejected"
		case c <= 2:
			// sibling of a valid head: same parents
			h := snaps[r.Rng.Intn(len(snaps))][0]
			for _, k := range h.GetNext() {
				parents = append(parents, g.ents[k.String()])
			}
			shape = "sibling-of-valid"
		default:
			parents = snaps[r.Rng.Intn(len(snaps))]
			shape = "child-of-valid"
		}
		t := 0
		var next []cid.Cid
		for _, p := range parents {
			next = append(next, p.GetHash())
			if pt := p.GetClock().GetTime(); pt > t {
				t = pt
			}
		}
		e, err := forgeEntry(ctx, s, rogue, kind, next, t+1, j)
		if err != nil {
			return err
		}
		rejected = append(rejected, e)
		g.note(e, false, kind)
		r.Count("c10:rejected-" + kind)
		r.Count("c10:shape-" + shape)
	}
	// gates: every fetch parks right after it took its item from the queue
	gates := map[string]*sim.Gate{}
	for _, k := range g.keys {
		gates[k] = sim.TheHooks.Park("replicator.after_dequeue", k, 0)
	}
	released := map[string]bool{}
	frontier := func() []string {
		var out []string
		for _, k := range g.keys {
			if !released[k] && sim.TheHooks.Count("replicator.after_dequeue|"+k) > sim.TheHooks.Count("replicator.before_done|"+k) {
				out = append(out, k)
			}
		}
		return out
	}
	parked := func() int { return len(frontier()) }
	g.emit("EHoldFetch " + sim.CoqListN(g.nums(g.keys)))

	// announcements
	nann := 1
	if !forced {
		nann = 1 + r.Rng.Intn(3)
	}
	type ann struct {
		heads    []ipfslog.Entry
		descr    []string
		tampered bool // contains a copy whose claimed hash does not match its content
		loadMore bool // handed over with LoadMoreFrom instead of Sync
		exchange bool // delivered as a head-exchange message to the instance's handler
	}
	var anns []ann
	announcedValid := map[string]bool{}
	usedRejected := false
	usedTamperedLM := false
	tamperedLM := map[int]bool{} // valid entries a tampered copy of which went through LoadMoreFrom
	if forced {
		v := snaps[0][0]
		if forcedLM {
			anns = append(anns, ann{heads: []ipfslog.Entry{c10Tamper(s, v, rogue, "tampered")}, descr: []string{"tampered"}, tampered: true, loadMore: true})
			usedTamperedLM = true
			tamperedLM[g.num(v.GetHash().String())] = true
		} else if forcedEx {
			other := v
			for _, e := range validEntries {
				if e.GetHash().String() != v.GetHash().String() {
					other = e
					break
				}
			}
			anns = append(anns, ann{heads: []ipfslog.Entry{v.Copy(), c10Tamper(s, other, rogue, "tampered")}, descr: []string{"valid-head", "tampered"}, tampered: true, exchange: true})
		} else {
			anns = append(anns, ann{heads: []ipfslog.Entry{rejected[0].Copy(), v.Copy()}, descr: []string{"nonwriter", "valid-head"}})
		}
		announcedValid[v.GetHash().String()] = true
		usedRejected = true
		nann = 0
	}
	for a := 0; a < nann; a++ {
		var an ann
		an.loadMore = r.Rng.Intn(5) < 2
		n := 1 + r.Rng.Intn(4)
		for k := 0; k < n; k++ {
			c := r.Rng.Intn(10)
			if an.loadMore && c >= 5 && r.Rng.Intn(4) == 0 {
				// on this route a tampered copy is not refused: more of them
				c = 4
			}
			switch {
			case c < 4:
				e := rejected[r.Rng.Intn(len(rejected))]
				an.heads = append(an.heads, e.Copy())
				an.descr = append(an.descr, g.kind[e.GetHash().String()])
				usedRejected = true
			case c < 5:
				// a valid entry whose content was changed after hashing: claimed hash does not match
				e := validEntries[r.Rng.Intn(len(validEntries))]
				kind := "tampered"
				if r.Rng.Intn(3) == 0 {
					kind = "tampered-author"
				}
				an.heads = append(an.heads, c10Tamper(s, e, rogue, kind))
				an.descr = append(an.descr, kind)
				an.tampered = true
				if an.loadMore {
					usedTamperedLM = true
					tamperedLM[g.num(e.GetHash().String())] = true
				}
				announcedValid[e.GetHash().String()] = true
			case c < 8:
				hs := snaps[r.Rng.Intn(len(snaps))]
				e := hs[r.Rng.Intn(len(hs))]
				an.heads = append(an.heads, e.Copy())
				an.descr = append(an.descr, "valid-head")
				announcedValid[e.GetHash().String()] = true
			default:
				e := validEntries[r.Rng.Intn(len(validEntries))]
				an.heads = append(an.heads, e.Copy())
				an.descr = append(an.descr, "valid-entry")
				announcedValid[e.GetHash().String()] = true
			}
		}
		r.Rng.Shuffle(len(an.heads), func(i, j int) {
			an.heads[i], an.heads[j] = an.heads[j], an.heads[i]
			an.descr[i], an.descr[j] = an.descr[j], an.descr[i]
		})
		anns = append(anns, an)
	}
	var annDescr [][]string
	dropped := 0
	var order []int
	ai := 0
	for {
		fr := frontier()
		if ai >= len(anns) && len(fr) == 0 {
			break
		}
		if ai < len(anns) && (len(fr) == 0 || forced || r.Rng.Intn(2) == 0) {
			an := anns[ai]
			ai++
			hs := hashesOf(an.heads)
			if an.loadMore {
				// LoadMoreFrom returns when the request is done, i.e. not before the gates open
				annDescr = append(annDescr, append([]string{"route:loadmore"}, an.descr...))
				g.direct++
				sim.TheHooks.DirectLoads++
				go g.store.LoadMoreFrom(ctx, uint(1+r.Rng.Intn(8)), an.heads)
				// no check on the way: the request consists of the hashes as claimed
				g.emit(fmt.Sprintf("ELoad %s %s", sim.CoqN(ai), sim.CoqListN(g.nums(hs))))
				r.Count("c10:announcement-loadmore")
				for _, d := range an.descr {
					r.Count("c10:loadmore-head-" + d)
				}
				g.quiesce(0, parked, "after LoadMoreFrom")
				continue
			}
			var err error
			if an.exchange || (!forced && r.Rng.Intn(3) == 0) {
				// head exchange on connect: the heads arrive as a direct-channel message and go
				// through the instance's handler (which hands them to Sync)
				annDescr = append(annDescr, append([]string{"route:exchange"}, an.descr...))
				err = g.exchange(an.heads)
				r.Count("c10:announcement-exchange")
			} else {
				annDescr = append(annDescr, append([]string{"route:sync"}, an.descr...))
				err = g.store.Sync(ctx, an.heads)
			}
			if err != nil {
				// dropped as a whole: no request reaches the replicator
				dropped++
				r.Count("c10:announcement-dropped")
				if !an.tampered {
					return fmt.Errorf("sync refused an announcement without tampered head: %w", err)
				}
			} else {
				// Sync hands the replicator only the heads its per-head check accepted (the access
				// controller's verdict on the head itself; modelled and tied in C03/C04/C12): the
				// request the replicator model sees consists of those heads, and there is no
				// request at all when none is left
				var passed []string
				for k, h := range an.heads {
					if g.store.AccessController().CanAppend(h, g.store.Identity().Provider, &c10AppendCtx{g.store.OpLog()}) == nil {
						passed = append(passed, hs[k])
					} else {
						r.Count("c10:head-dropped-by-sync")
					}
				}
				if len(passed) > 0 {
					g.emit(fmt.Sprintf("ELoad %s %s", sim.CoqN(ai), sim.CoqListN(g.nums(passed))))
				}
				r.Count("c10:announcement-loaded")
				if an.tampered {
					r.Count("c10:tampered-head-not-refused")
				}
			}
			g.quiesce(0, parked, "after announcement")
			continue
		}
		// complete one parked fetch
		k := fr[0]
		if forced {
			for _, c := range fr {
				if !g.valid[c] {
					k = c // rejected entries complete first
					break
				}
			}
		} else {
			k = fr[r.Rng.Intn(len(fr))]
		}
		want := sim.TheHooks.Count("replicator.after_dequeue|" + k)
		released[k] = true
		gates[k].Release()
		deadline := time.Now().Add(20 * time.Second)
		for sim.TheHooks.Count("replicator.before_done|"+k) < want && time.Now().Before(deadline) {
			time.Sleep(time.Millisecond)
		}
		g.emit("EFetch " + sim.CoqN(g.num(k)))
		order = append(order, g.num(k))
		g.quiesce(0, parked, "after fetch")
	}
	for _, gt := range gates {
		gt.Release()
	}
	g.emit("ERelease")
	g.quiesce(0, nil, "gates open")
	g.trace("before honest re-announcement")
	// honest re-announcement of the valid heads (sometimes together with the newest heads)
	var final []ipfslog.Entry
	for _, k := range g.keys {
		if announcedValid[k] {
			final = append(final, g.ents[k])
		}
	}
	if len(final) == 0 || (!forced && r.Rng.Intn(3) == 0) {
		for _, e := range g.newestHeads(seq(nw)) {
			if !announcedValid[e.GetHash().String()] {
				announcedValid[e.GetHash().String()] = true
				final = append(final, e)
			}
		}
	}
	if !forced {
		r.Rng.Shuffle(len(final), func(i, j int) { final[i], final[j] = final[j], final[i] })
	}
	// the honest peer re-announces the way peers do: by a head exchange on (re)connect, or by
	// an announcement that reaches Sync directly
	if forcedEx || (!forced && r.Rng.Intn(2) == 0) {
		if err := g.exchange(copyHeads(final)); err != nil {
			return fmt.Errorf("honest head exchange refused: %w", err)
		}
		r.Count("c10:final-by-exchange")
	} else if err := g.store.Sync(ctx, copyHeads(final)); err != nil {
		return fmt.Errorf("honest re-announcement refused: %w", err)
	}
	g.emit(fmt.Sprintf("ELoad 99%%N %s", sim.CoqListN(g.nums(hashesOf(final)))))
	g.quiesce(0, nil, "final")

	ob, vals, st := g.observe()
	got := map[string]bool{}
	for _, v := range vals {
		got[v] = true
	}
	var missing, intruders []int
	for _, k := range sortedByNum(g, g.closure(hashesOf(final))) {
		if g.valid[k] && !got[k] {
			missing = append(missing, g.num(k))
		}
	}
	var never []string
	for _, e := range rejected {
		k := e.GetHash().String()
		never = append(never, k)
		if got[k] {
			intruders = append(intruders, g.num(k))
		}
	}
	sig := "repl-ok"
	if len(missing) > 0 || len(intruders) > 0 || g.hang {
		switch {
		case len(missing) > 0 && usedRejected && st.Added == 0 && len(intruders) == 0 && !g.hang:
			sig = "merge-abort-drops-valid"
		default:
			sig = "repl-other"
		}
	}
	kindName := "c10"
	if forced {
		kindName = "c10-forced"
	}
	if forcedLM {
		kindName = "c10-forced-loadmore"
	}
	if len(missing) > 0 && len(intruders) == 0 && !g.hang {
		// the valid entries that stay invisible are those a copy of which, with other content,
		// went through LoadMoreFrom
		only := true
		for _, m := range missing {
			only = only && tamperedLM[m]
		}
		if only {
			sig = "handed-content-used-instead-of-hash"
		}
	}
	descr := map[string]interface{}{"kind": kindName, "sig": sig, "scen": si, "writers": nw, "valid_entries": len(validEntries),
		"rejected": len(rejected), "announcements": annDescr, "dropped_whole": dropped, "fetch_order": order,
		"missing": missing, "rejected_visible": intruders, "state": fmt.Sprintf("%+v", st), "script": g.script}
	if g.hang {
		descr["hang"] = g.hangAt
	}
	r.AddCase(g.caseTerm(hashesOf(final), never, ob), descr, usedRejected || usedTamperedLM)
	r.Count("c10:scenarios")
	if sig != "repl-ok" {
		r.Count("c10:sig=" + sig)
	}
	return nil
}

type c10AppendCtx struct{ log ipfslog.Log }

func (c *c10AppendCtx) GetLogEntries() []logac.LogEntry {
	es := c.log.GetEntries().Slice()
	out := make([]logac.LogEntry, len(es))
	for i := range es {
		out[i] = es[i]
	}
	return out
}

// exchange delivers heads as a direct-channel head-exchange message to the receiver's
// instance and waits until its handler has dealt with it: the handler works its messages off
// one after the other and emits EventExchangeHeads for every message it accepted, so an empty
// sentinel message sent right behind tells when the first one is through; the first one was
// refused (Sync returned an error) iff no event was emitted for it.
func (g *replRig) exchange(heads []ipfslog.Entry) error {
	s := g.s
	orbit := s.Reps[g.R].Orbit
	sub, err := orbit.EventBus().Subscribe(new(baseorbitdb.EventExchangeHeads), eventbus.BufSize(64))
	if err != nil {
		return fmt.Errorf("subscribe: %w", err)
	}
	defer sub.Close()
	// a stateful emitter replays its last event to a new subscriber: drain it
	drain := time.After(30 * time.Millisecond)
drained:
	for {
		select {
		case <-sub.Out():
		case <-drain:
			break drained
		}
	}
	hs := make([]*entry.Entry, 0, len(heads))
	for _, h := range heads {
		if e, ok := h.(*entry.Entry); ok {
			hs = append(hs, e)
		}
	}
	from := s.Reps[0].PID
	send := func(list []*entry.Entry) error {
		payload, err := json.Marshal(&iface.MessageExchangeHeads{Address: s.Addr, Heads: list})
		if err != nil {
			return err
		}
		s.Env.Net.InjectDirect(from, s.Reps[g.R].Idx, payload)
		return nil
	}
	if err := send(hs); err != nil {
		return err
	}
	if err := send([]*entry.Entry{}); err != nil {
		return err
	}
	accepted := false
	deadline := time.After(20 * time.Second)
	for {
		select {
		case e := <-sub.Out():
			ev, ok := e.(baseorbitdb.EventExchangeHeads)
			if !ok || ev.Message == nil {
				continue
			}
			if len(ev.Message.Heads) == 0 {
				if accepted {
					return nil
				}
				return fmt.Errorf("the head exchange was refused")
			}
			accepted = true
		case <-deadline:
			g.hang, g.hangAt = true, "the direct-channel handler did not get through the exchange"
			return nil
		}
	}
}

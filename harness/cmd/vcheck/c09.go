package main

import (
	"context"
	"encoding/json"
	"fmt"
	"path"
	"sort"
	"strconv"
	"strings"
	"sync"
	"sync/atomic"
	"time"

	ipfslog "berty.tech/go-ipfs-log"
	"berty.tech/go-ipfs-log/entry"
	orbitdb "berty.tech/go-orbit-db"
	"berty.tech/go-orbit-db/accesscontroller"
	"berty.tech/go-orbit-db/address"
	"berty.tech/go-orbit-db/iface"
	"berty.tech/go-orbit-db/stores"
	datastore "github.com/ipfs/go-datastore"
	"github.com/libp2p/go-libp2p/p2p/host/eventbus"
	"verifharness/sim"
)

func init() { drivers["C09"] = driver{"C09", runC09} }

// c09Ev is one store event seen by a subscriber of instance X's bus.
type c09Ev struct {
	addr   string   // address carried by the event
	kind   int      // 0 write, 1 replicate, 2 replicate-progress, 3 replicated
	hashes []string // entries (or the hash) carried by the event, in event order
}

// c09Obs is what is observable about one database of X at rest.
type c09Obs struct {
	Log, Heads, Cache []int
	Prog, Max         int
}

func (o c09Obs) coq() string {
	return fmt.Sprintf("(mkObs %s %s %s %s %s)", sim.CoqListN(o.Log), sim.CoqListN(o.Heads), sim.CoqZ(o.Prog), sim.CoqZ(o.Max), sim.CoqListN(o.Cache))
}

func (o c09Obs) same(p c09Obs) bool { return o.coq() == p.coq() }

// c09World is one scenario: instance X with k databases, instance Y with some of them.
type c09World struct {
	sharedX *orbitdb.CreateDBOptions
	r       *Run
	s       *Scen
	k       int
	x, y    []iface.Store // y[j] == nil: Y has not opened database j
	addrs   []string
	types   []string
	wmodes  []string
	// every entry ever seen: hash -> database index / Lamport time
	entDB   map[string]int
	entTime map[string]int

	mu        sync.Mutex
	evs       []c09Ev
	nEvs      int64
	hooks     *int64
	netPos    int // network log already consumed
	directPos int // ... by checkDirect
}

const c09Unknown = 99

// c09Slow: a positive expectation has expired once in this run (see waitFor).
var c09Slow bool

// c09Restless counts the scenarios abandoned because the instance did not come to rest.
var c09Restless int

func (w *c09World) dbOfAddr(a string) int {
	for i, x := range w.addrs {
		if x == a {
			return i
		}
	}
	return c09Unknown
}

// note records the entries of a log in the entry table.
func (w *c09World) note(es []ipfslog.Entry) {
	for _, e := range es {
		h := e.GetHash().String()
		if _, ok := w.entDB[h]; ok {
			continue
		}
		w.entDB[h] = w.dbOfAddr(e.GetLogID())
		w.entTime[h] = e.GetClock().GetTime()
		w.s.Canon.Hash.ID(h)
	}
}

func (w *c09World) hnum(h string) int { return w.s.Canon.Hash.ID(h) }

func (w *c09World) hdb(h string) int {
	if d, ok := w.entDB[h]; ok {
		return d
	}
	return c09Unknown
}

func (w *c09World) nums(hs []string) []int {
	out := make([]int, len(hs))
	for i, h := range hs {
		out[i] = w.hnum(h)
	}
	sort.Ints(out)
	return out
}

// tagged renders entries as a sorted Coq list of (hash number, database of the entry).
func (w *c09World) tagged(hs []string) string {
	type p struct{ n, d int }
	ps := make([]p, len(hs))
	for i, h := range hs {
		ps[i] = p{w.hnum(h), w.hdb(h)}
	}
	sort.Slice(ps, func(i, j int) bool { return ps[i].n < ps[j].n })
	out := make([]string, len(ps))
	for i, x := range ps {
		out[i] = fmt.Sprintf("(%s, %s)", sim.CoqN(x.n), sim.CoqNat(x.d))
	}
	return sim.CoqList(out)
}

func (w *c09World) observe(j int) c09Obs {
	st := w.x[j]
	ents := st.OpLog().Values().Slice()
	w.note(ents)
	o := c09Obs{Log: w.nums(hashesOf(ents)), Heads: w.nums(hashesOf(st.OpLog().Heads().Slice()))}
	rs := st.ReplicationStatus()
	o.Prog, o.Max = rs.GetProgress(), rs.GetMax()
	raw, err := st.Cache().Get(context.Background(), datastore.NewKey("_remoteHeads"))
	if err == nil && len(raw) > 0 {
		var hs []*entry.Entry
		if json.Unmarshal(raw, &hs) == nil {
			var l []string
			for _, h := range hs {
				if h != nil {
					l = append(l, h.GetHash().String())
				}
			}
			o.Cache = w.nums(l)
		}
	}
	return o
}

func (w *c09World) observeAll() []c09Obs {
	out := make([]c09Obs, w.k)
	for j := range out {
		out[j] = w.observe(j)
	}
	return out
}

func (w *c09World) takeEvents() []c09Ev {
	w.mu.Lock()
	defer w.mu.Unlock()
	out := w.evs
	w.evs = nil
	return out
}

func (w *c09World) peekEvents() []c09Ev {
	w.mu.Lock()
	defer w.mu.Unlock()
	return append([]c09Ev(nil), w.evs...)
}

// published returns the payloads X published on topics since the last call.
func (w *c09World) publishedSince(consume bool) []sim.Msg {
	log := w.s.Env.Net.LogSnapshot()
	var out []sim.Msg
	for _, m := range log[w.netPos:] {
		if m.Kind == "topic" && m.From == w.s.Reps[0].Idx {
			out = append(out, m)
		}
	}
	if consume {
		w.netPos = len(log)
	}
	return out
}

// checkDirect looks at what X sent over the direct channel since the last call: heads of a
// database go only to a peer that has that database open (it joined the database's topic).
func (w *c09World) checkDirect(yIdx int, descr interface{}) {
	log := w.s.Env.Net.LogSnapshot()
	for _, m := range log[w.directPos:] {
		if m.Kind != "direct" || m.From != w.s.Reps[0].Idx || m.To != yIdx {
			continue
		}
		var msg iface.MessageExchangeHeads
		if err := json.Unmarshal(m.Payload, &msg); err != nil {
			continue
		}
		nh := 0
		for _, h := range msg.Heads {
			if h != nil {
				nh++
			}
		}
		w.r.Count("direct-message-from-X-inspected")
		j := w.dbOfAddr(msg.Address)
		if nh > 0 && (j < 0 || j >= len(w.y) || w.y[j] == nil) {
			w.r.AddDirect("heads-sent-to-peer-without-the-database", fmt.Sprintf("%d head(s) of database %d (%s) were sent over the direct channel to a peer that never opened it", nh, j, msg.Address), descr)
			w.r.Count("heads-sent-to-peer-without-the-database")
		}
	}
	w.directPos = len(log)
}

// calm waits until X's replicators are idle, every background load has returned and
// nothing observable (hook points, network log, bus events, log lengths) has moved for
// a number of consecutive polls.
func (w *c09World) calm(watchdog time.Duration) bool {
	const need = 10
	deadline := time.Now().Add(watchdog)
	stable, last := 0, ""
	for time.Now().Before(deadline) {
		ok := true
		for _, st := range w.x {
			if !sim.Quiescent(st) {
				ok = false
				break
			}
		}
		h := sim.TheHooks
		spawn, queued, ret := h.Count("store.sync_spawn"), h.Count("replicator.load_queued"), h.Count("replicator.load_return")
		emitted, done := h.Count("replicator.load_end"), h.Count("store.load_end_done")
		fp := fmt.Sprintf("%d/%d/%d", atomic.LoadInt64(w.hooks), atomic.LoadInt64(&w.nEvs), len(w.s.Env.Net.LogSnapshot()))
		for _, st := range w.x {
			fp += fmt.Sprintf("/%d", st.OpLog().Len())
		}
		if ok && spawn == queued && queued == ret && done >= emitted {
			if fp == last {
				stable++
			} else {
				stable = 0
			}
			last = fp
			if stable >= need {
				return true
			}
		} else {
			stable, last = 0, ""
		}
		time.Sleep(5 * time.Millisecond)
	}
	return false
}

// waitFor polls a positive expectation; after the first expiry the watchdog of later
// expectations is shortened (the tree under test does not do what is expected).
func (w *c09World) waitFor(cond func() bool) bool {
	d := 10 * time.Second
	if c09Slow {
		d = 300 * time.Millisecond
	}
	deadline := time.Now().Add(d)
	for time.Now().Before(deadline) {
		if cond() {
			return true
		}
		time.Sleep(3 * time.Millisecond)
	}
	c09Slow = true
	w.r.Count("expectation-timeout")
	return false
}

func c09HashesOfEntries(es []ipfslog.Entry) []string {
	var out []string
	for _, e := range es {
		if e != nil {
			out = append(out, e.GetHash().String())
		}
	}
	return out
}

// C09: databases of one instance do not affect one another.
func runC09(r *Run) error {
	defer closeEnv()
	scens := 10
	if r.Tier == "thorough" {
		scens = 80
	}
	var hookCount int64
	c09Slow, c09Restless = false, 0
	sim.TheHooks.Extra = func(string, []string) { atomic.AddInt64(&hookCount, 1) }
	defer func() { sim.TheHooks.Extra = nil }()
	for si := 0; si < scens; si++ {
		if err := c09Scenario(r, si, &hookCount); err != nil {
			return err
		}
		if c09Restless >= 2 {
			r.Notes = append(r.Notes, "run cut short: two scenarios did not come to rest")
			break
		}
	}
	gated := 2
	if r.Tier == "thorough" {
		gated = 8
	}
	for gi := 0; gi < gated; gi++ {
		if err := c09GatedAnnounce(r, gi); err != nil {
			return err
		}
	}
	for gi := 0; gi < gated; gi++ {
		if err := c09LateMessage(r, gi); err != nil {
			return err
		}
	}
	return nil
}

// c09LateMessage: a head-exchange message for database A reaches the instance when A is not
// open there (it was closed); afterwards ANOTHER database B is created on the instance.  B
// must be untouched by it: empty log, replication status 0/0, no replication events.
func c09LateMessage(r *Run, gi int) error {
	ctx := context.Background()
	s, err := NewScen(2, "eventlog", &ScenOpts{NoOpen: true})
	if err != nil {
		return err
	}
	defer s.Close()
	X, Y := s.Reps[0], s.Reps[1]
	ac := &accesscontroller.CreateAccessControllerOptions{Access: map[string][]string{"write": {"*"}}}
	a, err := X.Orbit.Create(ctx, fmt.Sprintf("late-%s-a", s.Label), "eventlog", &orbitdb.CreateDBOptions{AccessController: ac})
	if err != nil {
		return err
	}
	ya, err := Y.Orbit.Open(ctx, a.Address().String(), &orbitdb.CreateDBOptions{})
	if err != nil {
		return err
	}
	n := 2 + r.Rng.Intn(4)
	for k := 0; k < n; k++ {
		if _, err := ya.(iface.EventLogStore).Add(ctx, []byte(fmt.Sprintf("late-%d-%d", gi, k))); err != nil {
			return err
		}
	}
	if err := a.Close(); err != nil {
		return err
	}
	var heads []*entry.Entry
	for _, h := range ya.OpLog().Heads().Slice() {
		if e, ok := h.(*entry.Entry); ok {
			heads = append(heads, e)
		}
	}
	payload, err := json.Marshal(&iface.MessageExchangeHeads{Address: a.Address().String(), Heads: heads})
	if err != nil {
		return err
	}
	s.Env.Net.InjectDirect(Y.PID, X.Idx, payload)
	time.Sleep(60 * time.Millisecond)
	typB := []string{"keyvalue", "eventlog", "docstore"}[gi%3]
	var events int64
	sub, err := X.Orbit.EventBus().Subscribe([]interface{}{new(stores.EventReplicated), new(stores.EventReplicateProgress), new(stores.EventLoad)}, eventbus.BufSize(256))
	if err != nil {
		return err
	}
	b, err := X.Orbit.Create(ctx, fmt.Sprintf("late-%s-b", s.Label), typB, &orbitdb.CreateDBOptions{AccessController: ac})
	if err != nil {
		_ = sub.Close()
		return err
	}
	baddr := b.Address().String()
	deadline := time.After(400 * time.Millisecond)
collect:
	for {
		select {
		case e := <-sub.Out():
			switch ev := e.(type) {
			case stores.EventReplicated:
				if ev.Address != nil && ev.Address.String() == baddr {
					events++
				}
			case stores.EventReplicateProgress:
				if ev.Address != nil && ev.Address.String() == baddr {
					events++
				}
			case stores.EventLoad:
				if ev.Address != nil && ev.Address.String() == baddr {
					events++
				}
			}
		case <-deadline:
			break collect
		}
	}
	_ = sub.Close()
	sim.Settle(s.Env.Ctx, s.Env, 10*time.Second, 1, b)
	rs := b.ReplicationStatus()
	r.AddCase(fmt.Sprintf("(CFresh %s %s %s %s)", sim.CoqZ(rs.GetProgress()), sim.CoqZ(rs.GetMax()), sim.CoqNat(b.OpLog().Len()), sim.CoqNat(int(events))),
		map[string]interface{}{"kind": "late-message", "sig": "message-for-another-database-applied", "type": typB, "heads": len(heads)}, true)
	r.Count("late-message")
	return nil
}

// c09GatedAnnounce: the announcer of a write on database A is held inside its pubsub call
// (a slow Peers()) while database B of the same instance is written many times; when A's
// announcer goes on, what it publishes on A's topic must still be A's own head under A's
// address.  (The write listeners of all stores of an instance read the same event bus.)
func c09GatedAnnounce(r *Run, gi int) error {
	ctx := context.Background()
	typ := []string{"eventlog", "keyvalue"}[gi%2]
	s, err := NewScen(2, typ, &ScenOpts{NoOpen: true})
	if err != nil {
		return err
	}
	net := s.Env.Net
	net.AlwaysPeers = true
	defer func() { net.AlwaysPeers = false }()
	defer s.Close()
	X := s.Reps[0]
	var dbs []iface.Store
	var addrs []string
	for j := 0; j < 2; j++ {
		st, err := X.Orbit.Create(ctx, fmt.Sprintf("gated-%s-%d", s.Label, j), typ, &orbitdb.CreateDBOptions{})
		if err != nil {
			return err
		}
		dbs = append(dbs, st)
		addrs = append(addrs, st.Address().String())
	}
	time.Sleep(50 * time.Millisecond)
	write := func(j, k int) (string, error) {
		switch x := dbs[j].(type) {
		case iface.EventLogStore:
			op, err := x.Add(ctx, []byte(fmt.Sprintf("g%d-%d-%d", gi, j, k)))
			if err != nil {
				return "", err
			}
			return op.GetEntry().GetHash().String(), nil
		case iface.KeyValueStore:
			op, err := x.Put(ctx, fmt.Sprintf("k%d", k), []byte(fmt.Sprintf("g%d-%d-%d", gi, j, k)))
			if err != nil {
				return "", err
			}
			return op.GetEntry().GetHash().String(), nil
		}
		return "", fmt.Errorf("store type")
	}
	owner := map[string]int{}
	pos := len(net.LogSnapshot())
	release := net.GatePeers(addrs[0])
	h, err := write(0, 0)
	if err != nil {
		release()
		return err
	}
	owner[h] = 0
	parked := false
	for dl := time.Now().Add(10 * time.Second); time.Now().Before(dl); time.Sleep(time.Millisecond) {
		if net.PeersWaiting(addrs[0]) > 0 {
			parked = true
			break
		}
	}
	nb := 20 + r.Rng.Intn(20)
	for k := 0; k < nb; k++ {
		h, err := write(1, k)
		if err != nil {
			release()
			return err
		}
		owner[h] = 1
	}
	countOn := func(topic string) int {
		c := 0
		for _, m := range net.LogSnapshot()[pos:] {
			if m.Kind == "topic" && m.From == X.Idx && m.Topic == topic {
				c++
			}
		}
		return c
	}
	for dl := time.Now().Add(10 * time.Second); countOn(addrs[1]) < nb && time.Now().Before(dl); time.Sleep(time.Millisecond) {
	}
	release()
	for dl := time.Now().Add(10 * time.Second); countOn(addrs[0]) < 1 && time.Now().Before(dl); time.Sleep(time.Millisecond) {
	}
	time.Sleep(30 * time.Millisecond)
	dbOf := func(a string) int {
		for j, x := range addrs {
			if x == a {
				return j
			}
		}
		return 99
	}
	var pubs []string
	for _, m := range net.LogSnapshot()[pos:] {
		if m.Kind != "topic" || m.From != X.Idx {
			continue
		}
		var msg iface.MessageExchangeHeads
		if err := json.Unmarshal(m.Payload, &msg); err != nil {
			continue
		}
		var hs []string
		for _, hd := range msg.Heads {
			if hd == nil {
				continue
			}
			o, ok := owner[hd.GetHash().String()]
			if !ok {
				o = 98
			}
			hs = append(hs, fmt.Sprintf("(%s, %s)", sim.CoqN(s.Canon.Hash.ID(hd.GetHash().String())), sim.CoqNat(o)))
		}
		pubs = append(pubs, fmt.Sprintf("(%s, %s, %s)", sim.CoqNat(dbOf(m.Topic)), sim.CoqNat(dbOf(msg.Address)), sim.CoqList(hs)))
	}
	r.AddCase(fmt.Sprintf("(CPubs %s)", sim.CoqList(pubs)),
		map[string]interface{}{"kind": "gated-announce", "sig": "announcement-on-foreign-topic", "type": typ, "parked": parked, "writes_on_other": nb, "published": len(pubs)}, parked && len(pubs) > 1)
	r.Count(fmt.Sprintf("gated-announce:parked=%v", parked))
	return nil
}

func c09Scenario(r *Run, si int, hookCount *int64) error {
	ctx := context.Background()
	s, err := NewScen(2, "eventlog", &ScenOpts{NoOpen: true})
	if err != nil {
		return err
	}
	s.Env.Net.AlwaysPeers = true
	defer func() { s.Env.Net.AlwaysPeers = false }()
	defer s.Close()
	// every second scenario (both parities of si, which select other variants below) runs on
	// instances that keep everything in memory - the observed instance X and the peer Y: the
	// Directory of NewOrbitDBOptions is ":memory:" or nil (the default), so that every database's
	// cache is an in-memory datastore of the instance's cache manager, told apart from the others
	// by the manager's key alone
	mem := si%4 == 1 || si%4 == 2
	if mem {
		for i := range s.Reps {
			old := s.Reps[i]
			_ = old.Orbit.Close()
			nilDir := r.Rng.Intn(2) == 0
			rep, err := s.Env.NewReplicaOpts(old.Idx, s.Label, c14MemDir, sim.PeerIDFor(s.Label, old.Idx), func(o *orbitdb.NewOrbitDBOptions) {
				if nilDir {
					o.Directory = nil
				}
			})
			if err != nil {
				return fmt.Errorf("instance in memory: %w", err)
			}
			s.Reps[i] = rep
			if nilDir {
				r.Count("instance:memory(nil directory)")
			} else {
				r.Count("instance:memory(\":memory:\")")
			}
		}
		r.Count("scenario:in-memory")
	} else {
		r.Count("scenario:on-disk")
	}
	X, Y := s.Reps[0], s.Reps[1]
	k := 2 + r.Rng.Intn(3)
	w := &c09World{r: r, s: s, k: k, entDB: map[string]int{}, entTime: map[string]int{}, hooks: hookCount, sharedX: &orbitdb.CreateDBOptions{}}

	// subscriber on X's shared bus
	sub, err := X.Orbit.EventBus().Subscribe([]interface{}{
		new(stores.EventWrite), new(stores.EventReplicate), new(stores.EventReplicateProgress), new(stores.EventReplicated),
	}, eventbus.BufSize(16384))
	if err != nil {
		return err
	}
	subDone := make(chan struct{})
	go func() {
		defer close(subDone)
		for e := range sub.Out() {
			var ev c09Ev
			switch x := e.(type) {
			case stores.EventWrite:
				ev = c09Ev{kind: 0, hashes: c09HashesOfEntries(x.Heads)}
				if x.Address != nil {
					ev.addr = x.Address.String()
				}
			case stores.EventReplicate:
				ev = c09Ev{kind: 1, hashes: []string{x.Hash.String()}}
				if x.Address != nil {
					ev.addr = x.Address.String()
				}
			case stores.EventReplicateProgress:
				ev = c09Ev{kind: 2, hashes: []string{x.Hash.String()}}
				if x.Address != nil {
					ev.addr = x.Address.String()
				}
			case stores.EventReplicated:
				ev = c09Ev{kind: 3, hashes: c09HashesOfEntries(x.Entries)}
				if x.Address != nil {
					ev.addr = x.Address.String()
				}
			default:
				continue
			}
			w.mu.Lock()
			w.evs = append(w.evs, ev)
			w.mu.Unlock()
			atomic.AddInt64(&w.nEvs, 1)
		}
	}()
	defer func() { _ = sub.Close(); <-subDone }()

	types := []string{"eventlog", "keyvalue", "docstore"}
	for j := 0; j < k; j++ {
		typ := types[r.Rng.Intn(3)]
		var writers []string
		mode := []string{"xy", "any", "x"}[r.Rng.Intn(3)]
		if j == 0 && mode == "x" {
			mode = "xy" // at least one database is replicated from Y
		}
		switch mode {
		case "xy":
			writers = []string{X.Orbit.Identity().ID, Y.Orbit.Identity().ID}
		case "any":
			writers = []string{"*"}
		default:
			writers = []string{X.Orbit.Identity().ID}
		}
		// databases j and j+2 share their NAME (their addresses still differ: another type):
		// the address, not the name, is what keeps databases apart
		nameIdx := j
		if j >= 2 {
			nameIdx = j - 2
			for typ == w.types[j-2] {
				typ = types[r.Rng.Intn(3)]
			}
			r.Count("same-name-pair")
		}
		ac := &accesscontroller.CreateAccessControllerOptions{Access: map[string][]string{"write": writers}}
		var st iface.Store
		if j >= 1 && (r.Rng.Intn(3) == 0 || (j == k-1 && si%2 == 1)) {
			// a SIBLING of database j-1: same manifest root (hence type and write list), same last
			// path segment, another path -- another address, log id, topic and cache directory
			prev, perr := address.Parse(w.addrs[j-1])
			if perr != nil {
				return perr
			}
			sib := fmt.Sprintf("/orbitdb/%s/archive-%d/%s", prev.GetRoot().String(), j, path.Base(prev.GetPath()))
			st, err = X.Orbit.Open(ctx, sib, &orbitdb.CreateDBOptions{})
			if err != nil {
				return fmt.Errorf("open sibling %d: %w", j, err)
			}
			typ, mode = w.types[j-1], w.wmodes[j-1]
			r.Count("sibling-same-root")
		} else {
			xo := &orbitdb.CreateDBOptions{}
			if si%2 == 0 {
				xo = w.sharedX // one options value for all databases of X, only the access controller set anew
				r.Count("shared-options-create")
			}
			xo.AccessController = ac
			st, err = X.Orbit.Create(ctx, fmt.Sprintf("db-%s-%d", s.Label, nameIdx), typ, xo)
			if err != nil {
				return fmt.Errorf("create %d: %w", j, err)
			}
		}
		w.x = append(w.x, st)
		w.addrs = append(w.addrs, st.Address().String())
		w.types = append(w.types, typ)
		w.wmodes = append(w.wmodes, mode)
		s.Canon.LogID.ID(st.Address().String())
	}
	// in every second scenario X's databases already hold an entry each when Y opens some of
	// them: a peer that joins the topic of one database is sent the heads of that database
	if r.Rng.Intn(2) == 0 {
		for j := 0; j < k; j++ {
			if err := writeOp(r, s, w.x[j], 9000+j); err != nil {
				return fmt.Errorf("first write on X db %d: %w", j, err)
			}
			w.note(w.x[j].OpLog().Values().Slice())
		}
		r.Count("databases-written-before-peer-joins")
	}
	// in every second scenario Y opens all its databases with ONE options value (a caller may
	// well keep its options in a variable): whatever an Open leaves in it must not leak into
	// the next database
	sharedOpts := &orbitdb.CreateDBOptions{}
	for j := 0; j < k; j++ {
		var sy iface.Store
		if w.wmodes[j] != "x" && (j == 0 || r.Rng.Intn(4) > 0) {
			yo := &orbitdb.CreateDBOptions{}
			if si%2 == 0 {
				yo = sharedOpts
				r.Count("shared-options-open")
			}
			sy, err = Y.Orbit.Open(ctx, w.addrs[j], yo)
			if err != nil {
				return fmt.Errorf("open %d on Y: %w", j, err)
			}
		}
		w.y = append(w.y, sy)
	}
	r.Count(fmt.Sprintf("k=%d", k))
	r.Count("types:" + strings.Join(w.types, ","))
	w.calm(20 * time.Second)
	w.takeEvents()
	w.publishedSince(true)
	{
		// the head exchanges X sent to Y while Y opened its databases, against the join model
		var heads, joined, sent []string
		for j := range w.x {
			for _, h := range w.x[j].OpLog().Heads().Slice() {
				heads = append(heads, fmt.Sprintf("(%s, %s)", sim.CoqNat(j), sim.CoqN(w.hnum(h.GetHash().String()))))
			}
		}
		for j, sy := range w.y {
			if sy != nil {
				joined = append(joined, strconv.Itoa(j))
			}
		}
		nmsg := 0
		for _, m := range s.Env.Net.LogSnapshot()[w.directPos:] {
			if m.Kind != "direct" || m.From != X.Idx || m.To != Y.Idx {
				continue
			}
			var msg iface.MessageExchangeHeads
			if err := json.Unmarshal(m.Payload, &msg); err != nil {
				continue
			}
			var hs []string
			for _, h := range msg.Heads {
				if h != nil {
					hs = append(hs, h.GetHash().String())
				}
			}
			nmsg++
			sent = append(sent, fmt.Sprintf("(%s, %s)", sim.CoqNat(w.dbOfAddr(msg.Address)), sim.CoqListN(w.nums(hs))))
		}
		r.AddCase(fmt.Sprintf("(CJoins %s %s ([%s])%%nat %s)", sim.CoqNat(k), sim.CoqList(heads), strings.Join(joined, "; "), sim.CoqList(sent)),
			map[string]interface{}{"kind": "joins", "sig": "heads-sent-to-peer-without-the-database", "scen": si, "k": k, "joined": len(joined), "messages": nmsg, "databases_with_heads": len(heads), "memory": mem}, len(heads) > 0 && len(joined) > 0)
		r.Count("joins-case")
	}
	w.checkDirect(Y.Idx, map[string]interface{}{"scen": si, "phase": "peer opens its databases", "k": k, "types": w.types, "memory": mem})

	steps := 8 + r.Rng.Intn(5)
	if r.Tier == "thorough" {
		steps = 8 + r.Rng.Intn(20)
	}
	for st := 0; st < steps; st++ {
		j := r.Rng.Intn(k)
		c := r.Rng.Intn(10)
		kind := "write"
		switch {
		case c < 4:
			kind = "write"
		case c < 8:
			kind = "ysync"
		case c < 9:
			kind = "resync"
		default:
			kind = "load"
		}
		if (kind == "ysync" || kind == "resync") && w.y[j] == nil {
			// pick a database that Y has, if this one is private to X
			j = 0
		}
		before := w.observeAll()
		opCoq := ""
		descr := map[string]interface{}{"kind": kind, "scen": si, "step": st, "k": k, "target": j, "types": w.types, "writers": w.wmodes, "memory": mem, "addresses": w.addrs}
		switch kind {
		case "write":
			if err := writeOp(r, s, w.x[j], st); err != nil {
				return fmt.Errorf("write on X db %d: %w", j, err)
			}
			ents := w.x[j].OpLog().Values().Slice()
			w.note(ents)
			now := w.nums(hashesOf(ents))
			nw := diffNew(before[j].Log, now)
			if len(nw) != 1 {
				r.Count("write-not-one-entry")
				w.calm(20 * time.Second)
				w.takeEvents()
				w.publishedSince(true)
				continue
			}
			var h string
			for _, e := range ents {
				if w.hnum(e.GetHash().String()) == nw[0] {
					h = e.GetHash().String()
				}
			}
			// expectation: the write is announced on the database's own topic
			w.waitFor(func() bool {
				for _, m := range w.publishedSince(false) {
					if m.Topic == w.addrs[j] {
						return true
					}
				}
				return false
			})
			opCoq = fmt.Sprintf("(OWrite %s %s %s)", sim.CoqNat(j), sim.CoqN(nw[0]), sim.CoqZ(w.entTime[h]))
		case "ysync", "resync":
			if kind == "ysync" {
				n := 1 + r.Rng.Intn(3)
				for q := 0; q < n; q++ {
					if err := writeOp(r, s, w.y[j], st*10+q); err != nil {
						return fmt.Errorf("write on Y db %d: %w", j, err)
					}
				}
			}
			yents := w.y[j].OpLog().Values().Slice()
			w.note(yents)
			missing := diffNew(before[j].Log, w.nums(hashesOf(yents)))
			heads := w.y[j].OpLog().Heads().Slice()
			cp := make([]ipfslog.Entry, len(heads))
			for i, h := range heads {
				cp[i] = h.Copy()
			}
			if err := w.x[j].Sync(ctx, cp); err != nil {
				return fmt.Errorf("sync into X db %d: %w", j, err)
			}
			if len(missing) > 0 {
				want := len(before[j].Log) + len(missing)
				w.waitFor(func() bool {
					if w.x[j].OpLog().Len() < want {
						return false
					}
					got := 0
					for _, e := range w.peekEvents() {
						if e.addr == w.addrs[j] && e.kind == 3 {
							got += len(e.hashes)
						}
					}
					return got >= len(missing)
				})
			}
			descr["new"] = len(missing)
		case "load":
			if err := w.x[j].Load(ctx, -1); err != nil {
				return fmt.Errorf("load X db %d: %w", j, err)
			}
			opCoq = fmt.Sprintf("(OLoad %s)", sim.CoqNat(j))
		}
		if !w.calm(20 * time.Second) {
			// not a statement about isolation: the step cannot be observed at rest, so the
			// scenario is abandoned (and the run, when it happens again)
			r.Count("scenario-abandoned(not at rest)")
			r.Notes = append(r.Notes, fmt.Sprintf("scenario %d step %d (%s on database %d): instance did not come to rest within 20s; scenario abandoned", si, st, kind, j))
			c09Restless++
			return nil
		}
		after := w.observeAll()
		evs := w.takeEvents()
		pubs := w.publishedSince(true)
		w.checkDirect(Y.Idx, descr)

		if kind == "ysync" || kind == "resync" {
			// what database j's replicator emitted, as witnessed by j's own store events
			var em []string
			for _, e := range evs {
				if e.addr != w.addrs[j] {
					continue
				}
				switch e.kind {
				case 1:
					em = append(em, fmt.Sprintf("RAdded %s %s", sim.CoqN(w.hnum(e.hashes[0])), sim.CoqZ(w.entTime[e.hashes[0]])))
				case 2:
					em = append(em, fmt.Sprintf("RProgress %s %s", sim.CoqN(w.hnum(e.hashes[0])), sim.CoqZ(w.entTime[e.hashes[0]])))
				case 3:
					em = append(em, fmt.Sprintf("REnd %s", sim.CoqListN(w.nums(e.hashes))))
				}
			}
			opCoq = fmt.Sprintf("(OSync %s %s)", sim.CoqNat(j), sim.CoqList(em))
			descr["emitted"] = len(em)
		}

		// published payloads: (topic, address in payload, entries with their database)
		type pub struct {
			t, a int
			hs   string
		}
		var ps []pub
		crossTopic := false
		for _, m := range pubs {
			var msg iface.MessageExchangeHeads
			if err := json.Unmarshal(m.Payload, &msg); err != nil {
				r.Count("payload-undecodable")
				continue
			}
			var hs []string
			for _, h := range msg.Heads {
				if h != nil {
					hs = append(hs, h.GetHash().String())
					if w.hdb(h.GetHash().String()) != w.dbOfAddr(m.Topic) {
						crossTopic = true
					}
				}
			}
			p := pub{w.dbOfAddr(m.Topic), w.dbOfAddr(msg.Address), w.tagged(hs)}
			if p.t != p.a {
				crossTopic = true
			}
			ps = append(ps, p)
		}
		sort.Slice(ps, func(a, b int) bool {
			if ps[a].t != ps[b].t {
				return ps[a].t < ps[b].t
			}
			if ps[a].a != ps[b].a {
				return ps[a].a < ps[b].a
			}
			return ps[a].hs < ps[b].hs
		})
		pubCoq := make([]string, len(ps))
		for i, p := range ps {
			pubCoq[i] = fmt.Sprintf("(%s, %s, %s)", sim.CoqNat(p.t), sim.CoqNat(p.a), p.hs)
		}

		// store events: (address, kind, entries with their database)
		foreign := false
		evCoq := make([]string, 0, len(evs))
		for _, e := range evs {
			a := w.dbOfAddr(e.addr)
			for _, h := range e.hashes {
				if w.hdb(h) != a {
					foreign = true
				}
			}
			evCoq = append(evCoq, fmt.Sprintf("(%s, %s, %s)", sim.CoqNat(a), sim.CoqNat(e.kind), w.tagged(e.hashes)))
		}
		sort.Strings(evCoq)
		for i := 0; i < k; i++ {
			if i != j && !before[i].same(after[i]) {
				foreign = true
			}
		}
		switch {
		case crossTopic:
			descr["sig"] = "write-announced-on-other-topic"
		case foreign:
			descr["sig"] = "foreign-load-events"
		default:
			descr["sig"] = "c09-other"
		}
		bs, as := make([]string, k), make([]string, k)
		for i := 0; i < k; i++ {
			bs[i], as[i] = before[i].coq(), after[i].coq()
		}
		r.AddCase(fmt.Sprintf("(CStep %s %s %s %s %s %s)", sim.CoqNat(k), opCoq, sim.CoqList(pubCoq), sim.CoqList(bs), sim.CoqList(as), sim.CoqList(evCoq)),
			descr, kind != "resync")
		r.Count("step:" + kind)
		if crossTopic {
			r.Count("observed:cross-topic")
		}
		if foreign {
			r.Count("observed:foreign")
		}
	}
	return nil
}

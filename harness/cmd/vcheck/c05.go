package main

import (
	"berty.tech/go-ipfs-log/identityprovider"
	ipfslogiface "berty.tech/go-ipfs-log/iface"
	ipfslogio "berty.tech/go-ipfs-log/io"
	"berty.tech/go-ipfs-log/io/cbor"
	"context"
	"encoding/json"
	"fmt"
	"github.com/ipfs/go-cid"
	format "github.com/ipfs/go-ipld-format"
	coreiface "github.com/ipfs/kubo/core/coreiface"
	"path/filepath"
	"sort"
	"strings"
	"sync"

	ipfslog "berty.tech/go-ipfs-log"
	"berty.tech/go-ipfs-log/entry"
	orbitdb "berty.tech/go-orbit-db"
	"berty.tech/go-orbit-db/accesscontroller"
	"berty.tech/go-orbit-db/cache/cacheleveldown"
	"berty.tech/go-orbit-db/iface"
	"berty.tech/go-orbit-db/stores"
	datastore "github.com/ipfs/go-datastore"
	"github.com/libp2p/go-libp2p/p2p/host/eventbus"
	"verifharness/sim"
)

func init() { drivers["C05"] = driver{"C05", runC05} }

func headHashes(raw []byte) []string {
	if len(raw) == 0 {
		return nil
	}
	var es []*entry.Entry
	if err := json.Unmarshal(raw, &es); err != nil {
		return nil
	}
	var out []string
	for _, e := range es {
		if e != nil {
			out = append(out, e.GetHash().String())
		}
	}
	return out
}

// C05: durability.  The persistence effects (block writes, cache writes) of a replica are
// recorded in order; every sampled prefix is materialised as a fresh instance (blocks held =
// blocks of the prefix, cache = cache writes of the prefix, no network), reopened and loaded,
// and compared with the model's recovery and with the four clauses of the property.
func runC05(r *Run) error {
	defer closeEnv()
	hists := 24
	cuts := 30
	if r.Tier == "thorough" {
		hists, cuts = 160, 80
	}
	env, err := sharedEnv()
	if err != nil {
		return err
	}
	ctx := context.Background()
	for hi := 0; hi < hists; hi++ {
		scenCounter++
		sim.TheHooks.Reset()
		env.Net.ResetTraffic(false)
		label := fmt.Sprintf("d%d", scenCounter)
		canon := sim.NewCanon()
		idxA, idxB := scenCounter*100, scenCounter*100+1
		dirA := filepath.Join(env.Work, label+"-A")
		repA, err := env.NewReplicaOpts(idxA, label, dirA, sim.PeerIDFor(label, idxA), func(o *orbitdb.NewOrbitDBOptions) {
			o.Cache = &sim.RecCache{Inner: cacheleveldown.New(nil), Env: env, Idx: idxA}
		})
		if err != nil {
			return err
		}
		repB, err := env.NewReplica(idxB, label)
		if err != nil {
			return err
		}
		repC0, err := env.NewReplica(scenCounter*100+2, label)
		if err != nil {
			return err
		}
		canon.Cid.Add(repC0.Orbit.Identity().PublicKey)
		canon.Cid.Add(repA.Orbit.Identity().PublicKey)
		canon.Cid.Add(repB.Orbit.Identity().PublicKey)
		canon.Ident.ID(repA.Orbit.Identity().ID)
		canon.Ident.ID(repB.Orbit.Identity().ID)
		canon.Ident.ID(repC0.Orbit.Identity().ID)
		// every fourth history runs on a database opened (by everybody, every time) with a custom
		// IO option: entries are stored with their payload masked, so only a reader that uses the
		// database's IO gets entries whose signatures verify
		customIO := hi%4 == 2
		withIO := func(o *orbitdb.CreateDBOptions) *orbitdb.CreateDBOptions {
			if customIO {
				o.IO = maskIO{ipfslogio.CBOR()}
			}
			return o
		}
		if customIO {
			r.Count("history:custom-io")
		}
		ac := &accesscontroller.CreateAccessControllerOptions{Access: map[string][]string{"write": {repA.Orbit.Identity().ID, repB.Orbit.Identity().ID, repC0.Orbit.Identity().ID}}}
		// the bus of store A is observed: the marker "repl" is put into the effect log at the very
		// position where EventReplicated is emitted ("reported as replicated"), synchronously
		var replMu sync.Mutex
		replSeen := map[string]bool{}
		busA := &sim.ObsBus{Inner: eventbus.NewBus(), OnEmit: func(evt interface{}) {
			ev, ok := evt.(stores.EventReplicated)
			if !ok {
				return
			}
			var hs []string
			replMu.Lock()
			for _, e := range ev.Entries {
				if h := e.GetHash().String(); !replSeen[h] {
					replSeen[h] = true
					hs = append(hs, h)
				}
			}
			replMu.Unlock()
			if len(hs) > 0 {
				env.AddMarker(idxA, "repl", strings.Join(hs, ","))
			}
		}}
		stA, err := repA.Orbit.Create(ctx, "db-"+label, "keyvalue", withIO(&orbitdb.CreateDBOptions{AccessController: ac, EventBus: busA}))
		if err != nil {
			return err
		}
		addr := stA.Address().String()
		canon.LogID.ID(addr)
		stB, err := repB.Orbit.Open(ctx, addr, withIO(&orbitdb.CreateDBOptions{}))
		if err != nil {
			return err
		}
		stC0, err := repC0.Orbit.Open(ctx, addr, withIO(&orbitdb.CreateDBOptions{}))
		if err != nil {
			return err
		}
		s := &Scen{Env: env, Reps: []*sim.Replica{repA, repB, repC0}, Stores: []iface.Store{stA, stB, stC0}, Canon: canon, Type: "keyvalue", Addr: addr, Label: label}
		u := s.NewUniverse()
		k0 := 0
		for _, ef := range env.EffectsSnapshot() {
			if ef.Replica == idxA {
				k0++
			}
		}
		steps := 3 + r.Rng.Intn(8)
		if r.Tier == "thorough" {
			steps = 3 + r.Rng.Intn(25)
		}
		// replica A may be restarted in the middle of the history, with or without a limit on
		// the load.  While it holds only a suffix of its log no merge is scripted (the heads cache
		// then records the heads of the partial log: an observation outside this property);
		// local writes are, and everything acknowledged so far must still be recovered later.
		partial := false
		// the first two histories begin with a fixed script: A writes, B writes (concurrently),
		// A merges B's branch (two heads), A restarts with a limit that cuts one of the branches
		// out of the log, A writes on top of what is left; the rest is random as everywhere
		var script []int
		if hi < 2 {
			script = []int{0, 0, 5, 7, 10, 0}
			if steps < len(script)+2 {
				steps = len(script) + 2
			}
			r.Count("scripted-prefix:concurrent-heads-then-limited-restart-then-write")
		}
		for st := 0; st < steps; st++ {
			c := r.Rng.Intn(12)
			forced := st < len(script)
			if forced {
				c = script[st]
			}
			switch {
			case c >= 10:
				if err := stA.Close(); err != nil {
					return fmt.Errorf("close A: %w", err)
				}
				st2, err := repA.Orbit.Open(ctx, addr, withIO(&orbitdb.CreateDBOptions{EventBus: busA}))
				if err != nil {
					return fmt.Errorf("reopen A: %w", err)
				}
				stA = st2
				s.Stores[0] = st2
				amount := []int{-1, -1, 1, 2, 3}[r.Rng.Intn(5)]
				if forced {
					amount = 1 + hi
				}
				if err := stA.Load(ctx, amount); err != nil {
					return fmt.Errorf("load A: %w", err)
				}
				if !s.Settle() {
					r.AddDirect("hang:restart", "store did not settle after the restart", map[string]interface{}{"hist": hi, "state": sim.LastSettleState})
				}
				partial = amount > 0
				r.Count(fmt.Sprintf("restart-A:limited=%v", amount > 0))
				if partial && (r.Rng.Intn(3) > 0 || forced) {
					// a local write on top of the partially loaded log
					before := u.Note(stA.OpLog().Values().Slice())
					if err := writeOp(r, s, stA, st+500); err != nil {
						return err
					}
					for _, e := range stA.OpLog().Values().Slice() {
						if !containsInt(before, canon.Hash.ID(e.GetHash().String())) {
							env.AddMarker(idxA, "ack", e.GetHash().String())
						}
					}
					r.Count("write-A-on-partial-log")
				}
			case c < 5:
				before := u.Note(stA.OpLog().Values().Slice())
				if err := writeOp(r, s, stA, st); err != nil {
					return err
				}
				for _, e := range stA.OpLog().Values().Slice() {
					if !containsInt(before, canon.Hash.ID(e.GetHash().String())) {
						env.AddMarker(idxA, "ack", e.GetHash().String())
					}
				}
				raw, _ := stA.Cache().Get(ctx, datastoreKey("_localHeads"))
				r.AddCase(fmt.Sprintf("(CHeadsCache true %s %s)", sim.CoqListN(idsOf(canon, hashesOf(stA.OpLog().Heads().Slice()))), sim.CoqListN(idsOf(canon, headHashes(raw)))),
					map[string]interface{}{"kind": "cache-local", "hist": hi, "step": st}, true)
				r.Count("write-A")
			case c < 7:
				src := 1 + r.Rng.Intn(2)
				if forced {
					src = 1
				}
				if err := writeOp(r, s, s.Stores[src], st+1000); err != nil {
					return err
				}
				r.Count("write-other")
			default:
				if partial {
					r.Count("sync-skipped(partial log)")
					continue
				}
				before := u.Note(stA.OpLog().Values().Slice())
				src := 1 + r.Rng.Intn(2)
				if forced {
					src = 1
				}
				u.Note(s.Stores[src].OpLog().Values().Slice())
				if err := s.SyncFrom(0, src); err != nil {
					return err
				}
				if !s.Settle() {
					r.AddDirect("hang:sync", "replication did not settle", map[string]interface{}{"hist": hi, "state": sim.LastSettleState})
				}
				var got []string
				for _, e := range stA.OpLog().Values().Slice() {
					if !containsInt(before, canon.Hash.ID(e.GetHash().String())) {
						got = append(got, e.GetHash().String())
					}
				}
				// (the "repl" markers were placed by the observed bus at the emission of the events;
				// entries that are new in the log but were announced by no event get one now)
				var unannounced []string
				replMu.Lock()
				for _, h := range got {
					if !replSeen[h] {
						replSeen[h] = true
						unannounced = append(unannounced, h)
					}
				}
				replMu.Unlock()
				if len(unannounced) > 0 {
					env.AddMarker(idxA, "repl", strings.Join(unannounced, ","))
					r.Count("repl-marker-after-settle")
				}
				raw, _ := stA.Cache().Get(ctx, datastoreKey("_remoteHeads"))
				if len(got) > 0 {
					r.AddCase(fmt.Sprintf("(CHeadsCache false %s %s)", sim.CoqListN(idsOf(canon, hashesOf(stA.OpLog().Heads().Slice()))), sim.CoqListN(idsOf(canon, headHashes(raw)))),
						map[string]interface{}{"kind": "cache-remote", "hist": hi, "step": st}, true)
				}
				r.Count("sync-A-from-others")
			}
		}
		s.Settle()
		u.Note(stA.OpLog().Values().Slice())
		u.Note(stB.OpLog().Values().Slice())
		u.Note(stC0.OpLog().Values().Slice())
		final := hashesOf(stA.OpLog().Values().Slice())
		// effects of replica A in order
		var effs []sim.Effect
		for _, ef := range env.EffectsSnapshot() {
			if ef.Replica == idxA {
				effs = append(effs, ef)
			}
		}
		// cut points: all points adjacent to cache writes / markers, plus random ones
		cand := map[int]bool{len(effs): true, k0: true}
		for i := k0; i < len(effs); i++ {
			if effs[i].Kind != "block" {
				cand[i] = true
				cand[i+1] = true
			}
		}
		var ks []int
		for k := range cand {
			if k >= k0 && k <= len(effs) {
				ks = append(ks, k)
			}
		}
		sort.Ints(ks)
		r.Rng.Shuffle(len(ks), func(i, j int) { ks[i], ks[j] = ks[j], ks[i] })
		if len(ks) > cuts {
			ks = ks[:cuts]
		}
		for extra := 0; extra < cuts/4 && len(effs) > k0; extra++ {
			ks = append(ks, k0+r.Rng.Intn(len(effs)-k0+1))
		}
		sort.Ints(ks)
		for ci, k := range ks {
			blocks := []string{}
			cacheKV := map[string]map[string][]byte{}
			var acked []string
			for _, ef := range effs[:k] {
				switch ef.Kind {
				case "block":
					blocks = append(blocks, ef.Key)
				case "cache-put":
					if cacheKV[ef.DB] == nil {
						cacheKV[ef.DB] = map[string][]byte{}
					}
					cacheKV[ef.DB][ef.Key] = ef.Value
				case "cache-del":
					delete(cacheKV[ef.DB], ef.Key)
				case "ack":
					acked = append(acked, ef.Key)
				case "repl":
					acked = append(acked, strings.Split(ef.Key, ",")...)
				}
			}
			local := headHashes(cacheKV[addr]["/_localHeads"])
			remote := headHashes(cacheKV[addr]["/_remoteHeads"])
			idxC := scenCounter*100 + 10 + ci
			env.SetHeld(idxC, blocks)
			env.Net.Cut(idxC, idxA)
			env.Net.Cut(idxC, idxB)
			repC, err := env.NewReplicaOpts(idxC, label, filepath.Join(env.Work, fmt.Sprintf("%s-crash-%d", label, ci)), repA.PID, func(o *orbitdb.NewOrbitDBOptions) {
				o.Cache = sim.NewMemCache(cacheKV)
				o.Identity = repA.Orbit.Identity()
			})
			if err != nil {
				return err
			}
			outcome := "ok"
			var listing []ipfslog.Entry
			view := map[string][]byte{}
			stC, err := repC.Orbit.Open(ctx, addr, withIO(&orbitdb.CreateDBOptions{}))
			if err != nil {
				outcome = "open-error"
			} else {
				if err := stC.Load(ctx, -1); err != nil {
					outcome = "load-error"
				}
				listing = stC.OpLog().Values().Slice()
				view = viewOf(s, stC)
			}
			var blockIDs []int
			for _, b := range blocks {
				if canon.Hash.Has(b) {
					blockIDs = append(blockIDs, canon.Hash.ID(b))
				}
			}
			ids := func(hs []string) []int {
				out := make([]int, 0, len(hs))
				for _, h := range hs {
					out = append(out, canon.Hash.ID(h))
				}
				return out
			}
			sig := "crash"
			r.AddCase(fmt.Sprintf("(CCrash %s %s %s %s %s %s %s %s)", u.Name, sim.CoqListN(blockIDs), sim.CoqListN(ids(local)), sim.CoqListN(ids(remote)),
				sim.CoqListN(ids(acked)), sim.CoqBool(outcome == "ok"), sim.CoqListN(s.Canon.HashIDs(listing)), coqKvMap(canon, view)),
				map[string]interface{}{"kind": "crash", "sig": sig, "hist": hi, "cut": k, "of": len(effs), "acked": len(acked), "recovered": len(listing), "outcome": outcome}, len(acked) > 0)
			r.Count("cut")
			if k == len(effs) {
				r.Count("cut=end")
			}
			_ = repC.Orbit.Close()
		}
		// a second handle of the database on the same instance is opened, loaded and closed: it
		// shares the instance's cache of the database, so closing it may close the cache under
		// the first handle.  Writes on the first handle afterwards may be refused - but one that
		// IS acknowledged has to be on disk like any other
		if r.Rng.Intn(3) == 0 {
			if h2, err := repA.Orbit.Open(ctx, addr, withIO(&orbitdb.CreateDBOptions{})); err == nil {
				_ = h2.Load(ctx, -1)
				s.Settle()
				_ = h2.Close()
				for k := 0; k < 2; k++ {
					known := map[string]bool{}
					for _, e := range stA.OpLog().Values().Slice() {
						known[e.GetHash().String()] = true
					}
					werr := writeOp(r, s, stA, 900+k)
					if werr != nil {
						r.Count("write-after-second-handle-closed:refused")
						continue
					}
					r.Count("write-after-second-handle-closed:acknowledged")
					for _, e := range stA.OpLog().Values().Slice() {
						if !known[e.GetHash().String()] {
							final = append(final, e.GetHash().String())
							u.Note([]ipfslog.Entry{e})
						}
					}
				}
			} else {
				r.Count("second-handle-open-refused")
			}
		}
		// clean close / reopen on the real directory: identity kept, everything there
		idBefore := repA.Orbit.Identity().ID
		_ = repA.Orbit.Close()
		repA2, err := env.NewReplicaOpts(idxA, label, dirA, repA.PID, nil)
		if err != nil {
			return err
		}
		stA2, err := repA2.Orbit.Open(ctx, addr, withIO(&orbitdb.CreateDBOptions{}))
		if err != nil {
			return err
		}
		if err := stA2.Load(ctx, -1); err != nil {
			return err
		}
		after := hashesOf(stA2.OpLog().Values().Slice())
		canWrite := true
		if kv, ok := stA2.(iface.KeyValueStore); ok {
			if _, err := kv.Put(ctx, "after-restart", []byte("x")); err != nil {
				canWrite = false
			}
		}
		r.AddCase(fmt.Sprintf("(CReopen %s %s %s %s)", sim.CoqBool(idBefore == repA2.Orbit.Identity().ID), sim.CoqBool(canWrite),
			sim.CoqListN(idsOf(canon, final)), sim.CoqListN(idsOf(canon, after))),
			map[string]interface{}{"kind": "reopen", "hist": hi, "entries": len(final)}, len(final) > 0)
		r.Count("reopen")
		r.Pre = append(r.Pre, u.Def())
		_ = repA2.Orbit.Close()
		_ = repB.Orbit.Close()
		_ = repC0.Orbit.Close()
	}
	return nil
}

// maskIO is a custom IO: the CBOR IO of go-ipfs-log with the payload of every entry masked in
// the stored block.
type maskIO struct{ *cbor.IOCbor }

func maskBytes(b []byte) []byte {
	out := make([]byte, len(b))
	for i, x := range b {
		out[i] = x ^ 0x5a
	}
	return out
}

func (m maskIO) Write(ctx context.Context, ipfs coreiface.CoreAPI, obj interface{}, opts *ipfslogiface.WriteOpts) (cid.Cid, error) {
	if e, ok := obj.(ipfslogiface.IPFSLogEntry); ok {
		cp := e.Copy()
		cp.SetPayload(maskBytes(e.GetPayload()))
		return m.IOCbor.Write(ctx, ipfs, cp, opts)
	}
	return m.IOCbor.Write(ctx, ipfs, obj, opts)
}

func (m maskIO) DecodeRawEntry(node format.Node, hash cid.Cid, p identityprovider.Interface) (ipfslogiface.IPFSLogEntry, error) {
	e, err := m.IOCbor.DecodeRawEntry(node, hash, p)
	if err != nil {
		return nil, err
	}
	e.SetPayload(maskBytes(e.GetPayload()))
	return e, nil
}

func datastoreKey(k string) datastore.Key { return datastore.NewKey(k) }

func idsOf(c *sim.Canon, hs []string) []int {
	out := make([]int, len(hs))
	for i, h := range hs {
		out[i] = c.Hash.ID(h)
	}
	return out
}

func containsInt(l []int, x int) bool {
	for _, y := range l {
		if y == x {
			return true
		}
	}
	return false
}

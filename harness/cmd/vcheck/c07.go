package main

import (
	"context"
	"encoding/json"
	"fmt"
	"sort"
	"strings"

	"berty.tech/go-orbit-db/iface"
	"verifharness/sim"
)

func init() { drivers["C07"] = driver{"C07", runC07} }

// c07Typed is the document type of the typed histories (a store opened with an ItemFactory
// that returns a pointer to a struct).
type c07Typed struct {
	ID string `json:"_id"`
	V  int    `json:"v"`
}

func c07TypedOpts() interface{} {
	return &iface.CreateDocumentDBOptions{
		KeyExtractor: func(d interface{}) (string, error) {
			t, ok := d.(*c07Typed)
			if !ok {
				return "", fmt.Errorf("not a *c07Typed: %T", d)
			}
			return t.ID, nil
		},
		Marshal:     json.Marshal,
		Unmarshal:   json.Unmarshal,
		ItemFactory: func() interface{} { return &c07Typed{} },
	}
}

func docsToMap(docs []interface{}) map[string][]byte {
	out := map[string][]byte{}
	for _, d := range docs {
		if t, ok := d.(*c07Typed); ok {
			b, _ := json.Marshal(t)
			out[t.ID] = b
			continue
		}
		m, ok := d.(map[string]interface{})
		if !ok {
			continue
		}
		id, _ := m["_id"].(string)
		b, _ := json.Marshal(m)
		out[id] = b
	}
	return out
}

// C07: document store = last-writer-wins replay incl. batch puts; Get/Query exactness;
// delete of an absent key refused.
func runC07(r *Run) error {
	defer closeEnv()
	hists := 14
	if r.Tier == "thorough" {
		hists = 600
	}
	pool := []string{"Doc1", "doc1", "DOC", "doc", "a.b", "x-1", "Zed"}
	searches := []string{"doc", "Doc1", "DOC1", "oc", "a.b", "A.B", "x", "q", "ed", "1"}
	ctx := context.Background()
	master := r.Rng
	defer func() { r.Rng = master }()
	// (one more history at the end has a long log, see c06.go)
	for hi := 0; hi < hists+1; hi++ {
		if !kvHistoryRng(r, master, hi) {
			continue
		}
		long := hi == hists
		n := 1 + r.Rng.Intn(3)
		if long {
			n = 2
		}
		// the long history runs on TYPED documents (every opener passes the same options)
		var sopts *ScenOpts
		if long {
			sopts = &ScenOpts{StoreSpecific: c07TypedOpts}
		}
		s, err := NewScen(n, "docstore", sopts)
		if err != nil {
			return err
		}
		u := s.NewUniverse()
		nk := 1 + r.Rng.Intn(len(pool))
		keys := pool[:nk]
		steps := 7 + r.Rng.Intn(16)
		if long {
			steps = 0
		}
		prev := make([]map[string][]byte, n)
		for i := range prev {
			prev[i] = map[string][]byte{}
		}
		ver := 0
		mk := func(k string) interface{} {
			ver++
			if long {
				return &c07Typed{ID: k, V: ver}
			}
			return map[string]interface{}{"_id": k, "v": ver}
		}
		routes := newKvRoutes(n, hi)
		observe := func(rep int, step int, what string, fresh bool) error {
			if fresh {
				// the reopened store has a new, empty index
				prev[rep] = map[string][]byte{}
			}
			st := s.Stores[rep].(iface.DocumentStore)
			listing := u.Note(st.OpLog().Values().Slice())
			sig := routes.seen(rep, listing, fresh)
			docs, err := st.Query(ctx, func(interface{}) (bool, error) { return true, nil })
			if err != nil {
				return err
			}
			all := docsToMap(docs)
			// a predicate query: v is even
			evens, err := st.Query(ctx, func(d interface{}) (bool, error) {
				if t, ok := d.(*c07Typed); ok {
					return t.V%2 == 0, nil
				}
				v, _ := d.(map[string]interface{})["v"].(float64)
				return int(v)%2 == 0, nil
			})
			if err != nil {
				return err
			}
			var evenKeys []string
			for k := range docsToMap(evens) {
				evenKeys = append(evenKeys, k)
			}
			sort.Strings(evenKeys)
			var wantEven []string
			for k, b := range all {
				var m map[string]interface{}
				_ = json.Unmarshal(b, &m)
				if v, _ := m["v"].(float64); int(v)%2 == 0 {
					wantEven = append(wantEven, k)
				}
			}
			sort.Strings(wantEven)
			if strings.Join(evenKeys, "\x00") != strings.Join(wantEven, "\x00") {
				r.AddDirect("query:filter", fmt.Sprintf("Query(even) returned %v, want %v", evenKeys, wantEven), map[string]interface{}{"hist": hi, "step": step})
			}
			var gets []string
			for gi := 0; gi < 6; gi++ {
				se := searches[r.Rng.Intn(len(searches))]
				ci := r.Rng.Intn(2) == 0
				pa := r.Rng.Intn(2) == 0
				res, err := st.Get(ctx, se, &iface.DocumentStoreGetOptions{CaseInsensitive: ci, PartialMatches: pa})
				if err != nil {
					return err
				}
				var ks []string
				for k := range docsToMap(res) {
					ks = append(ks, sim.CoqBytes([]byte(k)))
				}
				sort.Strings(ks)
				gets = append(gets, fmt.Sprintf("(%s, %s, %s, %s)", sim.CoqBool(ci), sim.CoqBool(pa), sim.CoqBytes([]byte(se)), sim.CoqList(ks)))
				r.Count(fmt.Sprintf("get ci=%v partial=%v", ci, pa))
			}
			r.AddCase(fmt.Sprintf("(CDoc %s %s %s %s %s)", u.Name, coqKvMap(s.Canon, prev[rep]), sim.CoqListN(listing), coqKvMap(s.Canon, all), sim.CoqList(gets)),
				map[string]interface{}{"kind": "doc", "sig": sig, "hist": hi, "step": step, "replica": rep, "after": what, "entries": len(listing)}, len(listing) >= 2)
			prev[rep] = all
			return nil
		}
		for st := 0; st < steps; st++ {
			rep := r.Rng.Intn(n)
			ds := s.Stores[rep].(iface.DocumentStore)
			k := keys[r.Rng.Intn(len(keys))]
			var err error
			what := ""
			switch c := r.Rng.Intn(17); {
			case c >= 12:
				// snapshots, restarts, limited loads (kvRoutes, c06.go): observed after every call
				err = routes.step(r, s, rep, map[string]interface{}{"hist": hi, "step": st}, func(what string, fresh bool) error {
					return observe(rep, st, what, fresh)
				})
				if err != nil {
					return fmt.Errorf("hist %d step %d replica %d: %w", hi, st, rep, err)
				}
				r.Count("route")
				continue
			case c < 3:
				_, err = ds.Put(ctx, mk(k))
				what = "put"
			case c < 5:
				var batch []interface{}
				for i := 0; i < 1+r.Rng.Intn(3); i++ {
					batch = append(batch, mk(keys[r.Rng.Intn(len(keys))]))
				}
				_, err = ds.PutBatch(ctx, batch)
				what = "putbatch"
			case c < 8:
				var batch []interface{}
				for i := 0; i < 1+r.Rng.Intn(3); i++ {
					batch = append(batch, mk(keys[r.Rng.Intn(len(keys))]))
				}
				_, err = ds.PutAll(ctx, batch)
				what = "putall"
			case c < 10:
				before := u.Note(ds.OpLog().Values().Slice())
				_, present := prev[rep][k]
				_, derr := ds.Delete(ctx, k)
				after := u.Note(ds.OpLog().Values().Slice())
				r.AddCase(fmt.Sprintf("(CDel %s %s %s %s %s %s)", u.Name, coqKvMap(s.Canon, prev[rep]), sim.CoqListN(before), sim.CoqBytes([]byte(k)), sim.CoqBool(derr != nil), sim.CoqListN(after)),
					map[string]interface{}{"kind": "del", "hist": hi, "step": st, "present": present, "err": derr != nil}, true)
				if present {
					r.Count("del-present")
				} else {
					r.Count("del-absent")
				}
				what = "del"
			default:
				if n == 1 {
					continue
				}
				from := r.Rng.Intn(n)
				if from == rep {
					continue
				}
				err = s.SyncFrom(rep, from)
				if err == nil && !s.Settle() {
					r.AddDirect("hang:sync", "replication did not settle", map[string]interface{}{"hist": hi, "step": st, "state": sim.LastSettleState})
				}
				what = "sync"
			}
			if err != nil {
				return err
			}
			r.Count(what)
			if err := observe(rep, st, what, false); err != nil {
				return err
			}
		}
		if long {
			ds := s.Stores[0].(iface.DocumentStore)
			for i := 0; i < 70; i += 5 {
				if i%2 == 0 {
					for j := i; j < i+5; j++ {
						if _, err := ds.Put(ctx, mk(fmt.Sprintf("Doc%03d", j))); err != nil {
							return err
						}
					}
					continue
				}
				var batch []interface{}
				for j := i; j < i+5; j++ {
					batch = append(batch, mk(fmt.Sprintf("Doc%03d", j)))
				}
				if _, err := ds.PutAll(ctx, batch); err != nil {
					return err
				}
			}
			if err := observe(0, 0, "put of 70 documents", false); err != nil {
				return err
			}
			for i, k := range []string{"Doc000", "Doc007", "Doc035"} {
				if _, err := ds.Delete(ctx, k); err != nil {
					return err
				}
				if err := observe(0, 1+i, "del of a document put long before", false); err != nil {
					return err
				}
			}
			if _, err := ds.Put(ctx, mk("Doc001")); err != nil {
				return err
			}
			if _, err := ds.PutAll(ctx, []interface{}{mk("Doc000"), mk("Doc006")}); err != nil {
				return err
			}
			if err := observe(0, 4, "overwrite and re-put in a long log", false); err != nil {
				return err
			}
			if err := s.SyncFrom(1, 0); err != nil {
				return err
			}
			if !s.Settle() {
				r.AddDirect("hang:sync", "replication did not settle", map[string]interface{}{"hist": hi, "state": sim.LastSettleState})
			}
			if err := observe(1, 5, "sync of a long log", false); err != nil {
				return err
			}
			r.Count("long-log-history")
		}
		kvProbeEnd(hi)
		r.Pre = append(r.Pre, u.Def())
		s.Settle()
		s.Close()
	}
	return nil
}

package main

import (
	"context"
	"fmt"
	"os"
	"time"

	ipfslog "berty.tech/go-ipfs-log"
	orbitdb "berty.tech/go-orbit-db"
	"berty.tech/go-orbit-db/iface"
	cid "github.com/ipfs/go-cid"
	datastore "github.com/ipfs/go-datastore"
	"verifharness/sim"
)

func init() { drivers["C02"] = driver{"C02", runC02} }

// C02: eventual delivery.  2..4 replicas write while links are cut and healed,
// announcements are dropped, duplicated and delivered out of order, and replicas restart;
// then all links are healed (each side observes the other joining: head exchange), all
// traffic is delivered, and every replica must hold every acknowledged write.
func runC02(r *Run) error {
	defer closeEnv()
	scens := 14
	if r.Tier == "thorough" {
		scens = 80
	}
	ctx := context.Background()
	for si := 0; si < scens; si++ {
		n := 2 + r.Rng.Intn(3)
		typ := []string{"eventlog", "keyvalue"}[si%2]
		s, err := NewScen(n, typ, nil) // manual network: nothing is delivered unless the script says so
		if err != nil {
			return err
		}
		net := s.Env.Net
		idx := func(i int) int { return s.Reps[i].Idx }
		written := map[string]bool{}
		links := map[string][]string{} // hash -> next ∪ refs
		note := func(es []ipfslog.Entry) {
			for _, e := range es {
				h := e.GetHash().String()
				if _, ok := links[h]; ok {
					continue
				}
				var l []string
				for _, c := range e.GetNext() {
					l = append(l, c.String())
				}
				for _, c := range e.GetRefs() {
					l = append(l, c.String())
				}
				links[h] = l
			}
		}
		settle := func(what string) {
			if !sim.Settle(s.Env.Ctx, s.Env, 20*time.Second, 1, s.Stores...) {
				r.AddDirect("hang:"+what, "system did not settle", map[string]interface{}{"scen": si, "state": sim.LastSettleState})
			}
		}
		cover := func(i int, when string) {
			st := s.Stores[i]
			es := st.OpLog().Values().Slice()
			note(es)
			var cached []string
			for _, k := range []string{"_localHeads", "_remoteHeads"} {
				raw, err := st.Cache().Get(ctx, datastore.NewKey(k))
				if err == nil {
					cached = append(cached, headHashes(raw)...)
				}
			}
			// universe restricted to what this replica can name
			var univ []string
			for h, l := range links {
				ls := make([]int, len(l))
				for k, x := range l {
					ls[k] = s.Canon.Hash.ID(x)
				}
				univ = append(univ, fmt.Sprintf("(%s, %s)", sim.CoqN(s.Canon.Hash.ID(h)), sim.CoqListN(ls)))
			}
			sortStrings(univ)
			r.AddCase(fmt.Sprintf("(CCover %s %s %s)", sim.CoqList(univ), sim.CoqListN(idsOf(s.Canon, hashesOf(es))), sim.CoqListN(idsOf(s.Canon, cached))),
				map[string]interface{}{"kind": "cover", "scen": si, "replica": i, "when": when, "entries": len(es), "cached": len(cached)}, len(es) >= 2)
			r.Count("cover")
		}
		trace := func(f string, a ...interface{}) {
			if os.Getenv("VERIF_TRACE") != "" {
				fmt.Fprintf(os.Stderr, "C02 scen %d: "+f+"\n", append([]interface{}{si}, a...)...)
			}
		}
		lens := func() []int {
			var l []int
			for _, st := range s.Stores {
				l = append(l, st.OpLog().Len())
			}
			return l
		}
		steps := 8 + r.Rng.Intn(25)
		if r.Tier == "thorough" {
			steps = 8 + r.Rng.Intn(60)
		}
		for st := 0; st < steps; st++ {
			switch c := r.Rng.Intn(100); {
			case c < 35:
				i := r.Rng.Intn(n)
				before := hashesOf(s.Stores[i].OpLog().Values().Slice())
				if err := writeOp(r, s, s.Stores[i], st); err != nil {
					return err
				}
				es := s.Stores[i].OpLog().Values().Slice()
				note(es)
				seen := map[string]bool{}
				for _, h := range before {
					seen[h] = true
				}
				for _, h := range hashesOf(es) {
					if !seen[h] {
						written[h] = true
					}
				}
				settle("write")
				trace("write on %d -> %v", i, lens())
				r.Count("write")
			case c < 52:
				if k := net.PendingLen(); k > 0 {
					net.DeliverPending(r.Rng.Intn(k), false) // any order: reordering
					settle("deliver")
					trace("deliver (of %d pending) -> %v", k, lens())
					r.Count("deliver")
				}
			case c < 60:
				// the announcement gets through but the partition hits before the blocks can be fetched
				if k := net.PendingLen(); k > 0 {
					a, b := r.Rng.Intn(n), r.Rng.Intn(n)
					for a2 := 0; a2 < n; a2++ {
						for b2 := a2 + 1; b2 < n; b2++ {
							if (a2 == a || b2 == b) && a != b {
								net.CutBlocks(idx(a2), idx(b2))
							}
						}
					}
					net.DeliverPending(r.Rng.Intn(k), false)
					settle("deliver-unfetchable")
					trace("deliver-unfetchable a=%d b=%d -> %v", a, b, lens())
					r.Count("deliver-unfetchable")
				}
			case c < 66:
				if k := net.PendingLen(); k > 0 {
					net.DeliverPending(r.Rng.Intn(k), true) // duplicate
					settle("dup")
					trace("dup -> %v", lens())
					r.Count("duplicate")
				}
			case c < 74:
				if k := net.PendingLen(); k > 0 {
					net.DropPending(r.Rng.Intn(k))
					trace("drop")
					r.Count("drop")
				}
			case c < 84:
				a, b := r.Rng.Intn(n), r.Rng.Intn(n)
				if a != b {
					net.Cut(idx(a), idx(b))
					trace("cut %d %d", a, b)
					r.Count("cut")
				}
			case c < 92:
				a, b := r.Rng.Intn(n), r.Rng.Intn(n)
				if a != b {
					net.Heal(idx(a), idx(b))
					settle("heal")
					trace("heal %d %d pending=%d -> %v", a, b, net.PendingLen(), lens())
					r.Count("heal")
				}
			default:
				i := r.Rng.Intn(n)
				settle("pre-restart")
				cover(i, "before-restart")
				_ = s.Reps[i].Orbit.Close()
				rep, err := s.Env.NewReplicaAt(s.Reps[i].Idx, s.Label, s.Reps[i].Dir)
				if err != nil {
					return err
				}
				st2, err := rep.Orbit.Open(ctx, s.Addr, &orbitdb.CreateDBOptions{})
				if err != nil {
					return fmt.Errorf("reopen: %w", err)
				}
				if err := st2.Load(ctx, -1); err != nil {
					return fmt.Errorf("load: %w", err)
				}
				s.Reps[i], s.Stores[i] = rep, st2
				settle("restart")
				trace("restart %d -> %v", i, lens())
				r.Count("restart")
			}
		}
		// final phase: heal everything, deliver everything, repeatedly, until nothing is pending
		for a := 0; a < n; a++ {
			for b := a + 1; b < n; b++ {
				net.Cut(idx(a), idx(b)) // make sure the heal is observed as a (re)join by both sides
			}
		}
		for a := 0; a < n; a++ {
			for b := a + 1; b < n; b++ {
				net.Heal(idx(a), idx(b))
			}
		}
		trace("final phase: healed all, pending=%d -> %v", net.PendingLen(), lens())
		for round := 0; round < 50; round++ {
			settle("final")
			trace("final round %d pending=%d -> %v", round, net.PendingLen(), lens())
			if net.PendingLen() == 0 {
				break
			}
			for net.PendingLen() > 0 {
				net.DeliverPending(0, false)
			}
		}
		settle("final")
		trace("end -> %v state %s", lens(), sim.LastSettleState)
		if os.Getenv("VERIF_TRACE") != "" {
			for i, st := range s.Stores {
				have := map[string]bool{}
				for _, h := range hashesOf(st.OpLog().Values().Slice()) {
					have[h] = true
				}
				for h := range written {
					if !have[h] {
						_, gerr := s.Reps[i].API.Dag().Get(ctx, mustCid(h))
						trace("replica %d misses %d (links %v) fetchable-now err=%v", i, s.Canon.Hash.ID(h), idsOf(s.Canon, links[h]), gerr)
					}
				}
				var cached []string
				for _, k := range []string{"_localHeads", "_remoteHeads"} {
					raw, err := st.Cache().Get(ctx, datastore.NewKey(k))
					if err == nil {
						cached = append(cached, headHashes(raw)...)
					}
				}
				trace("replica %d heads %v cached %v", i, idsOf(s.Canon, hashesOf(st.OpLog().Heads().Slice())), idsOf(s.Canon, cached))
			}
		}
		var all []string
		for h := range written {
			all = append(all, h)
		}
		sortStrings(all)
		logs := make([]string, n)
		for i := 0; i < n; i++ {
			logs[i] = sim.CoqListN(idsOf(s.Canon, hashesOf(s.Stores[i].OpLog().Values().Slice())))
			cover(i, "final")
		}
		r.AddCase(fmt.Sprintf("(CFinal %s %s)", sim.CoqListN(idsOf(s.Canon, all)), sim.CoqList(logs)),
			map[string]interface{}{"kind": "final", "sig": "final-divergence", "scen": si, "replicas": n, "written": len(all), "type": typ}, len(all) >= 2)
		r.Count(fmt.Sprintf("replicas=%d", n))
		_ = iface.Store(nil)
		s.Close()
	}
	return nil
}

func sortStrings(a []string) {
	for i := 1; i < len(a); i++ {
		for j := i; j > 0 && a[j-1] > a[j]; j-- {
			a[j-1], a[j] = a[j], a[j-1]
		}
	}
}

func mustCid(h string) cid.Cid {
	c, err := cid.Decode(h)
	if err != nil {
		panic(err)
	}
	return c
}

package main

import (
	"context"
	"fmt"
	"os"
	"time"

	ipfslog "berty.tech/go-ipfs-log"
	orbitdb "berty.tech/go-orbit-db"
	"berty.tech/go-orbit-db/stores/replicator"
	cid "github.com/ipfs/go-cid"
	datastore "github.com/ipfs/go-datastore"
	"verifharness/sim"
)

func init() { drivers["C02"] = driver{"C02", runC02} }

// c02scen is one C02 scenario: the replicas, what was written, the links of every entry
// seen, and the recording of the cases (cover, holes, final).
type c02scen struct {
	r       *Run
	s       *Scen
	si      int
	n       int
	typ     string
	kind    string              // "random" | "holes-..."
	written map[string]bool     // acknowledged writes
	links   map[string][]string // hash -> next ∪ refs
	lastH   map[int]string      // last CHoles term recorded per replica (only changes are recorded)
	late    int                 // replica that was reopened and is loaded only at the very end (-1: none, final() may pick one)
	track   bool                // scripted history: mirror every step as a step of Model/NetHoles.v
	hist    []string            // the mirrored steps (Coq terms)
}

func newC02Scen(r *Run, si, n int, typ, kind string) (*c02scen, error) {
	s, err := NewScen(n, typ, nil) // manual network: nothing is delivered unless the script says so
	if err != nil {
		return nil, err
	}
	return &c02scen{r: r, s: s, si: si, n: n, typ: typ, kind: kind,
		written: map[string]bool{}, links: map[string][]string{}, lastH: map[int]string{}, late: -1}, nil
}

func (c *c02scen) idx(i int) int { return c.s.Reps[i].Idx }

func (c *c02scen) note(es []ipfslog.Entry) {
	for _, e := range es {
		h := e.GetHash().String()
		if _, ok := c.links[h]; ok {
			continue
		}
		var l []string
		for _, x := range e.GetNext() {
			l = append(l, x.String())
		}
		for _, x := range e.GetRefs() {
			l = append(l, x.String())
		}
		c.links[h] = l
	}
}

func (c *c02scen) settle(what string) {
	if !sim.Settle(c.s.Env.Ctx, c.s.Env, 20*time.Second, 1, c.s.Stores...) {
		c.r.AddDirect("hang:"+what, "system did not settle", map[string]interface{}{"scen": c.si, "state": sim.LastSettleState})
	}
}

func (c *c02scen) trace(f string, a ...interface{}) {
	if os.Getenv("VERIF_TRACE") != "" {
		fmt.Fprintf(os.Stderr, "C02 scen %d: "+f+"\n", append([]interface{}{c.si}, a...)...)
	}
}

func (c *c02scen) lens() []int {
	var l []int
	for _, st := range c.s.Stores {
		l = append(l, st.OpLog().Len())
	}
	return l
}

func (c *c02scen) cachedHeads(i int) []string {
	var cached []string
	for _, k := range []string{"_localHeads", "_remoteHeads"} {
		raw, err := c.s.Stores[i].Cache().Get(context.Background(), datastore.NewKey(k))
		if err == nil {
			cached = append(cached, headHashes(raw)...)
		}
	}
	return cached
}

// univTerm renders (hash, links) pairs for the given hashes (all known ones when hs is nil).
func (c *c02scen) univTerm(hs []string) string {
	var univ []string
	add := func(h string) {
		l := c.links[h]
		ls := make([]int, len(l))
		for k, x := range l {
			ls[k] = c.s.Canon.Hash.ID(x)
		}
		univ = append(univ, fmt.Sprintf("(%s, %s)", sim.CoqN(c.s.Canon.Hash.ID(h)), sim.CoqListN(ls)))
	}
	if hs == nil {
		for h := range c.links {
			add(h)
		}
	} else {
		for _, h := range hs {
			add(h)
		}
	}
	sortStrings(univ)
	return sim.CoqList(univ)
}

// cover: the entries of replica i and its cached heads (cover invariant of the set-level model).
func (c *c02scen) cover(i int, when string) {
	es := c.s.Stores[i].OpLog().Values().Slice()
	c.note(es)
	cached := c.cachedHeads(i)
	c.r.AddCase(fmt.Sprintf("(CCover %s %s %s)", c.univTerm(nil), sim.CoqListN(idsOf(c.s.Canon, hashesOf(es))), sim.CoqListN(idsOf(c.s.Canon, cached))),
		map[string]interface{}{"kind": "cover", "scen": c.si, "replica": i, "when": when, "entries": len(es), "cached": len(cached)}, len(es) >= 2)
	c.r.Count("cover")
}

// failedOf: the hashes the replicator of replica i remembers as failed (retried by the next request).
func (c *c02scen) failedOf(i int) []string {
	fl, ok := c.s.Stores[i].Replicator().(replicator.VerifFailedLister)
	if !ok {
		return nil
	}
	var out []string
	for _, x := range fl.VerifFailed() {
		out = append(out, x.String())
	}
	sortStrings(out)
	return out
}

// holes: the hole invariant on replica i at rest: every link target of a held entry is held
// or is remembered as failed by the replicator.  Recorded when it differs from the last
// recording for that replica (or when forced).
func (c *c02scen) holes(i int, when string, force bool) {
	es := c.s.Stores[i].OpLog().Values().Slice()
	c.note(es)
	log := hashesOf(es)
	failed := c.failedOf(i)
	have := map[string]bool{}
	for _, h := range log {
		have[h] = true
	}
	dangling := 0
	for _, h := range log {
		for _, y := range c.links[h] {
			if !have[y] {
				dangling++
			}
		}
	}
	term := fmt.Sprintf("(CHoles %s %s %s)", c.univTerm(log), sim.CoqListN(idsOf(c.s.Canon, log)), sim.CoqListN(idsOf(c.s.Canon, failed)))
	if !force && c.lastH[i] == term {
		return
	}
	c.lastH[i] = term
	c.r.AddCase(term, map[string]interface{}{"kind": "holes", "sig": "hole-not-recorded", "scen": c.si, "scenkind": c.kind, "replica": i, "when": when,
		"entries": len(log), "failed": len(failed), "dangling": dangling}, dangling > 0 || len(failed) > 0)
	c.r.Count("holes")
	if dangling > 0 {
		c.r.Count("holes-with-dangling-links")
	}
}

func (c *c02scen) holesAll(when string) {
	for i := 0; i < c.n; i++ {
		c.holes(i, when, false)
	}
}

// okFun renders the fetch outcome of replica t at this moment as a Coq function: the hashes
// it can obtain now (own block store or a connected holder), plus `extra` (heads that Sync
// stores locally before the request starts).
func (c *c02scen) okFun(t int, extra ...string) string {
	seen := map[string]bool{}
	var ok []string
	for h := range c.links {
		if c.s.Reps[t].API.Visible(h) {
			ok = append(ok, h)
			seen[h] = true
		}
	}
	for _, h := range extra {
		if !seen[h] {
			ok = append(ok, h)
		}
	}
	sortStrings(ok)
	return fmt.Sprintf("(fun h => memN h %s)", sim.CoqListN(idsOf(c.s.Canon, ok)))
}

func (c *c02scen) step(f string, a ...interface{}) {
	if c.track {
		c.hist = append(c.hist, fmt.Sprintf(f, a...))
	}
}

// histCase: the mirrored history replayed on the model must give, per replica, the log and
// the failed hashes observed now.
func (c *c02scen) histCase(final bool, when string) {
	if !c.track {
		return
	}
	obs := make([]string, c.n)
	for i := 0; i < c.n; i++ {
		es := c.s.Stores[i].OpLog().Values().Slice()
		c.note(es)
		obs[i] = fmt.Sprintf("(%s, %s)", sim.CoqListN(idsOf(c.s.Canon, hashesOf(es))), sim.CoqListN(idsOf(c.s.Canon, c.failedOf(i))))
	}
	c.r.AddCase(fmt.Sprintf("(CHist %s %s %s %s %s)", sim.CoqNat(c.n), sim.CoqList(c.hist), sim.CoqBool(final), c.univTerm(nil), sim.CoqList(obs)),
		map[string]interface{}{"kind": "history", "sig": "model-history-mismatch", "scen": c.si, "scenkind": c.kind, "when": when, "steps": len(c.hist), "final": final}, true)
	c.r.Count("history")
}

// write performs one operation on replica i and returns the hashes it added.
func (c *c02scen) write(i, tag int) ([]string, error) {
	before := hashesOf(c.s.Stores[i].OpLog().Values().Slice())
	if err := writeOp(c.r, c.s, c.s.Stores[i], tag); err != nil {
		return nil, err
	}
	es := c.s.Stores[i].OpLog().Values().Slice()
	c.note(es)
	seen := map[string]bool{}
	for _, h := range before {
		seen[h] = true
	}
	var added []string
	for _, h := range hashesOf(es) {
		if !seen[h] {
			c.written[h] = true
			added = append(added, h)
		}
	}
	return added, nil
}

// restart closes replica i and reopens it from its directory: Open + Load(-1).
func (c *c02scen) restart(i int) error { return c.reopen(i, true) }

// reopen: as restart; with load = false the reopened store is NOT loaded yet (its log is empty,
// its cached heads are on disk): the caller loads it later.
func (c *c02scen) reopen(i int, load bool) error {
	ctx := context.Background()
	s := c.s
	if c.r.Rng.Intn(3) == 0 {
		// only the STORE is closed and opened again, on the same OrbitDB instance (which keeps
		// its direct-channel monitor, its pubsub adapter and its registry of stores)
		if err := s.Stores[i].Close(); err != nil {
			return fmt.Errorf("close store: %w", err)
		}
		st2, err := s.Reps[i].Orbit.Open(ctx, s.Addr, &orbitdb.CreateDBOptions{})
		if err != nil {
			return fmt.Errorf("reopen on the same instance: %w", err)
		}
		if load {
			if err := st2.Load(ctx, -1); err != nil {
				return fmt.Errorf("load: %w", err)
			}
		}
		s.Stores[i] = st2
		delete(c.lastH, i)
		c.r.Count("restart:store-only")
		return nil
	}
	_ = s.Reps[i].Orbit.Close()
	rep, err := s.Env.NewReplicaAt(s.Reps[i].Idx, s.Label, s.Reps[i].Dir)
	if err != nil {
		return err
	}
	st2, err := rep.Orbit.Open(ctx, s.Addr, &orbitdb.CreateDBOptions{})
	if err != nil {
		return fmt.Errorf("reopen: %w", err)
	}
	if load {
		if err := st2.Load(ctx, -1); err != nil {
			return fmt.Errorf("load: %w", err)
		}
	}
	s.Reps[i], s.Stores[i] = rep, st2
	delete(c.lastH, i)
	return nil
}

// final: heal everything, deliver everything, repeatedly, until nothing is pending; then
// record cover, holes and the final comparison.
func (c *c02scen) final() {
	ctx := context.Background()
	s, net, n := c.s, c.s.Env.Net, c.n
	// in every third random scenario one replica is closed and reopened before the links are
	// healed and loads its database only AFTER everybody has seen everybody join and all the
	// traffic has been delivered: the heads it offers to the peers that join are those of its
	// cache, whatever its log holds at that moment, and no later join repeats the exchange
	late := c.late
	if late >= 0 {
		c.r.Count("final:late-load(scripted)")
	} else if c.kind == "random" && c.si%3 == 1 {
		late = c.r.Rng.Intn(n)
		c.settle("pre-late-restart")
		if err := c.reopen(late, false); err != nil {
			c.r.AddDirect("late-load:reopen", err.Error(), map[string]interface{}{"scen": c.si, "replica": late})
			late = -1
		} else {
			c.trace("replica %d reopened, not loaded yet", late)
			c.r.Count("final:late-load")
		}
	}
	for a := 0; a < n; a++ {
		for b := a + 1; b < n; b++ {
			net.Cut(c.idx(a), c.idx(b)) // make sure the heal is observed as a (re)join by both sides
		}
	}
	for a := 0; a < n; a++ {
		for b := a + 1; b < n; b++ {
			net.Heal(c.idx(a), c.idx(b))
		}
	}
	c.trace("final phase: healed all, pending=%d -> %v", net.PendingLen(), c.lens())
	for round := 0; round < 50; round++ {
		c.settle("final")
		c.trace("final round %d pending=%d -> %v", round, net.PendingLen(), c.lens())
		if net.PendingLen() == 0 {
			break
		}
		for net.PendingLen() > 0 {
			net.DeliverPending(0, false)
		}
	}
	c.settle("final")
	if late >= 0 {
		if err := s.Stores[late].Load(ctx, -1); err != nil {
			c.r.AddDirect("late-load:load", err.Error(), map[string]interface{}{"scen": c.si, "replica": late})
		}
		for round := 0; round < 50; round++ {
			c.settle("final-late-load")
			if net.PendingLen() == 0 {
				break
			}
			for net.PendingLen() > 0 {
				net.DeliverPending(0, false)
			}
		}
		c.settle("final-late-load")
		c.trace("late load of %d -> %v", late, c.lens())
	}
	c.trace("end -> %v state %s", c.lens(), sim.LastSettleState)
	if os.Getenv("VERIF_TRACE") != "" {
		for i, st := range s.Stores {
			have := map[string]bool{}
			for _, h := range hashesOf(st.OpLog().Values().Slice()) {
				have[h] = true
			}
			for h := range c.written {
				if !have[h] {
					_, gerr := s.Reps[i].API.Dag().Get(ctx, mustCid(h))
					c.trace("replica %d misses %d (links %v) fetchable-now err=%v", i, s.Canon.Hash.ID(h), idsOf(s.Canon, c.links[h]), gerr)
				}
			}
			c.trace("replica %d heads %v cached %v failed %v", i, idsOf(s.Canon, hashesOf(st.OpLog().Heads().Slice())), idsOf(s.Canon, c.cachedHeads(i)), idsOf(s.Canon, c.failedOf(i)))
		}
	}
	var all []string
	for h := range c.written {
		all = append(all, h)
	}
	sortStrings(all)
	logs := make([]string, n)
	for i := 0; i < n; i++ {
		logs[i] = sim.CoqListN(idsOf(s.Canon, hashesOf(s.Stores[i].OpLog().Values().Slice())))
		c.cover(i, "final")
		c.holes(i, "final", true)
	}
	c.r.AddCase(fmt.Sprintf("(CFinal %s %s)", sim.CoqListN(idsOf(s.Canon, all)), sim.CoqList(logs)),
		map[string]interface{}{"kind": "final", "sig": "final-divergence", "scen": c.si, "scenkind": c.kind, "replicas": n, "written": len(all), "type": c.typ}, len(all) >= 2)
	c.histCase(true, "final")
	c.r.Count(fmt.Sprintf("replicas=%d", n))
	c.r.Count("scen:" + c.kind)
}

// C02: eventual delivery.  2..4 replicas write while links are cut and healed,
// announcements are dropped, duplicated and delivered out of order, and replicas restart;
// then all links are healed (each side observes the other joining: head exchange), all
// traffic is delivered, and every replica must hold every acknowledged write.
func runC02(r *Run) error {
	defer closeEnv()
	scens := 14
	if r.Tier == "thorough" {
		scens = 80
	}
	for si := 0; si < scens; si++ {
		n := 2 + r.Rng.Intn(3)
		typ := []string{"eventlog", "keyvalue"}[si%2]
		c, err := newC02Scen(r, si, n, typ, "random")
		if err != nil {
			return err
		}
		if err := c.runRandom(); err != nil {
			return err
		}
		c.s.Close()
	}
	// a reopened, not yet loaded replica that has merged a peer's entries when that peer joins again
	for k := 0; k < 2; k++ {
		c, err := newC02Scen(r, scens+100+k, 2, []string{"eventlog", "keyvalue"}[k%2], "late-rejoin")
		if err != nil {
			return err
		}
		if err := c.runLateRejoin(); err != nil {
			return err
		}
		c.s.Close()
	}
	// deterministic histories: a replication request that fetches an entry but not one of its
	// ancestors (the link goes down in between), then restarts of the replica while the
	// ancestor is still unreachable, then the final phase
	rounds := 1
	if r.Tier == "thorough" {
		rounds = 4
	}
	si := scens
	for round := 0; round < rounds; round++ {
		for _, variant := range []string{"holes-writer-head", "holes-third-replica", "holes-two-restart-twice"} {
			n := 3
			if variant == "holes-writer-head" {
				n = 2 + r.Rng.Intn(2)
			}
			typ := []string{"eventlog", "keyvalue"}[r.Rng.Intn(2)]
			c, err := newC02Scen(r, si, n, typ, variant)
			if err != nil {
				return err
			}
			if err := c.runHoles(variant); err != nil {
				return err
			}
			c.s.Close()
			si++
		}
	}
	return nil
}

// runLateRejoin: two replicas write while the link between them is down; replica 0 is closed
// and reopened (not loaded: its log is empty, its heads are in its cache); the link comes up,
// the head exchange that replica 0 sends is lost, the one it receives arrives and is merged -
// replica 0 now holds the other's entries and none of its own.  The final phase cuts and heals
// the link once more (a second join, the exchange is repeated), delivers everything and loads
// replica 0 at the very end: what a store offers to a peer that joins are its persisted heads,
// whatever part of them its log holds at that moment.
func (c *c02scen) runLateRejoin() error {
	net := c.s.Env.Net
	const L, B = 0, 1
	net.Cut(c.idx(L), c.idx(B))
	for k := 0; k < 2+c.r.Rng.Intn(2); k++ {
		if _, err := c.write(L, k); err != nil {
			return err
		}
		if _, err := c.write(B, 10+k); err != nil {
			return err
		}
	}
	c.settle("writes")
	for net.PendingLen() > 0 {
		net.DropPending(0)
	}
	if err := c.reopen(L, false); err != nil {
		return err
	}
	net.Heal(c.idx(L), c.idx(B))
	c.settle("first-join")
	dropped := 0
	for i := net.PendingLen() - 1; i >= 0; i-- {
		if p := net.PendingSnapshot(); i < len(p) && p[i].From == c.idx(L) {
			net.DropPending(i)
			dropped++
		}
	}
	c.drain("first-exchange")
	c.trace("late rejoin: dropped %d message(s) of the reopened replica; logs %v", dropped, c.lens())
	c.r.Count("scripted:late-rejoin")
	c.late = L
	c.final()
	return nil
}

func (c *c02scen) runRandom() error {
	r, s, n, net := c.r, c.s, c.n, c.s.Env.Net
	steps := 8 + r.Rng.Intn(25)
	if r.Tier == "thorough" {
		steps = 8 + r.Rng.Intn(60)
	}
	for st := 0; st < steps; st++ {
		switch x := r.Rng.Intn(100); {
		case x < 35:
			i := r.Rng.Intn(n)
			// the announcement of a write is published asynchronously: wait for it, so that the
			// number of pending messages (which the following random choices depend on) is a
			// function of the seed and not of goroutine timing
			pubBefore, fan := net.PublishedCount(c.idx(i)), net.Fanout(s.Addr, c.idx(i))
			if _, err := c.write(i, st); err != nil {
				return err
			}
			for dl := time.Now().Add(5 * time.Second); net.PublishedCount(c.idx(i)) < pubBefore+fan && time.Now().Before(dl); {
				time.Sleep(time.Millisecond)
			}
			c.settle("write")
			c.trace("write on %d -> %v", i, c.lens())
			r.Count("write")
		case x < 52:
			if k := net.PendingLen(); k > 0 {
				net.DeliverPending(r.Rng.Intn(k), false) // any order: reordering
				c.settle("deliver")
				c.trace("deliver (of %d pending) -> %v", k, c.lens())
				r.Count("deliver")
			}
		case x < 60:
			// the announcement gets through but the partition hits before the blocks can be fetched
			if k := net.PendingLen(); k > 0 {
				a, b := r.Rng.Intn(n), r.Rng.Intn(n)
				for a2 := 0; a2 < n; a2++ {
					for b2 := a2 + 1; b2 < n; b2++ {
						if (a2 == a || b2 == b) && a != b {
							net.CutBlocks(c.idx(a2), c.idx(b2))
						}
					}
				}
				net.DeliverPending(r.Rng.Intn(k), false)
				c.settle("deliver-unfetchable")
				c.trace("deliver-unfetchable a=%d b=%d -> %v", a, b, c.lens())
				r.Count("deliver-unfetchable")
			}
		case x < 66:
			if k := net.PendingLen(); k > 0 {
				net.DeliverPending(r.Rng.Intn(k), true) // duplicate
				c.settle("dup")
				c.trace("dup -> %v", c.lens())
				r.Count("duplicate")
			}
		case x < 74:
			if k := net.PendingLen(); k > 0 {
				net.DropPending(r.Rng.Intn(k))
				c.trace("drop")
				r.Count("drop")
			}
		case x < 84:
			a, b := r.Rng.Intn(n), r.Rng.Intn(n)
			if a != b {
				net.Cut(c.idx(a), c.idx(b))
				c.trace("cut %d %d", a, b)
				r.Count("cut")
				if r.Rng.Intn(3) == 0 {
					// the two still see each other join the topic, but the direct channel between
					// them is down: the head exchange they attempt fails
					net.JoinWhileCut(c.idx(a), c.idx(b))
					c.settle("join-while-cut")
					r.Count("join-while-cut")
				}
			}
		case x < 92:
			a, b := r.Rng.Intn(n), r.Rng.Intn(n)
			if a != b {
				net.Heal(c.idx(a), c.idx(b))
				c.settle("heal")
				c.trace("heal %d %d pending=%d -> %v", a, b, net.PendingLen(), c.lens())
				r.Count("heal")
			}
		default:
			i := r.Rng.Intn(n)
			c.settle("pre-restart")
			c.cover(i, "before-restart")
			if err := c.restart(i); err != nil {
				return err
			}
			c.settle("restart")
			c.trace("restart %d -> %v failed %v", i, c.lens(), idsOf(s.Canon, c.failedOf(i)))
			r.Count("restart")
		}
		// the hole invariant on every replica at rest (recorded when it changed)
		c.holesAll(fmt.Sprintf("step %d", st))
	}
	c.final()
	return nil
}

// ---- deterministic hole + restart histories ----

// drain delivers everything pending until nothing is in flight.
func (c *c02scen) drain(what string) {
	net := c.s.Env.Net
	for round := 0; round < 50; round++ {
		c.settle(what)
		if net.PendingLen() == 0 {
			return
		}
		for net.PendingLen() > 0 {
			net.DeliverPending(0, false)
		}
	}
}

// awaitAnnounce waits until `want` topic payloads published by replica `from` are pending.
func (c *c02scen) awaitAnnounce(from, want int) bool {
	net := c.s.Env.Net
	deadline := time.Now().Add(10 * time.Second)
	for {
		k := 0
		for _, m := range net.PendingSnapshot() {
			if m.Kind == "topic" && m.From == c.idx(from) {
				k++
			}
		}
		if k >= want {
			return true
		}
		if time.Now().After(deadline) {
			return false
		}
		time.Sleep(2 * time.Millisecond)
	}
}

// awaitDirect waits until a direct-channel payload from `from` to `to` is pending.
func (c *c02scen) awaitDirect(from, to int) bool {
	net := c.s.Env.Net
	deadline := time.Now().Add(10 * time.Second)
	for {
		for _, m := range net.PendingSnapshot() {
			if m.Kind == "direct" && m.From == c.idx(from) && m.To == c.idx(to) {
				return true
			}
		}
		if time.Now().After(deadline) {
			return false
		}
		time.Sleep(2 * time.Millisecond)
	}
}

// route delivers the pending payloads sent by `from` to the replicas in `to` and drops its others.
func (c *c02scen) route(from int, to ...int) {
	net := c.s.Env.Net
	for {
		found := false
		for k, m := range net.PendingSnapshot() {
			if m.From != c.idx(from) {
				continue
			}
			deliver := false
			for _, t := range to {
				if m.To == c.idx(t) {
					deliver = true
				}
			}
			if deliver {
				net.DeliverPending(k, false)
			} else {
				net.DropPending(k)
			}
			found = true
			break
		}
		if !found {
			return
		}
	}
}

// writeAnnounced: replica i writes once; its announcement (one payload per connected peer)
// is delivered to the replicas in `to` and lost for the others.  Returns the new hash.
func (c *c02scen) writeAnnounced(i, tag int, to ...int) (string, error) {
	peers := 0
	for j := 0; j < c.n; j++ {
		if j != i && c.s.Env.Net.Connected(c.idx(i), c.idx(j)) {
			peers++
		}
	}
	added, err := c.write(i, tag)
	if err != nil {
		return "", err
	}
	if len(added) != 1 {
		return "", fmt.Errorf("C02 holes: write added %d entries", len(added))
	}
	c.r.Count("write")
	if peers > 0 && !c.awaitAnnounce(i, peers) {
		return "", fmt.Errorf("C02 holes: announcement of replica %d not published", i)
	}
	c.step("HWrite %s %s %s", sim.CoqNat(i), sim.CoqN(c.s.Canon.Hash.ID(added[0])), sim.CoqListN(idsOf(c.s.Canon, c.links[added[0]])))
	for _, t := range to {
		// Sync stores the announced head locally, then the replicator fetches from it
		c.step("HFetch %s %s %s", sim.CoqNat(t), sim.CoqListN(idsOf(c.s.Canon, added)), c.okFun(t, added[0]))
	}
	c.route(i, to...)
	c.settle("announce")
	c.trace("write on %d: entry %d links %v, announced to %v -> %v", i, c.s.Canon.Hash.ID(added[0]), idsOf(c.s.Canon, c.links[added[0]]), to, c.lens())
	c.holesAll("after write")
	return added[0], nil
}

func (c *c02scen) restartStep(i int, when string) error {
	c.settle("pre-restart")
	c.cover(i, "before-restart")
	// the load, then the replication request the load spawns for what it could not load
	// (no request without the repair: nothing to retry in the model either)
	ok := c.okFun(i)
	c.step("HRestart %s %s", sim.CoqNat(i), ok)
	c.step("HFetch %s [] %s", sim.CoqNat(i), ok)
	if err := c.restart(i); err != nil {
		return err
	}
	c.settle("restart")
	c.histCase(false, when)
	c.trace("restart %d (%s) -> %v log %v failed %v", i, when, c.lens(), idsOf(c.s.Canon, hashesOf(c.s.Stores[i].OpLog().Values().Slice())), idsOf(c.s.Canon, c.failedOf(i)))
	c.r.Count("restart")
	c.holes(i, when, true)
	return nil
}

func (c *c02scen) runHoles(variant string) error {
	r, s, n, net := c.r, c.s, c.n, c.s.Env.Net
	perm := r.Rng.Perm(n)
	A, B := perm[0], perm[1]
	C := -1
	if n > 2 {
		C = perm[2]
	}
	others := func(i int) []int { // every replica but i and A
		var o []int
		for j := 0; j < n; j++ {
			if j != i && j != A {
				o = append(o, j)
			}
		}
		return o
	}
	cutA := func() {
		for j := 0; j < n; j++ {
			if j != A {
				net.Cut(c.idx(A), c.idx(j))
			}
		}
	}
	c.track = true
	c.trace("%s: n=%d type=%s A=%d B=%d C=%d", variant, n, c.typ, A, B, C)
	c.drain("start") // the initial (empty) head exchanges
	tag := 0
	next := func() int { tag++; return tag }
	ids := func(hs ...string) []int { return idsOf(s.Canon, hs) }
	switch variant {
	case "holes-writer-head":
		// B writes a chain; only the announcement of its last entry reaches A, and the link
		// goes down after A fetched the entries above the first one.  A restarts while B is away.
		e1, err := c.writeAnnounced(B, next(), others(B)...)
		if err != nil {
			return err
		}
		more := 1 + r.Rng.Intn(2)
		for k := 0; k < more-1; k++ {
			if _, err := c.writeAnnounced(B, next(), others(B)...); err != nil {
				return err
			}
		}
		net.CutBlockHash(c.idx(A), e1)
		if _, err := c.writeAnnounced(B, next(), append(others(B), A)...); err != nil {
			return err
		}
		cutA()
		c.trace("A=%d fetched the head of B but not %v; links of A cut -> %v failed %v", A, ids(e1), c.lens(), ids(c.failedOf(A)...))
		if err := c.restartStep(A, "after restart with a hole"); err != nil {
			return err
		}
	case "holes-third-replica":
		// B writes e1, e2; C replicates both and writes e3 on top; A hears about e3 only and
		// the links go down before it fetched e1.
		e1, err := c.writeAnnounced(B, next(), C)
		if err != nil {
			return err
		}
		if _, err := c.writeAnnounced(B, next(), C); err != nil {
			return err
		}
		net.CutBlockHash(c.idx(A), e1)
		if _, err := c.writeAnnounced(C, next(), A); err != nil {
			return err
		}
		cutA()
		c.trace("A=%d fetched the head of C but not %v; links of A cut -> %v failed %v", A, ids(e1), c.lens(), ids(c.failedOf(A)...))
		if err := c.restartStep(A, "after restart with a hole"); err != nil {
			return err
		}
	case "holes-two-restart-twice":
		// concurrent roots e1 (B) and c1 (C); B replicates c1 and writes e2 above both; A
		// fetches e2 only.  A restarts, reconnects to C only (c2 and c1 arrive, e1 is held by
		// B only), restarts again.
		e1, err := c.writeAnnounced(B, next())
		if err != nil {
			return err
		}
		c1, err := c.writeAnnounced(C, next(), B)
		if err != nil {
			return err
		}
		net.CutBlockHash(c.idx(A), e1)
		net.CutBlockHash(c.idx(A), c1)
		if _, err := c.writeAnnounced(B, next(), A); err != nil {
			return err
		}
		cutA()
		c.trace("A=%d fetched the head of B but neither %v; links of A cut -> %v failed %v", A, ids(e1, c1), c.lens(), ids(c.failedOf(A)...))
		// C writes again and B merges it: B's cached remote heads are now the heads of its
		// log (no stale cached head names e1 or c1 any more)
		if _, err := c.writeAnnounced(C, next(), B); err != nil {
			return err
		}
		if err := c.restartStep(A, "after restart with two holes"); err != nil {
			return err
		}
		net.Heal(c.idx(A), c.idx(C))
		if !c.awaitDirect(C, A) || !c.awaitDirect(A, C) {
			return fmt.Errorf("C02 holes: no head exchange after heal")
		}
		c.settle("heal")
		// C's heads reach A; A's heads are lost on the way to C (so that C does not fetch e1
		// and e2 concurrently with A's retry: keeps the history deterministic)
		heads := c.cachedHeads(C)
		c.step("HFetch %s %s %s", sim.CoqNat(A), sim.CoqListN(idsOf(s.Canon, heads)), c.okFun(A, heads...))
		c.route(C, A)
		c.route(A)
		c.settle("exchange")
		c.histCase(false, "after partial heal")
		c.trace("A=%d and C=%d reconnected, C's heads delivered to A -> %v failed %v", A, C, c.lens(), ids(c.failedOf(A)...))
		c.holesAll("after partial heal")
		if err := c.restartStep(A, "after second restart"); err != nil {
			return err
		}
	default:
		return fmt.Errorf("unknown variant %s", variant)
	}
	c.final()
	return nil
}

func sortStrings(a []string) {
	for i := 1; i < len(a); i++ {
		for j := i; j > 0 && a[j-1] > a[j]; j-- {
			a[j-1], a[j] = a[j], a[j-1]
		}
	}
}

func mustCid(h string) cid.Cid {
	c, err := cid.Decode(h)
	if err != nil {
		panic(err)
	}
	return c
}

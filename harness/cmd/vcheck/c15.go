package main

import (
	"bufio"
	"bytes"
	"context"
	"encoding/json"
	"fmt"
	"os"
	"os/exec"
	"sort"
	"strings"
	"time"

	ipfslog "berty.tech/go-ipfs-log"
	"berty.tech/go-ipfs-log/entry"
	orbitdb "berty.tech/go-orbit-db"
	"berty.tech/go-orbit-db/iface"
	"berty.tech/go-orbit-db/stores/eventlogstore"
	datastore "github.com/ipfs/go-datastore"
	"verifharness/sim"
)

func init() { drivers["C15"] = driver{"C15", runC15} }

// C15: loading with a limit.  A persisted log (single head, local + remote heads,
// multi-writer DAG) is closed, reopened on the same instance and loaded with every limit
// from below zero to beyond its length (per call, or through the MaxHistory store option);
// the observation is the outcome of Load and List(amount=-1) afterwards.
//
// A panic inside Join happens on a goroutine spawned by Load and kills the process, so
// every load runs in a child process (this binary re-executed with c15Env naming a batch
// file).  The child prints BEGIN before each load; the parent attributes a death to the
// load that had begun, and restarts a child for what is left.

const c15Env = "VCHECK_C15_BATCH"

type c15Shape struct {
	Kind  string   `json:"kind"`            // single | twoheads | interleave
	K     int      `json:"k,omitempty"`     // single: entries
	A     int      `json:"a,omitempty"`     // twoheads: entries of replica 0
	B     int      `json:"b,omitempty"`     // twoheads: entries of replica 1
	Pre   int      `json:"pre,omitempty"`   // twoheads: replica 1 starts from the first Pre entries of replica 0
	Steps []string `json:"steps,omitempty"` // interleave: wI (replica I writes) | sIJ (replica I syncs from J)
	Reps  int      `json:"reps,omitempty"`  // interleave: number of replicas (2 or 3); replica 0 is the one reloaded
}

type c15Load struct {
	Limit  int    `json:"limit"`  // effective limit
	Via    string `json:"via"`    // call | maxhistory | inplace (Load(-1) first, then the limited Load on the same handle)
	Amount int    `json:"amount"` // argument of Load (== Limit for via=call, <= 0 for via=maxhistory)
	Probe  bool   `json:"probe"`  // also ask the fetcher directly (NewFromEntryHash) per head
}

type c15Scen struct {
	ID    int       `json:"id"`
	Shape c15Shape  `json:"shape"`
	Loads []c15Load `json:"loads"`
	Base  int       `json:"base"` // index of Loads[0] in the original plan
}

type c15ScenRec struct {
	ID          int      `json:"id"`
	Univ        []string `json:"univ"`
	Persisted   []int    `json:"persisted"`
	LocalHeads  []int    `json:"local_heads"`
	RemoteHeads []int    `json:"remote_heads"`
	Writers     int      `json:"writers"`
	Note        string   `json:"note,omitempty"`
}

type c15Probe struct {
	Head    int   `json:"head"`
	Fetched []int `json:"fetched"` // entries of the log NewFromEntryHash built, in Values order
}

type c15Result struct {
	ID      int        `json:"id"`
	Idx     int        `json:"idx"`
	Outcome string     `json:"outcome"` // ok | error | hang
	Err     string     `json:"err,omitempty"`
	Listing []int      `json:"listing"`
	Gets    int        `json:"gets"` // distinct blocks requested during Load
	Probes  []c15Probe `json:"probes,omitempty"`
}

// ---------------------------------------------------------------- child

func c15Child(path string) {
	b, err := os.ReadFile(path)
	if err != nil {
		fmt.Fprintln(os.Stderr, "c15 child: ", err)
		os.Exit(4)
	}
	var scens []c15Scen
	if err := json.Unmarshal(b, &scens); err != nil {
		fmt.Fprintln(os.Stderr, "c15 child: ", err)
		os.Exit(4)
	}
	for _, sc := range scens {
		if err := c15RunScen(sc); err != nil {
			fmt.Printf("FAIL %d %s\n", sc.ID, strings.ReplaceAll(err.Error(), "\n", " "))
			os.Exit(5)
		}
	}
	fmt.Println("END")
	closeEnv()
	os.Exit(0)
}

func c15Write(s *Scen, i, n int, tag string) error {
	for k := 0; k < n; k++ {
		if _, err := s.Stores[i].(iface.EventLogStore).Add(context.Background(), []byte(fmt.Sprintf("%s%d", tag, k))); err != nil {
			return err
		}
	}
	return nil
}

func c15Sync(s *Scen, to, from int) error {
	if s.Stores[from].OpLog().Len() == 0 {
		return nil
	}
	if err := s.SyncFrom(to, from); err != nil {
		return err
	}
	if !s.Settle() {
		return fmt.Errorf("sync did not settle: %s", sim.LastSettleState)
	}
	return nil
}

func c15Build(sh c15Shape) (*Scen, error) {
	switch sh.Kind {
	case "single":
		s, err := NewScen(1, "eventlog", nil)
		if err != nil {
			return nil, err
		}
		return s, c15Write(s, 0, sh.K, "v")
	case "twoheads":
		s, err := NewScen(2, "eventlog", nil)
		if err != nil {
			return nil, err
		}
		if err := c15Write(s, 0, sh.Pre, "a"); err != nil {
			return nil, err
		}
		if sh.Pre > 0 {
			if err := c15Sync(s, 1, 0); err != nil {
				return nil, err
			}
		}
		if err := c15Write(s, 1, sh.B, "b"); err != nil {
			return nil, err
		}
		if err := c15Write(s, 0, sh.A-sh.Pre, "c"); err != nil {
			return nil, err
		}
		return s, c15Sync(s, 0, 1)
	case "interleave":
		reps := sh.Reps
		if reps < 2 {
			reps = 2
		}
		s, err := NewScen(reps, "eventlog", nil)
		if err != nil {
			return nil, err
		}
		for i, st := range sh.Steps {
			switch {
			case len(st) == 2 && st[0] == 'w':
				err = c15Write(s, int(st[1]-'0'), 1, fmt.Sprintf("x%d-", i))
			case len(st) == 3 && st[0] == 's':
				err = c15Sync(s, int(st[1]-'0'), int(st[2]-'0'))
			default:
				err = fmt.Errorf("bad step %q", st)
			}
			if err != nil {
				return nil, err
			}
		}
		return s, nil
	}
	return nil, fmt.Errorf("unknown shape %q", sh.Kind)
}

func c15CachedHeads(s *Scen, st iface.Store, key string) ([]int, error) {
	raw, err := st.Cache().Get(context.Background(), datastore.NewKey(key))
	if err == datastore.ErrNotFound || raw == nil {
		return []int{}, nil
	}
	if err != nil {
		return nil, err
	}
	var hs []*entry.Entry
	if err := json.Unmarshal(raw, &hs); err != nil {
		return nil, err
	}
	out := make([]int, len(hs))
	for i, h := range hs {
		out[i] = s.Canon.Hash.ID(h.GetHash().String())
	}
	return out, nil
}

func c15RunScen(sc c15Scen) error {
	s, err := c15Build(sc.Shape)
	if err != nil {
		return fmt.Errorf("build: %w", err)
	}
	defer s.Close()
	ctx := context.Background()
	u := s.NewUniverse()
	full := s.Stores[0].OpLog().Values().Slice()
	rec := c15ScenRec{ID: sc.ID, Persisted: u.Note(full)}
	writers := map[string]bool{}
	for _, e := range full {
		writers[string(e.GetClock().GetID())] = true
	}
	rec.Writers = len(writers)
	known := s.Canon.Hash.Len()
	if rec.LocalHeads, err = c15CachedHeads(s, s.Stores[0], "_localHeads"); err != nil {
		return err
	}
	if rec.RemoteHeads, err = c15CachedHeads(s, s.Stores[0], "_remoteHeads"); err != nil {
		return err
	}
	if s.Canon.Hash.Len() != known {
		rec.Note = "a cached head is not an entry of the persisted log"
	}
	rec.Univ = u.terms
	if rec.Persisted == nil {
		rec.Persisted = []int{}
	}
	if rec.Univ == nil {
		rec.Univ = []string{}
	}
	jb, _ := json.Marshal(rec)
	fmt.Printf("SCEN %s\n", jb)
	headHashes := map[int]ipfslog.Entry{}
	for _, e := range full {
		headHashes[s.Canon.Hash.ID(e.GetHash().String())] = e
	}
	minus1 := -1
	for i, ld := range sc.Loads {
		fmt.Printf("BEGIN %d %d\n", sc.ID, sc.Base+i)
		res := c15Result{ID: sc.ID, Idx: sc.Base + i, Outcome: "ok", Listing: []int{}}
		_ = s.Stores[0].Close()
		st2, err := s.Reps[0].Orbit.Open(ctx, s.Addr, &orbitdb.CreateDBOptions{})
		if err != nil {
			return fmt.Errorf("reopen: %w", err)
		}
		s.Stores[0] = st2
		target := st2
		if ld.Via == "maxhistory" {
			m := ld.Limit
			no := false
			st3, err := eventlogstore.NewOrbitDBEventLogStore(st2.IPFS(), st2.Identity(), st2.Address(), &iface.NewStoreOptions{
				AccessController: st2.AccessController(),
				Cache:            st2.Cache(),
				MaxHistory:       &m,
				Replicate:        &no,
				PubSub:           s.Env.Net.PubSub(s.Reps[0].Idx),
				PeerID:           s.Reps[0].PID,
				Directory:        s.Reps[0].Dir,
				IO:               st2.IO(),
			})
			if err != nil {
				return fmt.Errorf("store with MaxHistory: %w", err)
			}
			target = st3
		}
		if ld.Probe && ld.Limit > 0 {
			seen := map[int]bool{}
			for _, h := range append(append([]int{}, rec.LocalHeads...), rec.RemoteHeads...) {
				if seen[h] || headHashes[h] == nil {
					continue
				}
				seen[h] = true
				n := ld.Limit
				l, err := ipfslog.NewFromEntryHash(ctx, st2.IPFS(), st2.Identity(), headHashes[h].GetHash(), &ipfslog.LogOptions{
					ID: st2.OpLog().GetID(), AccessController: st2.AccessController(), IO: st2.IO(),
				}, &ipfslog.FetchOptions{Length: &n})
				if err != nil {
					continue
				}
				res.Probes = append(res.Probes, c15Probe{Head: h, Fetched: s.Canon.HashIDs(l.Values().Slice())})
			}
		}
		if ld.Via == "inplace" {
			if err := st2.Load(ctx, -1); err != nil {
				return fmt.Errorf("unlimited load before the load in place: %w", err)
			}
			if !sim.Settle(ctx, s.Env, 20*time.Second, 1, st2) {
				return fmt.Errorf("unlimited load before the load in place did not settle")
			}
		}
		api := s.Reps[0].API
		g0 := len(api.GetLog)
		errc := make(chan error, 1)
		go func() { errc <- target.Load(ctx, ld.Amount) }()
		select {
		case err := <-errc:
			if err != nil {
				res.Outcome, res.Err = "error", err.Error()
			}
		case <-time.After(30 * time.Second):
			res.Outcome = "hang"
		}
		if res.Outcome != "hang" {
			if !sim.Settle(ctx, s.Env, 20*time.Second, 1, target) {
				res.Outcome = "hang"
			}
		}
		if res.Outcome != "hang" {
			ops, err := target.(iface.EventLogStore).List(ctx, &iface.StreamOptions{Amount: &minus1})
			if err != nil {
				res.Outcome, res.Err = "error", "list: "+err.Error()
			}
			for _, op := range ops {
				res.Listing = append(res.Listing, s.Canon.Hash.ID(op.GetEntry().GetHash().String()))
			}
			distinct := map[string]bool{}
			for _, c := range api.GetLog[g0:] {
				distinct[c] = true
			}
			res.Gets = len(distinct)
		}
		if target != st2 {
			_ = target.Close()
		}
		jb, _ := json.Marshal(res)
		fmt.Printf("RESULT %s\n", jb)
		if res.Outcome == "hang" {
			fmt.Println("ABORT")
			os.Exit(6)
		}
	}
	return nil
}

// ---------------------------------------------------------------- parent

// c15Limits chooses the limits tried on a log of `total` entries: everything in
// -2..total+3 for small logs (or when all), a sample with the boundary values otherwise.
func c15Limits(r *Run, total int, all bool, extra int) []int {
	var out []int
	if all || total <= 8 {
		for n := -2; n <= total+3; n++ {
			if !all && n == total+2 {
				continue // (every limit beyond the length costs a child process on an unrepaired tree)
			}
			out = append(out, n)
		}
		return out
	}
	set := map[int]bool{-2: true, -1: true, 0: true, 1: true, 2: true, total - 1: true, total: true, total + 1: true, total + 3: true}
	for i := 0; i < extra; i++ {
		set[1+r.Rng.Intn(total+2)] = true
	}
	for n := range set {
		out = append(out, n)
	}
	sort.Ints(out)
	return out
}

func c15Total(sh c15Shape) int {
	switch sh.Kind {
	case "single":
		return sh.K
	case "twoheads":
		return sh.A + sh.B
	}
	n := 0
	for _, s := range sh.Steps {
		if s[0] == 'w' {
			n++
		}
	}
	return n
}

func c15Plan(r *Run) []c15Scen {
	thorough := r.Tier == "thorough"
	var shapes []c15Shape
	add := func(s c15Shape) { shapes = append(shapes, s) }
	// single head, one writer
	for _, k := range []int{0, 1, 2, 5} {
		add(c15Shape{Kind: "single", K: k})
	}
	nSingle, nTwo, nInter := 2, 5, 5
	if thorough {
		nSingle, nTwo, nInter = 14, 16, 16
		for k := 3; k <= 12; k++ {
			add(c15Shape{Kind: "single", K: k})
		}
		add(c15Shape{Kind: "single", K: 40})
	}
	for i := 0; i < nSingle; i++ {
		add(c15Shape{Kind: "single", K: 6 + r.Rng.Intn(35)})
	}
	// local head + remote heads
	for i := 0; i < nTwo; i++ {
		a := r.Rng.Intn(9)
		b := 1 + r.Rng.Intn(9)
		if thorough && r.Rng.Intn(3) == 0 {
			a, b = r.Rng.Intn(20), 1+r.Rng.Intn(20)
		}
		pre := 0
		if a > 0 && r.Rng.Intn(2) == 0 {
			pre = 1 + r.Rng.Intn(a)
		}
		add(c15Shape{Kind: "twoheads", A: a, B: b, Pre: pre})
	}
	// multi-writer interleavings
	for i := 0; i < nInter; i++ {
		n := 6 + r.Rng.Intn(10)
		if thorough {
			n = 6 + r.Rng.Intn(24)
		}
		reps := 2
		if i%3 == 2 {
			reps = 3
		}
		var steps []string
		for k := 0; k < n; k++ {
			w := r.Rng.Intn(reps)
			if r.Rng.Intn(10) < 4 {
				w = 0
			}
			if r.Rng.Intn(10) < 7 {
				steps = append(steps, fmt.Sprintf("w%d", w))
			} else {
				from := (w + 1 + r.Rng.Intn(reps-1)) % reps
				steps = append(steps, fmt.Sprintf("s%d%d", w, from))
			}
		}
		// make sure replica 0 has seen something of the others and may or may not write afterwards
		for j := 1; j < reps; j++ {
			steps = append(steps, fmt.Sprintf("w%d", j), fmt.Sprintf("s0%d", j))
		}
		if r.Rng.Intn(2) == 0 {
			steps = append(steps, "w0")
		}
		if r.Rng.Intn(3) == 0 {
			steps = append(steps, "w1", "s01")
		}
		add(c15Shape{Kind: "interleave", Steps: steps, Reps: reps})
	}
	var plan []c15Scen
	for i, sh := range shapes {
		total := c15Total(sh)
		sc := c15Scen{ID: i, Shape: sh}
		extra := 3
		if thorough {
			extra = 8
		}
		for _, n := range c15Limits(r, total, thorough && total <= 16, extra) {
			sc.Loads = append(sc.Loads, c15Load{Limit: n, Via: "call", Amount: n, Probe: n > 0 && (n <= total+1)})
		}
		// the same limits given through the MaxHistory store option (Load called with 0 or -1)
		mh := []int{0, 1, total, total + 2}
		if total >= 4 {
			mh = append(mh, 1+r.Rng.Intn(total))
		}
		if sh.Kind == "single" && sh.K > 5 && !thorough {
			mh = []int{0, total + 1}
		}
		for _, n := range mh {
			sc.Loads = append(sc.Loads, c15Load{Limit: n, Via: "maxhistory", Amount: -r.Rng.Intn(2)})
		}
		// a limited load on a handle that ALREADY holds the whole log (it was loaded without a
		// limit first): the handle shows the most recent entries just the same
		if total >= 2 {
			ip := []int{1, total - 1, total, total + 1}
			if total >= 4 {
				ip = append(ip, 2+r.Rng.Intn(total-2))
			}
			for _, n := range ip {
				sc.Loads = append(sc.Loads, c15Load{Limit: n, Via: "inplace", Amount: n})
			}
		}
		plan = append(plan, sc)
	}
	return plan
}

type c15Attempt struct {
	rec     c15ScenRec
	results []c15Result
	died    *int // load index that had begun when the child died
	stderr  string
}

// c15Exec runs one child on the batch and returns what it reported, per scenario id.
func c15Exec(r *Run, batch []c15Scen, gen int) (map[int]*c15Attempt, bool, error) {
	path := fmt.Sprintf("%s/c15-batch-%d.json", r.Out, gen)
	b, _ := json.Marshal(batch)
	if err := os.WriteFile(path, b, 0o644); err != nil {
		return nil, false, err
	}
	defer os.Remove(path)
	cmd := exec.Command(os.Args[0], "-prop", "C15", "-out", r.Out, "-tier", r.Tier)
	cmd.Env = append(os.Environ(), c15Env+"="+path)
	var stderr bytes.Buffer
	cmd.Stderr = &stderr
	out, err := cmd.StdoutPipe()
	if err != nil {
		return nil, false, err
	}
	if err := cmd.Start(); err != nil {
		return nil, false, err
	}
	att := map[int]*c15Attempt{}
	ended := false
	var begunScen, begunIdx = -1, -1
	sc := bufio.NewScanner(out)
	sc.Buffer(make([]byte, 1<<20), 1<<26)
	var fail string
	for sc.Scan() {
		line := sc.Text()
		switch {
		case strings.HasPrefix(line, "SCEN "):
			var rec c15ScenRec
			if err := json.Unmarshal([]byte(line[5:]), &rec); err != nil {
				return nil, false, fmt.Errorf("child SCEN: %w", err)
			}
			att[rec.ID] = &c15Attempt{rec: rec}
		case strings.HasPrefix(line, "BEGIN "):
			fmt.Sscanf(line[6:], "%d %d", &begunScen, &begunIdx)
		case strings.HasPrefix(line, "RESULT "):
			var res c15Result
			if err := json.Unmarshal([]byte(line[7:]), &res); err != nil {
				return nil, false, fmt.Errorf("child RESULT: %w", err)
			}
			att[res.ID].results = append(att[res.ID].results, res)
			begunScen, begunIdx = -1, -1
		case strings.HasPrefix(line, "FAIL "):
			fail = line
		case line == "END":
			ended = true
		}
	}
	_ = cmd.Wait()
	if fail != "" {
		return nil, false, fmt.Errorf("child: %s", fail)
	}
	if !ended && begunScen >= 0 {
		idx := begunIdx
		if a := att[begunScen]; a != nil {
			a.died = &idx
			a.stderr = c15PanicLine(stderr.String())
		}
	} else if !ended {
		return nil, false, fmt.Errorf("child died outside a load: %s", c15tail(stderr.String(), 600))
	}
	return att, ended, nil
}

func c15tail(s string, n int) string {
	if len(s) > n {
		return s[len(s)-n:]
	}
	return s
}

func c15PanicLine(s string) string {
	for _, l := range strings.Split(s, "\n") {
		if strings.HasPrefix(l, "panic:") {
			return l
		}
	}
	return c15tail(s, 200)
}

func runC15(r *Run) error {
	if p := os.Getenv(c15Env); p != "" {
		c15Child(p)
	}
	plan := c15Plan(r)
	pending := plan
	gen := 0
	outcomeN := map[string]int{"ok": 0, "error": 1, "panic": 2, "hang": 3}
	for len(pending) > 0 {
		gen++
		if gen > 4000 {
			return fmt.Errorf("too many child restarts")
		}
		att, ended, err := c15Exec(r, pending, gen)
		if err != nil {
			return err
		}
		var next []c15Scen
		for _, sc := range pending {
			a := att[sc.ID]
			if a == nil { // not reached by this child
				next = append(next, sc)
				continue
			}
			uname := fmt.Sprintf("u_c15_%d_%d", sc.ID, gen)
			r.Pre = append(r.Pre, fmt.Sprintf("Definition %s : list entry := %s.", uname, sim.CoqList(a.rec.Univ)))
			heads := append(append([]int{}, a.rec.LocalHeads...), a.rec.RemoteHeads...)
			emit := func(ld c15Load, idx int, outcome string, listing []int, extra map[string]interface{}) {
				total := len(a.rec.Persisted)
				sig := "c15-other"
				switch {
				case outcome == "panic":
					sig = "load-limit-exceeds-length"
				case outcome == "ok" && ld.Limit == 0 && len(listing) == 0 && total > 0:
					sig = "load-zero-empties"
				}
				d := map[string]interface{}{"kind": "load", "sig": sig, "shape": sc.Shape, "limit": ld.Limit, "via": ld.Via, "amount": ld.Amount,
					"total": total, "heads": len(heads), "writers": a.rec.Writers, "outcome": outcome, "listed": len(listing)}
				if a.rec.Note != "" {
					d["note"] = a.rec.Note
				}
				for k, v := range extra {
					d[k] = v
				}
				r.AddCase(fmt.Sprintf("(CLoad %s %s %s %s %s %s)", uname, sim.CoqListN(a.rec.Persisted), sim.CoqListN(heads),
					sim.CoqZ(ld.Limit), sim.CoqN(outcomeN[outcome]), sim.CoqListN(listing)), d, total > 0)
				r.Count("load:" + sc.Shape.Kind)
				r.Count("via:" + ld.Via)
				r.Count("outcome:" + outcome)
				switch {
				case ld.Limit <= 0:
					r.Count("limit:non-positive")
				case ld.Limit < total:
					r.Count("limit:partial")
				case ld.Limit == total:
					r.Count("limit:exact")
				default:
					r.Count("limit:beyond")
				}
				r.Count(fmt.Sprintf("heads=%d", len(dedupInts(heads))))
			}
			done := 0
			for _, res := range a.results {
				ld := sc.Loads[res.Idx-sc.Base]
				extra := map[string]interface{}{"blocks_fetched": res.Gets}
				if res.Err != "" {
					extra["err"] = res.Err
				}
				emit(ld, res.Idx, res.Outcome, res.Listing, extra)
				for _, p := range res.Probes {
					// fetcher monitor: what NewFromEntryHash(head, Length=limit) built
					r.AddCase(fmt.Sprintf("(CFetch %s %s %s %s %s)", uname, sim.CoqListN(a.rec.Persisted), sim.CoqN(p.Head), sim.CoqZ(ld.Limit), sim.CoqListN(p.Fetched)),
						map[string]interface{}{"kind": "fetch", "sig": "c15-fetcher", "shape": sc.Shape, "limit": ld.Limit, "head": p.Head, "fetched": len(p.Fetched), "writers": a.rec.Writers}, len(p.Fetched) > 1)
					r.Count("fetch-probe")
				}
				done++
			}
			if a.died != nil {
				ld := sc.Loads[*a.died-sc.Base]
				emit(ld, *a.died, "panic", []int{}, map[string]interface{}{"panic": a.stderr})
				r.Count("child-died")
				done++
			}
			if done < len(sc.Loads) {
				next = append(next, c15Scen{ID: sc.ID, Shape: sc.Shape, Loads: sc.Loads[done:], Base: sc.Base + done})
			}
		}
		if ended && len(next) > 0 {
			return fmt.Errorf("child ended with %d scenarios unfinished", len(next))
		}
		pending = next
	}
	r.Notes = append(r.Notes, fmt.Sprintf("child processes: %d", gen))
	return nil
}

func dedupInts(xs []int) []int {
	seen := map[int]bool{}
	var out []int
	for _, x := range xs {
		if !seen[x] {
			seen[x] = true
			out = append(out, x)
		}
	}
	return out
}

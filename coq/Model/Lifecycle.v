(** Store and instance lifecycle (C18): what [Close] raises, which background activity each
    raised signal wakes, what every API operation answers on a closed store, and which
    directory [Drop] removes.

    Anchors: stores/basestore/base_store.go ([Close], [isClosed], [Drop], the goroutines
    started by [InitBaseStore]/[replicate]/[Sync]), stores/replicator/replicator.go ([Stop],
    [Load], [processOne], [processHash]), baseorbitdb/orbitdb.go ([Close], [createStore]'s
    [CacheDestroy]), cache/cacheleveldown/leveldown.go ([datastoreKey], [Destroy]),
    address/address.go ([Parse]), events/events.go ([handleSubscriber]).

    Goroutine exit and promptness themselves are runtime behaviour: the driver
    (harness/cmd/vcheck/c18.go) observes them; this model is the bookkeeping they rest on. *)
From Orbit Require Export Model.Base.

(** * Mechanism switches

    [true] = the repaired behaviour, [false] = the pinned commit ([sw_pinned]).  The current values are
    what the correspondence check (Corr/C18.v) runs the model with; they live in
    Model/Current.v ([c18_*_current], all [true] since the four fix: commits). *)
Record switches := mkSw {
  (** replicator.go processHash: the progress consumer keeps receiving until its channel is
      closed (true) instead of leaving as soon as the context is cancelled (false) *)
  sw_progress_drains : bool;
  (** base_store.go Close ends the subscriptions of the deprecated emitter interface *)
  sw_close_unsubscribes : bool;
  (** address.go IsValid/Parse refuse a path containing a ".." segment *)
  sw_rejects_dotdot : bool;
  (** cacheleveldown Destroy closes a still-loaded cache itself, under the lock it already
      holds (true), instead of calling the cache's Close, which takes that lock again (false) *)
  sw_destroy_inline : bool
}.

Definition sw_pinned : switches := mkSw false false false false.
Definition sw_fixed : switches := mkSw true true true true.

(** * Signals *)
Inductive signal :=
(* raised by BaseStore.Close, in this order *)
| SigStoreCtx        (* b.cancel(): the store context *)
| SigCloseFunc       (* closeFunc: the instance forgets the store *)
| SigReplRootCtx     (* replicator.Stop: rootCancel *)
| SigReplEmitters    (* replicator.Stop: its three emitters are closed *)
| SigStoreEmitters   (* the store's emitters are closed *)
| SigUnsubscribeAll  (* (repaired tree) every legacy subscriber context is cancelled *)
| SigStatusReset
| SigCacheClosed
(* consequences: raised by another component once it has seen a signal *)
| SigTopicChans      (* the pubsub adapter closes the WatchPeers/WatchMessages channels when the
                        context they were opened with (the store context) is done *)
| SigWorkersDone     (* every replication worker has returned: Load's wait group opens,
                        processHash has closed its progress channel *)
(* raised by orbitDB.Close after closing every store *)
| SigDirectClosed | SigInstCache | SigKeystore | SigNewHeadsEmitter | SigInstanceCtx
(* never raised by Close *)
| SigCallerCtx.

Definition signal_code (s : signal) : N :=
  match s with
  | SigStoreCtx => 1 | SigCloseFunc => 2 | SigReplRootCtx => 3 | SigReplEmitters => 4
  | SigStoreEmitters => 5 | SigUnsubscribeAll => 6 | SigStatusReset => 7 | SigCacheClosed => 8
  | SigTopicChans => 9 | SigWorkersDone => 10 | SigDirectClosed => 11 | SigInstCache => 12
  | SigKeystore => 13 | SigNewHeadsEmitter => 14 | SigInstanceCtx => 15 | SigCallerCtx => 16
  end%N.
Definition signal_eqb (a b : signal) : bool := N.eqb (signal_code a) (signal_code b).

Lemma signal_eqb_eq a b : signal_eqb a b = true <-> a = b.
Proof.
  unfold signal_eqb. rewrite N.eqb_eq. split; [| intros ->; reflexivity].
  destruct a, b; simpl; intros H; try reflexivity; discriminate.
Qed.

Definition smem (s : signal) (l : list signal) : bool := existsb (signal_eqb s) l.

Lemma smem_In s l : smem s l = true <-> In s l.
Proof.
  unfold smem. rewrite existsb_exists. split.
  - intros [y [Hy E]]. apply signal_eqb_eq in E. subst. exact Hy.
  - intros H. exists s. split; [exact H | apply signal_eqb_eq; reflexivity].
Qed.

(** raising is idempotent: the raised signals form a set *)
Definition raise (s : signal) (l : list signal) : list signal := if smem s l then l else l ++ [s].
Definition raise_all (ss l : list signal) : list signal := fold_left (fun acc s => raise s acc) ss l.

(** * Background activities and their wake sets *)
Inductive activity :=
| AMainLoop        (* InitBaseStore: select { sub.Out, ctx.Done } *)
| AStoreListener   (* storeListener: select { b.ctx.Done, sub.Out } *)
| AEventWrite      (* per-write goroutine: handleEventWrite under WithTimeout(b.ctx, 10s) *)
| APeersListener   (* pubSubChanListener: range chPeers *)
| AMessagesListener (* pubSubChanListener: range chMessages *)
| ANewPeer         (* onNewPeerJoined: Connect/Send with b.ctx *)
| ASyncLoad        (* go Replicator().Load (from Sync): wg.Wait on its workers *)
| AReplCtxBinder   (* rootContextWithCancel: select { rootCtx.Done, ctx.Done } *)
| AReplWorkerWaiting   (* processOne: sem.Acquire(ctx) / parked before its fetch *)
| AReplWorkerFetching  (* processOne inside a fetch that fails once the context is cancelled,
                          or past its fetch (bookkeeping only) *)
| AReplWorkerDelivering (* processOne whose fetch succeeded after the cancellation: the fetcher
                          has a fetched entry to hand to the progress consumer (blocking send) *)
| AReplProgress    (* processHash's progress consumer *)
| ALegacySubscriber (* events.handleSubscriber (two goroutines): select { sub.Out, ctx.Done } *)
| AMonitorDirect   (* orbitDB.monitorDirectChannel: select { ctx.Done, sub.Out } *)
| AWatchPeers      (* pubsubcoreapi WatchPeers poller (real adapter) *)
| AWatchMessages   (* pubsubcoreapi WatchMessages reader (real adapter) *)
| ADirectTopic.    (* oneonone monitorTopic (real direct channel) *)

Definition wake_set (sw : switches) (a : activity) : list signal :=
  match a with
  | AMainLoop | AStoreListener | AEventWrite | ANewPeer => [SigStoreCtx]
  | APeersListener | AMessagesListener => [SigTopicChans]
  | ASyncLoad => [SigWorkersDone]
  | AReplCtxBinder => [SigReplRootCtx; SigWorkersDone]
  | AReplWorkerWaiting | AReplWorkerFetching => [SigReplRootCtx]
  | AReplWorkerDelivering =>
    (* with a consumer that drains, the send completes whatever happens; with one that has
       left on cancellation nothing Close raises lets it complete *)
    if sw_progress_drains sw then [SigReplRootCtx] else []
  | AReplProgress => if sw_progress_drains sw then [SigWorkersDone] else [SigReplRootCtx; SigWorkersDone]
  | ALegacySubscriber => [SigCallerCtx; SigUnsubscribeAll]
  | AMonitorDirect => [SigInstanceCtx]
  | AWatchPeers | AWatchMessages => [SigStoreCtx]
  | ADirectTopic => [SigStoreCtx; SigDirectClosed]
  end.

Definition woken (sw : switches) (raised : list signal) (a : activity) : bool :=
  existsb (fun s => smem s raised) (wake_set sw a).

Definition is_worker (a : activity) : bool :=
  match a with AReplWorkerWaiting | AReplWorkerFetching | AReplWorkerDelivering => true | _ => false end.

(** * The store *)
Record store := mkStore { st_open : bool; st_acts : list activity; st_raised : list signal }.

Definition open_store (acts : list activity) : store := mkStore true acts [].

(** the signals BaseStore.Close raises itself, in order *)
Definition close_signals (sw : switches) : list signal :=
  [SigStoreCtx; SigCloseFunc; SigReplRootCtx; SigReplEmitters; SigStoreEmitters]
  ++ (if sw_close_unsubscribes sw then [SigUnsubscribeAll] else [])
  ++ [SigStatusReset; SigCacheClosed].

(** what other components raise in consequence *)
Definition consequences (sw : switches) (acts : list activity) (raised : list signal) : list signal :=
  let r1 := if smem SigStoreCtx raised then raise SigTopicChans raised else raised in
  if forallb (fun a => implb (is_worker a) (woken sw r1 a)) acts then raise SigWorkersDone r1 else r1.

(** one call of Close: new state, the signals this call raised itself, its return value *)
Definition close_step (sw : switches) (s : store) : store * list signal * outcome unit :=
  if st_open s then
    (mkStore false (st_acts s) (consequences sw (st_acts s) (raise_all (close_signals sw) (st_raised s))),
     close_signals sw, Ok tt)
  else (s, [], Ok tt).          (* isClosed(): return nil *)

Definition close (sw : switches) (s : store) : store := fst (fst (close_step sw s)).
Definition close_raises (sw : switches) (s : store) : list signal := snd (fst (close_step sw s)).
Definition close_returns (sw : switches) (s : store) : outcome unit := snd (close_step sw s).

(** activities of [s] that nothing raised so far wakes *)
Definition stuck (sw : switches) (s : store) : list activity :=
  filter (fun a => negb (woken sw (st_raised s) a)) (st_acts s).

(** * The instance *)
Record instance := mkInst { i_stores : list store; i_acts : list activity; i_raised : list signal }.

Definition instance_signals : list signal :=
  [SigDirectClosed; SigInstCache; SigKeystore; SigNewHeadsEmitter; SigInstanceCtx].

(** orbitDB.Close has no closed flag: every call closes the stores still registered (a closed
    store has unregistered itself), closes direct channel, caches, key store and emitter
    again (errors are logged), cancels again, and returns nil *)
Definition iclose (sw : switches) (i : instance) : instance :=
  mkInst (map (close sw) (i_stores i)) (i_acts i) (raise_all instance_signals (i_raised i)).
Definition iclose_returns (i : instance) : outcome unit := Ok tt.

(** a store activity is also woken by what the instance raised (the real direct channel) *)
Definition istuck (sw : switches) (i : instance) : list activity :=
  flat_map (fun s => filter (fun a => negb (woken sw (st_raised s ++ i_raised i) a)) (st_acts s)) (i_stores i)
  ++ filter (fun a => negb (woken sw (i_raised i) a)) (i_acts i).

(** * Operations on a closed store *)
Inductive opkind :=
| OpLogAdd | OpLogGet | OpLogList
| OpKvPut | OpKvDelete | OpKvGet | OpKvAll
| OpDocPut | OpDocDelete | OpDocGet | OpDocQuery | OpDocPutBatch | OpDocPutAll
| OpLoad | OpSync | OpLoadFromSnapshot | OpLoadMoreFrom | OpAccessors | OpClose | OpDrop
| OpLegacyEmit | OpLegacySubscribe
(* after Drop *)
| OpWriteAfterDrop | OpLoadAfterDrop | OpCloseAfterDrop | OpDropAfterDrop
(* the instance is closed *)
| OpInstClose | OpInstOpen | OpInstCreate | OpStoreWriteInstClosed | OpStoreReadInstClosed
(* in flight when Close (or Drop) ran *)
| OpInflightAppend | OpInflightPersist | OpInflightLoad | OpInflightDropWrite
(* Drop through a closed handle after the database was opened again on the same instance *)
| OpDropStale.

Definition all_ops : list opkind :=
  [OpLogAdd; OpLogGet; OpLogList; OpKvPut; OpKvDelete; OpKvGet; OpKvAll; OpDocPut; OpDocDelete; OpDocGet;
   OpDocQuery; OpDocPutBatch; OpDocPutAll; OpLoad; OpSync; OpLoadFromSnapshot; OpLoadMoreFrom; OpAccessors;
   OpClose; OpDrop; OpLegacyEmit; OpLegacySubscribe; OpWriteAfterDrop; OpLoadAfterDrop; OpCloseAfterDrop;
   OpDropAfterDrop; OpInstClose; OpInstOpen; OpInstCreate; OpStoreWriteInstClosed; OpStoreReadInstClosed;
   OpInflightAppend; OpInflightPersist; OpInflightLoad; OpInflightDropWrite; OpDropStale].

(** harmless results *)
Inductive result :=
| RNoop      (* nothing happens, nil *)
| RStale     (* answered from the in-memory log/index, which Close leaves in place *)
| RDone      (* the operation's effect takes place (Drop removes the directory; a write whose
                cache write preceded Close is acknowledged and durable) *)
| RFresh.    (* a new object is handed out (Open/Create on a closed instance reopen the cache) *)

(** Filled from the code, each line checked on the implementation by the driver.
    Writes: AddOperation appends to the in-memory log, then Cache().Put fails on the closed
    leveldb ("leveldb: closed") - the entry is neither durable nor acknowledged.
    Reads: index and log stay in memory.  Load/LoadFromSnapshot: Cache().Get fails.
    Sync/LoadMoreFrom: the replicator's root context is cancelled, workers give up, nil.
    Load in flight: completes its joins, then "unable to emit event ready: emitter is closed". *)
Definition op_after_close (o : opkind) : outcome result :=
  match o with
  | OpLogAdd | OpKvPut | OpKvDelete | OpDocPut | OpDocDelete | OpDocPutBatch | OpDocPutAll => Err EClosed
  | OpLogGet | OpLogList | OpKvGet | OpKvAll | OpDocGet | OpDocQuery | OpAccessors => Ok RStale
  | OpLoad | OpLoadFromSnapshot => Err EClosed
  | OpSync | OpLoadMoreFrom => Ok RNoop
  | OpClose => Ok RNoop
  | OpDrop => Ok RDone
  | OpLegacyEmit | OpLegacySubscribe => Ok RNoop
  | OpWriteAfterDrop | OpLoadAfterDrop => Err EClosed
  | OpCloseAfterDrop => Ok RNoop
  | OpDropAfterDrop => Ok RDone
  | OpInstClose => Ok RNoop
  | OpInstOpen | OpInstCreate => Ok RFresh
  | OpStoreWriteInstClosed => Err EClosed
  | OpStoreReadInstClosed => Ok RStale
  | OpInflightAppend => Err EClosed
  | OpInflightPersist => Ok RDone
  | OpInflightLoad => Err EOther
  | OpInflightDropWrite => Ok RDone
  | OpDropStale => Ok RDone     (* when it answers at all: see [drop_locking] *)
  end.

(** * The cache manager's lock

    cacheleveldown keeps one mutex for its table of loaded caches.  [wrappedCache.Close]
    takes it (to unregister the cache); [Destroy] takes it too and, if the database's cache
    is (still, or again) loaded, closes that cache.  Drop = Close (which closes and thereby
    unloads the handle's own cache, unless the handle is already closed) followed by Destroy. *)
Inductive locking := Returns | Deadlocks.

Definition destroy_locking (sw : switches) (cache_loaded : bool) : locking :=
  if cache_loaded && negb (sw_destroy_inline sw) then Deadlocks else Returns.

(** [handle_open]: the handle Drop is called on is open (it then shares the loaded cache and
    its Close unloads it); [loaded_again]: the database's cache was loaded again after this
    handle was closed (the database reopened, or an Open/Create that failed after loading it) *)
Definition drop_locking (sw : switches) (handle_open loaded_again : bool) : locking :=
  destroy_locking sw (if handle_open then false else loaded_again).

(** outcome class of an operation as the driver sees it: 0 ok, 1 error, 2 panic, 3 never answers *)
Definition op_class (sw : switches) (o : opkind) : N :=
  match o with
  | OpDropStale =>
    match drop_locking sw false true with
    | Deadlocks => 3%N
    | Returns => match op_after_close o with Ok _ => 0 | Err _ => 1 | Panic _ => 2 end%N
    end
  | _ => match op_after_close o with Ok _ => 0 | Err _ => 1 | Panic _ => 2 end%N
  end.

(** * Cache directories (segment level) *)
Inductive seg := SNorm (n : N) | SDotDot | SDot | SEmpty.

(** Go's path.Clean on a relative path, on segments: the number of leading ".." that
    remain and the names after them *)
Fixpoint clean_rel (ups : nat) (stack : list N) (l : list seg) : nat * list N :=
  match l with
  | [] => (ups, rev stack)
  | SNorm n :: r => clean_rel ups (n :: stack) r
  | SDotDot :: r =>
    match stack with
    | [] => clean_rel (S ups) [] r
    | _ :: st => clean_rel ups st r
    end
  | SDot :: r | SEmpty :: r => clean_rel ups stack r
  end.

(** path.Join(directory, rel) for an absolute, clean directory: ".." above the root stays at the root *)
Definition join_abs (dir : list N) (rel : nat * list N) : list N :=
  firstn (length dir - fst rel) dir ++ snd rel.

(** cacheleveldown.datastoreKey: path.Join(directory, path.Join(root, path)) *)
Definition datastore_key (dir : list N) (root : N) (path : list seg) : list N :=
  join_abs dir (clean_rel 0 [] (SNorm root :: path)).

(** address.String(): path.Join("/orbitdb", root, path), with the same cleaning *)
Definition address_string (root : N) (path : list seg) : list N :=
  join_abs [0%N] (clean_rel 0 [] (SNorm root :: path)).

Definition no_dotdot (p : list seg) : bool :=
  forallb (fun s => match s with SDotDot => false | _ => true end) p.

Definition clean_path (p : list seg) : bool :=
  forallb (fun s => match s with SNorm _ => true | _ => false end) p.

(** address.IsValid as far as the path is concerned *)
Definition address_accepted (sw : switches) (path : list seg) : bool :=
  if sw_rejects_dotdot sw then no_dotdot path else true.

Fixpoint is_prefix (a b : list N) : bool :=
  match a, b with
  | [], _ => true
  | _, [] => false
  | x :: a', y :: b' => N.eqb x y && is_prefix a' b'
  end.

(** the files of a directory tree, each by its path; os.RemoveAll(k) *)
Definition destroy (k : list N) (fs : list (list N)) : list (list N) :=
  filter (fun f => negb (is_prefix k f)) fs.

(** Drop = Close, then cache.Destroy(o.directory, address): does it remove (the directory
    of) key [k']? *)
Definition drop_removes (dir : list N) (root : N) (path : list seg) (k' : list N) : bool :=
  is_prefix (datastore_key dir root path) k'.

(** * Tables shared with the driver *)
Definition op_of_code (n : N) : option opkind := nth_error all_ops (N.to_nat n - 1).

Definition class_of {A} (o : outcome A) : N :=
  match o with Ok _ => 0 | Err _ => 1 | Panic _ => 2 end%N.

(** creation site (number used by the driver) of the goroutine(s) of an activity *)
Definition site_of (a : activity) : N :=
  match a with
  | AMainLoop => 1 | AStoreListener => 2 | AEventWrite => 3
  | APeersListener | AMessagesListener => 4 | ANewPeer => 5
  | ASyncLoad => 7 | AReplCtxBinder => 8
  | AReplWorkerWaiting | AReplWorkerFetching | AReplWorkerDelivering => 9
  | AReplProgress => 11 | ALegacySubscriber => 12 | AMonitorDirect => 13
  | AWatchPeers => 14 | AWatchMessages => 15 | ADirectTopic => 16
  end%N.

Fixpoint ins_sorted (x : N) (l : list N) : list N :=
  match l with
  | [] => [x]
  | y :: r => if (x <? y)%N then x :: l else if (x =? y)%N then l else y :: ins_sorted x r
  end.
Definition sites (l : list activity) : list N := fold_right (fun a acc => ins_sorted (site_of a) acc) [] l.

Definition base_acts : list activity := [AMainLoop; AStoreListener; APeersListener; AMessagesListener].

(** the store's background activities at the scripted moments of the driver *)
Definition acts_at (when : N) : list activity :=
  match when with
  | 3 => base_acts ++ [ASyncLoad; AReplCtxBinder; AReplWorkerWaiting]
  | 4 => base_acts ++ [ASyncLoad; AReplCtxBinder; AReplWorkerFetching]
  | 7 => base_acts ++ [ALegacySubscriber]
  | 8 => base_acts ++ [ASyncLoad; AReplCtxBinder; AReplWorkerWaiting]
  | 10 => base_acts ++ [AWatchPeers; AWatchMessages; ADirectTopic; ANewPeer]
  | 11 => base_acts ++ [ASyncLoad; AReplCtxBinder; AReplWorkerDelivering; AReplProgress]
  | _ => base_acts ++ [AEventWrite]
  end%N.

(** moments at which the whole instance is closed *)
Definition instance_level (when : N) : bool :=
  match when with 6 | 9 | 10 => true | _ => false end%N.

(** creation sites of the goroutines still there after Close at moment [when] *)
Definition predicted_leaks (sw : switches) (when : N) : list N :=
  if instance_level when then
    sites (istuck sw (iclose sw (mkInst [open_store (acts_at when); open_store base_acts] [AMonitorDirect] [])))
  else sites (stuck sw (close sw (open_store (acts_at when)))).

(** Store and instance lifecycle (C18): what [Close] raises, which background activity each
    raised signal wakes, what every API operation answers on a closed store, and which
    directory [Drop] removes.

    Anchors: stores/basestore/base_store.go ([Close], [isClosed], [Drop], the goroutines
    started by [InitBaseStore]/[replicate]/[Sync]), stores/replicator/replicator.go ([Stop],
    [Load], [processOne], [processHash]), baseorbitdb/orbitdb.go ([Close], [createStore]'s
    [CacheDestroy]), cache/cacheleveldown/leveldown.go ([datastoreKey], [Destroy]),
    address/address.go ([Parse]), events/events.go ([handleSubscriber]).

    Goroutine exit and promptness themselves are runtime behaviour: the driver
    (harness/cmd/vcheck/c18.go) observes them; this model is the bookkeeping they rest on.

    Everything that depends on how the store (or its instance) was opened is a function of a
    [config]: [CreateDBOptions.Replicate], [NewStoreOptions.MaxHistory], the instance
    directory ":memory:" (baseorbitdb/orbitdb.go [NewOrbitDB], cacheleveldown [Load]/[Destroy]), and
    [CreateDBOptions.Directory] naming a directory other than the instance's. *)
From Orbit Require Export Model.Base.

(** * Configurations *)
Record config := mkCfg {
  (** CreateDBOptions.Replicate (default true).  false: InitBaseStore does not call
      [replicate()]: no pubsub subscription, no store listener, no topic listeners, no head
      exchange.  The replicator is created all the same, and [Sync] (also reached through the
      instance's direct-channel monitor), [LoadMoreFrom], the saved queue of [LoadFromSnapshot]
      and the missing ancestors of an unlimited [Load] feed it. *)
  cf_replicate : bool;
  (** the instance directory is ":memory:": every cache is an in-memory leveldb, Destroy
      touches nothing on disk, nothing survives the instance *)
  cf_memory : bool;
  (** NewStoreOptions.MaxHistory is set (CreateDBOptions has no such field; a registered store
      constructor can set it): every Load is a limited one (a limited load leaves older entries
      out on purpose and hands nothing to the replicator) *)
  cf_limited : bool;
  (** CreateDBOptions.Directory names a directory other than the instance's own.  The store's
      cache is the one of the INSTANCE directory all the same ([createStore]:
      [loadCache(o.directory, ...)]), and that is what [CacheDestroy] destroys; the option reaches
      the store ([NewStoreOptions.Directory], kept and never used) and [Open]'s lookup, which
      loads - and leaves loaded until the instance is closed - an empty cache below the option's
      directory instead of the database's own ([open_handle]) *)
  cf_customdir : bool
}.

Definition cfg_default : config := mkCfg true false false false.

Definition all_configs : list config :=
  flat_map (fun c : bool * bool * bool => let '(r, m, l) := c in [mkCfg r m l false; mkCfg r m l true])
    [(true, false, false); (true, false, true); (true, true, false); (true, true, true);
     (false, false, false); (false, false, true); (false, true, false); (false, true, true)].

(** * Mechanism switches

    [true] = the repaired behaviour, [false] = the pinned commit ([sw_pinned]).  The current values are
    what the correspondence check (Corr/C18.v) runs the model with; they live in
    Model/Current.v ([c18_*_current]). *)
Record switches := mkSw {
  (** replicator.go processHash: the progress consumer keeps receiving until its channel is
      closed (true) instead of leaving as soon as the context is cancelled (false) *)
  sw_progress_drains : bool;
  (** base_store.go Close ends the subscriptions of the deprecated emitter interface *)
  sw_close_unsubscribes : bool;
  (** address.go IsValid/Parse refuse a path containing a ".." segment *)
  sw_rejects_dotdot : bool;
  (** cacheleveldown Destroy closes a still-loaded cache itself, under the lock it already
      holds (true), instead of calling the cache's Close, which takes that lock again (false) *)
  sw_destroy_inline : bool;
  (** base_store.go Load and LoadFromSnapshot run under a context that also ends with the
      store's own context (true), instead of the caller's context alone (false): a load
      waiting for a block nobody provides ends when the store is closed *)
  sw_load_bound : bool;
  (** cacheleveldown Destroy removes the files OF the database's leveldb directory, and the
      directory if nothing else is in it (true), instead of the whole tree below it (false): the
      cache directory of /orbitdb/<root>/a/b lies inside the one of /orbitdb/<root>/a *)
  sw_destroy_own_files : bool;
  (** cacheleveldown Load hands out the wrapper it registers also when it has just opened the
      datastore (true), instead of the bare leveldb datastore (false), whose Close closes the
      leveldb and leaves the wrapper registered *)
  sw_load_registered : bool
}.

Definition sw_pinned : switches := mkSw false false false false false false false.
Definition sw_fixed : switches := mkSw true true true true true true true.

(** * Signals *)
Inductive signal :=
(* raised by BaseStore.Close, in this order *)
| SigStoreCtx        (* b.cancel(): the store context *)
| SigCloseFunc       (* closeFunc: the instance forgets the store *)
| SigReplRootCtx     (* replicator.Stop: rootCancel *)
| SigReplEmitters    (* replicator.Stop: its three emitters are closed *)
| SigStoreEmitters   (* the store's emitters are closed *)
| SigUnsubscribeAll  (* (repaired tree) every legacy subscriber context is cancelled *)
| SigStatusReset
| SigCacheClosed
(* consequences: raised by another component once it has seen a signal *)
| SigTopicChans      (* the pubsub adapter closes the WatchPeers/WatchMessages channels when the
                        context they were opened with (the store context) is done *)
| SigWorkersDone     (* every replication worker has returned: Load's wait group opens,
                        processHash has closed its progress channel *)
(* raised by orbitDB.Close after closing every store *)
| SigDirectClosed | SigInstCache | SigKeystore | SigNewHeadsEmitter | SigInstanceCtx
(* never raised by Close *)
| SigCallerCtx.

Definition signal_code (s : signal) : N :=
  match s with
  | SigStoreCtx => 1 | SigCloseFunc => 2 | SigReplRootCtx => 3 | SigReplEmitters => 4
  | SigStoreEmitters => 5 | SigUnsubscribeAll => 6 | SigStatusReset => 7 | SigCacheClosed => 8
  | SigTopicChans => 9 | SigWorkersDone => 10 | SigDirectClosed => 11 | SigInstCache => 12
  | SigKeystore => 13 | SigNewHeadsEmitter => 14 | SigInstanceCtx => 15 | SigCallerCtx => 16
  end%N.
Definition signal_eqb (a b : signal) : bool := N.eqb (signal_code a) (signal_code b).

Lemma signal_eqb_eq a b : signal_eqb a b = true <-> a = b.
Proof.
  unfold signal_eqb. rewrite N.eqb_eq. split; [| intros ->; reflexivity].
  destruct a, b; simpl; intros H; try reflexivity; discriminate.
Qed.

Definition smem (s : signal) (l : list signal) : bool := existsb (signal_eqb s) l.

Lemma smem_In s l : smem s l = true <-> In s l.
Proof.
  unfold smem. rewrite existsb_exists. split.
  - intros [y [Hy E]]. apply signal_eqb_eq in E. subst. exact Hy.
  - intros H. exists s. split; [exact H | apply signal_eqb_eq; reflexivity].
Qed.

(** raising is idempotent: the raised signals form a set *)
Definition raise (s : signal) (l : list signal) : list signal := if smem s l then l else l ++ [s].
Definition raise_all (ss l : list signal) : list signal := fold_left (fun acc s => raise s acc) ss l.

(** * Background activities and their wake sets *)
Inductive activity :=
| AMainLoop        (* InitBaseStore: select { sub.Out, ctx.Done } *)
| AStoreListener   (* storeListener: select { b.ctx.Done, sub.Out } *)
| AEventWrite      (* per-write goroutine: handleEventWrite under WithTimeout(b.ctx, 10s) *)
| APeersListener   (* pubSubChanListener: range chPeers *)
| AMessagesListener (* pubSubChanListener: range chMessages *)
| ANewPeer         (* onNewPeerJoined: Connect/Send with b.ctx *)
| ASyncLoad        (* go Replicator().Load (from Sync): wg.Wait on its workers *)
| ASnapshotLoad    (* go Replicator().Load (from LoadFromSnapshot, the saved queue): the same *)
| AAncestorsLoad   (* go Replicator().Load (from an unlimited Load, the missing ancestors): the same *)
| ALoadHeads       (* Load's own goroutines (one per cached head, inside a block fetch, and the
                      progress consumer): they run under Load's context *)
| AReplCtxBinder   (* rootContextWithCancel: select { rootCtx.Done, ctx.Done } *)
| AReplWorkerWaiting   (* processOne: sem.Acquire(ctx) / parked before its fetch *)
| AReplWorkerFetching  (* processOne inside a fetch that fails once the context is cancelled,
                          or past its fetch (bookkeeping only) *)
| AReplWorkerDelivering (* processOne whose fetch succeeded after the cancellation: the fetcher
                          has a fetched entry to hand to the progress consumer (blocking send) *)
| AReplProgress    (* processHash's progress consumer *)
| ALegacySubscriber (* events.handleSubscriber (two goroutines): select { sub.Out, ctx.Done } *)
| AMonitorDirect   (* orbitDB.monitorDirectChannel: select { ctx.Done, sub.Out } *)
| AWatchPeers      (* pubsubcoreapi WatchPeers poller (real adapter) *)
| AWatchMessages   (* pubsubcoreapi WatchMessages reader (real adapter) *)
| ADirectTopic.    (* oneonone monitorTopic (real direct channel) *)

Definition wake_set (sw : switches) (a : activity) : list signal :=
  match a with
  | AMainLoop | AStoreListener | AEventWrite | ANewPeer => [SigStoreCtx]
  | APeersListener | AMessagesListener => [SigTopicChans]
  | ASyncLoad | ASnapshotLoad | AAncestorsLoad => [SigWorkersDone]
  | ALoadHeads => SigCallerCtx :: (if sw_load_bound sw then [SigStoreCtx] else [])
  | AReplCtxBinder => [SigReplRootCtx; SigWorkersDone]
  | AReplWorkerWaiting | AReplWorkerFetching => [SigReplRootCtx]
  | AReplWorkerDelivering =>
    (* with a consumer that drains, the send completes whatever happens; with one that has
       left on cancellation nothing Close raises lets it complete *)
    if sw_progress_drains sw then [SigReplRootCtx] else []
  | AReplProgress => if sw_progress_drains sw then [SigWorkersDone] else [SigReplRootCtx; SigWorkersDone]
  | ALegacySubscriber => [SigCallerCtx; SigUnsubscribeAll]
  | AMonitorDirect => [SigInstanceCtx]
  | AWatchPeers | AWatchMessages => [SigStoreCtx]
  | ADirectTopic => [SigStoreCtx; SigDirectClosed]
  end.

Definition woken (sw : switches) (raised : list signal) (a : activity) : bool :=
  existsb (fun s => smem s raised) (wake_set sw a).

Definition is_worker (a : activity) : bool :=
  match a with AReplWorkerWaiting | AReplWorkerFetching | AReplWorkerDelivering => true | _ => false end.

(** activities a store (not the instance) starts *)
Definition store_activity (a : activity) : bool :=
  match a with AMonitorDirect => false | _ => true end.

(** activities that only exist once the store has subscribed to its pubsub topic
    ([replicate()]: the store listener and its per-write goroutines, the two topic listeners,
    head exchange with a new peer, and what the real adapter and direct channel start for them) *)
Definition needs_topic (a : activity) : bool :=
  match a with
  | AStoreListener | AEventWrite | APeersListener | AMessagesListener | ANewPeer
  | AWatchPeers | AWatchMessages | ADirectTopic => true
  | _ => false
  end.

(** can a store opened with configuration [cfg] have started activity [a]? *)
Definition started_by (cfg : config) (a : activity) : bool :=
  store_activity a
  && implb (needs_topic a) (cf_replicate cfg)
  && implb (match a with AAncestorsLoad => true | _ => false end) (negb (cf_limited cfg)).

(** * The store *)
Record store := mkStore { st_cfg : config; st_open : bool; st_acts : list activity; st_raised : list signal }.

Definition open_store (cfg : config) (acts : list activity) : store := mkStore cfg true acts [].

(** the signals BaseStore.Close raises itself, in order - the same for every configuration: in
    particular [Replicator().Stop()] (SigReplRootCtx) is not conditional on [Replicate], it is
    the only thing that ends a replication worker ([worker_needs_stop] in the proofs) *)
Definition close_signals (sw : switches) : list signal :=
  [SigStoreCtx; SigCloseFunc; SigReplRootCtx; SigReplEmitters; SigStoreEmitters]
  ++ (if sw_close_unsubscribes sw then [SigUnsubscribeAll] else [])
  ++ [SigStatusReset; SigCacheClosed].

(** what other components raise in consequence *)
Definition consequences (sw : switches) (cfg : config) (acts : list activity) (raised : list signal) : list signal :=
  (* the adapter only has channels to close if the store subscribed *)
  let r1 := if smem SigStoreCtx raised && cf_replicate cfg then raise SigTopicChans raised else raised in
  if forallb (fun a => implb (is_worker a) (woken sw r1 a)) acts then raise SigWorkersDone r1 else r1.

(** one call of Close: new state, the signals this call raised itself, its return value *)
Definition close_step (sw : switches) (s : store) : store * list signal * outcome unit :=
  if st_open s then
    (mkStore (st_cfg s) false (st_acts s)
             (consequences sw (st_cfg s) (st_acts s) (raise_all (close_signals sw) (st_raised s))),
     close_signals sw, Ok tt)
  else (s, [], Ok tt).          (* isClosed(): return nil *)

Definition close (sw : switches) (s : store) : store := fst (fst (close_step sw s)).
Definition close_raises (sw : switches) (s : store) : list signal := snd (fst (close_step sw s)).
Definition close_returns (sw : switches) (s : store) : outcome unit := snd (close_step sw s).

(** activities of [s] that nothing raised so far wakes *)
Definition stuck (sw : switches) (s : store) : list activity :=
  filter (fun a => negb (woken sw (st_raised s) a)) (st_acts s).

(** * The instance *)
Record instance := mkInst { i_stores : list store; i_acts : list activity; i_raised : list signal }.

Definition instance_signals : list signal :=
  [SigDirectClosed; SigInstCache; SigKeystore; SigNewHeadsEmitter; SigInstanceCtx].

(** orbitDB.Close has no closed flag: every call closes the stores still registered (a closed
    store has unregistered itself), closes direct channel, caches, key store and emitter
    again (errors are logged), cancels again, and returns nil *)
Definition iclose (sw : switches) (i : instance) : instance :=
  mkInst (map (close sw) (i_stores i)) (i_acts i) (raise_all instance_signals (i_raised i)).
Definition iclose_returns (i : instance) : outcome unit := Ok tt.

(** a store activity is also woken by what the instance raised (the real direct channel) *)
Definition istuck (sw : switches) (i : instance) : list activity :=
  flat_map (fun s => filter (fun a => negb (woken sw (st_raised s ++ i_raised i) a)) (st_acts s)) (i_stores i)
  ++ filter (fun a => negb (woken sw (i_raised i) a)) (i_acts i).

(** * Operations on a closed store *)
Inductive opkind :=
| OpLogAdd | OpLogGet | OpLogList
| OpKvPut | OpKvDelete | OpKvGet | OpKvAll
| OpDocPut | OpDocDelete | OpDocGet | OpDocQuery | OpDocPutBatch | OpDocPutAll
| OpLoad | OpSync | OpLoadFromSnapshot | OpLoadMoreFrom | OpAccessors | OpClose | OpDrop
| OpLegacyEmit | OpLegacySubscribe
(* after Drop *)
| OpWriteAfterDrop | OpLoadAfterDrop | OpCloseAfterDrop | OpDropAfterDrop
(* the instance is closed *)
| OpInstClose | OpInstOpen | OpInstCreate | OpStoreWriteInstClosed | OpStoreReadInstClosed
(* in flight when Close (or Drop) ran *)
| OpInflightAppend | OpInflightPersist | OpInflightLoad | OpInflightDropWrite
(* Drop through a closed handle after the database was opened again on the same instance *)
| OpDropStale
(* LoadMoreFrom running (its workers inside a block fetch that never completes) when Close or Drop ran *)
| OpInflightLoadMoreFrom
(* Load / LoadFromSnapshot inside a fetch that never completes (a block nobody provides) when Close ran *)
| OpInflightLoadStuck | OpInflightSnapshotStuck.

Definition all_ops : list opkind :=
  [OpLogAdd; OpLogGet; OpLogList; OpKvPut; OpKvDelete; OpKvGet; OpKvAll; OpDocPut; OpDocDelete; OpDocGet;
   OpDocQuery; OpDocPutBatch; OpDocPutAll; OpLoad; OpSync; OpLoadFromSnapshot; OpLoadMoreFrom; OpAccessors;
   OpClose; OpDrop; OpLegacyEmit; OpLegacySubscribe; OpWriteAfterDrop; OpLoadAfterDrop; OpCloseAfterDrop;
   OpDropAfterDrop; OpInstClose; OpInstOpen; OpInstCreate; OpStoreWriteInstClosed; OpStoreReadInstClosed;
   OpInflightAppend; OpInflightPersist; OpInflightLoad; OpInflightDropWrite; OpDropStale;
   OpInflightLoadMoreFrom; OpInflightLoadStuck; OpInflightSnapshotStuck].

(** harmless results *)
Inductive result :=
| RNoop      (* nothing happens, nil *)
| RStale     (* answered from the in-memory log/index, which Close leaves in place *)
| RDone      (* the operation's effect takes place (Drop removes the directory; a write whose
                cache write preceded Close is acknowledged and durable) *)
| RFresh.    (* a new object is handed out (Open/Create on a closed instance reopen the cache) *)

(** Filled from the code, each line checked on the implementation by the driver.
    Writes: AddOperation appends to the in-memory log, then Cache().Put fails on the closed
    leveldb ("leveldb: closed") - the entry is neither durable nor acknowledged.
    Reads: index and log stay in memory.  Load/LoadFromSnapshot: Cache().Get fails.
    Sync/LoadMoreFrom: the replicator's root context is cancelled, workers give up, nil.
    Load in flight: completes its joins, then "unable to emit event ready: emitter is closed". *)
Definition op_after_close (o : opkind) : outcome result :=
  match o with
  | OpLogAdd | OpKvPut | OpKvDelete | OpDocPut | OpDocDelete | OpDocPutBatch | OpDocPutAll => Err EClosed
  | OpLogGet | OpLogList | OpKvGet | OpKvAll | OpDocGet | OpDocQuery | OpAccessors => Ok RStale
  | OpLoad | OpLoadFromSnapshot => Err EClosed
  | OpSync | OpLoadMoreFrom => Ok RNoop
  | OpClose => Ok RNoop
  | OpDrop => Ok RDone
  | OpLegacyEmit | OpLegacySubscribe => Ok RNoop
  | OpWriteAfterDrop | OpLoadAfterDrop => Err EClosed
  | OpCloseAfterDrop => Ok RNoop
  | OpDropAfterDrop => Ok RDone
  | OpInstClose => Ok RNoop
  | OpInstOpen | OpInstCreate => Ok RFresh
  | OpStoreWriteInstClosed => Err EClosed
  | OpStoreReadInstClosed => Ok RStale
  | OpInflightAppend => Err EClosed
  | OpInflightPersist => Ok RDone
  | OpInflightLoad => Err EOther
  | OpInflightDropWrite => Ok RDone
  | OpDropStale => Ok RDone     (* when it answers at all: see [drop_locking] *)
  | OpInflightLoadMoreFrom => Ok RNoop   (* its workers give up (root context), the wait group opens *)
  | OpInflightLoadStuck | OpInflightSnapshotStuck => Err EOther   (* when it answers at all: see [load_ends] *)
  end.

(** * The cache manager's lock

    cacheleveldown keeps one mutex for its table of loaded caches.  [wrappedCache.Close]
    takes it (to unregister the cache); [Destroy] takes it too and, if the database's cache
    is (still, or again) loaded, closes that cache.  Drop = Close (which closes and thereby
    unloads the handle's own cache, unless the handle is already closed) followed by Destroy. *)
Inductive locking := Returns | Deadlocks.

Definition destroy_locking (sw : switches) (cache_loaded : bool) : locking :=
  if cache_loaded && negb (sw_destroy_inline sw) then Deadlocks else Returns.

(** [handle_open]: the handle Drop is called on is open (it then shares the loaded cache and
    its Close unloads it); [loaded_again]: the database's cache was loaded again after this
    handle was closed (the database reopened, or an Open/Create that failed after loading it) *)
Definition drop_locking (sw : switches) (handle_open loaded_again : bool) : locking :=
  destroy_locking sw (if handle_open then false else loaded_again).

(** * A load waiting for a block nobody provides

    Load and LoadFromSnapshot fetch under their caller's context; Close cancels the store's
    context.  Whether a load that waits for a block ends with Close depends on whether its
    context is bound to the store's. *)
Definition load_ends (sw : switches) : locking := if sw_load_bound sw then Returns else Deadlocks.

(** outcome class of an operation as the driver sees it: 0 ok, 1 error, 2 panic, 3 never answers *)
Definition op_class (sw : switches) (o : opkind) : N :=
  let answered := match op_after_close o with Ok _ => 0 | Err _ => 1 | Panic _ => 2 end%N in
  match o with
  | OpDropStale => match drop_locking sw false true with Deadlocks => 3%N | Returns => answered end
  | OpInflightLoadStuck | OpInflightSnapshotStuck =>
    match load_ends sw with Deadlocks => 3%N | Returns => answered end
  | _ => answered
  end.

(** * Cache directories (segment level) *)
Inductive seg := SNorm (n : N) | SDotDot | SDot | SEmpty.

(** Go's path.Clean on a relative path, on segments: the number of leading ".." that
    remain and the names after them *)
Fixpoint clean_rel (ups : nat) (stack : list N) (l : list seg) : nat * list N :=
  match l with
  | [] => (ups, rev stack)
  | SNorm n :: r => clean_rel ups (n :: stack) r
  | SDotDot :: r =>
    match stack with
    | [] => clean_rel (S ups) [] r
    | _ :: st => clean_rel ups st r
    end
  | SDot :: r | SEmpty :: r => clean_rel ups stack r
  end.

(** path.Join(directory, rel) for an absolute, clean directory: ".." above the root stays at the root *)
Definition join_abs (dir : list N) (rel : nat * list N) : list N :=
  firstn (length dir - fst rel) dir ++ snd rel.

(** cacheleveldown.datastoreKey: path.Join(directory, path.Join(root, path)) *)
Definition datastore_key (dir : list N) (root : N) (path : list seg) : list N :=
  join_abs dir (clean_rel 0 [] (SNorm root :: path)).

(** address.String(): path.Join("/orbitdb", root, path), with the same cleaning *)
Definition address_string (root : N) (path : list seg) : list N :=
  join_abs [0%N] (clean_rel 0 [] (SNorm root :: path)).

Definition no_dotdot (p : list seg) : bool :=
  forallb (fun s => match s with SDotDot => false | _ => true end) p.

Definition clean_path (p : list seg) : bool :=
  forallb (fun s => match s with SNorm _ => true | _ => false end) p.

(** address.IsValid as far as the path is concerned *)
Definition address_accepted (sw : switches) (path : list seg) : bool :=
  if sw_rejects_dotdot sw then no_dotdot path else true.

Fixpoint is_prefix (a b : list N) : bool :=
  match a, b with
  | [], _ => true
  | _, [] => false
  | x :: a', y :: b' => N.eqb x y && is_prefix a' b'
  end.

(** two cache directories are the same one *)
Definition key_eqb (a b : list N) : bool := is_prefix a b && is_prefix b a.

(** [f] is an entry directly inside directory [k] *)
Definition is_child (k f : list N) : bool := Nat.eqb (length f) (S (length k)) && is_prefix k f.

(** the files of a directory tree, each by its path.  Destroy of the database whose cache
    directory is [k]: os.RemoveAll(k), i.e. everything below [k] (pinned); or the files that lie
    directly in [k], which are the ones leveldb keeps there (repaired) *)
Definition destroy (sw : switches) (k : list N) (fs : list (list N)) : list (list N) :=
  filter (fun f => negb (if sw_destroy_own_files sw then is_child k f else is_prefix k f)) fs.

(** cacheleveldown.Destroy: nothing is removed from disk when the directory is ":memory:" *)
Definition destroy_cfg (sw : switches) (cfg : config) (k : list N) (fs : list (list N)) : list (list N) :=
  if cf_memory cfg then fs else destroy sw k fs.

(** Drop = Close, then cache.Destroy(o.directory, address): does it remove the cache directory
    [k'] of another database (the files directly in it)? *)
Definition drop_removes (sw : switches) (cfg : config) (dir : list N) (root : N) (path : list seg) (k' : list N) : bool :=
  negb (cf_memory cfg) &&
  (if sw_destroy_own_files sw then key_eqb (datastore_key dir root path) k'
   else is_prefix (datastore_key dir root path) k').

(** The cache manager keeps its table of loaded caches under [datastore_key]: two addresses
    share one leveldb (so that closing or destroying the one closes or destroys the other's)
    exactly when their keys coincide *)
Definition shares_cache (dir : list N) (r1 : N) (p1 : list seg) (r2 : N) (p2 : list seg) : bool :=
  key_eqb (datastore_key dir r1 p1) (datastore_key dir r2 p2).

(** a write on the open database (r2, p2) after database (r1, p1) of the same instance was closed *)
Definition write_after_sibling_close (dir : list N) (r1 : N) (p1 : list seg) (r2 : N) (p2 : list seg) : outcome result :=
  if shares_cache dir r1 p1 r2 p2 then Err EClosed else Ok RDone.

(** * Where the local data of a database is, and what Drop destroys

    [inst]: the instance's directory, [opt]: the directory of [CreateDBOptions.Directory] ([] =
    unset).  [createStore] loads the store's cache from the instance directory and hands
    [cache.Destroy] the instance directory, whatever the option says. *)
Definition cache_dir (cfg : config) (inst opt : list N) : list N := inst.
Definition destroy_dir (cfg : config) (inst opt : list N) : list N := inst.

(** does Drop of (root, path) remove the files of the database's own cache? *)
Definition drop_removes_own (sw : switches) (cfg : config) (inst opt : list N) (root : N) (path : list seg) : bool :=
  drop_removes sw cfg (destroy_dir cfg inst opt) root path (datastore_key (cache_dir cfg inst opt) root path).

(** * The cache manager's table, and the handle a store is given

    cacheleveldown keeps the loaded caches in a table under [datastore_key]: a wrapper around the
    leveldb datastore, whose Close closes the leveldb and takes the entry out of the table.
    [Load] returns the registered wrapper if there is one; otherwise it opens the leveldb, registers
    a wrapper, and returns that wrapper ([sw_load_registered]) or the bare datastore (before).
    A store closes the handle it was given ([BaseStore.Close]: [Cache().Close()]). *)
Inductive tstate :=
| TAbsent   (* nothing registered for the database *)
| TLive     (* a wrapper is registered, its leveldb is open *)
| TStale.   (* a wrapper is registered whose leveldb was closed behind its back *)

Record handle := mkHandle { h_wrapped : bool; h_usable : bool }.

Definition cm_load (sw : switches) (t : tstate) : handle * tstate :=
  match t with
  | TAbsent => (mkHandle (sw_load_registered sw) true, TLive)
  | TLive => (mkHandle true true, TLive)
  | TStale => (mkHandle true false, TStale)   (* every operation answers "leveldb: closed" *)
  end.

Definition cm_close (h : handle) (t : tstate) : tstate :=
  if h_wrapped h then TAbsent else match t with TLive => TStale | x => x end.

(** Is the cache of the instance directory loaded before [createStore] loads it for the store?
    [Create] loads it for its existence check and for the marker before it calls [Open]; [Open]
    loads the cache of the directory it looks the database up in: the instance's - unless a
    Directory option names another one, which is another entry of the table. *)
Definition lookup_loads_cache (cfg : config) (via_create : bool) : bool :=
  via_create || negb (cf_customdir cfg).

Definition open_handle (sw : switches) (cfg : config) (via_create : bool) (t : tstate) : handle * tstate :=
  cm_load sw (if lookup_loads_cache cfg via_create then snd (cm_load sw t) else t).

(** the database opened ([via_create]: through Create), then [n] times closed and opened again
    from its address with the same options: is the store's cache usable in each incarnation
    (Load and writes succeed)? *)
Fixpoint cycle (sw : switches) (cfg : config) (via_create : bool) (n : nat) (t : tstate) : list bool :=
  let '(h, t1) := open_handle sw cfg via_create t in
  h_usable h :: match n with O => [] | S k => cycle sw cfg false k (cm_close h t1) end.

(** * Reopening
    the entries a fresh instance on the same directory finds, given the acknowledged ones:
    all of them - unless the directory is ":memory:", where nothing outlives the instance *)
Definition durable (cfg : config) : bool := negb (cf_memory cfg).

(** * Tables shared with the driver *)
Definition op_of_code (n : N) : option opkind := nth_error all_ops (N.to_nat n - 1).

Definition class_of {A} (o : outcome A) : N :=
  match o with Ok _ => 0 | Err _ => 1 | Panic _ => 2 end%N.

(** creation site (number used by the driver) of the goroutine(s) of an activity *)
Definition site_of (a : activity) : N :=
  match a with
  | AMainLoop => 1 | AStoreListener => 2 | AEventWrite => 3
  | APeersListener | AMessagesListener => 4 | ANewPeer => 5
  | ASyncLoad => 7 | ASnapshotLoad => 18 | AAncestorsLoad | ALoadHeads => 6 | AReplCtxBinder => 8
  | AReplWorkerWaiting | AReplWorkerFetching | AReplWorkerDelivering => 9
  | AReplProgress => 11 | ALegacySubscriber => 12 | AMonitorDirect => 13
  | AWatchPeers => 14 | AWatchMessages => 15 | ADirectTopic => 16
  end%N.

Fixpoint ins_sorted (x : N) (l : list N) : list N :=
  match l with
  | [] => [x]
  | y :: r => if (x <? y)%N then x :: l else if (x =? y)%N then l else y :: ins_sorted x r
  end.
Definition sites (l : list activity) : list N := fold_right (fun a acc => ins_sorted (site_of a) acc) [] l.

Definition base_acts (cfg : config) : list activity :=
  AMainLoop :: (if cf_replicate cfg then [AStoreListener; APeersListener; AMessagesListener] else []).

(** a replication request whose workers are inside a block fetch *)
Definition fetching_acts : list activity := [AReplCtxBinder; AReplWorkerFetching; AReplProgress].

(** the store's background activities at the scripted moments of the driver (what a store of
    configuration [cfg] cannot have started is left out) *)
Definition acts_at (cfg : config) (when : N) : list activity :=
  base_acts cfg ++
  filter (started_by cfg)
    match when with
    | 3 => [ASyncLoad; AReplCtxBinder; AReplWorkerWaiting]
    | 4 => [ASyncLoad; AReplCtxBinder; AReplWorkerFetching]
    | 7 => [ALegacySubscriber]
    | 8 => [ASyncLoad; AReplCtxBinder; AReplWorkerWaiting]
    | 10 => [AWatchPeers; AWatchMessages; ADirectTopic; ANewPeer]
    | 11 => [ASyncLoad; AReplCtxBinder; AReplWorkerDelivering; AReplProgress]
    | 12 => ASyncLoad :: fetching_acts
    | 13 | 16 | 17 => fetching_acts
    | 14 => ASnapshotLoad :: fetching_acts
    | 15 => AAncestorsLoad :: fetching_acts
    | 18 => [ALoadHeads]
    | _ => [AEventWrite]
    end%N.

(** moments at which the whole instance is closed *)
Definition instance_level (when : N) : bool :=
  match when with 6 | 9 | 10 | 17 => true | _ => false end%N.

(** creation sites of the goroutines still there after Close at moment [when]; [cfgs]: the
    configuration of the store (store-level moments) or of every database of the instance *)
Definition predicted_leaks (sw : switches) (cfgs : list config) (when : N) : list N :=
  if instance_level when then
    sites (istuck sw (iclose sw (mkInst (map (fun c => open_store c (acts_at c when)) cfgs) [AMonitorDirect] [])))
  else
    let cfg := hd cfg_default cfgs in
    sites (stuck sw (close sw (open_store cfg (acts_at cfg when)))).

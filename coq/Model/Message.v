(** What happens to a head-exchange message AFTER [json.Unmarshal]:
    [stores/basestore/base_store.go] [pubSubChanListener] and [Sync],
    [baseorbitdb/orbitdb.go] [monitorDirectChannel],
    [baseorbitdb/events_handler.go] [handleEventExchangeHeads].

    [iface.MessageExchangeHeads] is [{Address string; Heads []*entry.Entry}].  Both handlers
    copy the [[]*entry.Entry] into an [[]ipfslog.Entry]: a JSON [null] head becomes a
    typed-nil interface value, for which Go's [h == nil] is FALSE.  The model keeps, of a
    decoded head, exactly what the code looks at before the head is handed to the
    replicator; everything else about the entry (payload, key, signature, version, log id)
    only matters through [d_valid]: does the entry re-encode to the hash it claims. *)
From Orbit Require Export Model.Base.

(** [entry.Identity *identityprovider.Identity] and its [Signatures *IdentitySignature] *)
Inductive dident :=
| IdAbsent      (* "identity" missing or null: nil pointer *)
| IdNoSigs      (* identity present, "signatures" missing or null: nil pointer inside *)
| IdFull.       (* identity and signatures present *)

Record dhead := mkDH {
  d_null     : bool;    (* the head itself is JSON null: nil [*entry.Entry] *)
  d_ident    : dident;
  d_writer   : bool;    (* identity.ID is in the write list (or the list holds "*") *)
  d_verifies : bool;    (* the store's identity provider accepts the identity *)
  d_clock    : bool;    (* "clock" present: non-nil [*LamportClock] *)
  d_clock_id : bool;    (* the clock has a non-empty id ([Defined()]) *)
  d_hash     : bool;    (* "hash" present: [Hash.Defined()] *)
  d_next_nil : bool;    (* [Next == nil] ("next" missing or null) *)
  d_refs_nil : bool;    (* [Refs == nil] *)
  d_valid    : bool     (* [IO().Write] succeeds and yields exactly the claimed hash *)
}.

Definition ident_eqb (a b : dident) : bool :=
  match a, b with
  | IdAbsent, IdAbsent | IdNoSigs, IdNoSigs | IdFull, IdFull => true
  | _, _ => false
  end.

(** A decoded message: is a store open under [Address] on this node, and the heads. *)
Record dmsg := mkDM { m_address_known : bool; m_heads : list dhead }.

(** What [Sync] did when it returned without an error. *)
Inductive sync_result :=
| SNothing                      (* returned nil, no replication started *)
| SStarted (loaded : list dhead). (* [go b.Replicator().Load(ctx, loaded)] *)

(** Result of examining one head inside the loop of [Sync]. *)
Inductive head_step :=
| HSkip        (* [continue]: the head is discarded *)
| HAccept      (* verified: falls through to the next iteration *)
| HReject      (* [return err]: the whole call fails *)
| HPanic (p : panickind).

(** ** The access controller: [accesscontroller/ipfs] [CanAppend], called with the
    store's own identity provider ([b.Identity().Provider]).  Statement by statement:
      key := entry.GetIdentity().ID                      -- nil identity: panic
      for allowed in writeAccess:
        if allowed == key || allowed == "*" { return p.VerifyIdentity(entry.GetIdentity()) }
      return "not allowed"
    The provider of an identity created by [NewOrbitDB] is the "orbitdb" type handler,
    whose [VerifyIdentity] accepts without looking at the identity: nothing else is
    dereferenced here (in particular not [Signatures]), and the entry's own signature is
    not checked at this point (the log's join does that later).
    Precondition: the head is not a nil pointer. *)
Definition can_append (h : dhead) : outcome bool :=
  match d_ident h with
  | IdAbsent => Panic PNilDeref
  | _ => if negb (d_writer h) then Ok false else Ok (d_verifies h)
  end.

(** ** [IO().Write(ctx, ipfs, h, nil)] then the hash comparison.  [jsonable.ToJsonableEntry]
    converts the identity ([id.Signatures.ID]: nil Signatures panic) and the clock
    ([ToJsonableLamportClock(e.GetClock())] calls [l.GetID()] on the pointer: nil clock
    panics).  A write error and a hash mismatch both make [Sync] return an error; an
    undefined claimed hash never matches. *)
Definition write_and_compare (h : dhead) : head_step :=
  match d_ident h with
  | IdNoSigs => HPanic PNilDeref
  | _ =>
    if negb (d_clock h) then HPanic PNilDeref
    else if d_hash h && d_valid h then HAccept
    else HReject
  end.

(** The repaired loop's guard: a head that is a nil pointer, lacks an identity or its
    signatures, lacks a defined clock or a defined hash is skipped before anything
    dereferences it. *)
Definition wellformed (h : dhead) : bool :=
  negb (d_null h) && ident_eqb (d_ident h) IdFull && d_clock h && d_clock_id h && d_hash h.

(** One iteration of the loop in [Sync].
    [validates = false] is the pinned commit:
        if h == nil { continue }          -- never true for a typed nil
        if h.GetNext() == nil { h.SetNext([]) }   -- first dereference: nil head panics
        if h.GetRefs() == nil { h.SetRefs([]) }
        canAppend := AccessController().CanAppend(h, ...) ; if canAppend != nil { continue }
        hash, err := IO().Write(...) ; if err != nil { return err }
        if hash.String() != h.GetHash().String() { return err }
    [validates = true] adds the [wellformed] guard in front. *)
Definition sync_step (validates : bool) (h : dhead) : head_step :=
  if validates && negb (wellformed h) then HSkip
  else if d_null h then HPanic PNilDeref
  else (* next/refs normalised: [d_next_nil], [d_refs_nil] need no case distinction *)
    match can_append h with
    | Panic p => HPanic p
    | Err _ => HSkip
    | Ok false => HSkip
    | Ok true => write_and_compare h
    end.

(** The loop: returns the heads that passed every check, in order. *)
Fixpoint sync_loop (validates : bool) (heads : list dhead) : outcome (list dhead) :=
  match heads with
  | [] => Ok []
  | h :: rest =>
    match sync_step validates h with
    | HPanic p => Panic p
    | HReject => Err EBadInput
    | HSkip => sync_loop validates rest
    | HAccept =>
      match sync_loop validates rest with
      | Ok acc => Ok (h :: acc)
      | o => o
      end
    end
  end.

(** [BaseStore.Sync].  The pinned commit hands the WHOLE list to the replicator once the
    loop is over (heads discarded by [continue] included; [Replicator.Load] only reads
    their hash); the repaired code hands over the verified heads only, and nothing if
    there is none. *)
Definition sync_heads (validates : bool) (heads : list dhead) : outcome sync_result :=
  match heads with
  | [] => Ok SNothing                                   (* if len(heads) == 0 { return nil } *)
  | _ =>
    match sync_loop validates heads with
    | Panic p => Panic p
    | Err e => Err e
    | Ok accepted =>
      if validates then
        match accepted with [] => Ok SNothing | _ => Ok (SStarted accepted) end
      else Ok (SStarted heads)
    end
  end.

(** ** The two handlers.  The argument is [None] when [json.Unmarshal] returned an error
    (logged, message dropped).  [Err] = [Sync] returned an error, which both handlers log
    before going on with the next message. *)

(** [pubSubChanListener]: every store listens on its own topic, so the address field is
    not looked at. *)
Definition handle_topic_msg (validates : bool) (m : option dmsg) : outcome sync_result :=
  match m with
  | None => Ok SNothing
  | Some m =>
    match m_heads m with
    | [] => Ok SNothing                                 (* "Nothing to synchronize" *)
    | hs => sync_heads validates hs
    end
  end.

(** [monitorDirectChannel] -> [getStore(msg.Address)] -> [handleEventExchangeHeads] *)
Definition handle_direct_msg (validates : bool) (m : option dmsg) : outcome sync_result :=
  match m with
  | None => Ok SNothing
  | Some m =>
    if negb (m_address_known m) then Ok SNothing        (* "unable to get store from address" *)
    else match m_heads m with
         | [] => Ok SNothing                            (* len(untypedHeads) > 0 *)
         | hs => sync_heads validates hs
         end
  end.

Inductive channel := ChTopic | ChDirect.

Definition handle_msg (validates : bool) (ch : channel) (m : option dmsg) : outcome sync_result :=
  match ch with
  | ChTopic => handle_topic_msg validates m
  | ChDirect => handle_direct_msg validates m
  end.

(** A node handling a sequence of messages: each listener is a loop around the handler;
    a panic on any goroutine ends the process, so nothing after it is handled. *)
Fixpoint run_msgs (validates : bool) (ms : list (channel * option dmsg)) : list (outcome sync_result) :=
  match ms with
  | [] => []
  | (ch, m) :: rest =>
    let o := handle_msg validates ch m in
    if is_panic o then [o] else o :: run_msgs validates rest
  end.

(** A head that may enter the log: well-formed, authorised, and carrying its own hash. *)
Definition authorised (h : dhead) : bool := d_writer h && d_verifies h.
Definition good (h : dhead) : bool := wellformed h && authorised h && d_valid h.

(** Mechanism switches: the values that match /repo as it stands.  The correspondence
    checks run the models with these values only. *)
From Orbit Require Export Model.Base.

(** documentstore/index.go: the PUTALL branch marks each document's key as handled
    (true) rather than the operation's own key "" (false = the pinned commit). *)
Definition marks_doc_key_current : bool := true.

(** base_store.go recalculateReplicationMax keeps the previous maximum when it is the
    largest (true); false = the pinned commit. *)
Definition max_monotone_current : bool := true.
(** base_store.go LoadFromSnapshot recomputes progress after its join (true); false = pinned. *)
Definition snapshot_progress_current : bool := true.

(** pubsub/oneonone/channel.go monitorTopic forwards only messages published by the
    channel's peer (true); false = the pinned commit (everything but own messages). *)
Definition oneonone_filters_sender_current : bool := true.

(** C13 switches (all repaired on this tree by fix: commits 32e1455, 69804d8, 7aa5c71, f33151f). *)
(** replicator.GetQueue lists the tasks that are not fetched (true); false = pinned: indexes a
    queue-sized slice with the whole task table. *)
Definition c13_sized_by_unfinished_current : bool := true.
(** SaveSnapshot fails on a frame of 64 KiB or more (true); false = pinned: truncated length. *)
Definition c13_reject_oversize_current : bool := true.
(** LoadFromSnapshot resumes the saved queue through the replicator by hash (true); false =
    pinned: Sync on hash-only entries (nil identity dereference). *)
Definition c13_queue_by_hash_current : bool := true.
(** LoadFromSnapshot reads frames with io.ReadFull (true); false = pinned: single Read. *)
Definition c13_read_full_current : bool := true.

(** baseorbitdb DetermineAddress rejects a result whose root differs from the manifest CID
    (true, fix: commit); false = pinned: ".." segments of the name could replace the root. *)
Definition c14_root_checked_current : bool := true.

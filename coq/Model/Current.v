(** Mechanism switches: the values that match /repo as it stands.  The correspondence
    checks run the models with these values only. *)
From Orbit Require Export Model.Base.

(** documentstore/index.go: the PUTALL branch marks each document's key as handled
    (true) rather than the operation's own key "" (false = the pinned commit). *)
Definition marks_doc_key_current : bool := true.

(** base_store.go recalculateReplicationMax keeps the previous maximum when it is the
    largest (true); false = the pinned commit. *)
Definition max_monotone_current : bool := true.
(** base_store.go LoadFromSnapshot recomputes progress after its join (true); false = pinned. *)
Definition snapshot_progress_current : bool := true.

(** pubsub/oneonone/channel.go monitorTopic forwards only messages published by the
    channel's peer (true); false = the pinned commit (everything but own messages). *)
Definition oneonone_filters_sender_current : bool := true.

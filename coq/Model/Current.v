(** Mechanism switches: the values that match /repo as it stands.  The correspondence
    checks run the models with these values only. *)
From Orbit Require Export Model.Base.

(** documentstore/index.go: the PUTALL branch marks each document's key as handled
    (true) rather than the operation's own key "" (false = the pinned commit). *)
Definition marks_doc_key_current : bool := true.

(** base_store.go recalculateReplicationMax keeps the previous maximum when it is the
    largest (true); false = the pinned commit. *)
Definition max_monotone_current : bool := true.
(** base_store.go LoadFromSnapshot recomputes progress after its join (true); false = pinned. *)
Definition snapshot_progress_current : bool := true.

(** pubsub/oneonone/channel.go monitorTopic forwards only messages published by the
    channel's peer (true); false = the pinned commit (everything but own messages). *)
Definition oneonone_filters_sender_current : bool := true.

(** C13 switches (all repaired on this tree by fix: commits 32e1455, 69804d8, 7aa5c71, f33151f). *)
(** replicator.GetQueue lists the tasks that are not fetched (true); false = pinned: indexes a
    queue-sized slice with the whole task table. *)
Definition c13_sized_by_unfinished_current : bool := true.
(** SaveSnapshot fails on a frame of 64 KiB or more (true); false = pinned: truncated length. *)
Definition c13_reject_oversize_current : bool := true.
(** LoadFromSnapshot resumes the saved queue through the replicator by hash (true); false =
    pinned: Sync on hash-only entries (nil identity dereference). *)
Definition c13_queue_by_hash_current : bool := true.
(** LoadFromSnapshot reads frames with io.ReadFull (true); false = pinned: single Read. *)
Definition c13_read_full_current : bool := true.

(** baseorbitdb DetermineAddress rejects a result whose root differs from the manifest CID
    (true, fix: commit); false = pinned: ".." segments of the name could replace the root. *)
Definition c14_root_checked_current : bool := true.

(** baseorbitdb Open with LocalOnly and a Directory option also looks for the database in the
    instance's own directory, where Create records it whatever the option (true, fix:
    commit caa92c5); false = before: a local-only Open with the Directory
    option the database was created with answered "database doesn't exist". *)
Definition c14_open_falls_back_current : bool := true.

(** base_store.go Sync skips heads that are nil / typed-nil or lack identity, signatures,
    clock or hash before dereferencing them, and starts replication for the verified heads
    only (true, fix: commit); false = pinned: nil dereference on {"heads":[null]}, {"heads":[{}]}. *)
Definition sync_validates_heads_current : bool := true.
(** directchannel handleNewPeer compares the uint64 length with the cap before converting
    (true, fix: commit); false = pinned: a length >= 2^63 becomes negative and make() panics. *)
Definition frame_unsigned_cmp_current : bool := true.

(** C15: base_store.go Load treats a non-positive limit as unlimited / never hands Join a size
    larger than the joined log (true, fix: commit c8a932e); false = pinned. *)
Definition c15_normalises_current : bool := true.
(* (since fix e47fbc6 Load joins a head's whole fetched log and trims afterwards when the log is
   longer than the limit: the same results as the clamp whenever the fetcher contract [fetch_ok]
   holds, and no slice out of bounds on logs that lack ancestors) *)
Definition c15_clamps_current : bool := true.

(** C09: a store's write listener ignores EventWrite of other addresses / the replicator has a
    private bus (true, fix: commit 9f1c9ae); false = pinned: shared bus cross-talk. *)
Definition c09_filters_address_current : bool := true.
Definition c09_private_bus_current : bool := true.

(** C03: CanAppend binds the entry key to the claimed identity (true, fix: commit d5f5788);
    C04: a fetched log with a foreign-log head is not joined (true, fix: commit cbfcd97). *)
Definition c03_binds_identity_current : bool := true.
Definition c04_filters_foreign_current : bool := true.

(** C10/C11: the replicator and merge mechanisms of this tree are [rmech_fixed] (Model/Replicator.v):
    loads detached from the caller's context (fix: 0d70572), failed fetches retried (fix: 45dda21),
    merge continues after a rejected log (fix: 34e345b).  Corr/C10.v and Corr/C11.v use it. *)

(** C17: AddOperation's append + persist + index update form one critical section (true, fix:
    commit); false = pinned: only the append is atomic. *)
Definition c17_atomic_current : bool := true.

(** C16: the legacy emitter's fast path also requires that no event taken from the overflow
    list is still waiting to be sent (true, fix: commit); false = pinned: a newer event could
    overtake the held one. *)
Definition c16_tracks_inflight_current : bool := true.

(** C19 (schedules): base_store.go holds a mutex from the reads to the Set of
    recalculateReplicationMax and of recalculateReplicationProgress (true, fix: commit);
    false = before: only the individual Get/Set of the replication info are locked, so
    recalculations issued by the event loop, a local writer and Load interleave. *)
Definition c19_status_atomic_current : bool := true.

(** C16 (store part): BaseStore.updateIndex runs under a mutex of its own, so the read of the
    log and the application of the rebuild of one thread (writer or replication merger) exclude
    those of the others (true, fix: commit 6f0b94a); false = the tree before that repair: a local
    write and the merge of a replicated batch can interleave their rebuilds. *)
Definition c16_index_serialised_current : bool := true.

(** C18 switches (Model/Lifecycle.v [switches]; all repaired on this tree):
    replicator.go processHash: the progress consumer receives until its channel is closed
    (fix: 1bf5760); base_store.go Close calls UnsubscribeAll (fix: d1c24b9); address.go IsValid
    refuses a ".." path segment (fix: ad3ae9b); cacheleveldown Destroy closes a registered cache
    under the lock it holds (fix: d3ca8da).  false = the pinned commit. *)
Definition c18_progress_drains_current : bool := true.
Definition c18_close_unsubscribes_current : bool := true.
Definition c18_rejects_dotdot_current : bool := true.
Definition c18_destroy_inline_current : bool := true.

(** C02 (holes): base_store.go Load, after an unlimited load, hands the link targets of the
    loaded entries that are not in the log to the replicator, which marks the unreachable ones
    failed and retries them with the next request (true, fix: commit "Load hands the ancestors
    it could not load to the replicator"); false = before: a restart forgot the missing
    ancestors of held entries and nothing fetched them any more.  Model/NetHoles.v [rm]. *)
Definition c02_records_missing_current : bool := true.

(** base_store.go Load / LoadFromSnapshot run under a context bound to the store's (true, fix:
    commit d904e98); false = before: a load waiting for a block nobody provides survived Close. *)
Definition c18_load_bound_current : bool := true.
(** cacheleveldown Destroy removes the files of the database's own leveldb directory only (true,
    fix: commit a59cf11); false = before: os.RemoveAll, which took the cache of
    /orbitdb/<root>/a/b along with the one of /orbitdb/<root>/a. *)
Definition c18_destroy_own_files_current : bool := true.

(** C06/C07: kvstore and documentstore UpdateIndex build a new map from the log and install it
    (true, fix: commit 779a73f); false = before: the map was never reset, so keys of entries that
    left the log (Load with a limit on a store holding more) stayed visible. *)
Definition index_rebuild_resets_current : bool := true.

(** cacheleveldown Load hands out the wrapper it registers also when it opens the datastore (true,
    fix: commit 12b0289); false = before: the first Load of a database
    returned the bare leveldb datastore, whose Close left the (now closed) cache registered - a
    database opened with a Directory option other than the instance's directory could be closed
    and reopened only once ("leveldb: closed"). *)
Definition c18_load_registered_current : bool := true.

(** pubsub/pubsubcoreapi WatchPeers diffs each poll against the membership this watcher has
    reported so far, starting from none (true, fix: commit 15c2c64); false = before: against the
    topic's member list, which a previous watcher of the same topic (TopicSubscribe hands out
    the topic it has) left behind: the peers that were there before are never reported. *)
Definition rewatch_fresh_current : bool := true.

(** C09 (joins): a store answers the joins seen on its own topic only - base_store.go
    pubSubChanListener calls the store's own onNewPeerJoined (true); false = a tree on which the
    join is passed around among all the stores of the instance (Model/Joins.v). *)
Definition c09_join_own_topic_current : bool := true.

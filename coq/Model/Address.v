(** Database addresses (baseorbitdb/orbitdb.go DetermineAddress/Create/Open,
    address/address.go, utils/create_db_manifest.go, accesscontroller/...).

    Strings are modelled at SEGMENT level: a string is the list of segments obtained by
    [strings.Split(s, "/")] (never empty: the empty string splits into one empty segment).
    Only four kinds of segment matter to [path.Clean], [strings.TrimPrefix(_, "/orbitdb/")]
    and [cid.Decode]: the empty one, ".", ".." and any other text, which the harness
    interns as a number.  The text "orbitdb" is the token [orbitdb_tok]. *)
From Orbit Require Export Model.Base.
Local Open Scope N_scope.

Inductive seg := SEmpty | SDot | SDotDot | SName (n : N).

Definition seg_eqb (a b : seg) : bool :=
  match a, b with
  | SEmpty, SEmpty | SDot, SDot | SDotDot, SDotDot => true
  | SName x, SName y => x =? y
  | _, _ => false
  end.

Definition segs_eqb : list seg -> list seg -> bool := list_eqb seg_eqb.

(** the segment "orbitdb" *)
Definition orbitdb_tok : N := 0.

(** ** path.Clean of a rooted path, segment level.
    [acc] is the stack of kept segments, innermost first.  Empty and "." segments are
    dropped; ".." removes the previously kept segment, or is dropped at the root. *)
Fixpoint clean_acc (acc : list seg) (l : list seg) : list seg :=
  match l with
  | [] => rev acc
  | SEmpty :: r => clean_acc acc r
  | SDot :: r => clean_acc acc r
  | SDotDot :: r => clean_acc (tl acc) r
  | SName n :: r => clean_acc (SName n :: acc) r
  end.

Definition clean_rooted (l : list seg) : list seg := clean_acc [] l.

(** path.Join("/orbitdb", root, name): the non-empty elements joined by "/" and cleaned. *)
Definition join_orbitdb (root : N) (name : list seg) : list seg :=
  clean_rooted (SName orbitdb_tok :: SName root :: name).

(** The cleaned rooted path printed ("/" followed by the segments joined by "/") and split
    again on "/": a leading empty segment, and "/" alone splits into two empty segments. *)
Definition print_rooted (cs : list seg) : list seg :=
  SEmpty :: match cs with [] => [SEmpty] | _ => cs end.

(** strings.TrimPrefix(s, "/orbitdb/") on the split form: the prefix is there exactly when
    the first segment is empty, the second is "orbitdb" and a third one exists. *)
Definition trim_orbitdb (s : list seg) : list seg :=
  match s with
  | SEmpty :: SName o :: ((_ :: _) as r) => if o =? orbitdb_tok then r else s
  | _ => s
  end.

(** strings.Join(parts[1:], "/") as a string in split form: the empty string is [[]]. *)
Definition norm_path (p : list seg) : list seg :=
  match p with [SEmpty] => [] | _ => p end.

Definition all_names (l : list seg) : bool :=
  forallb (fun s => match s with SName _ => true | _ => false end) l.

(** no part is ".." (address.go IsValid: [for _, part := range parts[1:] { if part == ".." ...]) *)
Definition no_dotdot (l : list seg) : bool :=
  forallb (fun s => match s with SDotDot => false | _ => true end) l.

(** ** Create/Open decision table (orbitdb.go Create and Open around haveLocalData). *)
Inductive decision := Refused | Proceeds.

Definition decision_eqb (a b : decision) : bool :=
  match a, b with Refused, Refused | Proceeds, Proceeds => true | _, _ => false end.

(** Create: "database ... already exists" when the local marker is present and overwrite
    is not requested. *)
Definition create_decision (have overwrite : bool) : decision :=
  if have && negb overwrite then Refused else Proceeds.

(** Open: "database doesn't exist" when local-only is requested and the marker is absent. *)
Definition open_decision (have local_only : bool) : decision :=
  if local_only && negb have then Refused else Proceeds.

(** One instance's local marker for one address, along a sequence of operations.
    Create writes the marker (addManifestToCache) when it proceeds; Open never does. *)
Inductive lop := LCreate (overwrite : bool) | LOpen (local_only : bool).

Definition lstep (have : bool) (o : lop) : decision * bool :=
  match o with
  | LCreate ow =>
    match create_decision have ow with
    | Refused => (Refused, have)
    | Proceeds => (Proceeds, true)
    end
  | LOpen lo => (open_decision have lo, have)
  end.

Fixpoint lrun (have : bool) (ops : list lop) : list decision :=
  match ops with
  | [] => []
  | o :: r => let '(d, h) := lstep have o in d :: lrun h r
  end.

(** ** The same table with the places where local data can live.

    [CreateDBOptions.Directory] can be left unset, name the instance's own directory, or name
    another one; the instance itself keeps its data on disk or in memory
    ([NewOrbitDBOptions.Directory] nil or ":memory:").  What the code does (orbitdb.go):
    - [Create] looks for the marker, and records it, in the cache of the INSTANCE directory
      whatever the option says ([loadCache(o.directory, ...)], [addManifestToCache(ctx, o.directory, ...)]);
      [createStore] takes the store's cache from the instance directory too;
    - [Open] looks for the marker in the cache of the option's directory when one is given
      ([directory = *options.Directory]).  Nothing ever records a marker there.  With
      [falls_back] (true = the code as it stands, [c14_open_falls_back_current]; false = before
      that repair) a local-only Open that does not find the marker there also looks where Create
      records it;
    - the cache of an instance in memory is an in-memory leveldb that is discarded when a store
      holding it is closed ([wrappedCache.Close]): the marker goes with it.  On disk closing
      changes nothing. *)
Inductive dopt := DUnset | DInst | DOther (k : N).

(** does the option designate the instance's own directory? *)
Definition dopt_is_instance (d : dopt) : bool :=
  match d with DOther _ => false | _ => true end.

Inductive dop :=
| DCreate (overwrite : bool) (d : dopt)
| DOpen (local_only : bool) (d : dopt)
| DCloseAll.   (* every handle of the database held so far is closed *)

(** the marker as Open sees it; [have] = the marker is in the cache of the instance directory *)
Definition open_sees (falls_back have : bool) (d : dopt) : bool :=
  if dopt_is_instance d then have else falls_back && have.

Definition dstep (falls_back memory have : bool) (o : dop) : decision * bool :=
  match o with
  | DCreate ow _ =>
    match create_decision have ow with
    | Refused => (Refused, have)
    | Proceeds => (Proceeds, true)
    end
  | DOpen lo d => (open_decision (open_sees falls_back have d) lo, have)
  | DCloseAll => (Proceeds, have && negb memory)
  end.

Fixpoint drun (falls_back memory have : bool) (ops : list dop) : list decision :=
  match ops with
  | [] => []
  | o :: r => let '(d, h) := dstep falls_back memory have o in d :: drun falls_back memory h r
  end.

(** forgetting the directories / the plain table as a special case *)
Definition undir (o : dop) : dop :=
  match o with
  | DCreate ow _ => DCreate ow DUnset
  | DOpen lo _ => DOpen lo DUnset
  | DCloseAll => DCloseAll
  end.
Definition dop_of_lop (o : lop) : dop :=
  match o with LCreate ow => DCreate ow DUnset | LOpen lo => DOpen lo DUnset end.

(** The property, on the outcomes observed for one instance and one address it did not know
    before (0 = proceeded, 1 = refused by the local-presence rule, 2 = any other error),
    WHATEVER the Directory options were: a create is refused by the presence rule exactly when
    this instance created the database before (and, in memory, has not closed it since) and
    overwrite is off; a local-only open is refused when the instance has nothing of the
    database, and not refused when it created it; closing succeeds.
    [have] = created here, [seen] = some operation succeeded here. *)
Fixpoint dlocal_ok (memory have seen : bool) (ops : list dop) (obs : list N) : bool :=
  match ops, obs with
  | [], [] => true
  | DCreate ow _ :: r, o :: q =>
    (if have && negb ow then o =? 1 else negb (o =? 1)) &&
    dlocal_ok memory (have || (o =? 0)) (seen || (o =? 0)) r q
  | DOpen lo _ :: r, o :: q =>
    (if lo && negb seen then o =? 1 else if have || negb lo then negb (o =? 1) else true) &&
    dlocal_ok memory have (seen || (o =? 0)) r q
  | DCloseAll :: r, o :: q =>
    (o =? 0) && dlocal_ok memory (have && negb memory) (seen && negb memory) r q
  | _, _ => false
  end.

Definition decision_code (d : decision) : N := match d with Proceeds => 0 | Refused => 1 end.

Section Address.
  (** address.go IsValid (hence Parse) refuses an address one of whose parts after the root
      is "..": true = the code as it stands (fix: commit ad3ae9b), false = the pinned commit.
      The test is made on the RAW parts [strings.Split(strings.TrimPrefix(s, "/orbitdb/"), "/")[1:]],
      before anything is cleaned or joined, and after the root has been decoded. *)
  Variable rejects_dotdot : bool.
  (** [cid.Decode] followed by [Cid.String()]: [Some c] when the segment text decodes as a
      CID, [c] being the token of its canonical text (the same token for the canonical
      form itself). *)
  Variable cid_decode : N -> option N.
  (** CID of the saved access-controller parameters (write list), and of the database
      manifest {name, type, access-controller address}. *)
  Variable Hac : list N -> N.
  Variable H : list seg * N * N -> N.
  (** registered store types *)
  Variable types : list N.

  Definition is_cid (n : N) : bool :=
    match cid_decode n with Some _ => true | None => false end.

  (** address.Parse on a string in split form; address.IsValid succeeds exactly when it does. *)
  Definition parse_split (s : list seg) : outcome (N * list seg) :=
    match trim_orbitdb s with
    | SName x :: rest =>
      match cid_decode x with
      | Some c =>
        if rejects_dotdot && negb (no_dotdot rest) then Err EBadInput
        else Ok (c, norm_path rest)
      | None => Err EBadInput
      end
    | _ => Err EBadInput
    end.

  Definition is_valid (s : list seg) : bool := is_ok (parse_split s).

  (** address.String() (split form) and address.Parse of it *)
  Definition addr_string (a : N * list seg) : list seg :=
    print_rooted (join_orbitdb (fst a) (snd a)).
  Definition addr_parse (s : list seg) : outcome (N * list seg) := parse_split s.

  (** accesscontroller_ipfs.go NewIPFSAccessController: an empty write list becomes the
      creator's identity id. *)
  Definition effective_write (creator : N) (w : list N) : list N :=
    match w with [] => [creator] | _ => w end.

  Definition manifest_cid (creator : N) (name : list seg) (typ : N) (w : list N) : N :=
    H (name, typ, Hac (effective_write creator w)).

  (** error classes of DetermineAddress *)
  Definition e_unknown_type := @Err (N * list seg) ENotFound.   (* "invalid database type" *)
  Definition e_name_is_address := @Err (N * list seg) EDenied.  (* "given database name is an address" *)
  Definition e_not_an_address := @Err (N * list seg) EBadInput. (* address.Parse failed *)
  Definition e_root_mismatch := @Err (N * list seg) EOther.     (* repaired code only *)

  (** DetermineAddress.  [root_checked] = the result is rejected when its root is not the
      CID of the manifest just written (false = the commit under verification).
      [rejects_dotdot] acts twice: a name of the form <cid>/.../.. is no longer an address
      (so it is not refused as one: path.Join then cleans the ".." away), and the final
      Parse sees a cleaned path, which has no ".." left. *)
  Definition determine_address (root_checked : bool) (creator : N)
             (name : list seg) (typ : N) (w : list N) : outcome (N * list seg) :=
    if negb (memN typ types) then e_unknown_type
    else if is_valid name then e_name_is_address
    else
      let m := manifest_cid creator name typ w in
      match parse_split (print_rooted (join_orbitdb m name)) with
      | Ok (r, p) =>
        if root_checked && negb (r =? m) then e_root_mismatch else Ok (r, p)
      | _ => e_not_an_address
      end.
End Address.

(** Transport adapters: membership diffing ([pubsubcoreapi.peersDiff]), self-message
    filtering, pairwise channel naming ([oneonone.getChannelID]). *)
From Orbit Require Export Model.Base.

Inductive pevent := PJoin (p : N) | PLeave (p : N).

(** one poll: joining = new \ old (in the order of [new]); leaving = old \ new *)
Definition peers_diff (old new : list N) : list N * list N :=
  (filter (fun p => negb (memN p old)) new, filter (fun p => negb (memN p new)) old).

Definition poll_events (old new : list N) : list pevent :=
  let '(j, l) := peers_diff old new in map PJoin j ++ map PLeave l.

(** WatchPeers over a sequence of membership snapshots, starting from no members *)
Fixpoint watch (old : list N) (snaps : list (list N)) : list pevent :=
  match snaps with
  | [] => []
  | s :: rest => poll_events old s ++ watch s rest
  end.

(** replay of the emitted events as a membership set *)
Definition apply_event (m : list N) (e : pevent) : list N :=
  match e with
  | PJoin p => if memN p m then m else m ++ [p]
  | PLeave p => filter (fun q => negb (q =? p)%N) m
  end.

(** message forwarding with the self filter: (sender, payload) pairs *)
Definition forward (self : N) (msgs : list (N * bytes)) : list (N * bytes) :=
  filter (fun m => negb (fst m =? self)%N) msgs.

(** channel id from two peer-id strings: sorted ascending then joined.
    Peer ids are byte strings; comparison is lexicographic ([strings.Compare]). *)
Fixpoint bytes_ltb (a b : bytes) : bool :=
  match a, b with
  | [], [] => false
  | [], _ :: _ => true
  | _ :: _, [] => false
  | x :: a', y :: b' => if (x <? y)%N then true else if (y <? x)%N then false else bytes_ltb a' b'
  end.

Definition channel_id (self other : bytes) : bytes * bytes :=
  (* sort.Slice on a 2-element slice with less = Compare < 0 *)
  if bytes_ltb other self then (other, self) else (self, other).

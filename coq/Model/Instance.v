(** Several databases opened by one OrbitDB instance ([baseorbitdb/orbitdb.go createStore]
    hands the instance's event bus to every store it creates) as one small executable
    model: k stores, store i owning log i, topic i and address i.

    What travels on the shared bus:
    - [stores.EventWrite] emitted by [AddOperation] of the writing store; every store's
      write listener ([base_store.go storeListener/handleEventWrite]) receives it and
      publishes the event's heads on ITS OWN topic under ITS OWN address;
    - the replicator's [EventLoadAdded] / [EventLoadProgress] / [EventLoadEnd]
      ([replicator.go generateEmitter]); every store's main loop ([InitBaseStore])
      receives them and recalculates ITS status, rewrites ITS [_remoteHeads] cache and
      emits [EventReplicate] / [EventReplicateProgress] / [EventReplicated] under ITS
      address with the foreign entries.

    Two switches describe the repair:
    - [filters_address]: a store's write listener ignores write events of other addresses;
    - [private_bus]: a store's main loop only sees its own replicator's events. *)
From Orbit Require Export Model.Status.

Record imech := mkIM {
  filters_address : bool;
  private_bus     : bool;
  im_max_monotone : bool   (* see [Model.Status.recalc_max] *)
}.

(** the tree as pinned / as repaired (status arithmetic as repaired in both) *)
Definition imech_shared : imech := mkIM false false true.
Definition imech_isolated : imech := mkIM true true true.

(** Store events, recorded at the store under whose address they are emitted. *)
Inductive sevent :=
| SeWrite (heads : list N)        (* stores.EventWrite: heads after the append *)
| SeReplicate (h : N)             (* stores.EventReplicate: an announced head was queued *)
| SeProgress (e : N)              (* stores.EventReplicateProgress: an entry was fetched *)
| SeReplicated (batch : list N).  (* stores.EventReplicated: entries of the merged batch *)

Record store := mkSt {
  st_log    : list N;                   (* entries of the store's log *)
  st_heads  : list N;                   (* its heads *)
  st_status : status;                   (* replication progress / maximum *)
  st_cache  : list N;                   (* the [_remoteHeads] cache ([] = absent or empty) *)
  st_events : list sevent;              (* events emitted under this store's address, oldest first *)
  st_pub    : list (nat * list N)       (* payloads published on this store's topic: (address in payload, heads) *)
}.

Definition store0 : store := mkSt [] [] status0 [] [] [].

(** The instance: store i is element i. *)
Definition inst := list store.
Definition init (k : nat) : inst := repeat store0 k.

Inductive iop :=
| IWrite (j : nat) (e : N) (t : Z)              (* store j appends entry e with Lamport time t *)
| ILoadAdded (j : nat) (h : N) (t : Z)          (* replicator j queued announced head h with clock t *)
| ILoadProgress (j : nat) (e : N) (t : Z)       (* replicator j fetched entry e (time t) *)
| ILoadEnd (j : nat) (batch heads : list N)     (* replicator j finished fetching [batch] (entries of database j);
                                                   [heads] = heads of log j after the join (the join itself is
                                                   modelled in Model.Log) *)
| ILoad (j : nat) (ts : list Z).                (* store j's Load: one status recalculation per cached head *)

Definition target (op : iop) : nat :=
  match op with
  | IWrite j _ _ | ILoadAdded j _ _ | ILoadProgress j _ _ | ILoadEnd j _ _ | ILoad j _ => j
  end.
Definition targets (j : nat) (op : iop) : bool := (target op =? j)%nat.

Definition st_len (s : store) : Z := Z.of_nat (length (st_log s)).

Definition set_status (s : store) (x : status) : store :=
  mkSt (st_log s) (st_heads s) x (st_cache s) (st_events s) (st_pub s).
Definition add_event (s : store) (e : sevent) : store :=
  mkSt (st_log s) (st_heads s) (st_status s) (st_cache s) (st_events s ++ [e]) (st_pub s).
Definition add_pub (s : store) (addr : nat) (heads : list N) : store :=
  mkSt (st_log s) (st_heads s) (st_status s) (st_cache s) (st_events s) (st_pub s ++ [(addr, heads)]).

(** AddOperation: append, recalculate the status with the entry's time, emit EventWrite. *)
Definition do_write (mm : bool) (e : N) (t : Z) (s : store) : store :=
  let log' := st_log s ++ [e] in
  mkSt log' [e] (recalc_status mm (Z.of_nat (length log')) (st_status s) t)
       (st_cache s) (st_events s ++ [SeWrite [e]]) (st_pub s).

(** main loop, EventLoadAdded *)
Definition on_added (mm : bool) (h : N) (t : Z) (s : store) : store :=
  add_event (set_status s (recalc_max mm (st_len s) (st_status s) t)) (SeReplicate h).

(** main loop, EventLoadProgress *)
Definition on_progress (mm : bool) (e : N) (t : Z) (s : store) : store :=
  add_event (set_status s (recalc_status mm (st_len s) (st_status s) t)) (SeProgress e).

(** main loop, EventLoadEnd -> replicationLoadComplete.  [own]: the fetched logs carry this
    store's log id, so the join takes their entries; a log with another id is skipped by
    the join WITHOUT an error, so its entries are still reported in EventReplicated, the
    cache is still rewritten (with the store's own current heads) and the status rule runs. *)
Definition on_end (mm own : bool) (batch heads : list N) (s : store) : store :=
  let log' := if own then st_log s ++ filter (fun e => negb (memN e (st_log s))) batch else st_log s in
  let heads' := if own then heads else st_heads s in
  let l := Z.of_nat (length log') in
  let x := if s_progress (st_status s) <? l then recalc_status mm l (st_status s) l else st_status s in
  mkSt log' heads' x heads' (st_events s ++ [SeReplicated batch]) (st_pub s).

Definition do_load (mm : bool) (ts : list Z) (s : store) : store :=
  set_status s (fold_left (fun x t => recalc_status mm (st_len s) x t) ts (st_status s)).

(** What store [i] does when the instance performs [op]. *)
Definition handle (m : imech) (op : iop) (i : nat) (s : store) : store :=
  let mm := im_max_monotone m in
  match op with
  | IWrite j e t =>
    let s1 := if (i =? j)%nat then do_write mm e t s else s in
    (* the write listener of store i received EventWrite(address j, heads [e]) *)
    if (i =? j)%nat || negb (filters_address m) then add_pub s1 i [e] else s1
  | ILoadAdded j h t =>
    if (i =? j)%nat || negb (private_bus m) then on_added mm h t s else s
  | ILoadProgress j e t =>
    if (i =? j)%nat || negb (private_bus m) then on_progress mm e t s else s
  | ILoadEnd j batch heads =>
    if (i =? j)%nat || negb (private_bus m) then on_end mm (i =? j)%nat batch heads s else s
  | ILoad j ts =>
    if (i =? j)%nat then do_load mm ts s else s
  end.

Fixpoint mapi_from {A B} (f : nat -> A -> B) (n : nat) (l : list A) : list B :=
  match l with
  | [] => []
  | a :: r => f n a :: mapi_from f (S n) r
  end.
Definition mapi {A B} (f : nat -> A -> B) (l : list A) : list B := mapi_from f 0 l.

(** Total step: an operation on a database that is not open does nothing. *)
Definition istep (m : imech) (s : inst) (op : iop) : inst :=
  if (target op <? length s)%nat then mapi (handle m op) s else s.

Definition run (m : imech) (ops : list iop) (s : inst) : inst := fold_left (istep m) ops s.

(** Every payload published so far, as the network sees it: (topic, address in payload, heads). *)
Definition payload := (nat * nat * list N)%type.
Definition published (s : inst) : list payload :=
  concat (mapi (fun i st => map (fun p => (i, fst p, snd p)) (st_pub st)) s).

Definition on_topic (j : nat) (p : payload) : bool := (fst (fst p) =? j)%nat.

(** Everything observable about database j: its store (log, heads, status, cache, the
    events emitted under its address) and the payloads published on its topic. *)
Definition proj (j : nat) (s : inst) : option store * list payload :=
  (nth_error s j, filter (on_topic j) (published s)).

(** entry e was written to database j by one of [ops] *)
Definition written (j : nat) (e : N) (ops : list iop) : Prop := exists t, In (IWrite j e t) ops.

(** Replication status arithmetic of [stores/basestore/base_store.go]:
    recalculateReplicationMax / Progress / Status and the events that trigger them. *)
From Orbit Require Export Model.Base.

Record status := mkS { s_progress : Z; s_max : Z }.
Definition status0 : status := mkS 0 0.

(** [max_monotone]: the maximum is the largest of log length, announced value and the
    previous maximum (true); false = the pinned commit, where a log length larger than
    the announced value overwrites a larger previous maximum. *)
Definition recalc_max (max_monotone : bool) (len : Z) (s : status) (m : Z) : status :=
  let m' :=
      if max_monotone then Z.max len (Z.max m (s_max s))
      else if m <? len then len else if m <? s_max s then s_max s else m in
  mkS (s_progress s) m'.

Definition recalc_progress (len : Z) (s : status) : status :=
  let p0 := if s_progress s + 1 <? s_max s then s_progress s + 1 else s_max s in
  let p := if p0 <? len then len else p0 in
  mkS p (s_max s).

Definition recalc_status (mm : bool) (len : Z) (s : status) (m : Z) : status :=
  recalc_progress len (recalc_max mm len s m).

(** Events that touch the status; [len] is the log length at that moment. *)
Inductive sev :=
| EvWrite (t len : Z)          (* AddOperation after the append: status(t) *)
| EvLoadAdded (t len : Z)      (* replicator queued an announced head: max(t) only *)
| EvProgress (t len : Z)       (* an entry was fetched (replication or Load): status(t) *)
| EvMerged (len : Z)           (* replicationLoadComplete after the joins: if len > progress then status(len) *)
| EvSnapshot (maxclock len_before len_after : Z).   (* LoadFromSnapshot *)

(** [snap_progress]: LoadFromSnapshot calls recalculateReplicationStatus after its join
    (true); false = the pinned commit: only the maximum is raised, before the join. *)
Definition status_step (mm snap_progress : bool) (s : status) (e : sev) : status :=
  match e with
  | EvWrite t len => recalc_status mm len s t
  | EvLoadAdded t len => recalc_max mm len s t
  | EvProgress t len => recalc_status mm len s t
  | EvMerged len => if s_progress s <? len then recalc_status mm len s len else s
  | EvSnapshot mc lb la =>
    let s1 := recalc_max mm lb s mc in
    if snap_progress then
      (* the status is recomputed once more after the join, as Load does per head *)
      recalc_status mm la s1 mc
    else s1
  end.

Definition ev_len (e : sev) : Z :=
  match e with
  | EvWrite _ l | EvLoadAdded _ l | EvProgress _ l | EvMerged l => l
  | EvSnapshot _ _ la => la
  end.
Definition ev_len_before (e : sev) : Z :=
  match e with EvSnapshot _ lb _ => lb | _ => ev_len e end.
Definition ev_time (e : sev) : Z :=
  match e with
  | EvWrite t _ | EvLoadAdded t _ | EvProgress t _ => t
  | EvMerged l => l
  | EvSnapshot mc _ _ => mc
  end.

Definition run_status (mm sp : bool) (evs : list sev) (s : status) : status :=
  fold_left (status_step mm sp) evs s.

(** all intermediate states, oldest first (for "never decreases") *)
Fixpoint trace_status (mm sp : bool) (evs : list sev) (s : status) : list status :=
  match evs with
  | [] => [s]
  | e :: r => s :: trace_status mm sp r (status_step mm sp s e)
  end.

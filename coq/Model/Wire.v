(** Byte-level codecs: the direct channel's uvarint-framed messages
    ([pubsub/directchannel/channel.go], Go [encoding/binary] Uvarint) and the snapshot's
    16-bit length-prefixed frames ([stores/basestore/utils.go], [LoadFromSnapshot]). *)
From Orbit Require Export Model.Base.
Open Scope N_scope.

Definition two64 : N := 18446744073709551616.
Definition two63 : N := 9223372036854775808.
Definition frame_cap : N := 4194304.          (* DelimitedReadMaxSize = 4 MiB *)

(** [binary.PutUvarint] *)
Fixpoint put_uvarint_fuel (fuel : nat) (x : N) : bytes :=
  match fuel with
  | O => [x mod 256]
  | S f => if x <? 128 then [x] else (x mod 128 + 128) :: put_uvarint_fuel f (x / 128)
  end.
Definition put_uvarint (x : N) : bytes := put_uvarint_fuel 10 x.

Inductive rderr := RdEOF | RdUnexpectedEOF | RdOverflow.

(** [binary.ReadUvarint]: at most 10 bytes; the 10th may only be 0 or 1.
    [i] counts bytes consumed so far, [x] the accumulated value, [s] the shift. *)
Fixpoint read_uvarint_loop (fuel : nat) (i : N) (x s : N) (bs : bytes) : (N * bytes) + rderr :=
  match fuel with
  | O => inr RdOverflow
  | S f =>
    match bs with
    | [] => inr (if i =? 0 then RdEOF else RdUnexpectedEOF)
    | b :: rest =>
      if b <? 128 then
        if (i =? 9) && (1 <? b) then inr RdOverflow
        else inl (x + b * 2 ^ s, rest)
      else read_uvarint_loop f (i + 1) (x + (b mod 128) * 2 ^ s) (s + 7) rest
    end
  end.
Definition read_uvarint (bs : bytes) : (N * bytes) + rderr := read_uvarint_loop 10 0 0 0 bs.

(** [int(uint64)] on a 64-bit platform: two's complement reinterpretation *)
Definition to_int64 (x : N) : Z := if x <? two63 then Z.of_N x else (Z.of_N x - Z.of_N two64)%Z.

Definition frame_encode (p : bytes) : bytes := put_uvarint (N.of_nat (length p)) ++ p.

(** [handleNewPeer].  [unsigned_cmp]: the size limit is checked on the unsigned value
    (true); false = the pinned commit: checked after the conversion to [int], so a
    length >= 2^63 becomes negative, passes, and [make] panics. *)
Definition frame_decode (unsigned_cmp : bool) (bs : bytes) : outcome bytes :=
  match read_uvarint bs with
  | inr _ => Err EBadInput
  | inl (len64, rest) =>
    if unsigned_cmp && (frame_cap <? len64) then Err EBadInput else
    let len := to_int64 len64 in
    if (Z.of_N frame_cap <? len)%Z then Err EBadInput
    else if (len <? 0)%Z then Panic PMakeLen
    else if N.of_nat (length rest) <? len64 then Err EBadInput    (* io.ReadFull: short read *)
    else Ok (firstn (N.to_nat len64) rest)
  end.

(** * Snapshot frames *)

Definition u16_bytes (n : N) : bytes := [(n / 256) mod 256; n mod 256].   (* uint16(n), big endian *)

(** [SaveSnapshot]: header then entries, each with a 16-bit length prefix, then a 0 byte.
    [reject_oversize]: a frame of 64 KiB or more makes saving fail (true); false = the
    pinned commit: the length is silently truncated. *)
Definition snap_frame (f : bytes) : bytes := u16_bytes (N.of_nat (length f)) ++ f.

Definition snap_encode (reject_oversize : bool) (frames : list bytes) : outcome bytes :=
  if reject_oversize && existsb (fun f => 65536 <=? N.of_nat (length f)) frames then Err EBadInput
  else Ok (flat_map snap_frame frames ++ [0]).

(** [LoadFromSnapshot] reads [count] frames (header first, then header.Size entries). *)
Fixpoint snap_decode (count : nat) (bs : bytes) : option (list bytes) :=
  match count with
  | O => Some []
  | S c =>
    match bs with
    | hi :: lo :: rest =>
      let len := N.to_nat (hi * 256 + lo) in
      if (length rest <? len)%nat then None
      else match snap_decode c (skipn len rest) with
           | Some fs => Some (firstn len rest :: fs)
           | None => None
           end
    | _ => None
    end
  end.

(** [Replicator.GetQueue].  [sized_by_unfinished]: the result lists the unfinished
    tasks (true); false = the pinned commit: a slice sized by the queue is indexed while
    ranging over the whole (never garbage-collected) task table. *)
Definition get_queue (sized_by_unfinished : bool) (queue_len : nat) (tasks : list (N * N)) : outcome (list N) :=
  (* tasks: (hash, state) with state 0 added, 1 fetching, 2 fetched, 3 failed *)
  if sized_by_unfinished then Ok (map fst (filter (fun t => negb (snd t =? 2)) tasks))
  else if (queue_len <? length tasks)%nat then Panic PIndexRange
  else Ok (map fst tasks ++ repeat 0 (queue_len - length tasks)).
Close Scope N_scope.

(** The legacy per-subscriber emitter ([events/events.go handleSubscriber]) as a
    labelled transition system: goroutine G1 moves bus events into a bounded channel or,
    when the channel is full or the overflow queue is non-empty, into the overflow queue;
    goroutine G2 drains the overflow queue into the channel; the consumer reads the channel. *)
From Orbit Require Export Model.Base.

Record est := mkE {
  e_pending : list N;        (* events emitted on the bus, not yet taken by G1 (FIFO) *)
  e_chan    : list N;        (* the buffered channel cevent (FIFO), capacity [cap] *)
  e_queue   : list N;        (* overflow list *)
  e_hold    : option N;      (* event G2 removed from the list and has not sent yet *)
  e_out     : list N         (* events the consumer received, oldest first *)
}.

Inductive elabel :=
| LEmit (x : N)     (* a new event is emitted on the bus *)
| LG1               (* G1 takes the next bus event and routes it *)
| LG2Take           (* G2 removes the head of the overflow list (under the mutex) *)
| LG2Send           (* G2 sends the held event into the channel (blocks while full) *)
| LConsume.         (* the consumer receives one event *)

(** [tracks_inflight]: G1 treats an event held by G2 as still queued (true); false = the
    pinned commit: G1 looks only at the list, so it can overtake the held event. *)
Definition estep (tracks_inflight : bool) (cap : nat) (s : est) (l : elabel) : option est :=
  match l with
  | LEmit x => Some (mkE (e_pending s ++ [x]) (e_chan s) (e_queue s) (e_hold s) (e_out s))
  | LG1 =>
    match e_pending s with
    | [] => None
    | x :: rest =>
      let queue_empty :=
          match e_queue s with
          | [] => if tracks_inflight then match e_hold s with None => true | Some _ => false end else true
          | _ => false
          end in
      if queue_empty && (length (e_chan s) <? cap)%nat
      then Some (mkE rest (e_chan s ++ [x]) (e_queue s) (e_hold s) (e_out s))
      else Some (mkE rest (e_chan s) (e_queue s ++ [x]) (e_hold s) (e_out s))
    end
  | LG2Take =>
    match e_hold s, e_queue s with
    | None, x :: q => Some (mkE (e_pending s) (e_chan s) q (Some x) (e_out s))
    | _, _ => None
    end
  | LG2Send =>
    match e_hold s with
    | Some x => if (length (e_chan s) <? cap)%nat
                then Some (mkE (e_pending s) (e_chan s ++ [x]) (e_queue s) None (e_out s))
                else None
    | None => None
    end
  | LConsume =>
    match e_chan s with
    | x :: c => Some (mkE (e_pending s) c (e_queue s) (e_hold s) (e_out s ++ [x]))
    | [] => None
    end
  end.

Definition einit : est := mkE [] [] [] None [].

(** run a schedule; disabled labels are skipped (the thread was not runnable) *)
Definition erun (ti : bool) (cap : nat) (sched : list elabel) (s : est) : est :=
  fold_left (fun s l => match estep ti cap s l with Some s' => s' | None => s end) sched s.

Definition emitted (sched : list elabel) : list N :=
  flat_map (fun l => match l with LEmit x => [x] | _ => [] end) sched.

(** everything in flight, in delivery order, when G1 respects the held event *)
Definition inflight (s : est) : list N :=
  e_chan s ++ (match e_hold s with Some x => [x] | None => [] end) ++ e_queue s ++ e_pending s.

Definition quiescent (s : est) : Prop :=
  e_pending s = [] /\ e_chan s = [] /\ e_queue s = [] /\ e_hold s = None.

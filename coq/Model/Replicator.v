(** The replicator's task table and worker pool ([stores/replicator/replicator.go]) together
    with the store's merge of load-end batches ([base_store.go replicationLoadComplete]),
    as a labelled transition system.  A label names which thread moves, so a schedule is a
    list of labels and "every interleaving / cancellation point / fetch-completion order"
    is a universally quantified list. *)
From Orbit Require Export Model.Base.

(** The universe of entries that exist on the network: hash, links (next ∪ refs) and
    whether the entry is acceptable to the store's log (authorised, well signed, right
    database).  Fetching by hash returns exactly this record. *)
Record uent := mkU { u_hash : N; u_links : list N; u_valid : bool }.

Fixpoint ufind (h : N) (U : list uent) : option uent :=
  match U with
  | [] => None
  | e :: r => if (u_hash e =? h)%N then Some e else ufind h r
  end.

Inductive tstate := TAdded | TFetching | TFetched | TFailed.

(** a worker goroutine: the context it runs under, the item it was spawned for (only
    meaningful when workers own their item) and where it is *)
Inductive wpos := WWait | WFetch (h : N).
Record worker := mkWk { wk_ctx : N; wk_item : N; wk_pos : wpos }.

Record rst := mkRS {
  r_tasks   : list (N * tstate);
  r_queue   : list N;
  r_workers : list worker;
  r_slots   : nat;                 (* free semaphore slots *)
  r_buffer  : list (option N);     (* fetched single-entry logs: Some h, or None = empty log of a failed fetch (pinned commit only: with m_retry nothing is buffered for a failed fetch) *)
  r_pending : list (list (option N));  (* load-end batches emitted, not yet merged (FIFO) *)
  r_cancel  : list N;              (* cancelled contexts *)
  r_log     : list N               (* hashes in the store's log *)
}.

Definition rinit (slots : nat) (log : list N) : rst := mkRS [] [] [] slots [] [] [] log.

Record rmech := mkRM {
  m_detach : bool;  (* background loads are detached from the caller's context: cancelling it has no effect on workers *)
  m_retry  : bool;  (* a fetch that yielded nothing marks the task failed, and every later Load retries failed tasks *)
  m_cont   : bool   (* the merge continues after a rejected log *)
}.
(** the pinned commit *)
Definition rmech_pinned : rmech := mkRM false false false.
Definition rmech_fixed : rmech := mkRM true true true.

Fixpoint tget (h : N) (t : list (N * tstate)) : option tstate :=
  match t with
  | [] => None
  | (k, s) :: r => if (k =? h)%N then Some s else tget h r
  end.
Fixpoint tset (h : N) (s : tstate) (t : list (N * tstate)) : list (N * tstate) :=
  match t with
  | [] => [(h, s)]
  | (k, s0) :: r => if (k =? h)%N then (k, s) :: r else (k, s0) :: tset h s r
  end.
Definition tdel (h : N) (t : list (N * tstate)) : list (N * tstate) :=
  filter (fun p => negb (fst p =? h)%N) t.

Fixpoint remove_first (h : N) (l : list N) : list N :=
  match l with
  | [] => []
  | x :: r => if (x =? h)%N then r else x :: remove_first h r
  end.

(** AddEntryToQueue / AddHashToQueue + one new worker per newly queued item *)
Definition enqueue (ctx : N) (s : rst) (h : N) : rst :=
  if memN h (r_log s) then s
  else match tget h (r_tasks s) with
       | Some TFailed | None =>
                 mkRS (tset h TAdded (r_tasks s)) (r_queue s ++ [h])
                      (r_workers s ++ [mkWk ctx h WWait]) (r_slots s)
                      (r_buffer s) (r_pending s) (r_cancel s) (r_log s)
       | Some _ => s
       end.

Definition enqueue_all (ctx : N) (s : rst) (hs : list N) : rst := fold_left (enqueue ctx) hs s.

(** isIdle + idle, run at the end of processEntryDone *)
Definition is_idle (s : rst) : bool :=
  forallb (fun p => match snd p with TFetched | TFailed => true | _ => false end) (r_tasks s).

Definition idle_check (s : rst) : rst :=
  if is_idle s then
    match r_buffer s with
    | [] => s
    | b => mkRS (r_tasks s) (r_queue s) (r_workers s) (r_slots s) [] (r_pending s ++ [b]) (r_cancel s) (r_log s)
    end
  else s.

Definition del_worker (i : nat) (ws : list worker) : list worker := firstn i ws ++ skipn (S i) ws.
Definition set_worker (i : nat) (w : worker) (ws : list worker) : list worker :=
  firstn i ws ++ match skipn i ws with [] => [] | _ :: t => w :: t end.

Inductive rlabel :=
| RLoad (ctx : N) (heads : list N)      (* Replicator.Load under context ctx *)
| RCancel (ctx : N)
| RSlot (i : nat)                       (* worker i leaves waitForProcessSlot (acquired, or observed cancellation) *)
| RFetched (i : nat) (ok : bool)        (* worker i's fetch returned: an entry (ok) or nothing *)
| RMerge.                               (* the store merges the oldest load-end batch *)

(** merge one batch into the log; rejected (invalid) entries make the join fail *)
Fixpoint merge_hashes (cont : bool) (U : list uent) (log : list N) (batch : list (option N)) : list N :=
  match batch with
  | [] => log
  | None :: r => merge_hashes cont U log r                 (* empty log: joins nothing, no error *)
  | Some h :: r =>
    match ufind h U with
    | Some e =>
      if u_valid e then merge_hashes cont U (if memN h log then log else log ++ [h]) r
      else if cont then merge_hashes cont U log r else log
    | None => merge_hashes cont U log r
    end
  end.

Definition rstep (m : rmech) (U : list uent) (s : rst) (l : rlabel) : option rst :=
  match l with
  | RLoad ctx heads =>
    let failed := if m_retry m then map fst (filter (fun p => match snd p with TFailed => true | _ => false end) (r_tasks s)) else [] in
    Some (enqueue_all ctx (enqueue_all ctx s failed) heads)
  | RCancel ctx => Some (mkRS (r_tasks s) (r_queue s) (r_workers s) (r_slots s) (r_buffer s) (r_pending s)
                              (ctx :: r_cancel s) (r_log s))
  | RSlot i =>
    match nth_error (r_workers s) i with
    | Some (mkWk ctx item WWait) =>
      if negb (m_detach m) && memN ctx (r_cancel s) then
        (* sem.Acquire fails: the worker returns, leaving its item queued *)
        Some (mkRS (r_tasks s) (r_queue s) (del_worker i (r_workers s)) (r_slots s)
                   (r_buffer s) (r_pending s) (r_cancel s) (r_log s))
      else
        match r_slots s with
        | O => None                                  (* no free slot: stays blocked *)
        | S k =>
          match hd_error (r_queue s) with
          | None => None                             (* (cannot happen: one worker per queued item) *)
          | Some h =>
            Some (mkRS (tset h TFetching (r_tasks s)) (remove_first h (r_queue s))
                       (set_worker i (mkWk ctx item (WFetch h)) (r_workers s)) k
                       (r_buffer s) (r_pending s) (r_cancel s) (r_log s))
          end
        end
    | _ => None
    end
  | RFetched i ok =>
    match nth_error (r_workers s) i with
    | Some (mkWk ctx item (WFetch h)) =>
      (* a fetch under a cancelled context, or of an entry that does not exist, yields nothing *)
      let got := if ok && (m_detach m || negb (memN ctx (r_cancel s))) then ufind h U else None in
      let s1 := mkRS (r_tasks s) (r_queue s) (del_worker i (r_workers s)) (S (r_slots s))
                     (r_buffer s ++ match got with Some _ => [Some h] | None => if m_retry m then [] else [None] end)
                     (r_pending s) (r_cancel s) (r_log s) in
      let s2 := match got with
                | Some e => enqueue_all ctx s1 (u_links e)
                | None => s1
                end in
      let tasks' := match got with
                    | Some _ => tset h TFetched (r_tasks s2)
                    | None => tset h (if m_retry m then TFailed else TFetched) (r_tasks s2)
                    end in
      Some (idle_check (mkRS tasks' (r_queue s2) (r_workers s2) (r_slots s2) (r_buffer s2)
                             (r_pending s2) (r_cancel s2) (r_log s2)))
    | _ => None
    end
  | RMerge =>
    match r_pending s with
    | [] => None
    | b :: rest =>
      Some (mkRS (r_tasks s) (r_queue s) (r_workers s) (r_slots s) (r_buffer s) rest (r_cancel s)
                 (merge_hashes (m_cont m) U (r_log s) b))
    end
  end.

Definition rrun (m : rmech) (U : list uent) (sched : list rlabel) (s : rst) : rst :=
  fold_left (fun s l => match rstep m U s l with Some s' => s' | None => s end) sched s.

(** Nothing can move any more: no workers, nothing to merge. *)
Definition rquiet (s : rst) : Prop := r_workers s = [] /\ r_pending s = [].

(** the ancestry of a hash list in the universe (fuelled closure over links) *)
Fixpoint closure (fuel : nat) (U : list uent) (todo acc : list N) : list N :=
  match fuel with
  | O => acc
  | S f =>
    match todo with
    | [] => acc
    | h :: r =>
      if memN h acc then closure f U r acc
      else match ufind h U with
           | Some e => closure f U (u_links e ++ r) (acc ++ [h])
           | None => closure f U r acc
           end
    end
  end.

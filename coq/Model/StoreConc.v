(** One store, local writers running concurrently with the replication merger
    ([stores/basestore/base_store.go]).

    Writer thread [i] ([AddOperation] -> [appendAndIndex], entry id [i]):
      lock [muWrite] + [oplog.Append]          SWStart     -> SWAppended
      cache Put [_localHeads]                  SWAppended  -> SWPersisted
      [UpdateIndex]: [entries := Values()]     SWPersisted -> SWRead sn      (sn := log)
      [UpdateIndex]: apply to the index map    SWRead sn   -> SWApplied      (view := sn)
      deferred unlock of [muWrite]             SWApplied   -> SWUnlocked
      [evtWrite.Emit]                          SWUnlocked  -> SWDone
    Merger (the store's main loop, [replicationLoadComplete], one batch after the other):
      lock [muJoining] + [Join] of the batch   SMIdle        -> SMJoined b
      [UpdateIndex]: read                      SMJoined b    -> SMRead b sn
      [UpdateIndex]: apply                     SMRead b sn   -> SMApplied b
      cache Put [_remoteHeads]                 SMApplied b   -> SMPersisted b
      [evtReplicated.Emit] + unlock            SMPersisted b -> SMIdle
    [muWrite] and [muJoining] are different locks, and [UpdateIndex] (kvstore/index.go,
    documentstore/index.go) reads the log BEFORE it takes the index's own lock, so the
    read and the apply of a rebuild are two steps that other threads can interleave with.

    Mechanism switch [ser] ("index_serialised"): true = read + apply of every thread are one
    critical section (a mutex around [BaseStore.updateIndex]); false = no such mutex.

    Entries are natural numbers; the log and the view are sets of entries represented as
    lists (the view is the snapshot that the last applied rebuild had read).  A label is a
    thread: [i < n] = writer [i], [n] = the merger; other labels are never enabled. *)
From Orbit Require Export Model.Base.
Local Open Scope nat_scope.

Inductive swpc :=
| SWStart | SWAppended | SWPersisted | SWRead (sn : list nat) | SWApplied | SWUnlocked | SWDone.

Inductive smpc :=
| SMIdle | SMJoined (b : list nat) | SMRead (b sn : list nat) | SMApplied (b : list nat)
| SMPersisted (b : list nat).

Inductive scevent := SEvWrite (e : nat) | SEvReplicated (b : list nat).

Record sst := mkSC {
  s_pcs    : list swpc;          (* one program counter per writer thread *)
  s_mpc    : smpc;               (* the merger's program counter *)
  s_todo   : list (list nat);    (* batches the replicator has not handed over yet *)
  s_log    : list nat;           (* entries of the oplog *)
  s_view   : list nat;           (* entries the index reflects *)
  s_lhead  : option nat;         (* entry cached under _localHeads *)
  s_rsnap  : list nat;           (* log whose heads are cached under _remoteHeads *)
  s_wlock  : bool;               (* muWrite *)
  s_jlock  : bool;               (* muJoining *)
  s_ilock  : bool;               (* the mutex around updateIndex (only used when [ser]) *)
  s_events : list scevent         (* emitted write / replicated events, in emission order *)
}.

Definition sset_pc (i : nat) (p : swpc) (l : list swpc) : list swpc :=
  firstn i l ++ match skipn i l with [] => [] | _ :: t => p :: t end.

(** one step of writer [i] at program counter [p] *)
Definition wstep_at (ser : bool) (s : sst) (i : nat) (p : swpc) : option sst :=
  let pcs' q := sset_pc i q (s_pcs s) in
  match p with
  | SWStart =>
    if s_wlock s then None
    else Some (mkSC (pcs' SWAppended) (s_mpc s) (s_todo s) (s_log s ++ [i]) (s_view s)
                   (s_lhead s) (s_rsnap s) true (s_jlock s) (s_ilock s) (s_events s))
  | SWAppended =>
    Some (mkSC (pcs' SWPersisted) (s_mpc s) (s_todo s) (s_log s) (s_view s)
              (Some i) (s_rsnap s) (s_wlock s) (s_jlock s) (s_ilock s) (s_events s))
  | SWPersisted =>
    if ser && s_ilock s then None
    else Some (mkSC (pcs' (SWRead (s_log s))) (s_mpc s) (s_todo s) (s_log s) (s_view s)
                   (s_lhead s) (s_rsnap s) (s_wlock s) (s_jlock s) ser (s_events s))
  | SWRead sn =>
    Some (mkSC (pcs' SWApplied) (s_mpc s) (s_todo s) (s_log s) sn
              (s_lhead s) (s_rsnap s) (s_wlock s) (s_jlock s) false (s_events s))
  | SWApplied =>
    Some (mkSC (pcs' SWUnlocked) (s_mpc s) (s_todo s) (s_log s) (s_view s)
              (s_lhead s) (s_rsnap s) false (s_jlock s) (s_ilock s) (s_events s))
  | SWUnlocked =>
    Some (mkSC (pcs' SWDone) (s_mpc s) (s_todo s) (s_log s) (s_view s)
              (s_lhead s) (s_rsnap s) (s_wlock s) (s_jlock s) (s_ilock s)
              (s_events s ++ [SEvWrite i]))
  | SWDone => None
  end.

(** one step of the merger *)
Definition mstep (ser : bool) (s : sst) : option sst :=
  match s_mpc s with
  | SMIdle =>
    match s_todo s with
    | [] => None
    | b :: rest =>
      if s_jlock s then None
      else Some (mkSC (s_pcs s) (SMJoined b) rest (s_log s ++ b) (s_view s)
                     (s_lhead s) (s_rsnap s) (s_wlock s) true (s_ilock s) (s_events s))
    end
  | SMJoined b =>
    if ser && s_ilock s then None
    else Some (mkSC (s_pcs s) (SMRead b (s_log s)) (s_todo s) (s_log s) (s_view s)
                   (s_lhead s) (s_rsnap s) (s_wlock s) (s_jlock s) ser (s_events s))
  | SMRead b sn =>
    Some (mkSC (s_pcs s) (SMApplied b) (s_todo s) (s_log s) sn
              (s_lhead s) (s_rsnap s) (s_wlock s) (s_jlock s) false (s_events s))
  | SMApplied b =>
    Some (mkSC (s_pcs s) (SMPersisted b) (s_todo s) (s_log s) (s_view s)
              (s_lhead s) (s_log s) (s_wlock s) (s_jlock s) (s_ilock s) (s_events s))
  | SMPersisted b =>
    Some (mkSC (s_pcs s) SMIdle (s_todo s) (s_log s) (s_view s)
              (s_lhead s) (s_rsnap s) (s_wlock s) false (s_ilock s)
              (s_events s ++ [SEvReplicated b]))
  end.

(** label = which thread takes its next step; [None] = that thread is not enabled *)
Definition sstep (ser : bool) (s : sst) (l : nat) : option sst :=
  match nth_error (s_pcs s) l with
  | Some p => wstep_at ser s l p
  | None => if l =? length (s_pcs s) then mstep ser s else None
  end.

Definition sinit (n : nat) (batches : list (list nat)) : sst :=
  mkSC (repeat SWStart n) SMIdle batches [] [] None [] false false false [].

(** disabled steps of a schedule are skipped *)
Definition srun (ser : bool) (sched : list nat) (s : sst) : sst :=
  fold_left (fun s l => match sstep ser s l with Some s' => s' | None => s end) sched s.

(** all writers have returned and the merger has handled every batch *)
Definition sall_done (s : sst) : Prop :=
  (forall p, In p (s_pcs s) -> p = SWDone) /\ s_mpc s = SMIdle /\ s_todo s = [].

Definition ev_entries (ev : scevent) : list nat :=
  match ev with SEvWrite e => [e] | SEvReplicated b => b end.

(** the write events' entries / the replicated events' batches, in emission order *)
Definition wevents (evs : list scevent) : list nat :=
  flat_map (fun ev => match ev with SEvWrite e => [e] | SEvReplicated _ => [] end) evs.
Definition revents (evs : list scevent) : list (list nat) :=
  flat_map (fun ev => match ev with SEvWrite _ => [] | SEvReplicated b => [b] end) evs.

(** the batch the merger is working on *)
Definition mcur (p : smpc) : list (list nat) :=
  match p with
  | SMIdle => []
  | SMJoined b | SMRead b _ | SMApplied b | SMPersisted b => [b]
  end.

(** writer [i] has appended its entry / has emitted its write event *)
Definition w_appended (s : sst) (i : nat) : Prop :=
  exists p, nth_error (s_pcs s) i = Some p /\ p <> SWStart.
Definition w_emitted (s : sst) (i : nat) : Prop := nth_error (s_pcs s) i = Some SWDone.

(** executable versions used by the correspondence checker *)
Definition memn (x : nat) (l : list nat) : bool := existsb (Nat.eqb x) l.
Definition subsetb (a b : list nat) : bool := forallb (fun x => memn x b) a.
Definition seteqb (a b : list nat) : bool := subsetb a b && subsetb b a.

Definition sall_doneb (s : sst) : bool :=
  forallb (fun p => match p with SWDone => true | _ => false end) (s_pcs s)
  && match s_mpc s with SMIdle => true | _ => false end
  && match s_todo s with [] => true | _ => false end.
